#!/usr/bin/env python3
"""Mutation run: applies one small textual mutation at a time to /repo/impl/src (and /repo/src), keeps the mutants that
still compile, runs the quick checks and records which check (if any) reports a violation. Never commits; always
reverts. Usage: tools/mutate.py <n mutants> <seed> [--checks C01,C02,...]"""
import json, os, random, re, subprocess, sys, time

REPO = "/repo"
VERIF = os.path.dirname(os.path.dirname(os.path.abspath(__file__)))
OPS = [
    (r" == ", " != "), (r" != ", " == "), (r" && ", " || "), (r" \|\| ", " && "),
    (r"\.is_some\(\)", ".is_none()"), (r"\.is_none\(\)", ".is_some()"),
    (r"\btrue\b", "false"), (r"\bfalse\b", "true"),
    (r" \+ 1\b", " + 2"), (r" - 1\b", " - 0"),
    (r"\.first\(\)", ".last()"), (r"\.last\(\)", ".first()"),
    (r"\bif !", "if "), (r"\.is_empty\(\)", ".len() == 1"),
    (r"\.any\(", ".all("), (r"\.all\(", ".any("),
    (r"\.unwrap_or\(true\)", ".unwrap_or(false)"), (r"\.unwrap_or_default\(\)", ".unwrap_or(true)"),
    (r" > 1\b", " > 0"), (r" >= ", " > "), (r" < ", " <= "),
    (r" <= ", " < "), (r"\.rev\(\)", ""), (r"\.skip\(1\)", ".skip(0)"), (r"\.starts_with\(", ".ends_with("),
    (r" !(?=[a-z_(])", " "), (r"\(!(?=[a-z_])", "("), (r"\.min\(", ".max("), (r"\.max\(", ".min("),
    (r"\b0\b(?!\.)", "1"), (r"\.filter\(", ".skip_while("),
]
FILES = ["impl/src/from.rs", "impl/src/into.rs", "impl/src/try_into.rs", "impl/src/error.rs", "impl/src/utils.rs", "impl/src/fmt/mod.rs",
         "impl/src/fmt/display.rs", "impl/src/fmt/debug.rs", "impl/src/fmt/parsing.rs", "impl/src/parsing.rs", "impl/src/add_like.rs",
         "impl/src/mul_like.rs", "impl/src/mul_helpers.rs", "impl/src/as/mod.rs", "impl/src/deref.rs", "impl/src/index.rs", "impl/src/try_from.rs",
         "impl/src/from_str.rs", "impl/src/not_like.rs", "impl/src/sum_like.rs", "impl/src/constructor.rs", "impl/src/unwrap.rs",
         "impl/src/try_unwrap.rs", "impl/src/is_variant.rs", "impl/src/into_iterator.rs", "impl/src/add_assign_like.rs", "impl/src/add_helpers.rs",
         "impl/src/mul_assign_like.rs", "impl/src/deref_mut.rs", "impl/src/index_mut.rs", "impl/src/as/ref.rs", "impl/src/as/mut.rs",
         "src/fmt.rs", "src/as.rs", "src/convert.rs", "src/ops.rs", "src/str.rs", "src/try_unwrap.rs", "src/add.rs"]


def candidates():
    out = []
    for f in FILES:
        lines = open(os.path.join(REPO, f)).read().split("\n")
        skip = False        # inside a guarded hook item or a #[cfg(test)] item: skipped up to its closing brace / `;`
        depth = 0
        opened = False
        for i, l in enumerate(lines):
            if not skip and ("#[cfg(feature = \"jeltef_derive_more_verif\")]" in l or "#[cfg(test)]" in l):
                skip, depth, opened = True, 0, False
                continue
            if skip:
                depth += l.count("{") - l.count("}")
                opened = opened or "{" in l
                if (opened and depth <= 0) or (not opened and l.rstrip().endswith(";")):
                    skip = False
                continue
            code = l.split("//")[0]
            if not code.strip() or code.strip().startswith(("///", "//", "#[", "use ")):
                continue
            for k, (pat, rep) in enumerate(OPS):
                for m in re.finditer(pat, code):
                    out.append((f, i, m.start(), m.end(), k))
    return out


def run(cmd, cwd, timeout=1800):
    p = subprocess.run(cmd, cwd=cwd, stdout=subprocess.PIPE, stderr=subprocess.STDOUT, text=True, timeout=timeout,
                       env={**os.environ, "CARGO_NET_OFFLINE": "true", "VERIF_EVIDENCE_DIR": "/var/tmp/dmv/mut-evidence", "VERIF_REPLAYS_DIR": "/var/tmp/dmv/mut-replays"})
    return p.returncode, p.stdout


def main():
    n, seed = int(sys.argv[1]), int(sys.argv[2])
    checks = [f"C{i:02d}" for i in range(1, 20)]
    if "--checks" in sys.argv:
        checks = sys.argv[sys.argv.index("--checks") + 1].split(",")
    rnd = random.Random(seed)
    cands = candidates()
    rnd.shuffle(cands)
    log = open("/var/tmp/dmv/mutation.log", "a")
    done = 0
    assert subprocess.run(["git", "-C", REPO, "diff", "--quiet"]).returncode == 0, "/repo not clean"
    for f, i, a, b, k in cands:
        if done >= n:
            break
        path = os.path.join(REPO, f)
        orig = open(path).read()
        lines = orig.split("\n")
        lines[i] = lines[i][:a] + OPS[k][1] + lines[i][b:]
        try:
            open(path, "w").write("\n".join(lines))
            rc, out = run(["cargo", "build", "--offline", "-q", "-p", "derive_more", "--features", "full"], REPO)
            if rc != 0:
                continue
            done += 1
            t0 = time.time()
            hits = {}
            for c in checks:
                if len(hits) >= int(os.environ.get("MUT_STOP_AFTER", "99")):
                    break
                rc, out = run(["./check", c], VERIF)
                if rc != 0:
                    first = [l for l in out.splitlines() if l.startswith("VIOLATION")]
                    nxt = out.splitlines()[out.splitlines().index(first[0]) + 1][:200] if first else out[-200:]
                    hits[c] = ("no-input" if first and first[0].endswith("no-failing-input-found") else "input") + ": " + nxt.strip()
            rec = {"file": f, "line": i + 1, "before": orig.split("\n")[i].strip()[:160], "after": lines[i].strip()[:160], "caught_by": hits,
                   "seconds": int(time.time() - t0)}
            log.write(json.dumps(rec) + "\n"); log.flush()
            print(("CAUGHT " if hits else "MISSED ") + f"{f}:{i + 1} `{rec['before'][:90]}` -> `{rec['after'][:90]}` {sorted(hits)}", flush=True)
        finally:
            open(path, "w").write(orig)
    subprocess.run(["git", "-C", REPO, "checkout", "--", "."])


if __name__ == "__main__":
    main()

#!/bin/bash
# usage: tools/try_seed.sh <seed id> <check id> [tier]
# Applies /verif/seeded/<seed id>/patch.diff to /repo, runs the check (evidence and replays go to a
# scratch directory so that committed evidence always comes from the unchanged tree), reverts.
S=$1; C=$2; T=${3:-quick}
cd /verif
git -C /repo diff --quiet || { echo "/repo has uncommitted changes"; exit 2; }
git -C /repo apply /verif/seeded/$S/patch.diff || { echo "patch does not apply"; exit 2; }
VERIF_EVIDENCE_DIR=/var/tmp/dmv/seed-evidence VERIF_REPLAYS_DIR=/var/tmp/dmv/seed-replays ./check $C --tier $T 2>&1 | grep -E "^VIOLATION|^KNOWN|^  " | cut -c1-400 | head -${LINES_MAX:-6}
echo "exit=${PIPESTATUS[0]}"
git -C /repo checkout -- .
# the regenerated tables on disk now describe the seeded tree: bring them back to the unchanged one
python3 /verif/tools/gen_tables.py > /dev/null 2>&1

#!/bin/bash
# usage: confirm_seed_sh.sh <worktree dir> <seed id> <property>   (demo is <worktree>/seed_demo.sh)
set -u
W=$1; ID=$2; PROP=$3
export CARGO_NET_OFFLINE=true
cd "$W" || exit 2
OUT=/verif/seeded/$ID; mkdir -p "$OUT"
git diff -- impl src Cargo.toml > "$OUT/patch.diff"
cp seed_demo.sh "$OUT/seed_demo.sh"; cp SEED_NOTES.md "$OUT/notes.md" 2>/dev/null
for f in $(git ls-files --others --exclude-standard | grep -v "^target/" | grep -v "SEED_\|seed_demo.sh" | head -20); do mkdir -p "$OUT/extra/$(dirname $f)"; cp "$f" "$OUT/extra/$f"; done
bash ./seed_demo.sh > "$OUT/demo_with.log" 2>&1; RC_WITH=$?
cargo test --workspace --no-fail-fast --offline 2>&1 | grep -E "^test result|^test .* FAILED" > "$OUT/suite_with.log"
SUITE_FAILS=$(grep -E "^test [^ ]+ (- should panic )?\.\.\. FAILED" "$OUT/suite_with.log" | grep -v "^test compile_fail " | wc -l)
PASSED=$(grep -E "^test result" "$OUT/suite_with.log" | awk '{p+=$4} END {print p}')
git checkout -- impl src Cargo.toml
bash ./seed_demo.sh > "$OUT/demo_without.log" 2>&1; RC_WITHOUT=$?
git apply "$OUT/patch.diff"
cat > "$OUT/meta.json" <<EOT
{
 "seed_id": "$ID",
 "breaks_property": "$PROP",
 "needs_to_manifest": "see notes.md",
 "confirmed": {
  "demo_with_change_exit": $RC_WITH,
  "demo_without_change_exit": $RC_WITHOUT,
  "suite_with_change_failures_other_than_compile_fail": $SUITE_FAILS,
  "suite_with_change_tests_passed": $PASSED
 },
 "ran": ["bash seed_demo.sh (with change)", "cargo test --workspace --no-fail-fast --offline (with change)", "bash seed_demo.sh (source change reverted with git checkout)"]
}
EOT
tail -c 600 "$OUT/demo_with.log" > "$OUT/demo_with.tail"; tail -c 300 "$OUT/demo_without.log" > "$OUT/demo_without.tail"
rm -f "$OUT/demo_with.log" "$OUT/demo_without.log"
cat "$OUT/meta.json"

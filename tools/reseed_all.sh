#!/bin/bash
# usage: tools/reseed_all.sh [Cxx ...]  re-runs every stored seed (patch.diff present) against its own check, quick tier; one line per seed.
# Needs /repo clean; runs serially (the harnesses path-include /repo). A seed whose first VIOLATION line ends in
# no-failing-input-found is reported with first_no_input=1.
cd /verif
for d in seeded/C*; do
  s=$(basename $d); c=${s%%-*}; [ -f $d/patch.diff ] || continue
  [ -n "$1" ] && [[ ! " $* " =~ " $c " ]] && continue
  out=$(LINES_MAX=14 tools/try_seed.sh $s $c 2>&1)
  v=$(echo "$out" | grep -c "^VIOLATION")
  nf=$(echo "$out" | grep "^VIOLATION" | head -1 | grep -c "no-failing-input-found")
  ex=$(echo "$out" | grep "^exit=" )
  echo "$s $ex violations=$v first_no_input=$nf"
done

#!/usr/bin/env python3
"""Regenerates /verif/MANIFEST.json from the table below (run after claiming a property)."""
import json
import os

VERIF = os.path.dirname(os.path.dirname(os.path.abspath(__file__)))

CLAIMED = {
    "C03": dict(
        level="proof",
        technique="Lean 4 theorems over a model of the literal parser + differential correspondence (model vs working-tree parser vs rustc_parse_format)",
        text="Lean theorems about a function-by-function model of impl/src/fmt/parsing.rs and parse_fmt_string against a derivation model of the std::fmt grammar: text yields no placeholders, the implicit counter follows std's rule on every derivation; round trip for the whole grammar (formats_agree, placeholders_agree): every canonical derivation - argument, fill/align, sign, #, 0, width, precision incl. .* and name$, all eleven types, trailing whitespace - of any length prints to a literal the parser accepts and reads back as exactly its formats / std's placeholders, where canonical is std's resolution of the three ambiguities of the grammar (adjacent texts, a leading 0 of a width, an empty spec directly followed by an alignment character); and conversely (accepted_literals_are_derivations) every literal the parser accepts is the print of a lexically well-formed derivation whose std reading is what the parser reports. The character-class hypotheses (Sane, Sane2) are checked for all code points of the real tables on every run; the model is compared with the working-tree parser, and the grammar model with rustc's own parser, on ~150k generated literals per run",
        note="Lean kernel; hand-written model tied by differential run each time; rustc_parse_format (nightly) as std oracle; Unicode classes are parameters; syn unescaping and format_args! itself not modelled",
        ref="DESIGN.md §4 C03"),
    "C05": dict(
        level="proof",
        technique="Lean 4 theorems about the transparency decision + correspondence of the expander model with the working tree + behaviour grid with the real proc-macro",
        text="Lean theorems: the attribute delegates iff its literal is one modifier-free placeholder referring to its only argument / a binding (transparent_iff_bare), other indices and modifiers never delegate, the two bodies are pass-through resp. inert; the model of the Display-like/Debug expanders is compared token-for-token (fmt body, where-clause) with the working-tree expanders on generated items, the decision with an oracle built on rustc_parse_format, and ~4k (type, outer spec) pairs are run with the real macro",
        note="Lean kernel; model tied by differential run; std's formatter semantics (Trait::fmt sees caller options, write! ignores them) is modelled in two lines and validated by the behaviour grid each run",
        ref="DESIGN.md §4 C05"),
    "C04": dict(
        level="proof",
        technique="Lean 4 theorems about bounded_types / generate_bounds / contains_generics + where-clause correspondence + by-construction oracle + rustc type-checking of a generated sample",
        text="Lean theorems: bounded_types is exactly one (field, trait) per placeholder denoting a field (boundedTypes_iff), every such generic field is bounded (sufficient), every inferred bound sits on a field whose type mentions a parameter (not excessive), contains_generics == 'mentions a type parameter' over the whole type syntax (mutual induction); the model's where-clauses are compared with the working tree's on generated items, the inferred predicate set with the set needed by construction on 6k generic items, and ~60 generic types are type-checked with the real macro with unformatted parameters instantiated by a fmt-less type",
        note="Lean kernel; model tied by differential run; rustc's trait solving is the judge of sufficiency for the compiled sample only; one known finding (reference + owned field of the same parameter)",
        ref="DESIGN.md §4 C04"),
    "C07": dict(
        level="proof",
        technique="Lean 4 theorems about shared_attr_info / generate_body / expand_enum + correspondence + every variant printed with the real macro against the documented rule",
        text="Lean theorems: an enum-level literal mentioning _variant wraps every variant around the variant's own text (wraps_every_variant), the bare {_variant} is the identity, under Pointer the wrapped single field is dereferenced so that `_variant` is the pointer the field holds (wrapped_pointer_field_prints_held_pointer, wrapped_field_deref_iff_pointer), the literal through which a wrapped single field is formatted denotes the derived trait, both in the model (default_placeholder_is_the_derived_trait) and in the table re-read from impl/src/fmt/display.rs on every run, which equals the model's (source_default_placeholders_are_the_model, source_default_placeholders_denote_their_trait, source_attribute_names_distinct), a literal without _variant is used only for unattributed variants, _variant with a specifier and Debug enum-level literals are rejected; model compared with the working tree on generated enums; 120 generated enums are printed variant by variant with the real macro and compared with a reference written with plain format! calls",
        note="Lean kernel; model tied by differential run; convert_case is a parameter; the reference text is produced by std's format! in the same process",
        ref="DESIGN.md §4 C07"),
    "C02": dict(
        level="proof",
        technique="Lean 4 theorems about the generated fmt bodies + token-level correspondence + values printed with the real macro against format! of the same literal",
        text="Lean theorems: a non-transparent attribute reaches write! verbatim with only the `f = *f` re-bindings, which exist exactly for fields named under Pointer and not aliased (deref_args_iff); named placeholders print the field itself; unit -> (renamed, unraw) name; single field -> Trait::fmt(field). The model's body token text equals the working tree's on generated items; ~460 generated types (random + systematic name-kind x type x trait grid) are printed with the real macro and compared byte-for-byte with a format! of the same literal under the documented bindings",
        note="Lean kernel; model tied by differential run; format_args! is the same macro on both sides; `&T` formats like `T` except under Pointer (validated by the run); convert_case is a parameter",
        ref="DESIGN.md §4 C02"),
    "C16": dict(
        level="proof",
        technique="Lean 4 theorems about a model of the token scanner + correspondence on token streams + syn-full as the expression-grammar oracle",
        text="Lean theorems over all token streams: what the scanner returns plus what it leaves is the input (verbatim re-emission), it stops only at a top-level comma, for the WHOLE list the arguments found are the input cut at commas, token for token and in order (args_reemitted_verbatim), any number of arguments made of plain tokens and delimited groups is split at exactly the top-level commas (plain_list_split_at_commas), and so is any number of arguments built from plain tokens, groups, turbofish `::<..>`, qualified-path heads `<..>::` and closure parameter lists `|..|`, angle brackets balanced to any depth (chunked_taken_whole, chunked_list_split_at_commas), Ident iff a single identifier, commas inside delimited groups / `::<..>` / `<..>::` / closure parameter lists (angle-balanced, any nesting depth) never split; three kernel-checked witnesses document known findings (binary `|`, cast to a generic type, `a < b, c > ::d`). The model is compared with the working-tree FmtAttribute parsing on ~6.5k generated and mutated argument lists, and the implementation with syn's full Expr parser on the same lists",
        note="Lean kernel; proc_macro2 tokenisation shared by all parties; syn(full) stands for Rust's grammar; four known findings attributed by construct (argument parenthesised => split correct)",
        ref="DESIGN.md §4 C16"),
    "C09": dict(
        level="proof",
        technique="Lean 4 theorem: the two-index-space selection of error.rs equals the documented rules stated on positions among all fields + exhaustive in-process enumeration of the shape grid + address comparison with the real macro",
        text="Lean theorem source_is_documented (all field counts, all attribute placements, all positions of ignored fields): the enabled-position the code selects, converted back, is the field the documented rules select, errors included; returned fields are never ignored; double #[error(source)] is an error. An ignored variant has no source whatever its fields carry (ignored_variant_is_none); a variant that is not ignored is a struct of the same shape (enabled_variant_is_documented). The model and a second (Python) statement of the rules are compared with the working-tree expansion on the whole grid of 0..3 fields x 8 attribute forms x names x types (quick: all shapes with <= 2 fields + 9000 three-field shapes; thorough: exhaustive), and 180 shapes are compiled (nightly, real macro) to compare the address source() returns with the addresses of the fields",
        note="Lean kernel; model tied by differential run on the grid; as_dyn_error dispatch and the nightly-only provide() half are not modelled",
        ref="DESIGN.md §4 C09"),
    "C12": dict(
        level="proof",
        technique="Lean 4 theorems by induction over variant lists (constants == Rust's discriminant rule; match == inverse of the cast) + expansion correspondence + full 8/16-bit domains with the real macro",
        text="Lean theorems for every enum layout and every integer: the reconstructed constants `(last explicit) + offset` equal the discriminants of Rust's rule (const_is_discriminant, induction with the (last, inc) invariant), also in the representation type: the offset is cast and added modulo the width, and whenever rustc accepts the enum the constants are the discriminants for every width and number of variants (consts_in_repr_are_discriminants; i8_far_variant_witness is the kernel-checked witness of the pinned tree's defect), the integer names ReprInt recognises, re-read from impl/src/utils.rs on every run, are the model's twelve (source_repr_ints_are_the_model), try_from(n) = Ok(v) iff v is the field-less variant with discriminant n, otherwise Err (try_from_iff), round trip with the cast, repr detection. The model (repr, constant tokens, arms) is compared with the working-tree expansion on 3000 generated layouts incl. the impl header; 40 enums are run with the real macro over the whole i8/u8/i16/u16 domain (wider reprs: discriminants +-1 and extremes) against `variant as repr`",
        note="Lean kernel; model tied by differential run; rustc's const evaluation modelled as integer arithmetic; discriminant expressions enter the model as their value (the parenthesisation of the emitted tokens is covered by the token-level correspondence and the behaviour run)",
        ref="DESIGN.md §4 C12"),
    "C13": dict(
        level="proof",
        technique="Lean 4 theorem over every permutation of the generated match arms + arm-set correspondence + exhaustive short strings with the real macro",
        text="Lean theorems for every set of variant names, every lower-casing function and EVERY order of the emitted arms: parse(s) = Ok(v) iff v is a variant, s equals its name ignoring case and (no other variant shares the lower-cased name or s is the name exactly) (enum_parse_iff); own names round-trip; all other strings are rejected; newtypes return the field's result unchanged. The model's arm set is compared with the working-tree expansion on ~400 generated enums; 26 types (case-colliding groups, raw identifiers, non-ASCII names, 7 newtype field types) parse all strings up to length 3 over their alphabet with the real macro against an independent statement of the rule",
        note="Lean kernel; model tied by differential run; str::to_lowercase is a parameter; first-match semantics of match-with-guards is the modelled fragment of Rust",
        ref="DESIGN.md §4 C13"),
    "C06": dict(
        level="proof",
        technique="Lean 4 theorems relating a model of the crate's DebugTuple/Padded to a model of core's DebugTuple/PadAdapter (fields are arbitrary functions of the formatter options) + both models run against the real code + type pairs compared with std's derive",
        text="Lean theorems for every name, every number of fields and every field behaviour: the crate's tuple builder writes what core's writes in every non-alternate configuration (tuple_eq_std_flat) and in pretty mode whenever the fields do not depend on the non-alternate options (tuple_eq_std_pretty); padding is chunk-insensitive; the `split_inclusive` loop of Padded::write_str, replayed one write_str call at a time, computes the character-level padding for every chunking (padded_loop_is_pad, padded_chunking_independent) and the call-by-call builder (field counter, empty_name) refines the text model (tuple_code_eq_model); values nested to ANY depth through tuple and struct builders print identically under {:?} and {:#?} whatever the leaves do (nested_eq_std), and under every formatter configuration when the leaves ignore it (nested_eq_std_all_options); 3000 random trees are printed by the real builders and by the tree model; the derive omits skipped fields and closes with finish_non_exhaustive iff one is skipped. The full statement is false on this tree (kernel-checked counterexample = the known finding). Both models are compared with the real src/fmt.rs and the real core builders on 6k scripted runs; the Debug expander model with the working tree; 70 generated type pairs (raw identifiers, generics, enums, skip) are printed under 14 specs + nesting against std's derive",
        note="Lean kernel; partial: the pretty x non-default-options case is a known finding; writer errors (fmt::Error) are not modelled",
        ref="DESIGN.md §4 C06"),
    "C10": dict(
        level="proof",
        technique="Lean 4 theorems over an IR of the generated operator bodies with arbitrary (non-commutative) field operators + token-level body correspondence for all 24 derives + tagging operand type with the real macro",
        text="Lean theorems for any number of fields and any operators: binary derives give zipWith op lhs rhs (operand order preserved), scalar Mul-like gives field op rhs, Not/Neg map every field, *Assign equals the binary result, Sum/Product is in every field the fold of that field from the empty sum, enum arms: same variant -> Ok field-wise, equal unit variants -> unit error, different variants -> mismatch (first-arm-wins match, proved by induction over the arm list). The model's method bodies are compared token-for-token with the working-tree expansions of all 24 derives on 4800 generated items; 55 types over a tagging operand type are run with the real macro",
        note="Lean kernel; model tied by differential run; method-call / UFCS / match evaluation is the modelled fragment of Rust; impl headers and where-clauses belong to C01",
        ref="DESIGN.md §4 C10"),
    "C08": dict(
        level="proof",
        technique="Lean 4 theorems about a model of from.rs / into.rs / constructor.rs (impl sets, per-field initialisers with an evaluation semantics) + token-level correspondence + values, addresses and impl presence with the real macro",
        text="Lean theorems for any number of fields and values: the tuple impl puts component i into field i (from_ith), typed and forwarding impls apply exactly one From::from per field to the component of the same position, the impl count per attribute kind and the switching-off of un-annotated / unit variants, every Into impl extracts exactly the non-skipped fields in declaration order with one impl per listed type and reference kind, tuple->struct->tuple and struct->tuple->struct are the identity, new(..) puts argument i into field i. Impl sets and bodies of the model are compared token-for-token with the working tree on 3300 generated items; 17 type families (values, addresses of ref/ref_mut results, round trips, typed/forward conversions) and the impl sets of enums and of all splits/orders of repeated #[into] attributes are checked with the real macro",
        note="Lean kernel; model tied by differential run; parsing of Into's conversion lists enters the model already parsed (C17/C18); impl headers' generics belong to C01",
        ref="DESIGN.md §4 C08"),
    "C11": dict(
        level="proof",
        technique="Lean 4 theorems about a value-level semantics of the accessors and about TryInto's grouping + correspondence of accessor sets / patterns / fall-through arms / groups + every (value, accessor) pair with the real macro",
        text="Lean theorems for every enum and value: is_x iff the value is x and exactly one is_* is true, unwrap_x* returns the payload iff the value is x and otherwise panics, try_unwrap_x* returns the unchanged input in the error, TryFrom<Enum> for (tys) succeeds with the non-ignored fields in order exactly for variants whose non-ignored types equal tys and otherwise returns the input, grouping is a partition independent of variant order. The model of State's enabled/owned/ref/ref_mut bookkeeping and of the four derives is compared with the working-tree expansions on 2400 generated enums; 26 enums are run with the real macro: all accessors on all variant values (results, panics, error payloads, addresses of reference forms) and a reference-kind selection grid",
        note="Lean kernel; model tied by differential run; snake_case is a parameter; TryInto impl order is C19's subject (compared as a set here)",
        ref="DESIGN.md §4 C11"),
    "C14": dict(
        level="proof",
        technique="Lean 4 theorems about State's single-field selection and the delegating method bodies with an address-level semantics + token-level correspondence with the working-tree expansions + run-time address/content comparison with the real macro",
        text="Lean theorems for every struct and attribute placement: at most one field is selected and the generated body refers to exactly that field; without forward the returned object is the field's own storage; with forward / Index / IntoIterator / a listed other type it is exactly the field's own implementation applied to the field; a listed type equal to the field type (token-equal: direct; rustc-equal via the autoref helper: specialised) yields the field itself; the owned / ref / ref_mut IntoIterator impls iterate the same field. The model of State (struct + field attributes, ignore / forward / owned / ref / ref_mut) and of the seven derives is compared on 3500 generated structs with the working-tree expansions (selected member, Target / return type, body tokens); 43 structs are run with the real macro: addresses, write-through, neighbour fields untouched, alias / path spelled field types with a reflexive AsRef that returns a different object, all three iteration forms",
        note="Lean kernel; model tied by differential run; which ExtractRef impl rustc's autoref probing selects is modelled by a boolean and validated by running src/as.rs, not proved",
        ref="DESIGN.md §4 C14"),
    "C15": dict(
        level="proof",
        technique="Lean 4 theorem over all caller scopes about a name-resolution model + kernel-decided closure of the table of every quote!/parse_quote! template regenerated from the source by a translator on every run + hostile-scope compiles and behaviour digest with the real macro",
        text="Lean: for every two caller scopes that agree on `derive_more`, a template without escaping heads resolves every name identically (resolve_independent, all scopes, no bound); an escaping path head really is a dependency (escaping_path_depends); so is a crate named through a leading `::` other than the accepted `::std` of the nightly-only backtrace code, because the caller's extern prelude can re-bind it (escaping_extern_depends); heads are path heads, `::crate` paths, macros, methods (literal or interpolated name) and associated functions called through a type path; the table of all 247 templates of impl/src, regenerated from the working tree by the translator on every run, has no escaping head (all_templates_closed, decide +kernel), hence expansions_scope_independent for the current source. Tie: the translator is checked on every run (every template re-prints into its source span; id table vs names by gen-selfcheck; identifier sequences of the Lean table == extraction). Real macro: a 39-item corpus covering all 50 derives and their attribute modes compiled in a plain module, a #[no_implicit_prelude] module and a module redefining 80 prelude types / variants / traits (with the prelude traits' methods, blanket-implemented) / macros, plus a #![no_std] crate; the 127-entry behaviour digest must be identical in all modules. thorough: one module per redefined name and kind",
        note="Lean kernel; model regenerated by translator; rustc's name resolution is modelled (first segment / macro / method lookups), validated by the hostile compiles; built-in attributes and primitive-type shadowing are outside the model",
        ref="DESIGN.md §4 C15"),
    "C19": dict(
        level="proof",
        technique="Lean 4 theorem over all worlds (hash seeds, expansion histories) about an abstract expander + kernel-decided facts about the table of every hashed-collection mention and impure name regenerated from the source by a translator on every run + byte comparison of expansions across fresh processes and orders (partial: the model cannot exhibit a nondeterministic run, the comparison can)",
        text="Lean: for every expander, iteration-order function and pair of worlds (seed, history of earlier expansions), if every hashed collection of the source uses the fixed hasher and the source mentions no global state, the emitted tokens depend on the item only (seed_and_history_free); conversely an unfixed site / an impure mention is a real dependency for some expander (unfixed_site_depends, global_state_depends); the regenerated table (22 mentions of HashMap/HashSet in impl/src, each resolved through the file's use items; the aliases' hasher parameter; DeterministicState's build_hasher; statics, thread-locals, clocks, random, env, files, ids) satisfies both (all_sites_fixed, no_global_state: decide +kernel). Tie: identifier-token count of the translator; 276 inputs (30 hand-written ones reaching every iteration site with >= 6 groups, the rest from the other properties' generators) expanded by the working-tree code in 4 fresh processes in different orders and twice in a row, compared byte for byte; thorough: 4000 inputs x 10 processes and rustc -Zunpretty=expanded of the corpus in 3 compiler processes",
        note="partial: Lean kernel for the model + regenerated table; that std's DefaultHasher::default() and syn's Hash impls are process-independent is trusted and observed",
        ref="DESIGN.md §4 C19"),
    "C20": dict(
        level="proof",
        technique="Lean 4 theorem over all feature sets about a cfg-predicate model with a proved-sound implication procedure + kernel-decided closure of the reference table regenerated from both crates and both Cargo.toml by a translator on every run + cargo check / cargo test of the configurations from the working tree (partial: reference extraction is name-based; syn API families and the test programs are decided by cargo only for the configurations run)",
        text="Lean: the syntactic implication procedure on cfg predicates (DNF of the user side evaluated as a minimal feature set against a negation-free target, split on `std`) is sound for every feature set (implies_sound, by mutual induction: monotonicity, DNF soundness, substitution); every one of the 95 references regenerated from the working tree (module -> gated helper item of utils.rs & co, expansion template -> facade export incl. __private and with_trait, module -> optional dependency via the impl feature table, helper export -> the features needing it, named derive re-export <-> its feature) passes it (all_refs_hold, decide +kernel), hence gating_closed for all 2^27 feature sets, not only singles and pairs; cargo_tables: facade feature f == impl feature f, full == all 24, default == [std]. Tie and search: every crate-internal path must resolve in the item tables; for a failing reference the model computes a witness feature set which is built and tested first. Real builds from the working tree: all 24 single features with and without std through `cargo test --tests` (the repository's own test programs of the enabled derives: 1105 test passes), 24 sampled pairs and 8 impl-only configurations through cargo check; thorough: all 276 pairs x {std, no std}, all impl singles, full",
        note="partial: Lean kernel for the cfg model + regenerated table; cargo decides the configurations actually built",
        ref="DESIGN.md §4 C20"),
    "C18": dict(
        level="proof",
        technique="Lean 4 theorems about a byte-level model of the literal parser's slicing / looping combinators (for every string and every well-behaved argument parser) + kernel-decided closure of the regenerated inventory of potentially aborting expressions + differential run of the combinator model against the real combinators through a guarded hook + fuzzing of all 50 derives under catch_unwind with a watchdog (partial: most inventory sites outside the literal parser are covered by the fuzzing only)",
        text="Lean: char / check_char / any_char / str / one_of never panic and return a proper suffix; for every well-behaved argument parser and every input string take_while0 terminates within length+1 steps, does not panic, and `&input[..(input.len() - cur.len())]` is exactly the consumed prefix (a char boundary), likewise take_while1 and take_until1 (whose `until` only needs to be panic-free) — by induction over fuel with the suffix invariant and `byteLen (pre ++ cur) - byteLen cur = byteLen pre`; a character count used as a byte offset panics on U+3000 (example). no_unaccounted_site: the inventory of index / slice expressions, unwrap / expect, panic!-family macros, `-` `/` `%`, Punctuated::push_*, Ident::new, format_ident!, parse_quote! regenerated from impl/src on every run (about 175 sites; proved: the 13 of the literal parser and the 11 `data.<vec>[source]` / `[backtrace]` index expressions of error.rs — error_positions_in_bounds / error_all_index_in_bounds: whatever parse_fields selects, explicitly, by name or type, or through the two-field inference, is a position of an enabled field, over the model that C09 ties to the working tree; 20 deliberate diagnostics; the rest observed) has nothing beyond the accounted-for baseline. Tie: 12 named combinator instances of the real parser (hook) vs the Lean model on 4380 strings each (exhaustive up to length 3 over 1-4 byte characters, random up to 44). Search: 10.7 k expansions under catch_unwind with hang / abort bisection: every generated item of the other properties under its own and 4 random other derives, 16 odd item kinds x 50 derives (unions, empty enums, raw identifiers, discriminant extremes), 700 token-level attribute mutations, 6.6 k format literals (exhaustive up to length 2, random longer, 30-digit numbers, unbalanced braces, 1-4 byte characters); a panic is an internal failure unless it comes from a panic!/assert! site of the inventory with a message",
        note="partial: Lean kernel for the combinator model; inventory by translator; fuzzing is a search, not a proof",
        ref="DESIGN.md §4 C18"),
    "C17": dict(
        level="proof",
        technique="Lean 4 theorems about a model of the legacy attribute parser (for every allow-list, parameter list and starting state) via a denotation into set-once atoms, and about a model of the typed attribute parsers of From / AsRef / AsMut / TryFrom / Into (for every attribute list over classified arguments) + differential runs against the real get_meta_info through a guarded hook and against the working-tree verdict, diagnostic kind and expansion + theorem-licensed synonymous rewrites and tables of documented spellings / single-step corruptions run against the working-tree expansions (partial: fmt container attributes, ReprInt and Error's attributes are decided by the tables only)",
        text="Lean (legacy parser of the 20 State-configured derives, transcribed from parse_punctuated_nested_meta / get_meta_info): parseMetas equals applying the list of set-once atoms its parameters denote (parseMetas_eq, mutual induction); hence any permutation of the parameters gives the same MetaInfo or the same rejection (order_independent), a parameter outside the position's allow-list is rejected wherever it stands (unknown_rejected), a parameter given twice is rejected (repeated_rejected), a parameter and its not(..) negation are rejected in either order (contradiction_rejected), and a second attribute, the name-value form, an attribute where the allow-list is empty and the bare word where ignore is not allowed are rejected (attribute_forms_rejected). Tie: 6000 generated (allow-list, attribute list) inputs, model vs the real function. Typed parsers (Dm.Model.TypedAttr, transcribed from utils.rs mod attr, into.rs and from.rs): several attributes that are type lists mean their concatenation, hence one attribute listing several types == several listing some each (many_type_lists, types_one_attribute_or_many; into_one_attribute_or_many / into_many_attributes_or_one for owned/ref/ref_mut lists); a trailing comma after a non-empty list changes nothing (trailing_comma, into_trailing_comma); skip == ignore (skip_ignore_synonyms, into_field_skip); any permutation of an accepted attribute list is accepted with the same types up to order (attribute_order_free, into_attribute_order_free); two attributes on one item are accepted only if both are type lists, so a repeated #[from] / forward / skip and any pair of different kinds are rejected (two_attributes_only_type_lists, into_struct_two_attributes); every argument of an accepted attribute is a type (or owned/ref/ref_mut with types), never a literal, nested list, keyword or legacy types(..) (accepted_arguments_are_types, from_legacy_rejected, into_accepted_arguments, legacy_rejected_anyway); TryFrom generates its conversion for exactly one #[try_from(repr)] (try_from_accepts_exactly). Tie: ~4000 generated argument lists over 7 attribute positions, model verdict + legacy-or-other diagnostic + expansion predicted through the C08/C14 models vs the working tree; ~1700 rewrites licensed by these theorems compared on the real expansions. Other typed attributes and fmt attributes: 39 hand-written + 226 generated pairs of documented alternative spellings (skip/ignore, bound/bounds, one attribute with several types vs several attributes in every order, trailing commas, order of independent attributes) must expand to the identical set of impls, and 73 single-step corruptions at documented positions (unknown, duplicated, conflicting, meaningless for the item kind, pre-1.0 syntax) must yield a diagnostic",
        note="partial: Lean kernel for the legacy and typed parser models; tables for fmt container attributes, ReprInt, Error",
        ref="DESIGN.md §4 C17"),
    "C01": dict(
        level="proof",
        technique="Lean 4 theorems about a model of syn's split_for_impl printing and the generics helpers of utils.rs (for every generics list) + correspondence of the model header with the impl headers of the working-tree expansions + rustc's verdict under #![deny(warnings)] on a generated shape space with the real macro (partial: `compiles without warnings` is decided by rustc on the generated space, not proved)",
        text="Lean (scoping core): for every generics list the printed impl parameters have all lifetimes first (lifetimes_first_impl), the arguments applied to the type are a permutation of its declared parameters - each once, nothing else (self_args_exact), every applied argument is declared by the impl after each helper (args_declared_plain / _bound / _extra_param / _extra_type_param / _where), add_extra_generic_type_param loses and duplicates nothing (extra_type_param_perm), a fresh parameter name stays unique (fresh_param_unique), declared where-predicates are all kept and only the given ones added (where_predicates_kept), added bounds stay in scope (added_bounds_in_scope). Tie: 1563 impl headers of the working-tree expansions (every derive on 12 generic headers: none, type, lifetime+type, type+const, const before type, six mixed parameters with inline bounds, type default, where clause, const default, lifetime only, const only, where on lifetime/const) have exactly the model's impl generics (plain / extra lifetime / inserted type parameter / pushed type parameters) and apply exactly the declared parameters to the type. rustc: 2976 items (those headers x 50 derives x tuple / named (raw field name) / enum shapes x plain, #[deprecated] member, uninhabited member; format arguments with `.*` and `1$`) compiled with the real macro under #![deny(warnings)]",
        note="partial: Lean kernel for the header model; rustc decides compilation on the generated space; one known finding (scalar Mul-like with two fields differing only by a lifetime)",
        ref="DESIGN.md §4 C01"),
}

NOT_APPLICABLE = {}


def main():
    props = [json.loads(l) for l in open(os.path.join(VERIF, "properties.jsonl"))]
    m = {
        "version": 1,
        "setup_cmd": "./check --setup",
        "hooks": {
            "guard": "cargo feature jeltef_derive_more_verif (impl/Cargo.toml), cfg(feature = \"jeltef_derive_more_verif\")",
            "enable": "the harness crate /verif/harness/inproc includes /repo/impl/src/*.rs by #[path] and enables its own feature of the same name; scratch crates using the real proc-macro are built with the guard off",
            "baseline_off_cmd": "cd /repo && cargo test --workspace --no-fail-fast --offline",
            "source_commits": ["33650de", "d9d3f1d", "8e51434", "f6dbb76", "071c9da", "2dfdf22"],
            "add_only": True,
        },
        "engines": [
            {"name": "lean-model", "path": "lean/", "serves_properties": sorted(CLAIMED),
             "kind_free_text": "Lean 4 model + theorems (lake project Dm), line-protocol driver dmdriver"},
            {"name": "inproc", "path": "harness/inproc", "serves_properties": sorted(CLAIMED),
             "kind_free_text": "Rust harness that path-includes /repo/impl/src and answers the same line protocol"},
        ],
        "checks": [],
        "not_applicable": [],
    }
    for p in props:
        i = p["id"]
        if i in CLAIMED:
            c = CLAIMED[i]
            m["checks"].append({
                "property_id": i,
                "quick_cmd": f"./check {i} --tier quick",
                "thorough_cmd": f"./check {i} --tier thorough",
                "evidence_file": f"/verif/evidence/{i}.json",
                "replay_cmd_template": f"./check {i} --replay {{path}}",
                "engine": "lean-model",
                "level_claimed": {"category": c["level"], "text": c["text"], "design_ref": c["ref"]},
                "level_note": c["note"],
                "technique": c["technique"],
            })
        else:
            m["not_applicable"].append({
                "property_id": i,
                "reason": NOT_APPLICABLE.get(i, "not yet claimed: check under construction (see DESIGN.md §8 order of construction)"),
            })
    json.dump(m, open(os.path.join(VERIF, "MANIFEST.json"), "w"), indent=1)


if __name__ == "__main__":
    main()

#!/usr/bin/env python3
"""Runs the repository's pinned test suite (guard off) and compares with /root/.vp/BASELINE.json."""
import json, re, subprocess, sys, os
env = dict(os.environ); env["CARGO_NET_OFFLINE"] = "true"
p = subprocess.run(["cargo", "test", "--workspace", "--no-fail-fast", "--offline"], cwd="/repo", env=env,
                   stdout=subprocess.PIPE, stderr=subprocess.STDOUT, text=True)
out = p.stdout
crate = None
passed = set(); failed = set()
for line in out.splitlines():
    m = re.search(r"Running (?:unittests )?(\S+) \(target/debug/deps/([a-z_0-9]+)-", line)
    if m:
        src, binname = m.group(1), m.group(2)
        if src.startswith("src/lib.rs"):
            crate = "derive_more-impl" if "derive_more_impl" in binname else "derive_more"
            kind = None
        else:
            crate = "derive_more"; kind = binname
        continue
    m = re.match(r"test (\S+)(?: - should panic)? \.\.\. (ok|FAILED)", line)
    if m and crate:
        name = m.group(1)
        full = f"{crate}::{name}" if crate == "derive_more-impl" or kind is None else f"{crate}::{kind}::{name}"
        (passed if m.group(2) == "ok" else failed).add(full)
base = json.load(open("/root/.vp/BASELINE.json"))
want = set(base["stable_pass"])
missing = sorted(want - passed)
print(f"passed={len(passed)} failed={sorted(failed)} baseline={len(want)} missing_from_pass={len(missing)}")
for m_ in missing[:20]:
    print("  missing:", m_)
sys.exit(0 if not missing else 1)

#!/bin/bash
# usage: confirm_seed.sh <worktree dir> <seed id> <property>
# Re-confirms a seeded change in its scratch worktree: suite passes with it (except compile_fail),
# demo fails with it and passes without it; then stores it under /verif/seeded/<seed id>/.
set -u
W=$1; ID=$2; PROP=$3
export CARGO_NET_OFFLINE=true
cd "$W" || exit 2
OUT=/verif/seeded/$ID; mkdir -p "$OUT"
git diff -- impl src > "$OUT/patch.diff"
cp tests/seed_demo.rs "$OUT/seed_demo.rs" 2>/dev/null
cp SEED_NOTES.md "$OUT/notes.md" 2>/dev/null
git diff -- Cargo.toml > "$OUT/cargo_toml.diff"
# 1. demo with change
cargo test --offline --features full --test seed_demo > "$OUT/demo_with.log" 2>&1; RC_WITH=$?
# 2. suite with change (demo excluded by name)
mv tests/seed_demo.rs /var/tmp/seed_demo_$ID.rs
git diff -- Cargo.toml > /var/tmp/seed_cargo_$ID.diff; git checkout -- Cargo.toml
cargo test --workspace --no-fail-fast --offline 2>&1 | grep -E "^test result|^test .* FAILED" > "$OUT/suite_with.log"
SUITE_FAILS=$(grep -E "^test [^ ]+ (- should panic )?\.\.\. FAILED" "$OUT/suite_with.log" | grep -v "^test compile_fail " | wc -l)
git apply /var/tmp/seed_cargo_$ID.diff
mv /var/tmp/seed_demo_$ID.rs tests/seed_demo.rs
# 3. demo without change
git checkout -- impl src
cargo test --offline --features full --test seed_demo > "$OUT/demo_without.log" 2>&1; RC_WITHOUT=$?
git apply "$OUT/patch.diff"
PASSED=$(grep -E "^test result" "$OUT/suite_with.log" | awk '{p+=$4} END {print p}')
cat > "$OUT/meta.json" <<EOT
{
 "seed_id": "$ID",
 "breaks_property": "$PROP",
 "needs_to_manifest": "see notes.md",
 "confirmed": {
  "demo_with_change_exit": $RC_WITH,
  "demo_without_change_exit": $RC_WITHOUT,
  "suite_with_change_failures_other_than_compile_fail": $SUITE_FAILS,
  "suite_with_change_tests_passed": $PASSED
 },
 "ran": ["cargo test --offline --features full --test seed_demo (with change)", "cargo test --workspace --no-fail-fast --offline (with change, demo set aside)", "cargo test --offline --features full --test seed_demo (source change stashed)"]
}
EOT
tail -c 600 "$OUT/demo_with.log" > "$OUT/demo_with.tail"; tail -c 300 "$OUT/demo_without.log" > "$OUT/demo_without.tail"
rm -f "$OUT/demo_with.log" "$OUT/demo_without.log"
cat "$OUT/meta.json"

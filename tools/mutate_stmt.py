#!/usr/bin/env python3
"""Second mutation operator family: dropped statements and disabled guards.
  * a line that is a whole call statement (`v.validate_attrs()?;`, `bounds.extend(..);`, `x.push(..);`) is deleted;
  * an `if <cond> {` whose block returns an error (`return Err(` within the next 3 lines) gets `if false && <cond> {`;
  * a `.filter(..)` / `.skip(..)` / `.take(..)` / `.rev()` link that stands on its own line is deleted.
Keeps the mutants that still compile, runs the quick checks, logs like tools/mutate.py. Never commits; always reverts.
Usage: tools/mutate_stmt.py <n mutants> <seed> [--checks C01,C02,...]"""
import json, os, random, re, subprocess, sys, time

sys.path.insert(0, os.path.dirname(os.path.abspath(__file__)))
import mutate as M  # noqa: E402

REPO, VERIF = M.REPO, M.VERIF
CALL_STMT = re.compile(r"^\s*[A-Za-z_][\w\.:]*(::<[^>]*>)?\([^;]*\)\??;\s*$")
LINK = re.compile(r"^\s*\.(filter|skip|take|rev|skip_while|take_while)\([^;]*\)\s*$")


def skip_regions(lines):
    """line indices inside #[cfg(test)] items or guarded hook items (same rule as mutate.py)"""
    out, skip, depth, opened = set(), False, 0, False
    for i, l in enumerate(lines):
        if not skip and ('#[cfg(feature = "jeltef_derive_more_verif")]' in l or "#[cfg(test)]" in l):
            skip, depth, opened = True, 0, False
            out.add(i)
            continue
        if skip:
            out.add(i)
            depth += l.count("{") - l.count("}")
            opened = opened or "{" in l
            if (opened and depth <= 0) or (not opened and l.rstrip().endswith(";")):
                skip = False
    return out


def candidates():
    out = []
    for f in M.FILES:
        lines = open(os.path.join(REPO, f)).read().split("\n")
        bad = skip_regions(lines)
        for i, l in enumerate(lines):
            if i in bad or l.strip().startswith("//"):
                continue
            if CALL_STMT.match(l) and "unreachable!" not in l and "panic!" not in l:
                out.append((f, i, "delete-statement"))
            elif LINK.match(l):
                out.append((f, i, "delete-link"))
            elif re.match(r"^\s*(\} else )?if [^{]*\{\s*$", l) and "if let" not in l and any("return Err(" in x for x in lines[i + 1:i + 4]):
                out.append((f, i, "disable-guard"))
    return out


def apply(lines, i, kind):
    lines = list(lines)
    if kind in ("delete-statement", "delete-link"):
        lines[i] = ""
    else:
        lines[i] = re.sub(r"\bif ", "if false && ", lines[i], count=1)
    return lines


def main():
    n, seed = int(sys.argv[1]), int(sys.argv[2])
    checks = [f"C{i:02d}" for i in range(1, 20)]
    if "--checks" in sys.argv:
        checks = sys.argv[sys.argv.index("--checks") + 1].split(",")
    rnd = random.Random(seed)
    cands = candidates()
    rnd.shuffle(cands)
    log = open("/var/tmp/dmv/mutation.log", "a")
    done = 0
    assert subprocess.run(["git", "-C", REPO, "diff", "--quiet"]).returncode == 0, "/repo not clean"
    for f, i, kind in cands:
        if done >= n:
            break
        path = os.path.join(REPO, f)
        orig = open(path).read()
        lines = apply(orig.split("\n"), i, kind)
        try:
            open(path, "w").write("\n".join(lines))
            rc, out = M.run(["cargo", "build", "--offline", "-q", "-p", "derive_more", "--features", "full"], REPO)
            if rc != 0 or "warning: unused" in out:
                continue
            done += 1
            t0 = time.time()
            hits = {}
            for c in checks:
                if len(hits) >= int(os.environ.get("MUT_STOP_AFTER", "99")):
                    break
                rc, out = M.run(["./check", c], VERIF)
                if rc != 0:
                    first = [l for l in out.splitlines() if l.startswith("VIOLATION")]
                    nxt = out.splitlines()[out.splitlines().index(first[0]) + 1][:200] if first else out[-200:]
                    hits[c] = ("no-input" if first and first[0].endswith("no-failing-input-found") else "input") + ": " + nxt.strip()
            rec = {"file": f, "line": i + 1, "operator": kind, "before": orig.split("\n")[i].strip()[:160], "after": lines[i].strip()[:160],
                   "caught_by": hits, "seconds": int(time.time() - t0)}
            log.write(json.dumps(rec) + "\n"); log.flush()
            print(("CAUGHT " if hits else "MISSED ") + f"{f}:{i + 1} [{kind}] `{rec['before'][:100]}` {sorted(hits)}", flush=True)
        finally:
            open(path, "w").write(orig)
    subprocess.run(["git", "-C", REPO, "checkout", "--", "."])


if __name__ == "__main__":
    main()

"""C11 — variant accessors agree with the value's variant and never lose data."""
import re

from . import common as C
from . import fmtgen as G

PARAMS = {"i": "ignore", "o": "owned", "r": "ref", "m": "ref_mut"}
TYS = ["u8", "i16", "String", "bool", "Vec<u8>"]


def gen_attr(rng, allowed, p=3):
    if not rng.chance(1, p):
        return "", "-"
    ps = rng.sample(allowed, 1 + rng.below(min(2, len(allowed))))
    if "i" in ps and len(ps) > 1 and rng.chance(2, 3):
        ps = ["i"]
    return "#[ATTR(" + ", ".join(PARAMS[x] for x in ps) + ")] ", "(a " + " ".join(ps) + ")"


def gen_enum(rng, derive, snake):
    attr = {"IsVariant": "is_variant", "Unwrap": "unwrap", "TryUnwrap": "try_unwrap", "TryInto": "try_into"}[derive]
    allowed_e = ["i"] if derive == "IsVariant" else ["i", "o", "r", "m"]
    ea_src, ea_sx = gen_attr(rng, allowed_e, 3)
    nv = 1 + rng.below(5)
    names = rng.sample(["Alpha", "BetaGamma", "r#fn", "HTTPError", "snake_v", "X", "V2"], nv)
    vs_src, vs_sx = [], []
    for vn in names:
        kinds = ["unit", "tuple", "tuple"] + (["named"] if derive in ("IsVariant", "TryInto") or rng.chance(1, 12) else [])
        kind = rng.choice(kinds)
        k = 0 if kind == "unit" else rng.below(4)
        fs = []
        for i in range(k):
            ig = derive == "TryInto" and rng.chance(1, 4)
            fs.append((f"f{i}" if kind == "named" else "-", rng.choice(TYS), ig))
        va_src, va_sx = gen_attr(rng, allowed_e, 3)
        if kind == "unit":
            body = ""
        elif kind == "tuple":
            body = "(" + ", ".join((f"#[{attr}(ignore)] " if ig else "") + t for _, t, ig in fs) + ")"
        else:
            body = " { " + ", ".join((f"#[{attr}(ignore)] " if ig else "") + f"{n}: {t}" for n, t, ig in fs) + " }"
        vs_src.append(va_src.replace("ATTR", attr) + vn + body)
        un = vn[2:] if vn.startswith("r#") else vn
        vs_sx.append(f"(v {C.hexs(vn)} {C.hexs(snake(un))} {kind} {va_sx} " +
                     " ".join(f"(f {C.hexs(n)} {C.hexs(G.strip_ws(t))} {1 if ig else 0})" for n, t, ig in fs) + ")")
    src = ea_src.replace("ATTR", attr) + "enum E { " + ", ".join(vs_src) + " }"
    return src, f"va ({derive} {C.hexs('E')} {ea_sx} {' '.join(vs_sx)})"


def split_top(s, sep=","):
    out, cur, depth = [], "", 0
    for ch in s:
        if ch in "([{<":
            depth += 1
        elif ch in ")]}>":
            depth -= 1
        if ch == sep and depth == 0:
            out.append(cur); cur = ""
        else:
            cur += ch
    if cur:
        out.append(cur)
    return out


def extract(ans, derive):
    if ans.startswith("panic"):
        return "panic"
    if ans.startswith("err "):
        return "err"
    s = G.strip_ws(ans[3:])
    s = re.sub(r'#\[doc=(?:"(?:[^"\\]|\\.)*"|stringify!\([^)]*\))\]', "", s)
    if derive == "IsVariant":
        fns = re.findall(r"pubconstfn(is_\w+)\(&self\)->bool\{derive_more::core::matches!\(self,(.*?)\)\}", s)
        return "ok " + ";".join(f"{n}|{p}" for n, p in fns)
    if derive in ("Unwrap", "TryUnwrap"):
        out = []
        for m in re.finditer(r"pubfn(\w+)\((self|&self|&mutself)\)->(.*?)\{matchself\{", s):
            name, slf, ret = m.group(1), m.group(2), m.group(3)
            rest = s[m.end():]
            pat = rest[:rest.index("=>")]
            after = rest[rest.index("=>") + 2:]
            retv = after[:after.index(",val@_=>")]
            fail = after[after.index("matchval{") + len("matchval{"):]
            fail = re.sub(r'"(?:[^"\\]|\\.)*"', '""', fail)
            fail = fail[:fail.index("},}}")]
            arms = [re.sub(r"^val@", "", a.split("\u21d2")[0]) for a in split_top(fail.replace("=>", "\u21d2"))]
            if derive == "TryUnwrap":
                ret = re.sub(r"^derive_more::core::result::Result<(.*),derive_more::TryUnwrapError<.*?>>$", r"\1", ret)
                retv = re.sub(r"^derive_more::core::result::Result::Ok\((.*)\)$", r"\1", retv)
            out.append(f"{name}|{slf}|{ret}|{pat}|{retv}|{','.join(arms)}")
        return "ok " + ";".join(out)
    impls = []
    for block in s.split("#[automatically_derived]impl")[1:]:
        m = re.search(r"derive_more::core::convert::TryFrom<(.*?)>for(\(.*?\))\{typeError", block)
        mm = re.search(r"matchvalue\{(.*?)=>derive_more::core::result::Result::Ok\((.*?)\),_=>", block)
        if m and mm:
            impls.append(f"{m.group(1)}>for{m.group(2)}|{mm.group(1)}|{mm.group(2)}")
        else:
            impls.append("?" + block[:80])
    return "ok " + ";".join(sorted(impls))


PRELUDE = r'''
#![allow(dead_code, unused_variables, non_camel_case_types, unused_imports, non_snake_case)]
pub static mut FAILS: u32 = 0;
pub static mut CHECKS: u64 = 0;
pub fn check(id: &str, what: &str, got: String, want: String) {
    unsafe { CHECKS += 1; }
    if got != want { unsafe { FAILS += 1; if FAILS < 300 { println!("FAIL|{}|{}|{}|{}", id, what, got, want); } } }
}
pub fn addr<T>(p: &T) -> usize { p as *const T as usize }
pub fn caught<R>(f: impl FnOnce() -> R + std::panic::UnwindSafe) -> Option<R> { std::panic::catch_unwind(f).ok() }
macro_rules! has_impl { ($t:ty : $($tr:tt)+) => {{ trait No { const Y: bool = false; } impl<T: ?Sized> No for T {} struct W<T: ?Sized>(core::marker::PhantomData<T>); #[allow(dead_code)] impl<T: ?Sized + $($tr)+> W<T> { const Y: bool = true; } <W<$t>>::Y }} }
#[derive(Debug, Clone, PartialEq)] pub struct A(pub u8);
#[derive(Debug, Clone, PartialEq)] pub struct B(pub u8);
'''


def behaviour(res, rng, tier):
    cf = C.CaseFile(PRELUDE)
    descs = {}
    reps = 6 if tier == "quick" else 60
    for i in range(reps):
        nv = 2 + rng.below(4)
        names = rng.sample(["Alpha", "BetaGamma", "r#fn", "HTTPError", "snake_v", "X"], nv)
        shapes = []
        for vn in names:
            kind = rng.choice(["unit", "one", "two", "same"])
            shapes.append((vn, kind))
        decl = []
        vals = []
        for vn, kind in shapes:
            if kind == "unit":
                decl.append(vn); vals.append((vn, f"E::{vn}", [], ""))
            elif kind == "one":
                decl.append(f"{vn}(A)"); vals.append((vn, f"E::{vn}(A(1))", ["A"], "A(1)"))
            elif kind == "same":
                decl.append(f"{vn}(A)"); vals.append((vn, f"E::{vn}(A(2))", ["A"], "A(2)"))
            else:
                decl.append(f"{vn}(A, B)"); vals.append((vn, f"E::{vn}(A(3), B(4))", ["A", "B"], "(A(3), B(4))"))
        snake = lambda n: re.sub(r"(?<=[a-z0-9])(?=[A-Z])|(?<=[A-Z])(?=[A-Z][a-z])", "_", n[2:] if n.startswith("r#") else n).lower()
        lines = []
        for vi, (vn, ctor, tys, payload) in enumerate(vals):
            for xi, (xn, _, xtys, _) in enumerate(vals):
                sn = snake(xn)
                want = "true" if vi == xi else "false"
                lines.append(f'check("{i}", "{vn}.is_{sn}()", {ctor}.is_{sn}().to_string(), String::from("{want}"));')
                tup = "()" if not xtys else (xtys[0] if len(xtys) == 1 else "(" + ", ".join(xtys) + ")")
                if vi == xi:
                    pay = payload if payload else "()"
                    lines.append(f'check("{i}", "{vn}.unwrap_{sn}()", format!("{{:?}}", caught(|| {ctor}.unwrap_{sn}())), format!("{{:?}}", Some({pay})));')
                    lines.append(f'check("{i}", "{vn}.try_unwrap_{sn}()", format!("{{:?}}", {ctor}.try_unwrap_{sn}().ok()), format!("{{:?}}", Some({pay})));')
                    if xtys:
                        first = "r" if len(xtys) == 1 else "r.0"
                        lines.append(f'{{ let v = {ctor}; let r = v.unwrap_{sn}_ref(); let a = match &v {{ E::{xn}(x, ..) => addr(x), _ => 0 }}; check("{i}", "{vn}.unwrap_{sn}_ref() address", addr({first}).to_string(), a.to_string()); }}')
                        lines.append(f'{{ let mut v = {ctor}; let a = match &v {{ E::{xn}(x, ..) => addr(x), _ => 0 }}; let r = v.try_unwrap_{sn}_mut().unwrap(); check("{i}", "{vn}.try_unwrap_{sn}_mut() address", addr({first}).to_string(), a.to_string()); }}')
                else:
                    lines.append(f'check("{i}", "{vn}.unwrap_{sn}() panics", caught(|| {ctor}.unwrap_{sn}()).is_none().to_string(), String::from("true"));')
                    lines.append(f'check("{i}", "{vn}.unwrap_{sn}_ref() panics", caught(|| {{ let v = {ctor}; let _ = v.unwrap_{sn}_ref(); }}).is_none().to_string(), String::from("true"));')
                    lines.append(f'check("{i}", "{vn}.try_unwrap_{sn}() input", format!("{{:?}}", {ctor}.try_unwrap_{sn}().map_err(|e| e.input).err()), format!("{{:?}}", Some({ctor})));')
                    lines.append(f'{{ let v = {ctor}; check("{i}", "{vn}.try_unwrap_{sn}_ref() input", format!("{{:?}}", v.try_unwrap_{sn}_ref().map_err(|e| addr(e.input)).err()), format!("{{:?}}", Some(addr(&v)))); }}')
        # TryInto: target tuples
        targets = {}
        for vn, ctor, tys, payload in vals:
            targets.setdefault(tuple(tys), []).append(vn)
        for tys, members in targets.items():
            tup = "()" if not tys else (tys[0] if len(tys) == 1 else "(" + ", ".join(tys) + ")")
            for vn, ctor, vtys, payload in vals:
                if tuple(vtys) == tys:
                    pay = payload if payload else "()"
                    lines.append(f'check("{i}", "{tup}::try_from({vn})", format!("{{:?}}", <{tup}>::try_from({ctor}).ok()), format!("{{:?}}", Some({pay})));')
                    if tys:
                        lines.append(f'{{ let v = {ctor}; let r = <{"&" + tys[0] if len(tys) == 1 else "(" + ", ".join("&" + t for t in tys) + ")"}>::try_from(&v).unwrap(); let a = match &v {{ E::{vn}(x, ..) => addr(x), _ => 0 }}; check("{i}", "&{tup}::try_from(&{vn}) address", addr({"r" if len(tys) == 1 else "r.0"}).to_string(), a.to_string()); }}')
                else:
                    lines.append(f'check("{i}", "{tup}::try_from({vn}) input", format!("{{:?}}", <{tup}>::try_from({ctor}).map_err(|e| e.input).err()), format!("{{:?}}", Some({ctor})));')
        src = ("#[derive(derive_more::IsVariant, derive_more::Unwrap, derive_more::TryUnwrap, derive_more::TryInto, Debug, Clone, PartialEq)]\n"
               "#[unwrap(owned, ref, ref_mut)] #[try_unwrap(owned, ref, ref_mut)] #[try_into(owned, ref, ref_mut)]\n"
               f"pub enum E {{ {', '.join(decl)} }}\npub fn run() {{ {' '.join(lines)} }}")
        cf.add(i, src, main_call=f"c{i}::run();")
        descs[str(i)] = f"enum E {{ {', '.join(decl)} }}"
    # reference-kind selection grid for TryInto: enum-level kinds x kinds on variant `P`; `Q` is plain.
    # A variant takes part in the conversions of the enum-level kinds plus its own.
    kinds_src = {"owned": ("A", "E::{v}(A(5))", "{x}"), "ref": ("&'static A", "&E::{v}(A(5))", "&{x}"), "ref_mut": ("&'static mut A", "&mut E::{v}(A(5))", "&mut {x}")}
    gi = reps
    for e_kinds in ([], ["owned"], ["owned", "ref"], ["owned", "ref_mut"], ["owned", "ref", "ref_mut"]):
        for p_kinds in ([], ["ref"], ["ref_mut"], ["ref", "ref_mut"]):
            ea = f"#[try_into({', '.join(e_kinds)})] " if e_kinds else ""
            pa = f"#[try_into({', '.join(p_kinds)})] " if p_kinds else ""
            lines = []
            # only explicitly selected kinds are asserted (what an unselected kind defaults to is not C11's subject)
            for kd in sorted(set(e_kinds) | set(p_kinds)):
                ty = kinds_src[kd][0]
                tyl = ty.replace("'static ", "")
                lines.append(f'check("{gi}", "impl TryFrom<{kd} E> for {tyl} exists", has_impl!({ty}: TryFrom<{ty.replace("A", "E")}>).to_string(), String::from("true"));')
                for vn, ok in (("P", True), ("Q", kd in e_kinds)):
                    mk = {"owned": f"E::{vn}(A(5))", "ref": "&v", "ref_mut": "&mut v"}[kd]
                    lines.append(f'{{ let mut v = E::{vn}(A(5)); let r = <{tyl}>::try_from({mk}); check("{gi}", "<{tyl}>::try_from({kd} {vn}) is_ok", r.is_ok().to_string(), String::from("{str(ok).lower()}")); }}')
            src = (f"#[derive(derive_more::TryInto, Debug, Clone, PartialEq)] {ea}pub enum E {{ {pa}P(A), Q(A) }}\n"
                   "pub fn run() { " + " ".join(lines) + " }")
            cf.add(gi, src, main_call=f"c{gi}::run();")
            descs[str(gi)] = f"{ea}enum E {{ {pa}P(A), Q(A) }}"
            gi += 1
    d = C.scratch_crate("c11-variants", cf.source('std::panic::set_hook(Box::new(|_| {})); unsafe { println!("DONE checks={} fails={}", CHECKS, FAILS); }').replace(
        "fn main() {\n", "fn main() {\n    std::panic::set_hook(Box::new(|_| {}));\n"))
    try:
        rc, out, err = C.scratch_run(d)
        if "DONE" not in out:
            rc2, diags, err2 = C.scratch_check(d)
            by, stray = cf.errors_by_case(diags)
            for cid, errs in list(by.items())[:10]:
                res.violation("compile:" + descs[str(cid)], f"{descs[str(cid)]} does not compile: {errs[0][:300]}",
                              {"cmd": "compile", "source": descs[str(cid)], "errors": errs[:3]})
            if not by:
                raise C.BuildError("C11 behaviour crate (real proc-macro) did not build/run", (err or out)[-3000:])
            return 0, reps
        checks = int(out.split("DONE checks=")[1].split()[0])
        seen = set()
        for l in out.splitlines():
            if l.startswith("FAIL|"):
                _, cid, what, got, want = l.split("|", 4)
                if (cid, what) in seen:
                    continue
                seen.add((cid, what))
                res.violation("accessor:" + descs[cid] + "|" + what, f"{descs[cid]}: {what} is {got}, the property requires {want}",
                              {"cmd": "behaviour", "source": descs[cid], "what": what, "got": got, "want": want})
        return checks, reps
    finally:
        C.scratch_cleanup(d)


def model_guided_search(res, disagreements):
    """When the expansion and the model disagree on an enum, the accessors the model derives from the documented
    defaults are exercised with the real macro: one that is missing (does not compile) or refuses the value of its own
    variant is the failing input."""
    cf = C.CaseFile(PRELUDE)
    descs = {}
    k = 0
    for dis in disagreements:
        d, src, model = dis["derive"], dis["source"], dis["model_full"]
        if not model.startswith("ok ") or "r#" in src:
            continue
        entries = [e for e in model[3:].split(";") if e]
        lines = []
        if d in ("Unwrap", "TryUnwrap", "IsVariant"):
            for e in entries:
                name = e.split("|")[0]
                lines.append(f"let _ = E::{name};")
        elif d == "TryInto":
            for e in entries:
                head = e.split("|")[0]
                src_ty, target = head.split(">for", 1)
                lt = "&'__deriveMoreLifetime"
                kind = "ref_mut" if src_ty.startswith(lt + "mut") else ("ref" if src_ty.startswith(lt) else "owned")
                tgt = target.replace(lt + "mut", "&'static mut ").replace(lt, "&'static ")
                from_ty = {"owned": "E", "ref": "&'static E", "ref_mut": "&'static mut E"}[kind]
                lines.append(f'check("{k}", "impl TryFrom<{kind} E> for {target} exists", has_impl!({tgt}: TryFrom<{from_ty}>).to_string(), String::from("true"));')
        if not lines:
            continue
        item = re.sub(r"\bString\b", "std::string::String", src)
        cf.add(k, f"#[derive(derive_more::{d})] pub {item}\npub fn run() {{ {' '.join(lines)} }}", main_call=f"c{k}::run();")
        descs[str(k)] = f"#[derive({d})] {src}"
        k += 1
    if not k:
        return 0
    dcr = C.scratch_crate("c11-guided", cf.source('unsafe { println!("DONE checks={} fails={}", CHECKS, FAILS); }'))
    try:
        rc, out, err = C.scratch_run(dcr)
        if "DONE" not in out:
            rc2, diags, err2 = C.scratch_check(dcr)
            by, stray = cf.errors_by_case(diags)
            for cid, errs in list(by.items())[:6]:
                res.violation("missing-accessor:" + descs[str(cid)], f"{descs[str(cid)]}: an accessor the documented defaults give is not generated: {errs[0][:240]}",
                              {"cmd": "compile", "source": descs[str(cid)], "errors": errs[:3]})
            return k
        seen = set()
        for l in out.splitlines():
            if l.startswith("FAIL|"):
                _, cid, what, got, want = l.split("|", 4)
                if (cid, what) not in seen:
                    seen.add((cid, what))
                    res.violation("missing-impl:" + descs[cid] + "|" + what, f"{descs[cid]}: {what} is {got}, the documented defaults give {want}",
                                  {"cmd": "behaviour", "source": descs[cid], "what": what, "got": got, "want": want})
        return k
    finally:
        C.scratch_cleanup(dcr)


def run(tier):
    res = C.Result("C11", tier)
    rng = C.Rng(C.seed())
    extra, cov, corr_bad = [], {}, []
    try:
        inproc = C.cargo_build_inproc()
        lean_ok, _ = C.lake_build(["Dm.Props.C11", "dmdriver"])
        names = ["Alpha", "BetaGamma", "fn", "HTTPError", "snake_v", "X", "V2"]
        ans = C.drive(inproc, [f"case snake {C.hexs(n)}" for n in names])
        table = {n: C.unhex(a) for n, a in zip(names, ans)}
        snake = lambda n: table[n]
        n = 600 if tier == "quick" else 10000
        cases = []
        for derive in ("IsVariant", "Unwrap", "TryUnwrap", "TryInto"):
            for _ in range(n):
                src, req = gen_enum(rng, derive, snake)
                cases.append((derive, src, req))
        impl = C.drive(inproc, [f"expand {d} {C.hexs(src)}" for d, src, _ in cases])
        model = C.drive_lean([req for _, _, req in cases]) if lean_ok else [None] * len(cases)
        n_ok = 0
        for (d, src, req), ia, ma in zip(cases, impl, model):
            got = extract(ia, d)
            if got.startswith("ok"):
                n_ok += 1
            if ma is not None and got != ma:
                corr_bad.append({"derive": d, "source": src, "impl": got[:600], "model": ma[:600], "model_full": ma})
        checks, nen = behaviour(res, rng, tier)
        if corr_bad and not res.violations:
            model_guided_search(res, sorted(corr_bad, key=lambda c: len(c["source"]))[:16])
        for c in corr_bad:
            c.pop("model_full", None)
        extra = [("correspondence: accessor sets, patterns, fall-through arms and TryInto groups == model", lean_ok and not corr_bad)]
        cov = {
            "evaluations": len(cases) + checks,
            "distinct_nontrivial": len({(c[0], c[1]) for c in cases}) + nen,
            "rule": "distinct (derive, enum with attribute placement) pairs expanded in-process + enums whose every (value, accessor) pair is run with the real macro",
            "traces_validated_against_impl": len(cases),
            "model_vs_impl_disagreements": len(corr_bad),
            "distribution": {"expansions": len(cases), "accepted": n_ok, "behaviour_enums": nen, "value_accessor_checks": checks},
            "samples": [{"derive": c[0], "enum": c[1]} for c in cases[:3]],
        }
    except C.BuildError as e:
        res.violation("build", e.what, {"output": e.output[-3000:]}, found_input=False)
        cov = {"build_error": e.what}
    failed = C.proof_obligations(res, "C11", ["C11"], extra)
    if failed and not res.violations:
        res.violation("obligations:" + ";".join(failed)[:200], "proof obligation / correspondence no longer checks: " + "; ".join(failed)[:400],
                      {"failed_obligations": failed, "correspondence_disagreements": corr_bad[:8]}, found_input=False)
    elif corr_bad:
        res.coverage["correspondence_disagreements"] = corr_bad[:8]
    res.coverage.update(cov)
    res.coverage["impl_vs_oracle_failures"] = len(res.violations)
    res.coverage["trusted_base"] += [
        "model of State's enabled/owned/ref/ref_mut bookkeeping and of the four accessor derives compared with the working-tree expansions (TryInto impls compared as a set: their order is C19's subject)",
        "convert_case's snake_case is a parameter; first-arm-wins `match` is the modelled fragment of Rust",
    ]
    return res.finish()

"""C06 — derive_more::Debug without attributes is indistinguishable from std Debug."""
import os

from . import common as C
from . import fmtgen as G
from . import fmtx

# index -> (literal spec, alternate?, options other than alternate are default?)
SPECS = [("{:?}", 0, True), ("{:#?}", 1, True), ("{:x?}", 0, False), ("{:#x?}", 1, False), ("{:#X?}", 1, False),
         ("{:10?}", 0, False), ("{:#10?}", 1, False), ("{:<#12.3?}", 1, False), ("{:#.2?}", 1, False),
         ("{:*^#20?}", 1, False), ("{:+#?}", 1, False), ("{:#08?}", 1, False), ("{:+?}", 0, False), ("{:.1?}", 0, False)]
TEXTS = ["x", "", "a\nb", "a\n\nb", "\n", "tail\n", "é\n  indented", "(\n    nested,\n)"]


def build_rt():
    env = dict(C.ENV)
    env["CARGO_TARGET_DIR"] = os.path.join(C.HARNESS, "target-rt")
    rc, out = C.run(["cargo", "build", "--offline", "--quiet"], cwd=os.path.join(C.HARNESS, "rt"), env=env)
    if rc != 0:
        raise C.BuildError("cargo build of the runtime harness (includes /repo/src/fmt.rs by path) failed", out)
    return os.path.join(C.HARNESS, "target-rt", "debug", "dmv-rt")


def builder_check(res, rt, rng, tier, lean_ok):
    """The real src/fmt.rs DebugTuple vs core's builders vs the two Lean models, scripted fields."""
    n = 6000 if tier == "quick" else 150000
    probes = C.drive(rt, [f"probe {i}" for i in range(len(SPECS))])
    fresh = probes[1]
    cases = []
    for _ in range(n):
        si = rng.below(len(SPECS))
        name = rng.choice(["Foo", "", "r", "Ünï"])
        k = rng.below(4)
        fields = []
        model_ok = True
        for _ in range(k):
            r = rng.below(10)
            if r < 5:
                fields.append("l" + C.hexs(rng.choice(TEXTS)))
            elif r < 8:
                fields.append("f")
            elif r == 8 and rng.chance(1, 2):
                # the same kind of text written in several `write_str` calls (label, multi-line value, empty write, ...): the
                # indentation adapter must not depend on how the text is chunked (the models see the text, not the chunks)
                chunks = [rng.choice(TEXTS + ["notes: ", "k=", " ", "first\nsecond\nthird", "\n\n", "x\n"]) for _ in range(2 + rng.below(3))]
                # since the call-by-call model (`dmTupleCode`, `paddedWrites`) the Lean side replays the chunks one by one
                fields.append("m" + "~".join(C.hexs(c) if c else "-" for c in chunks))
            elif r == 8:
                fields.append(f"i{rng.below(300)}"); model_ok = False
            else:
                fields.append("n"); model_ok = False
        fin = rng.choice(["ex", "ex", "nx"])
        cases.append((si, name, fin, fields, model_ok))
    impl = C.drive(rt, [f"dtup {si} {C.hexs(nm)} {fin} {','.join(fs) if fs else '-'}" for si, nm, fin, fs, _ in cases])
    mreq, midx = [], []
    for j, (si, nm, fin, fs, ok) in enumerate(cases):
        if ok and lean_ok:
            mreq.append(f"dt {SPECS[si][1]} {0 if SPECS[si][2] else si} {C.hexs(nm)} {fin} {probes[si]} {fresh} {','.join(fs) if fs else '-'}")
            midx.append(j)
    model = dict(zip(midx, C.drive_lean(mreq))) if mreq else {}
    corr_bad = []
    n_known = n_pretty = 0
    for j, ((si, nm, fin, fs, ok), ia) in enumerate(zip(cases, impl)):
        dm, st = [C.unhex(x.split("=")[1]) for x in ia.split()]
        if j in model and model[j] != ia:
            corr_bad.append({"case": f"dtup {SPECS[si][0]} name={nm!r} {fin} fields={fs}", "impl": ia, "model": model[j]})
        if SPECS[si][1]:
            n_pretty += 1
        if dm != st:
            # known finding: pretty mode + non-default options + a field sensitive to them.
            # Attribution: the same case under plain `{:#?}` agrees.
            plain = C.drive(rt, [f"dtup 1 {C.hexs(nm)} {fin} {','.join(fs) if fs else '-'}"])[0]
            pd, ps = [x.split("=")[1] for x in plain.split()]
            if SPECS[si][1] and not SPECS[si][2] and pd == ps:
                n_known += 1
                res.violation("pretty-with-options", "", {"case": ia})
            else:
                res.violation("dtup:" + f"{SPECS[si][0]}|{nm}|{fin}|{','.join(fs)}",
                              f"DebugTuple name={nm!r} fields={fs} {fin} under {SPECS[si][0]}: the crate writes {dm!r}, core writes {st!r}",
                              {"cmd": "dtup", "spec": SPECS[si][0], "name": nm, "fields": fs, "finish": fin, "crate": dm, "core": st})
    nt, tbad, tknown = tree_check(res, rt, rng, tier, lean_ok, probes)
    corr_bad += tbad
    return len(cases) + nt, len(mreq) + (nt if lean_ok else 0), corr_bad, n_known + tknown, n_pretty


def gen_tree(rng, depth):
    """A value that is builder output all the way down: tuple nodes (the crate's DebugTuple vs core's), struct nodes
    (core's DebugStruct on both sides), leaves that write literal text / several chunks / the options they see."""
    r = rng.below(10)
    if depth == 0 or r < 3:
        k = rng.below(8)
        if k < 4:
            return "l" + C.hexs(rng.choice(TEXTS)), False
        if k < 6:
            chunks = [rng.choice(TEXTS + ["k=", "first\nsecond", "\n\n"]) for _ in range(2 + rng.below(2))]
            return "m" + "~".join(C.hexs(c) if c else "-" for c in chunks), False
        return "f", True
    fin = rng.choice(["ex", "ex", "nx"])
    name = rng.choice(["Foo", "", "Ünï", "V"])
    kids = [gen_tree(rng, depth - 1) for _ in range(rng.below(4))]
    sens = any(k[1] for k in kids)
    if r < 7:
        return "(T " + C.hexs(name) + " " + fin + "".join(" " + k[0] for k in kids) + ")", sens
    name = name or "S"
    return "(S " + C.hexs(name) + " " + fin + "".join(f" {C.hexs(rng.choice(['a', 'fn', 'x1']))} {k[0]}" for k in kids) + ")", sens


def tree_check(res, rt, rng, tier, lean_ok, probes):
    """Nesting (theorems nested_eq_std / nested_eq_std_all_options): the real builders on nested values vs the Lean tree model
    (both sides), and the crate's side vs core's wherever the theorems say they agree."""
    n = 3000 if tier == "quick" else 60000
    cases = []
    for _ in range(n):
        tree, sens = gen_tree(rng, 1 + rng.below(4))
        cases.append((rng.below(len(SPECS)), tree, sens))
    impl = C.drive(rt, [f"dval {si} {t}" for si, t, _ in cases])
    model = C.drive_lean([f"dv {SPECS[si][1]} {0 if SPECS[si][2] else si} {probes[si]} {probes[1]} {t}" for si, t, _ in cases]) if lean_ok else [None] * n
    bad, known = [], 0
    for (si, t, sens), ia, ma in zip(cases, impl, model):
        if ma is not None and ia != ma:
            bad.append({"case": f"dval {SPECS[si][0]} {t}", "impl": ia, "model": ma})
        if ia == "bad-op" or ia == "panic":
            res.violation("dval:" + t, f"nested value {t}: the harness answered {ia}", {"cmd": "dval", "spec": SPECS[si][0], "tree": t})
            continue
        dm, st = [C.unhex(x.split("=")[1]) for x in ia.split()]
        if dm != st:
            # the theorems promise equality for default options, and for any options when no leaf looks at them
            if SPECS[si][1] and not SPECS[si][2] and sens:
                known += 1
                res.violation("pretty-with-options", "", {"case": ia})
            else:
                res.violation("dval:" + f"{SPECS[si][0]}|{t}", f"nested value {t} under {SPECS[si][0]}: the crate's builders write {dm!r}, core's write {st!r}",
                              {"cmd": "dval", "spec": SPECS[si][0], "tree": t, "crate": dm, "core": st})
    return n, bad, known


PRELUDE = r'''
#![allow(dead_code, unused_variables, non_camel_case_types, unused_imports, non_snake_case)]
pub static mut FAILS: u32 = 0;
pub static mut CHECKS: u64 = 0;
pub fn check(id: &str, spec: &str, got: String, want: String) {
    unsafe { CHECKS += 1; }
    if got != want { unsafe { FAILS += 1; if FAILS < 300 { println!("FAIL|{}|{}|{:?}|{:?}", id, spec, got, want); } } }
}
#[derive(Debug, Clone)] pub struct Leaf { pub a: u8, pub s: &'static str }
pub struct Multi;
impl core::fmt::Debug for Multi { fn fmt(&self, f: &mut core::fmt::Formatter<'_>) -> core::fmt::Result { f.write_str("line1\n\nline3") } }
'''

FIELD_TYPES = [("u8", "200u8"), ("&'static str", '"a\\nb"'), ("Leaf", 'Leaf { a: 1, s: "x" }'), ("Option<Leaf>", 'Some(Leaf { a: 2, s: "y" })'),
               ("Vec<u16>", "vec![1u16, 300]"), ("Multi", "Multi"), ("(u8, char)", "(3u8, 'c')"), ("f32", "1.5f32"), ("()", "()")]


def gen_pair(rng, idx):
    """An item deriving derive_more::Debug and the identical one deriving std Debug (skipped fields:
    a hand-written std impl closing with finish_non_exhaustive)."""
    kind = rng.choice(["unit", "tuple", "named", "enum"])
    raw = rng.chance(1, 4)
    generic = rng.chance(1, 4)
    tname = "r#type" if raw else "Item"
    plain = lambda t: t[2:] if t.startswith("r#") else t

    def fields(n_named):
        k = rng.below(4)
        fs = []
        for i in range(k):
            ty, val = rng.choice(FIELD_TYPES)
            skip = rng.chance(1, 5)
            nm = rng.choice(["a", "b", "r#fn", "x1", "c"]) + str(i) if n_named else None
            if nm and nm.startswith("r#"):
                nm = "r#fn" if i == 0 else f"f{i}"
            fs.append({"ty": ty, "val": val, "skip": skip, "name": nm})
        return fs

    def decl(fs, named, attr):
        if named:
            return " { " + ", ".join((attr if f["skip"] else "") + f"pub {f['name']}: {f['ty']}" for f in fs) + " }"
        return "(" + ", ".join((attr if f["skip"] else "") + f"pub {f['ty']}" for f in fs) + ")"

    def ctor(path, fs, named):
        if named:
            return path + " { " + ", ".join(f"{f['name']}: {f['val']}" for f in fs) + " }"
        return path + "(" + ", ".join(f["val"] for f in fs) + ")"

    def manual_arm(label, fs, named, binders):
        # reference for skipped fields: std builders + finish_non_exhaustive
        if named:
            calls = "".join(f'.field("{plain(f["name"])}", {b})' for f, b in zip(fs, binders) if not f["skip"])
            return f'f.debug_struct("{label}"){calls}.finish_non_exhaustive()'
        calls = "".join(f".field({b})" for f, b in zip(fs, binders) if not f["skip"])
        return f'f.debug_tuple("{label}"){calls}.finish_non_exhaustive()'

    gen = "<T: core::fmt::Debug>" if generic else ""
    garg = "<T>" if generic else ""
    inst = "::<u8>" if generic else ""
    phantom_field = ("core::marker::PhantomData<T>", "core::marker::PhantomData")
    out_dm, out_std, vals = [], [], []
    if kind in ("unit", "tuple", "named"):
        named = kind == "named"
        fs = [] if kind == "unit" else fields(named)
        if generic:
            fs.append({"ty": phantom_field[0], "val": phantom_field[1], "skip": False, "name": "ph" if named else None})
        any_skip = any(f["skip"] for f in fs)
        body = "" if kind == "unit" and not fs else decl(fs, named, "#[debug(skip)] ")
        body_std = "" if kind == "unit" and not fs else decl(fs, named, "")
        semi = "" if named else ";"
        if kind == "unit" and fs:
            named = False; semi = ";"
            body = decl(fs, False, "#[debug(skip)] "); body_std = decl(fs, False, "")
        dm = f"pub mod dm {{ use super::super::*; #[derive(derive_more::Debug)] pub struct {tname}{gen}{body}{semi} }}"
        if any_skip:
            binders = [f"&self.{f['name']}" if named else f"&self.{i}" for i, f in enumerate(fs)]
            st = (f"pub mod st {{ use super::super::*; pub struct {tname}{gen}{body_std}{semi}\n"
                  f"impl{gen} core::fmt::Debug for {tname}{garg} {{ fn fmt(&self, f: &mut core::fmt::Formatter<'_>) -> core::fmt::Result {{ {manual_arm(plain(tname), fs, named, binders)} }} }} }}")
        else:
            st = f"pub mod st {{ use super::super::*; #[derive(Debug)] pub struct {tname}{gen}{body_std}{semi} }}"
        if not fs and kind == "unit":
            v = f"{tname}"
            vals = [(f"dm::{v}", f"st::{v}")]
        else:
            vals = [(ctor(f"dm::{tname}{inst}", fs, named), ctor(f"st::{tname}{inst}", fs, named))]
        desc = f"#[derive(Debug)] struct {tname}{gen}{body}{semi}"
    else:
        nv = 1 + rng.below(3)
        vd_dm, vd_std, arms = [], [], []
        any_skip = False
        vinfo = []
        for vi in range(nv):
            vn = rng.choice(["A", "Bee", "r#fn"]) if vi == 0 else f"V{vi}"
            vk = rng.choice(["unit", "tuple", "named"])
            named = vk == "named"
            fs = [] if vk == "unit" else fields(named)
            if any(f["skip"] for f in fs):
                any_skip = True
            b_dm = "" if vk == "unit" else decl(fs, named, "#[debug(skip)] ").replace("pub ", "")
            b_std = "" if vk == "unit" else decl(fs, named, "").replace("pub ", "")
            vd_dm.append(vn + b_dm); vd_std.append(vn + b_std)
            vinfo.append((vn, vk, fs, named))
        if generic:
            vd_dm.append("Ph(core::marker::PhantomData<T>)"); vd_std.append("Ph(core::marker::PhantomData<T>)")
        dm = f"pub mod dm {{ use super::super::*; #[derive(derive_more::Debug)] pub enum {tname}{gen} {{ {', '.join(vd_dm)} }} }}"
        if any_skip:
            for vn, vk, fs, named in vinfo:
                if vk == "unit":
                    arms.append(f'Self::{vn} => f.write_str("{plain(vn)}"),')
                elif any(f["skip"] for f in fs):
                    bs = [f["name"] if named else f"_{i}" for i, f in enumerate(fs)]
                    pat = ("{ " + ", ".join(bs) + " }") if named else ("(" + ", ".join(bs) + ")")
                    arms.append(f"Self::{vn}{pat} => {manual_arm(plain(vn), fs, named, bs)},")
                else:
                    bs = [f["name"] if named else f"_{i}" for i, f in enumerate(fs)]
                    pat = ("{ " + ", ".join(bs) + " }") if named else ("(" + ", ".join(bs) + ")")
                    if named:
                        calls = "".join(f'.field("{plain(b)}", {b})' for b in bs)
                        arms.append(f'Self::{vn}{pat} => f.debug_struct("{plain(vn)}"){calls}.finish(),')
                    else:
                        calls = "".join(f".field({b})" for b in bs)
                        arms.append(f'Self::{vn}{pat} => f.debug_tuple("{plain(vn)}"){calls}.finish(),')
            if generic:
                arms.append('Self::Ph(p) => f.debug_tuple("Ph").field(p).finish(),')
            st = (f"pub mod st {{ use super::super::*; pub enum {tname}{gen} {{ {', '.join(vd_std)} }}\n"
                  f"impl{gen} core::fmt::Debug for {tname}{garg} {{ fn fmt(&self, f: &mut core::fmt::Formatter<'_>) -> core::fmt::Result {{ match self {{ {' '.join(arms)} }} }} }} }}")
        else:
            st = f"pub mod st {{ use super::super::*; #[derive(Debug)] pub enum {tname}{gen} {{ {', '.join(vd_std)} }} }}"
        for vn, vk, fs, named in vinfo:
            if vk == "unit":
                vals.append((f"dm::{tname}{inst}::{vn}", f"st::{tname}{inst}::{vn}"))
            else:
                vals.append((ctor(f"dm::{tname}{inst}::{vn}", fs, named), ctor(f"st::{tname}{inst}::{vn}", fs, named)))
        desc = f"#[derive(Debug)] enum {tname}{gen} {{ {', '.join(vd_dm)} }}"
    checks = []
    for vi, (a, b) in enumerate(vals):
        for spec, _, _ in SPECS:
            checks.append(f'check("{idx}", "{spec}#{vi}", format!("{spec}", {a}), format!("{spec}", {b}));')
            # nesting inside other Debug output
        checks.append(f'check("{idx}", "nested#{vi}", format!("{{:#?}}", Some(({a}, 1))), format!("{{:#?}}", Some(({b}, 1))));')
    src = dm + "\n" + st + "\npub fn run() { " + " ".join(checks) + " }"
    return src, desc


def behaviour(res, rng, tier):
    n = 70 if tier == "quick" else 800
    cf = C.CaseFile(PRELUDE)
    descs = {}
    for i in range(n):
        src, desc = gen_pair(rng, i)
        cf.add(i, src, main_call=f"c{i}::run();")
        descs[str(i)] = desc
    d = C.scratch_crate("c06-debug", cf.source('unsafe { println!("DONE checks={} fails={}", CHECKS, FAILS); }'))
    try:
        rc, out, err = C.scratch_run(d)
        if "DONE" not in out:
            rc2, diags, err2 = C.scratch_check(d)
            by, stray = cf.errors_by_case(diags)
            for cid, errs in list(by.items())[:10]:
                res.violation("compile:" + descs[str(cid)], f"{descs[str(cid)]} does not compile: {errs[0][:240]}",
                              {"cmd": "compile", "source": descs[str(cid)], "errors": errs[:3]})
            if not by:
                raise C.BuildError("C06 behaviour crate (real proc-macro) did not build/run", (err or out)[-3000:])
            return 0, n, 0, []
        checks = int(out.split("DONE checks=")[1].split()[0])
        seen = set()
        known = 0
        spec_by_lit = {s: (alt, dflt) for s, alt, dflt in SPECS}
        for l in out.splitlines():
            if l.startswith("FAIL|"):
                _, cid, spec, got, want = l.split("|", 4)
                lit = spec.split("#")[0] if not spec.startswith("{:#") else "{:#" + spec[3:].split("#")[0]
                lit = spec[:spec.rindex("#")]
                alt, dflt = spec_by_lit.get(lit, (0, True))
                if alt and not dflt:
                    # attributed to the known finding iff the same value agrees under plain {:#?}:
                    # the run contains that check too (no FAIL line for it)
                    plain_fail = any(x.startswith(f"FAIL|{cid}|{{:#?}}#{spec[spec.rindex('#') + 1:]}|") for x in out.splitlines())
                    if not plain_fail:
                        known += 1
                        res.violation("pretty-with-options", "", {"case": l})
                        continue
                if cid in seen:
                    continue
                seen.add(cid)
                res.violation("debug:" + descs[cid], f"{descs[cid]}: under {spec} derive_more::Debug prints {got}, std's derive prints {want}",
                              {"cmd": "behaviour", "source": descs[cid], "spec": spec, "got": got, "want": want})
        return checks, n, known, [descs["0"], descs["1"]]
    finally:
        C.scratch_cleanup(d)


def run(tier):
    res = C.Result("C06", tier)
    rng = C.Rng(C.seed())
    extra, cov, bad, corr_bad = [], {}, [], []
    try:
        inproc = C.cargo_build_inproc()
        rt = build_rt()
        lean_ok, _ = C.lake_build(["Dm.Props.C06", "dmdriver"])
        nb, nmodel, corr_bad, known_b, n_pretty = builder_check(res, rt, rng, tier, lean_ok)
        cases, bad = fmtx.correspond(inproc, rng, ["Debug"], 600 if tier == "quick" else 10000) if lean_ok else ([], [])
        checks, ntypes, known_t, samples = behaviour(res, rng, tier)
        extra = [("correspondence: models of src/fmt.rs DebugTuple / Padded (call by call) and of core's DebugTuple / DebugStruct == the real ones on scripted fields and nested value trees", lean_ok and not corr_bad),
                 ("correspondence: Debug expander model (builder calls, names, skip) == working-tree expansion", lean_ok and not bad)]
        cov = {
            "evaluations": nb + len(cases) + checks,
            "distinct_nontrivial": nmodel + ntypes,
            "rule": "builder runs on scripted fields (literal text, several write_str chunks replayed one by one in the call-by-call model, option-printing fields) and on nested value trees (tuple nodes: the crate's DebugTuple vs core's; struct nodes: core's DebugStruct) compared against the Lean models + generated type pairs (derive_more::Debug vs std derive / hand-written finish_non_exhaustive) under 14 formatter specs and nesting",
            "traces_validated_against_impl": nmodel + len(cases),
            "model_vs_impl_disagreements": len(corr_bad) + len(bad),
            "distribution": {"builder_runs": nb, "builder_runs_in_model": nmodel, "pretty_runs": n_pretty,
                             "known_finding_hits_builder": known_b, "debug_items_in_process": len(cases),
                             "behaviour_type_pairs": ntypes, "text_comparisons": checks, "known_finding_hits_types": known_t},
            "samples": [{"type": s} for s in samples],
        }
    except C.BuildError as e:
        res.violation("build", e.what, {"output": e.output[-3000:]}, found_input=False)
        cov = {"build_error": e.what}
    failed = C.proof_obligations(res, "C06", ["C06"], extra)
    if failed and not res.violations:
        res.violation("obligations:" + ";".join(failed)[:200], "proof obligation / correspondence no longer checks: " + "; ".join(failed)[:400],
                      {"failed_obligations": failed, "builder_disagreements": corr_bad[:6],
                       "expander_disagreements": [{"item": b["src"], "impl": b["impl"], "model": b["model"]} for b in bad[:6]]},
                      found_input=False)
    res.coverage.update(cov)
    res.coverage["impl_vs_oracle_failures"] = len(res.violations) + len(res.known_hits)
    res.coverage["trusted_base"] += [
        "model of src/fmt.rs (DebugTuple, Padded: text level and call by call) and model of core's DebugTuple / DebugStruct / PadAdapter, compared with the real code on every scripted run and on nested value trees; the tree theorems are about values whose nodes are builder output, leaves are arbitrary functions of the options",
        "writer failure (fmt::Error) is not modelled: sinks are infallible",
        "known finding: pretty mode re-formats fields with fresh options (tuple_eq_std_counterexample is its kernel-checked witness)",
    ]
    return res.finish()

"""Shared machinery of the checks: builds, drivers, PRNG, evidence, findings, violations."""
import hashlib
import json
import os
import re
import shutil
import subprocess
import sys
import time

VERIF = os.path.dirname(os.path.dirname(os.path.abspath(__file__)))
REPO = os.environ.get("DMV_REPO", "/repo")
LEAN = os.path.join(VERIF, "lean")
HARNESS = os.path.join(VERIF, "harness")
TARGET = os.path.join(HARNESS, "target")
SCRATCH = os.environ.get("VERIF_SCRATCH", "/var/tmp/dmv")
EVIDENCE = os.environ.get("VERIF_EVIDENCE_DIR") or os.path.join(VERIF, "evidence")
REPLAYS = os.environ.get("VERIF_REPLAYS_DIR") or os.path.join(VERIF, "replays")
ALLOWED_AXIOMS = {"propext", "Classical.choice", "Quot.sound"}

ENV = dict(os.environ)
ENV["CARGO_NET_OFFLINE"] = "true"
ENV["CARGO_TERM_COLOR"] = "never"
ENV.pop("RUST_BACKTRACE", None)
ENV.pop("RUSTFLAGS", None)


def log(*a):
    print(*a, file=sys.stderr, flush=True)


# --------------------------------------------------------------------------- PRNG

class Rng:
    """SplitMix64; every random choice of a run derives from VERIF_SEED."""

    def __init__(self, seed):
        self.s = (seed * 0x9E3779B97F4A7C15 + 0x1234567) & 0xFFFFFFFFFFFFFFFF

    def next(self):
        self.s = (self.s + 0x9E3779B97F4A7C15) & 0xFFFFFFFFFFFFFFFF
        z = self.s
        z = ((z ^ (z >> 30)) * 0xBF58476D1CE4E5B9) & 0xFFFFFFFFFFFFFFFF
        z = ((z ^ (z >> 27)) * 0x94D049BB133111EB) & 0xFFFFFFFFFFFFFFFF
        return z ^ (z >> 31)

    def below(self, n):
        return self.next() % n

    def choice(self, xs):
        return xs[self.below(len(xs))]

    def chance(self, num, den):
        return self.below(den) < num

    def sample(self, xs, k):
        xs = list(xs)
        out = []
        for _ in range(min(k, len(xs))):
            out.append(xs.pop(self.below(len(xs))))
        return out

    def shuffle(self, xs):
        xs = list(xs)
        for i in range(len(xs) - 1, 0, -1):
            j = self.below(i + 1)
            xs[i], xs[j] = xs[j], xs[i]
        return xs


def seed():
    try:
        return int(os.environ.get("VERIF_SEED", "1"))
    except ValueError:
        return 1


def hexs(s):
    return s.encode("utf-8").hex() if s else "-"


def unhex(h):
    return "" if h == "-" else bytes.fromhex(h).decode("utf-8")


# --------------------------------------------------------------------------- builds

class BuildError(Exception):
    def __init__(self, what, output):
        super().__init__(what)
        self.what = what
        self.output = output


def run(cmd, cwd=None, env=None, timeout=None, input=None):
    p = subprocess.run(cmd, cwd=cwd, env=env or ENV, timeout=timeout, input=input,
                       stdout=subprocess.PIPE, stderr=subprocess.STDOUT, text=True)
    return p.returncode, p.stdout


def lake_build(targets):
    """Builds the given lake targets. Returns (ok, output)."""
    rc, out = run(["lake", "build"] + list(targets), cwd=LEAN)
    return rc == 0, out


def strip_lean_comments(src):
    # nested block comments and line comments
    out = []
    i = 0
    depth = 0
    n = len(src)
    while i < n:
        if src.startswith("/-", i):
            depth += 1
            i += 2
        elif depth and src.startswith("-/", i):
            depth -= 1
            i += 2
        elif depth:
            i += 1
        elif src.startswith("--", i):
            while i < n and src[i] != "\n":
                i += 1
        else:
            out.append(src[i])
            i += 1
    return "".join(out)


FORBIDDEN = re.compile(r"\b(sorry|admit|native_decide|bv_decide|implemented_by|unsafe|extern)\b|^\s*axiom\s|maxHeartbeats\s+0", re.M)


def grep_forbidden():
    """Scans the Lean sources (comments stripped) for escape hatches."""
    hits = []
    for root, _, files in os.walk(LEAN):
        if ".lake" in root:
            continue
        for f in files:
            if not f.endswith(".lean"):
                continue
            p = os.path.join(root, f)
            src = strip_lean_comments(open(p).read())
            # string literals may legitimately contain the words (driver messages): drop them
            src = re.sub(r'"(\\.|[^"\\])*"', '""', src)
            for m in FORBIDDEN.finditer(src):
                hits.append(f"{os.path.relpath(p, LEAN)}: {m.group(0).strip()}")
    return hits


def audit(prop):
    """Elaborates Dm/Audit/<prop>.lean (`#print axioms` per property theorem).
    Returns (theorems: {name: [axioms]}, ok, raw output)."""
    path = os.path.join("Dm", "Audit", f"{prop}.lean")
    rc, out = run(["lake", "env", "lean", path], cwd=LEAN)
    thms = {}
    cur = None
    for line in out.splitlines():
        m = re.match(r"'([^']+)' depends on axioms: \[(.*)", line)
        if m:
            cur = m.group(1)
            rest = m.group(2)
            thms[cur] = []
            buf = rest
            if "]" in buf:
                thms[cur] = [a.strip() for a in buf.split("]")[0].split(",") if a.strip()]
                cur = None
            else:
                thms[cur] = [a.strip() for a in buf.split(",") if a.strip()]
            continue
        m = re.match(r"'([^']+)' does not depend on any axioms", line)
        if m:
            thms[m.group(1)] = []
            cur = None
            continue
        if cur is not None:
            buf = line
            done = "]" in buf
            thms[cur] += [a.strip() for a in buf.split("]")[0].split(",") if a.strip()]
            if done:
                cur = None
    return thms, rc == 0, out


def cargo_build_inproc():
    env = dict(ENV)
    env["CARGO_TARGET_DIR"] = TARGET
    lock = os.path.join(HARNESS, "inproc", "Cargo.lock")
    if not os.path.exists(lock):
        shutil.copy(os.path.join(REPO, "Cargo.lock"), lock)
    rc, out = run(["cargo", "build", "--offline", "--quiet"], cwd=os.path.join(HARNESS, "inproc"), env=env)
    if rc != 0:
        raise BuildError("cargo build of the in-process harness (includes /repo/impl/src by path) failed", out)
    return os.path.join(TARGET, "debug", "dmv-inproc")


def nightly_sysroot():
    rc, out = run(["rustc", "+nightly", "--print", "sysroot"])
    return out.strip().splitlines()[-1]


def build_oracle_rpf():
    src = os.path.join(HARNESS, "oracle_rpf", "main.rs")
    exe = os.path.join(TARGET, "oracle_rpf")
    os.makedirs(TARGET, exist_ok=True)
    if not os.path.exists(exe) or os.path.getmtime(exe) < os.path.getmtime(src):
        rc, out = run(["rustc", "+nightly", "-O", "--edition", "2021", src, "-o", exe])
        if rc != 0:
            raise BuildError("rustc +nightly build of the rustc_parse_format oracle failed", out)
    return exe


def drive(exe, lines, env=None, timeout=None):
    """Feeds request lines, returns answer lines (same length). A harness that stops answering (an expansion that does not
    terminate) is reported as a BuildError naming the first request without an answer, not waited for."""
    if not lines:
        return []
    if timeout is None:
        timeout = int(os.environ.get("VERIF_DRIVE_TIMEOUT", "0")) or max(300, len(lines) // 50)
    data = "\n".join(lines) + "\n"
    try:
        p = subprocess.run([exe], input=data, env=env or ENV, stdout=subprocess.PIPE,
                           stderr=subprocess.PIPE, text=True, timeout=timeout)
    except subprocess.TimeoutExpired as e:
        got = e.stdout or ""
        if isinstance(got, bytes):
            got = got.decode("utf-8", "replace")
        k = got.count("\n")
        # the harness buffers its answers: replay the tail one request at a time to name the one that hangs
        culprit = None
        for j in range(k, min(len(lines), k + 4000)):
            try:
                subprocess.run([exe], input=lines[j] + "\n", env=env or ENV, stdout=subprocess.PIPE, stderr=subprocess.PIPE,
                               text=True, timeout=20)
            except subprocess.TimeoutExpired:
                culprit = lines[j]
                break
        raise BuildError(f"{os.path.basename(exe)} did not finish within {timeout} s: it stopped answering "
                         + (f"at the request `{culprit[:300]}` (no answer within 20 s on its own: the expansion does not terminate)"
                            if culprit else f"after {k} of {len(lines)} requests"), got[-500:])
    outs = p.stdout.split("\n")
    if outs and outs[-1] == "":
        outs.pop()
    if len(outs) != len(lines):
        raise BuildError(f"{os.path.basename(exe)} answered {len(outs)} lines for {len(lines)} requests (rc={p.returncode})",
                         p.stderr[-2000:])
    return outs


def drive_lean(lines):
    return drive(os.path.join(LEAN, ".lake", "build", "bin", "dmdriver"), lines)


def drive_rpf(lines):
    env = dict(ENV)
    env["LD_LIBRARY_PATH"] = os.path.join(nightly_sysroot(), "lib")
    return drive(build_oracle_rpf(), lines, env=env)


# --------------------------------------------------------------------------- findings

def load_findings():
    """known-findings.txt: `known: property=Cxx key=<canonical key> what=...` / `fixed: ...`."""
    known = {}
    p = os.path.join(VERIF, "known-findings.txt")
    if os.path.exists(p):
        for line in open(p):
            line = line.strip()
            m = re.match(r"known:\s+property=(\S+)\s+key=(\S+)\s+what=(.*)", line)
            if m:
                known.setdefault(m.group(1), {})[m.group(2)] = m.group(3)
    return known


# --------------------------------------------------------------------------- result object

class Result:
    def __init__(self, prop, tier):
        self.prop = prop
        self.tier = tier
        self.t0 = time.time()
        self.violations = []      # (key, description, replay dict, found_input: bool)
        self.known_hits = []
        self.coverage = {}
        self.assumptions = []
        self.known = load_findings().get(prop, {})

    def violation(self, key, what, replay, found_input=True):
        """key: canonical identity of the failing input (used for known-findings)."""
        if key in self.known:
            if key not in [k for k, _ in self.known_hits]:
                self.known_hits.append((key, self.known[key]))
            return
        self.violations.append((key, what, replay, found_input))

    def finish(self, level="proof"):
        os.makedirs(EVIDENCE, exist_ok=True)
        os.makedirs(REPLAYS, exist_ok=True)
        for key, what in self.known_hits:
            print(f"KNOWN-FINDING: property={self.prop} {key} {what}")
        rc = 0
        seen = set()
        for key, what, replay, found in self.violations:
            if key in seen:
                continue
            seen.add(key)
            h = hashlib.sha1(key.encode()).hexdigest()[:12]
            path = os.path.join(REPLAYS, f"{self.prop}-{h}.json")
            with open(path, "w") as f:
                json.dump({"property": self.prop, "key": key, "what": what, "replay": replay,
                           "seed": seed(), "tier": self.tier}, f, indent=1)
            tail = "" if found else " no-failing-input-found"
            print(f"VIOLATION property={self.prop} replay={path}{tail}")
            log(f"  {what}")
            rc = 1
            if len(seen) >= 20:
                break
        ev = {
            "property_id": self.prop,
            "tier": self.tier,
            "seed": seed(),
            "level": level,
            "coverage": self.coverage,
            "assumptions": self.assumptions,
            "wall_s": round(time.time() - self.t0, 2),
            "violations": len(seen),
        }
        with open(os.path.join(EVIDENCE, f"{self.prop}.json"), "w") as f:
            json.dump(ev, f, indent=1)
        return rc


def proof_obligations(res, prop, modules, extra_obligations):
    """Builds the property module(s), audits axioms, scans for escape hatches.
    Fills coverage.obligations/discharged/checker_cmd/trusted_base; on failure registers a
    violation (no failing input by itself: callers search for one).
    extra_obligations: list of (name, ok: bool) for correspondence / table obligations.
    Returns list of names of obligations that failed."""
    failed = []
    targets = [f"Dm.Props.{m}" for m in modules] + ["dmdriver"]
    ok, out = lake_build(targets)
    thms, aok, aout = ({}, False, "")
    if ok:
        thms, aok, aout = audit(prop)
    hits = grep_forbidden()
    # every theorem stated in the property module(s) must be in the audit list (none escapes the axiom check)
    unaudited = []
    if ok and aok:
        for m in modules:
            try:
                text = open(os.path.join(LEAN, "Dm", "Props", f"{m}.lean")).read()
            except OSError:
                continue
            for n in re.findall(r"^\s*theorem\s+([^\s:({\[]+)", text, re.M):
                if not any(full.endswith("." + n) for full in thms):
                    unaudited.append(f"{m}.{n}")
    names = sorted(thms)
    n_thm = max(len(names), 1)
    discharged = 0
    bad_axioms = {}
    if ok and aok and not hits:
        for n in names:
            extra = [a for a in thms[n] if a not in ALLOWED_AXIOMS]
            if extra:
                bad_axioms[n] = extra
            else:
                discharged += 1
    if not ok:
        failed.append("lake build " + " ".join(targets))
        res.coverage["lean_build_output"] = out[-3000:]
    elif not aok:
        failed.append(f"lake env lean Dm/Audit/{prop}.lean")
        res.coverage["lean_audit_output"] = aout[-3000:]
    for h in hits:
        failed.append("forbidden construct: " + h)
    for n in unaudited:
        failed.append(f"theorem {n} is not in Dm/Audit/{prop}.lean (#print axioms missing)")
    for n, ax in bad_axioms.items():
        failed.append(f"theorem {n} depends on axioms {ax}")
    for name, eok in extra_obligations:
        n_thm += 1
        if eok:
            discharged += 1
        else:
            failed.append(name)
    rechecked = None
    if ok and res.tier == "thorough":
        # independent re-check of the compiled property modules by leanchecker (replays every declaration in the kernel)
        rechecked = True
        for m in modules:
            p = subprocess.run(["lake", "env", "leanchecker", f"Dm.Props.{m}"], cwd=LEAN, env=ENV, stdout=subprocess.PIPE,
                               stderr=subprocess.STDOUT, text=True, timeout=1800)
            n_thm += 1
            if p.returncode == 0:
                discharged += 1
            else:
                rechecked = False
                failed.append(f"leanchecker Dm.Props.{m}")
                res.coverage["leanchecker_output"] = p.stdout[-2000:]
    axioms_used = sorted({a for n in names for a in thms[n]})
    res.coverage.update({
        "obligations": n_thm,
        "discharged": discharged,
        "checker_cmd": f"cd {LEAN} && lake build {' '.join(targets)} && lake env lean Dm/Audit/{prop}.lean",
        "theorems": {n: thms[n] for n in names},
        "trusted_base": [
            "Lean 4.33.0 kernel; axioms actually used by the property theorems: " + (", ".join(axioms_used) or "none"),
            "no sorry/admit/axiom/native_decide/bv_decide/implemented_by/unsafe in lean/ (scanned on this run)",
        ] + (["property modules re-checked by leanchecker on this run"] if rechecked else []),
    })
    return failed


# --------------------------------------------------------------------------- scratch crates

def _scratch_dir(name):
    d = os.path.join(SCRATCH, name)
    if os.path.exists(d):
        shutil.rmtree(d)
    os.makedirs(os.path.join(d, "src"))
    return d


def scratch_crate(name, main_rs, features=("full",), default_features=True, extra_deps="", edition="2021",
                  nightly=False):
    """Writes a scratch crate that uses the REAL proc-macro from /repo (hooks off)."""
    d = _scratch_dir(name)
    feats = ", ".join(f'"{f}"' for f in features)
    df = "" if default_features else ", default-features = false"
    with open(os.path.join(d, "Cargo.toml"), "w") as f:
        f.write(f"""[package]
name = "{name.replace('-', '_')}"
version = "0.0.0"
edition = "{edition}"

[workspace]

[dependencies]
derive_more = {{ path = "{REPO}", features = [{feats}]{df} }}
{extra_deps}

[profile.dev]
debug = false
opt-level = 0
""")
    with open(os.path.join(d, "src", "main.rs"), "w") as f:
        f.write(main_rs)
    lock = os.path.join(REPO, "Cargo.lock")
    if os.path.exists(lock):
        shutil.copy(lock, os.path.join(d, "Cargo.lock"))
    return d


def scratch_env():
    env = dict(ENV)
    env["CARGO_TARGET_DIR"] = os.path.join(SCRATCH, "target")
    return env


def scratch_check(d, nightly=False, timeout=1800):
    """cargo check --message-format=json. Returns list of diagnostics (dicts) of level error|warning."""
    cmd = ["cargo"] + (["+nightly"] if nightly else []) + ["check", "--offline", "--message-format=json", "--quiet"]
    p = subprocess.run(cmd, cwd=d, env=scratch_env(), stdout=subprocess.PIPE, stderr=subprocess.PIPE, text=True, timeout=timeout)
    diags = []
    for line in p.stdout.splitlines():
        if not line.startswith("{"):
            continue
        try:
            m = json.loads(line)
        except ValueError:
            continue
        if m.get("reason") == "compiler-message" and m.get("target", {}).get("name", "").startswith(os.path.basename(d).replace("-", "_")):
            msg = m["message"]
            if msg.get("level") in ("error", "warning"):
                diags.append(msg)
    return p.returncode, diags, p.stderr


def diag_lines(msg):
    """Line numbers in src/main.rs a diagnostic points to (following macro expansions)."""
    lines = []

    def walk(sp):
        if sp.get("file_name", "").endswith("src/main.rs"):
            lines.append(sp["line_start"])
        exp = sp.get("expansion")
        if exp and exp.get("span"):
            walk(exp["span"])
    for sp in msg.get("spans", []):
        walk(sp)
    return lines


def scratch_run(d, nightly=False, timeout=1800):
    """cargo run. Returns (rc, stdout, stderr)."""
    cmd = ["cargo"] + (["+nightly"] if nightly else []) + ["run", "--offline", "--quiet"]
    p = subprocess.run(cmd, cwd=d, env=scratch_env(), stdout=subprocess.PIPE, stderr=subprocess.PIPE, text=True, timeout=timeout)
    return p.returncode, p.stdout, p.stderr


def scratch_cleanup(d):
    shutil.rmtree(d, ignore_errors=True)


class CaseFile:
    """Builds a main.rs made of `mod c<N> { ... }` blocks and remembers their line ranges."""

    def __init__(self, prelude=""):
        self.lines = prelude.split("\n")
        self.ranges = []   # (case id, first line, last line) 1-based
        self.mains = []

    def add(self, cid, body, main_call=None):
        start = len(self.lines) + 1
        self.lines.append(f"pub mod c{cid} {{")
        self.lines.append("    #![allow(unused_imports)] use super::*;")
        self.lines += body.split("\n")
        self.lines.append("}")
        self.ranges.append((cid, start, len(self.lines)))
        if main_call:
            self.mains.append(main_call)

    def source(self, main_extra=""):
        return "\n".join(self.lines) + "\nfn main() {\n" + "\n".join(self.mains) + "\n" + main_extra + "\n}\n"

    def case_of_line(self, line):
        for cid, a, b in self.ranges:
            if a <= line <= b:
                return cid
        return None

    def errors_by_case(self, diags, level="error"):
        out = {}
        stray = []
        for m in diags:
            if m.get("level") != level:
                continue
            cids = {self.case_of_line(l) for l in diag_lines(m)} - {None}
            if not cids:
                stray.append(m.get("message", ""))
            for c in cids:
                out.setdefault(c, []).append((m.get("code") or {}).get("code", "") + ":" + m.get("message", ""))
        return out, stray


def hook_fields(ans):
    """Parses the `attr` hook answer `ok k=v<GS>k=v...` into a dict (lists split at RS, parts at US)."""
    assert ans.startswith("ok ")
    out = {}
    for part in ans[3:].split("\x1d"):
        k, _, v = part.partition("=")
        out[k] = v
    return out

"""C19 — expansion is a deterministic pure function of the derive input."""
import os
import subprocess
import sys

from . import common as C
from . import fmtgen as G
from . import c08, c09, c10, c11, c12, c14

sys.path.insert(0, os.path.join(C.VERIF, "tools"))
import gen_tables  # noqa: E402

OPS = ["Add", "Sub", "BitAnd", "BitOr", "BitXor", "AddAssign", "SubAssign", "Mul", "Div", "Rem", "Shr", "Shl", "MulAssign", "DivAssign",
       "ShlAssign", "Not", "Neg", "Sum", "Product"]

# inputs that reach every site where a hashed collection is iterated while tokens are emitted
HASH_HEAVY = [
    ("TryInto", "#[try_into(owned, ref, ref_mut)] enum E { A(u8), B(u16), C(u32), D(u64), F(i8), G(i16), H(i32), I(i64), J(u8, u16), K(u16, u8), L(String), M { x: bool }, N(u8), O(i64), P }"),
    ("TryInto", "enum E<T, U> { A(T), B(U), C(Vec<T>), D(Vec<U>), F(Option<T>), G(Box<U>), H(T, U), I(U, T), #[try_into(ignore)] J(u8), K(T), L }"),
    ("TryInto", "#[try_into(ref)] enum E { A(u8), B(u16), #[try_into(owned, ref_mut)] C(u32), D(u64), #[try_into(ref_mut)] F(u8), G(u16, u32), H(u32, u16) }"),
    ("FromStr", "enum E { Alpha, Beta, Gamma, Delta, Epsilon, Zeta, Eta, Theta, Iota, Kappa, Lambda, Mu, Nu, Xi, Omicron, Pi, Rho, Sigma, Tau, Upsilon }"),
    ("FromStr", "enum E { Ab, AB, aB, ab, Cd, CD, cd, Ef, EF, Gh, gh, GH, Ij, Kl, KL, Mn }"),
    ("FromStr", "enum E { FooBar, Foo_Bar, foo_bar, FOOBAR, BazQux, baz_qux, Quux }"),
    ("Mul", "struct S { a: u8, b: u16, c: u32, d: u64, e: i8, f: i16, g: i32, h: i64, i: f32, j: f64, k: u8, l: i64 }"),
    ("Mul", "struct S<T, U>(T, U, Vec<T>, Option<U>, u8, T, Box<U>, i32);"),
    ("Div", "struct S(u8, u16, u32, u64, i8, i16, i32, i64, usize, isize, u128, i128);"),
    ("MulAssign", "struct S { a: u8, b: u16, c: u32, d: u64, e: i8, f: i16, g: i32, h: i64, i: f32, j: f64 }"),
    ("ShlAssign", "struct S<T, U>(T, U, Vec<T>, Option<U>, u8, T, Box<U>, i32);"),
    # many distinct bounds per impl: formatting derives on generic items, with enum-level / variant-level / field-level formats
    ("Display", '#[display("<{_variant}>")] enum E<A, B, C, D, F> { #[display("{_0} {_1:?} {_2:x} {_3:e}")] V(A, B, C, D), #[display("{a}{b:?}{c:o}")] W { a: A, b: B, c: C }, X(F) }'),
    ("UpperHex", '#[upper_hex("[{_variant}] {}", 1)] enum E<A, B, C, D> { #[upper_hex("{_0:X} {_1:X} {_2:?} {_3}")] V(A, B, C, D), W(A), #[upper_hex("{x:X}{y:b}")] Z { x: B, y: C } }'),
    ("Display", '#[display("{a} {b:?} {c:x} {d:e} {e:p} {f:b} {g:o}")] struct S<A, B, C, D, E, F, G> { a: A, b: B, c: C, d: D, e: E, f: F, g: G }'),
    ("Debug", 'struct S<A, B, C, D, E> { #[debug("{a:x}")] a: A, #[debug("{b} {c:?}")] b: B, c: C, #[debug(skip)] d: D, e: E }'),
    ("Debug", '#[debug(bound(A: Clone, B: Copy, C: Default))] enum E<A, B, C, D> { #[debug("{_0:?}{_1}")] V(A, B), W { #[debug("{x:e}")] x: C, y: D }, U }'),
    ("Display", '#[display(bound(A: Clone, D: Copy))] #[display("{_variant}/{_variant}")] enum E<A, B, C, D> { #[display("{_0}{_1}")] V(A, B), #[display("{_0:?}")] W(C), X(D) }'),
    # near twins: items that agree in everything a cache key could plausibly be made of (the literal, the item name, the
    # attribute name) and differ only in the arguments / fields - an answer remembered from one must not leak into the other,
    # in whichever order they are expanded (added after seed C19-j: a process-wide memo keyed by the literal alone)
    ("Display", '#[display("<{}>", _variant)] enum E { #[display("x={_0}")] A(i32), B(u8) }'),
    ("Display", '#[display("<{}>", _0)] enum E { #[display("x={_0}")] A(i32), B(u8) }'),
    ("Display", '#[display("{v}", v = _variant)] enum E { #[display("x={_0}")] A(i32), B(u8) }'),
    ("Display", '#[display("{v}", v = _0)] enum E { #[display("x={_0}")] A(i32), B(u8) }'),
    ("Display", '#[display("{0} {x}", _0, x = 1)] struct S<T>(T);'), ("Display", '#[display("{0} {x}", 1, x = _0)] struct S<T>(T);'),
    ("Debug", 'struct S<T, U> { #[debug("{}", a)] a: T, b: U }'), ("Debug", 'struct S<T, U> { #[debug("{}", b)] a: T, b: U }'),
    ("LowerHex", '#[lower_hex("{:x}", _0)] struct S<T, U>(T, U);'), ("LowerHex", '#[lower_hex("{:x}", _1)] struct S<T, U>(T, U);'),
    ("Display", '#[display("{_0}")] struct S<T>(T);'), ("Display", '#[display("{_0}")] struct S<T>(T, u8);'),
    ("From", "#[from(u8, u16)] struct S(u32);"), ("From", "#[from(u8, u16)] struct S(u64);"),
    ("AsRef", "#[as_ref(str)] struct S(String);"), ("AsRef", "#[as_ref(str)] struct S(Box<str>);"),
    ("TryInto", "#[try_into(ref)] enum E { A(u8), B(u16) }"), ("TryInto", "#[try_into(ref)] enum E { A(u8), B(u8) }"),
    # the same type text is a type parameter of one item and a concrete type of the other (a memo keyed by the type's tokens
    # would carry "mentions a parameter" from one to the other: seed C19-k)
    ("Display", "struct S<V>(Id, V);"), ("Display", "struct S<Id>(Id);"), ("Debug", "struct S<V> { a: Id, b: V }"), ("Debug", "struct S<Id> { a: Id }"),
    ("Display", '#[display("{a} {b}")] struct S<T> { a: Vec<U>, b: T }'), ("Display", '#[display("{a} {b}")] struct S<U> { a: Vec<U>, b: T }'),
    ("LowerHex", "enum E<X> { A(X), B(Y) }"), ("LowerHex", "enum E<Y> { A(X), B(Y) }"),
    # type lists spread over several attributes (merged by the shared attribute helpers)
    ("From", "#[from(u8)] #[from(u16, u32)] #[from(u64)] #[from(i8, i16)] #[from(i32)] struct S(i128);"),
    ("From", "enum E { #[from(u8)] #[from(u16)] #[from(u32)] #[from(u64)] A(u128), #[from(i8, i16)] #[from(i32, i64)] B(i128) }"),
    ("AsRef", "#[as_ref(u8)] #[as_ref([u8])] #[as_ref(str)] #[as_ref(String)] #[as_ref(Vec<u8>)] struct S(String);"),
    ("AsMut", "struct S { #[as_mut(u8)] #[as_mut([u8])] #[as_mut(Vec<u8>)] #[as_mut(Box<u8>)] a: Vec<u8>, #[as_mut(i8)] #[as_mut(i16)] #[as_mut(i32)] b: i64 }"),
    ("Into", "#[into(u16)] #[into(u32, u64)] #[into(ref(u8))] #[into(ref_mut(u8), owned(u128))] #[into(i16, i32)] struct S(u8);"),
    # ignored fields in front of the selected source / backtrace: two index spaces (among all fields, among the enabled ones)
    ("Error", "struct S { #[error(ignore)] a: u8, source: E1 }"), ("Error", "struct S(#[error(ignore)] u8, #[error(source)] E1);"),
    ("Error", "struct S { #[error(ignore)] a: u8, #[error(ignore)] b: u8, #[error(source)] c: E1, d: u8 }"),
    ("Error", "struct S(#[error(ignore)] u8, #[error(ignore)] u8, #[error(ignore)] u8, #[error(source)] E1);"),
    ("Error", "enum E { A(#[error(ignore)] u8, #[error(source)] E1), B { #[error(ignore)] a: u8, #[error(ignore)] b: u8, source: E1 } }"),
    ("Error", "struct S(#[error(ignore)] u8, E1, #[error(backtrace)] Backtrace);"),
    ("Error", "struct E<A, B, C, D> { source: A, b: B, c: C, d: D }"),
    ("Error", "enum E<A, B, C, D, F> { V1 { source: A }, V2(#[error(source)] B, u8), V3(C), V4 { #[error(source)] x: D, y: F }, V5 }"),
    ("Error", "enum E<A, B, C> { V1 { source: Box<A> }, V2(#[error(source)] Vec<B>), V3(#[error(source)] Option<C>, A), V4(#[error(not(source))] B) }"),
    ("From", "enum E { #[from(u8, u16, u32, i8, i16, i32)] A(i64), #[from(forward)] B(String), C(bool, char), D { x: f32, y: f64 }, #[from] F }"),
    ("Into", "#[into(owned(i64, i128, u64), ref(i32), ref_mut)] struct S(i32);"),
    ("Into", "#[into(owned, ref, ref_mut)] struct S<T, U> { a: T, #[into(skip)] b: U, c: Vec<T>, d: u8 }"),
    ("Debug", "#[debug(bound(T: Clone, U: Copy))] struct S<T, U, V, W> { a: T, b: U, c: Vec<V>, #[debug(\"{d:?}\")] d: Option<W>, #[debug(skip)] e: u8 }"),
    ("Display", "#[display(bound(T: Clone))] #[display(\"{a} {b} {c:?} {d:x}\")] struct S<T, U, V, W> { a: T, b: U, c: V, d: W }"),
    ("Display", "enum E<T, U, V> { #[display(\"{_0} {_1:?}\")] A(T, U), #[display(\"{x:b}\")] B { x: V }, #[display(\"c\")] C }"),
    ("AsRef", "struct S<T, U> { #[as_ref(T, [u8], str, Vec<U>)] a: T, #[as_ref(forward)] b: U, #[as_ref] c: u8 }"),
    ("AsMut", "#[as_mut(i32, i64, u8, [u8], str, String)] struct S(String);"),
    ("IsVariant", "enum E { A, B(u8), C { x: u8 }, D, F, G, H, I, J, K }"),
    ("Unwrap", "#[unwrap(owned, ref, ref_mut)] enum E { A, B(u8), C(u8, u16), D, F(String), G, H(i8), I, J, K }"),
    ("TryUnwrap", "#[try_unwrap(owned, ref, ref_mut)] enum E { A, B(u8), C(u8, u16), D, F(String), G, H(i8), I, J, K }"),
    ("TryFrom", "#[try_from(repr)] #[repr(u16)] enum E { A = 1, B, C = 10, D, F = 100, G, H = 1000, I }"),
    ("IntoIterator", "#[into_iterator(owned, ref, ref_mut)] struct S<T>(Vec<T>);"),
    ("Constructor", "struct S<T, U, const N: usize> { a: T, b: U, c: [u8; N], d: i32 }"),
    ("Sum", "struct S<T, U>(T, U, i32, T);"),
    ("Add", "enum E<T, U> { A(T, U), B { x: T, y: i32 }, C, D(U) }"),
]


def gen_inputs(rng, n_random, inproc):
    cases = list(HASH_HEAVY)
    names = ["Alpha", "BetaGamma", "fn", "HTTPError", "snake_v", "X", "V2"]
    ans = C.drive(inproc, [f"case snake {C.hexs(n)}" for n in names])
    table = {n: C.unhex(a) for n, a in zip(names, ans)}
    for _ in range(n_random):
        k = rng.below(11)
        if k == 8:
            # Error: the attribute x name x type grid of C09, struct or enum variant, with an item-level attribute at times
            d = "Error"
            named = rng.chance(1, 2)
            nf = rng.below(4)
            names = tuple(rng.sample(c09.NAMES, nf)) if named else tuple(("o", f"_{i}") for i in range(nf))
            fs = tuple((rng.choice(c09.ATTRS), rng.choice(c09.TYPES)) for _ in range(nf))
            src = c09.src_and_req(named, names, fs, rng.chance(1, 2), rng.choice(["", "", "#[error(ignore)] ", "#[error(forward)] "]))[0]
        elif k == 9:
            d = "TryFrom"
            e = c12.gen_enum(rng)
            src = c12.enum_src(e, c12.repr_attrs_for(rng, e["repr"])[0])
        elif k == 10:
            d = "FromStr"
            vs = rng.sample(["Foo", "foo", "FOO", "Bar", "r#type", "Baz", "baz", "Qux"], 1 + rng.below(5))
            src = rng.choice(["enum E { " + ", ".join(vs) + " }", "struct S(u8);", "struct S { a: u16 }", "enum E { A(u8), B }", "struct U;"])
        elif k == 0:
            d = rng.choice(["IsVariant", "Unwrap", "TryUnwrap", "TryInto", "TryInto"])
            src, _ = c11.gen_enum(rng, d, lambda x: table[x])
        elif k == 1:
            d = rng.choice(list(c14.LEGACY))
            src, _ = c14.gen_legacy(rng, d)
        elif k == 2:
            d = rng.choice(["AsRef", "AsMut"])
            src, _ = c14.gen_as(rng, d)
        elif k == 3:
            d = "From"
            src = c08.gen_from_case(rng)[0]
        elif k == 4:
            d = "Into"
            src = c08.gen_into_case(rng)[0]
        elif k == 5:
            d = rng.choice(OPS)
            src = c10.gen_item(rng, d)[0]
        else:
            d = rng.choice(G.TRAITS)
            src = G.gen_item(rng, d)["src"]
        cases.append((d, src))
    seen, out = set(), []
    for c in cases:
        if c not in seen:
            seen.add(c); out.append(c)
    return out


def real_macro_runs(res, n):
    """The C15 corpus expanded by rustc itself (`-Zunpretty=expanded`, nightly) in `n` fresh compiler
    processes with the proc-macro rebuilt from the working tree: byte comparison."""
    corpus = open(os.path.join(C.VERIF, "checks", "data", "c15_corpus.rs")).read()
    extra = "\n".join(f"pub mod h{i} {{ #[derive(derive_more::{d})] {src} }}" for i, (d, src) in enumerate(HASH_HEAVY)
                      if d in ("TryInto", "FromStr", "Mul", "Div", "MulAssign", "ShlAssign", "IsVariant"))
    d = C.scratch_crate("c19-expand", "#![allow(dead_code, unused)]\n" + corpus + "\n" + extra + "\nfn main() {}\n")
    outs = []
    try:
        for i in range(n):
            p = subprocess.run(["cargo", "+nightly", "rustc", "--offline", "--quiet", "--", "-Zunpretty=expanded"], cwd=d,
                               env={**C.scratch_env(), "CARGO_TARGET_DIR": os.path.join(C.SCRATCH, "target-nightly")},
                               stdout=subprocess.PIPE, stderr=subprocess.PIPE, text=True, timeout=1800)
            if p.returncode != 0:
                raise C.BuildError("C19: rustc -Zunpretty=expanded failed on the corpus", p.stderr[-3000:])
            outs.append(p.stdout)
            # force a fresh compiler process to re-expand: touch the source
            os.utime(os.path.join(d, "src", "main.rs"))
        for i, o in enumerate(outs[1:], 1):
            if o != outs[0]:
                a, b = outs[0].splitlines(), o.splitlines()
                k = next((j for j in range(min(len(a), len(b))) if a[j] != b[j]), min(len(a), len(b)))
                res.violation("rustc-expanded:" + (a[k] if k < len(a) else "")[:80],
                              f"two compiler processes expand the corpus differently (line {k}): {a[k][:150] if k < len(a) else None!r} vs {b[k][:150] if k < len(b) else None!r}",
                              {"cmd": "rustc-expanded", "run": i, "line": k, "first": a[max(0, k - 3):k + 3], "other": b[max(0, k - 3):k + 3]})
                break
        return len(outs), len(outs[0]) if outs else 0
    finally:
        C.scratch_cleanup(d)
        subprocess.run(["rm", "-rf", os.path.join(C.SCRATCH, "target-nightly")])


def run(tier):
    res = C.Result("C19", tier)
    rng = C.Rng(C.seed())
    extra, cov = [], {}
    info = None
    try:
        exe = gen_tables.build_translate()
        os.makedirs(gen_tables.GEN, exist_ok=True)
        info = gen_tables.gen_sites(exe)
        inproc = C.cargo_build_inproc()
        cases = gen_inputs(rng, 250 if tier == "quick" else 4000, inproc)
        lines = [f"expand {d} {C.hexs(src)}" for d, src in cases]
        n_proc = 4 if tier == "quick" else 10
        runs = []
        for p in range(n_proc):
            order = list(range(len(lines)))
            if p == 1:
                order.reverse()
            elif p >= 2:
                order = rng.sample(order, len(order))
            # every input twice in a row in the first process: consecutive hasher instances
            seq = [i for i in order for _ in range(2 if p == 0 else 1)]
            out = C.drive(inproc, [lines[i] for i in seq])
            got = {}
            for i, o in zip(seq, out):
                got.setdefault(i, []).append(o)
            runs.append(got)
        n_ok = 0
        diffs = 0
        for i, (d, src) in enumerate(cases):
            outs = [o for r in runs for o in r[i]]
            if outs[0].startswith("ok"):
                n_ok += 1
            if any(o != outs[0] for o in outs):
                diffs += 1
                j = next(k for k, o in enumerate(outs) if o != outs[0])
                a, b = outs[0], outs[j]
                k = next((x for x in range(min(len(a), len(b))) if a[x] != b[x]), 0)
                if diffs <= 5:
                    res.violation(f"expand:{d}:{src[:120]}", f"#[derive({d})] {src[:200]}: expansions differ between runs (first at char {k}): ...{a[max(0, k - 60):k + 80]!r} vs ...{b[max(0, k - 60):k + 80]!r}",
                                  {"cmd": "expand-compare", "derive": d, "source": src, "first": a[:3000], "other": b[:3000], "processes": n_proc})
        n_real, real_len = (0, 0)
        if tier == "thorough" or os.environ.get("VERIF_C19_REAL"):
            n_real, real_len = real_macro_runs(res, 3)
        extra = [("translator: every HashMap/HashSet identifier token of impl/src is accounted for", not info["problems"]),
                 ("regenerated table: all sites use the crate's fixed-hasher aliases (model evaluation)",
                  all(m[2] == ".utilsAlias" for m in info["mentions"]) and info["alias_ok"] and info["hasher_ok"]),
                 ("regenerated table: no global state / impure source mentioned", not info["impure"])]
        cov = {
            "evaluations": len(cases) * (n_proc + 1) + n_real,
            "distinct_nontrivial": len(cases),
            "rule": "distinct (derive, item) inputs, each expanded by the working-tree code in every process / order and compared byte for byte",
            "traces_validated_against_impl": len(cases),
            "model_vs_impl_disagreements": 0,
            "distribution": {"inputs": len(cases), "hash_heavy": len(HASH_HEAVY), "accepted": n_ok, "fresh_processes": n_proc,
                             "orders": "as generated (each input twice in a row), reversed, shuffled x" + str(n_proc - 2),
                             "inputs_with_differing_expansions": diffs, "hashed_collection_mentions": len(info["mentions"]),
                             "impure_mentions": info["impure"], "rustc_expanded_runs": n_real, "rustc_expanded_bytes": real_len},
            "samples": [{"derive": d, "item": s[:100]} for d, s in cases[:3]],
        }
        if info["problems"]:
            res.coverage["translator_problems"] = info["problems"]
    except (C.BuildError, RuntimeError, subprocess.CalledProcessError) as e:
        what = getattr(e, "what", str(e))
        res.violation("build", what, {"output": getattr(e, "output", "")[-3000:]}, found_input=False)
        cov = {"build_error": what}
    failed = C.proof_obligations(res, "C19", ["C19"], extra)
    if failed and not res.violations:
        bad = [m for m in (info or {}).get("mentions", []) if m[2] != ".utilsAlias"]
        res.violation("obligations:" + ";".join(failed)[:200], "proof obligation / translator tie no longer checks: " + "; ".join(failed)[:300] +
                      (f"; sites not using the fixed hasher: {bad[:5]}" if bad else "") +
                      (f"; impure mentions: {info['impure'][:5]}" if info and info["impure"] else ""),
                      {"failed_obligations": failed, "sites": bad, "impure": (info or {}).get("impure"),
                       "note": "all inputs expanded identically in every process and order explored"}, found_input=False)
    res.coverage.update(cov)
    res.coverage["impl_vs_oracle_failures"] = len(res.violations)
    res.coverage["trusted_base"] += [
        "translator (harness/oracle_syn `translate sites` + tools/gen_tables.py): syn's parse of impl/src, resolution of a `HashMap`/`HashSet` mention through the file's `use` items; checked by counting identifier tokens, not proved",
        "std's `DefaultHasher::default()` is the same function in every process (SipHash with zero keys) and syn's / proc_macro2's `Hash` impls do not hash addresses: trusted, observed by the multi-process comparison",
        "the expander is modelled abstractly (tokens = f(item, iteration orders, global state)); that nothing else of the process reaches the tokens (allocation addresses, spans are not part of the token text) is an assumption observed by the byte comparison",
    ]
    return res.finish()

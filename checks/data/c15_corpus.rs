// Corpus for C15: every derive, the code paths of its expansion. User-side tokens use only
// primitives, items defined here and `::core` / `::std` absolute paths, so the corpus itself is
// valid in every scope. Every item also derives derive_more::Debug (used for the behaviour digest).
#[derive(derive_more::Debug, derive_more::Add, derive_more::Sub, derive_more::BitAnd, derive_more::BitOr, derive_more::BitXor,
         derive_more::AddAssign, derive_more::SubAssign, derive_more::BitAndAssign, derive_more::BitOrAssign, derive_more::BitXorAssign,
         derive_more::Mul, derive_more::Div, derive_more::Rem, derive_more::Shr, derive_more::Shl,
         derive_more::MulAssign, derive_more::DivAssign, derive_more::RemAssign, derive_more::ShrAssign, derive_more::ShlAssign,
         derive_more::Not, derive_more::Neg, derive_more::Sum, derive_more::Constructor, derive_more::From, derive_more::Into,
         derive_more::Display, derive_more::Binary, derive_more::Octal, derive_more::LowerHex, derive_more::UpperHex, derive_more::LowerExp, derive_more::UpperExp,
         derive_more::FromStr, derive_more::Deref, derive_more::DerefMut, derive_more::AsRef, derive_more::AsMut)]
pub struct Tup(pub i32);

#[derive(derive_more::Debug, derive_more::Add, derive_more::Sub, derive_more::BitAnd, derive_more::BitOr, derive_more::BitXor,
         derive_more::AddAssign, derive_more::SubAssign, derive_more::BitAndAssign, derive_more::BitOrAssign, derive_more::BitXorAssign,
         derive_more::Mul, derive_more::Div, derive_more::Rem, derive_more::Shr, derive_more::Shl,
         derive_more::MulAssign, derive_more::DivAssign, derive_more::RemAssign, derive_more::ShrAssign, derive_more::ShlAssign,
         derive_more::Not, derive_more::Neg, derive_more::Sum, derive_more::Constructor, derive_more::From, derive_more::Into,
         derive_more::Display)]
#[display("{a}/{b:>4}")]
pub struct Named { pub a: i32, pub b: i32 }

#[derive(derive_more::Debug, derive_more::Add, derive_more::Sum, derive_more::Product, derive_more::Mul, derive_more::Div, derive_more::Rem, derive_more::Shr, derive_more::Shl,
         derive_more::MulAssign, derive_more::DivAssign, derive_more::RemAssign, derive_more::ShrAssign, derive_more::ShlAssign)]
#[mul(forward)] #[div(forward)] #[rem(forward)] #[shr(forward)] #[shl(forward)]
#[mul_assign(forward)] #[div_assign(forward)] #[rem_assign(forward)] #[shr_assign(forward)] #[shl_assign(forward)]
pub struct Fwd(pub i32);

#[derive(derive_more::Debug, derive_more::Add, derive_more::Sub, derive_more::BitAnd, derive_more::BitOr, derive_more::BitXor, derive_more::Not, derive_more::Neg,
         derive_more::From, derive_more::IsVariant, derive_more::TryInto, derive_more::Display)]
#[try_into(owned, ref, ref_mut)]
pub enum En { One(i32), Two { x: i64 }, #[display("unit")] #[from(ignore)] Unit }

#[derive(derive_more::Debug, derive_more::Unwrap, derive_more::TryUnwrap)]
#[unwrap(owned, ref, ref_mut)] #[try_unwrap(owned, ref, ref_mut)]
pub enum UnwEn { One(i32), Two(i64, u8), Unit }

#[derive(derive_more::Debug, derive_more::Not, derive_more::Neg)]
pub enum EnNoUnit { One(i32), Two { x: i64 } }

#[derive(derive_more::Debug, derive_more::Display, derive_more::FromStr, derive_more::TryFrom, derive_more::IsVariant, derive_more::Unwrap, derive_more::TryUnwrap)]
#[try_from(repr)] #[repr(u8)]
pub enum Units { Alpha = 1, Beta = 2, #[display("G")] Gamma = 4 }

#[derive(derive_more::Debug, derive_more::Display, derive_more::FromStr)]
#[display(rename_all = "snake_case")]
pub enum Renamed { FirstOne, SecondOne }

#[derive(derive_more::Debug, derive_more::TryFrom)]
#[try_from(repr)] #[repr(i16)]
pub enum ReprD { A = -1, B = 300 }

#[derive(derive_more::Debug, derive_more::Display, derive_more::Pointer)]
#[display("<{_0:p}>")]
pub struct Ptr(pub &'static i32);

#[derive(derive_more::Debug, derive_more::Display)]
#[debug("D<{}>", self.0 + 1.0)] #[display("{_0:>+8.3e}")]
pub struct Fmt1(pub f64);

#[derive(derive_more::Debug, derive_more::Display)]
#[debug(bound(T: ::core::fmt::Debug))] #[display(bound(T: ::core::fmt::Display))]
#[display("{a} {b:?}", b = self.b)]
pub struct Gen<T> { pub a: T, #[debug(skip)] pub b: i32, #[debug("{c:#x}")] pub c: u8 }

#[derive(derive_more::Debug, derive_more::Display)]
pub enum FmtEn<T> { #[display("a{_0}")] A(T), #[debug("B:{x}")] #[display("b{x:03}")] B { x: i32 }, C }

/// an enum-level format wrapping what each variant prints by itself (`_variant`): own format, single field without one,
/// unit variants with and without one
#[derive(derive_more::Display)]
#[display("<{_variant}>")]
pub enum Wrapped<T> { #[display("a{_0}")] A(T), B(i32), #[display("c{x}")] C { x: u8 }, #[display("u")] U, Plain }
#[derive(derive_more::LowerHex)]
#[lower_hex("[{_variant}|{}]", 1 + 1)]
pub enum WrappedHex { A(u8), #[lower_hex("{_0:x}{_1:x}")] B(u8, u16) }

#[derive(derive_more::Debug)]
pub struct DbgTuple(pub i32, #[debug(skip)] pub u8, pub i64);
#[derive(derive_more::Debug)]
pub struct DbgUnit;
#[derive(derive_more::Debug)]
pub enum DbgEn { A(i32, #[debug(ignore)] u8), B { #[debug(ignore)] x: i32, y: u8 }, C }

#[derive(derive_more::Debug, derive_more::Display, derive_more::Error)]
#[display("inner")]
pub struct Inner;
#[derive(derive_more::Debug, derive_more::Display, derive_more::Error)]
#[display("outer")]
pub struct Outer { pub source: Inner }
#[derive(derive_more::Debug, derive_more::Display, derive_more::Error)]
#[display("outer2")]
pub struct Outer2(#[error(source)] pub Inner, pub i32);
#[derive(derive_more::Debug, derive_more::Display, derive_more::Error)]
#[display("generr")]
pub struct GenErr<E> { pub source: E }
#[derive(derive_more::Debug, derive_more::Display, derive_more::Error)]
pub enum ErrEn {
    #[display("a")] A { source: Inner },
    #[display("b")] B(#[error(source)] Inner, i32),
    #[display("c")] C(Inner),
    #[display("d")] D(#[error(not(source))] Inner),
    #[display("e")] E,
}

#[derive(derive_more::Debug, derive_more::From)]
#[from(forward)]
pub struct FromFwd(pub i64);
#[derive(derive_more::Debug, derive_more::From, derive_more::Into)]
#[from(i8, i16)] #[into(i64, i128)]
pub struct FromTypes(pub i32);
#[derive(derive_more::Debug, derive_more::From, derive_more::Into)]
#[into(owned, ref, ref_mut)]
pub struct IntoRefs { pub a: i32, #[into(skip)] pub b: u8 }
#[derive(derive_more::Debug, derive_more::From)]
pub enum FromEn { A(i64), C { x: i8, y: i8 }, #[from(skip)] E(i64) }
#[derive(derive_more::Debug, derive_more::From)]
pub enum FromEn2 { #[from(forward)] A(i64), E(i32) }
#[derive(derive_more::Debug, derive_more::From)]
pub enum FromEn3 { #[from(u8, u16)] B(u32), #[from] D, X(i64) }
#[derive(derive_more::Debug, derive_more::Into)]
pub struct IntoField { #[into(i64)] pub a: i32, #[into] pub b: u8, pub c: u8 }

#[derive(derive_more::Debug, derive_more::Deref, derive_more::DerefMut)]
#[deref(forward)] #[deref_mut(forward)]
pub struct DerefFwd(pub &'static mut i32);
#[derive(derive_more::Debug, derive_more::Deref, derive_more::DerefMut, derive_more::Index, derive_more::IndexMut, derive_more::IntoIterator)]
pub struct Multi { #[deref] #[deref_mut] #[index] #[index_mut] #[into_iterator(owned, ref, ref_mut)] pub v: [i32; 3], pub other: u8 }
#[derive(derive_more::Debug, derive_more::Index, derive_more::IndexMut, derive_more::IntoIterator)]
pub struct Arr(pub [i32; 3]);

#[derive(derive_more::Debug, derive_more::AsRef, derive_more::AsMut)]
#[as_ref(forward)] #[as_mut(forward)]
pub struct AsFwd(pub [u8; 4]);
#[derive(derive_more::Debug, derive_more::AsRef, derive_more::AsMut)]
#[as_ref([u8], [u8; 4])] #[as_mut([u8], [u8; 4])]
pub struct AsTypes(pub [u8; 4]);
#[derive(derive_more::Debug, derive_more::AsRef, derive_more::AsMut)]
pub struct AsFields<T> { #[as_ref] #[as_mut] pub a: i32, #[as_ref([T])] #[as_mut([T])] pub b: [T; 2], pub c: u8 }
#[derive(derive_more::Debug, derive_more::AsRef, derive_more::AsMut)]
pub struct AsSkip { pub a: i32, #[as_ref(skip)] #[as_mut(skip)] pub c: i32 }
#[derive(derive_more::Debug, derive_more::AsRef, derive_more::AsMut)]
pub struct AsAll { pub a: i32, pub b: u8 }

#[derive(derive_more::Debug, derive_more::TryInto)]
#[try_into(owned, ref, ref_mut)]
pub enum TryEn { A(i32), B(i32), C(u8, #[try_into(ignore)] i32), D { x: i64 }, #[try_into(ignore)] E(i8) }

#[derive(derive_more::Debug, derive_more::Constructor)]
pub struct CtorUnit;
#[derive(derive_more::Debug, derive_more::Constructor, derive_more::From, derive_more::Into)]
pub struct CtorGen<T, const N: usize> { pub a: [T; N], pub b: i32 }

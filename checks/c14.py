"""C14 — delegating derives expose the selected field itself."""
import re

from . import common as C
from . import fmtgen as G

LEGACY = {
    "Deref": ("deref", ["i", "f", "n"]),
    "DerefMut": ("deref_mut", ["i", "f", "n"]),
    "Index": ("index", ["i"]),
    "IndexMut": ("index_mut", ["i"]),
    "IntoIterator": ("into_iterator", ["i", "o", "r", "m"]),
}
PARAMS = {"i": "ignore", "f": "forward", "o": "owned", "r": "ref", "m": "ref_mut", "n": "not(forward)"}
TYS = [("Vec<u8>", False), ("Box<i32>", False), ("T", True), ("Vec<T>", True), ("[u8;4]", False), ("String", False),
       ("&'static str", False), ("std::collections::BTreeMap<u8,T>", True)]
LISTED = [("u8", False), ("str", False), ("[u8]", False), ("T", True), ("Vec<u8>", False), ("Vec<T>", True), ("String", False),
          ("Box<i32>", False), ("i32", False), ("[T]", True)]
NAMES = ["a", "b", "r#type", "c_d", "e"]


def legacy_attr(rng, attr, allowed, force=None):
    """-> (source text, sexp)"""
    if force is not None:
        ps = force
    else:
        ps = rng.sample(allowed, rng.below(min(3, len(allowed)) + 1))
        if "i" in ps and len(ps) > 1 and rng.chance(3, 4):
            ps = ["i"]
        if "f" in ps and "n" in ps:          # `forward, not(forward)` contradicts itself (C17's subject)
            drop = rng.choice(["f", "n"])
            ps = [p for p in ps if p != drop]
    if not ps:
        return f"#[{attr}] ", "(a)"
    return f"#[{attr}(" + ", ".join(PARAMS[p] for p in ps) + ")] ", "(a " + " ".join(ps) + ")"


def gen_legacy(rng, derive):
    attr, allowed = LEGACY[derive]
    n = 1 + rng.below(4)
    named = rng.chance(1, 2)
    names = rng.sample(NAMES, n)
    fields = []
    style = rng.below(5)  # 0: no attrs, 1: select one, 2: ignore the others, 3: random, 4: struct-level
    sel = rng.below(n)
    s_src, s_sx = "", "-"
    if style == 4 or (n == 1 and rng.chance(1, 3)):
        no_ignore = [p for p in allowed if p != "i"]
        if no_ignore:
            s_src, s_sx = legacy_attr(rng, attr, no_ignore)
    for i in range(n):
        ty, gen = rng.choice(TYS)
        a_src, a_sx = "", "-"
        if style == 1 and i == sel:
            a_src, a_sx = legacy_attr(rng, attr, [p for p in allowed if p != "i"])
        elif style == 2 and i != sel:
            a_src, a_sx = legacy_attr(rng, attr, allowed, force=["i"])
        elif style == 3 and rng.chance(1, 2):
            a_src, a_sx = legacy_attr(rng, attr, allowed)
        fields.append((names[i] if named else "-", ty, gen, a_src, a_sx))
    generic = any(f[2] for f in fields)
    sname = "S<T>" if generic else "S"
    if named:
        body = " { " + ", ".join(f"{a}{nm}: {ty}" for nm, ty, _, a, _ in fields) + " }"
    else:
        body = "(" + ", ".join(f"{a}{ty}" for _, ty, _, a, _ in fields) + ");"
    src = f"{s_src}struct {sname}{body}"
    req = (f"dl ({derive} {C.hexs(sname)} {s_sx} " +
           " ".join(f"(f {C.hexs(nm) if nm != '-' else '-'} {C.hexs(G.strip_ws(ty))} {1 if g else 0} {sx})" for nm, ty, g, _, sx in fields) + ")")
    return src, req


def as_attr(rng, attr, field_ty, allow_skip=True):
    k = rng.below(8)
    if k == 0 and allow_skip:
        return f"#[{attr}(skip)] ", "s"
    if k == 1:
        return f"#[{attr}] ", "e"
    if k == 2:
        return f"#[{attr}(forward)] ", "fw"
    if k >= 3:
        tys = rng.sample(LISTED, 1 + rng.below(3))
        if rng.chance(1, 2):
            tys[rng.below(len(tys))] = field_ty  # the field's own type among the listed ones
        seen, out = set(), []
        for t in tys:
            if t[0] not in seen:
                seen.add(t[0]); out.append(t)
        return (f"#[{attr}(" + ", ".join(t for t, _ in out) + ")] ",
                "(t " + " ".join(f"({C.hexs(G.strip_ws(t))} {1 if g else 0})" for t, g in out) + ")")
    return "", "-"


def gen_as(rng, derive):
    attr = "as_ref" if derive == "AsRef" else "as_mut"
    n = 1 + rng.below(4)
    named = rng.chance(1, 2)
    names = rng.sample(NAMES, n)
    s_src, s_sx = "", "-"
    fields = []
    struct_level = (n == 1 and rng.chance(1, 2)) or rng.chance(1, 12)     # on several fields: "can only be placed on structs with exactly one field"
    for i in range(n):
        ty, gen = rng.choice(TYS)
        a_src, a_sx = "", "-"
        if struct_level:
            if rng.chance(1, 8):
                a_src, a_sx = as_attr(rng, attr, (ty, gen))
        elif rng.chance(2, 3):
            a_src, a_sx = as_attr(rng, attr, (ty, gen), allow_skip=rng.chance(1, 3))
        fields.append((names[i] if named else "-", ty, gen, a_src, a_sx))
    if struct_level:
        s_src, s_sx = as_attr(rng, attr, (fields[0][1], fields[0][2]), allow_skip=False)
        if s_sx == "e":
            s_src, s_sx = "", "-"
    generic = any(f[2] for f in fields) or bool(re.search(r"\bT\b", s_src + " ".join(f[3] for f in fields)))
    sname = "S<T>" if generic else "S"
    if named:
        body = " { " + ", ".join(f"{a}{nm}: {ty}" for nm, ty, _, a, _ in fields) + " }"
    else:
        body = "(" + ", ".join(f"{a}{ty}" for _, ty, _, a, _ in fields) + ");"
    src = f"{s_src}struct {sname}{body}"
    req = (f"dl ({derive} {C.hexs(sname)} {s_sx} " +
           " ".join(f"(f {C.hexs(nm) if nm != '-' else '-'} {C.hexs(G.strip_ws(ty))} {1 if g else 0} {sx})" for nm, ty, g, _, sx in fields) + ")")
    return src, req


def extract(ans, derive):
    if ans.startswith("panic"):
        return "panic"
    if ans.startswith("err "):
        return "err"
    s = G.strip_ws(ans[3:])
    out = []
    for block in s.split("#[automatically_derived]impl")[1:]:
        block = re.sub(r"(#\[allow\(\w+\)\])+$", "", block)
        m = re.search(r"fn\w+\([^)]*\)->([^{]*)\{(.*)\}\}$", block)
        if not m:
            out.append("?" + block[:80]); continue
        ret, body = m.group(1), m.group(2)
        head = ""
        if derive == "Deref":
            t = re.search(r"typeTarget=(.*?);#\[inline\]", block)
            head = t.group(1) if t else "?"
        elif derive == "IntoIterator":
            t = re.search(r"IntoIteratorfor(.*?)(?:where|\{typeItem)", block)
            head = t.group(1) if t else "?"
        elif derive == "AsRef":
            head = ret[1:]
        elif derive == "AsMut":
            head = ret[len("&mut"):]
        out.append(f"{head}|{body}")
    return "ok " + ";".join(out)


PRELUDE = r'''
#![allow(dead_code, unused_variables, non_camel_case_types, unused_imports, non_snake_case, unused_mut)]
use std::ops::{Deref, DerefMut, Index, IndexMut};
pub static mut FAILS: u32 = 0;
pub static mut CHECKS: u64 = 0;
pub fn check(id: &str, what: &str, got: String, want: String) {
    unsafe { CHECKS += 1; }
    if got != want { unsafe { FAILS += 1; if FAILS < 300 { println!("FAIL|{}|{}|{}|{}", id, what, got, want); } } }
}
pub fn addr<T: ?Sized>(p: &T) -> usize { p as *const T as *const u8 as usize }
pub fn caught<R>(f: impl FnOnce() -> R + std::panic::UnwindSafe) -> Option<R> { std::panic::catch_unwind(f).ok() }
/// A plain value type whose reflexive AsRef/AsMut return something that is NOT the value itself.
#[derive(Debug, Clone, PartialEq)] pub struct A(pub u8);
pub static OTHER: A = A(99);
impl AsRef<A> for A { fn as_ref(&self) -> &A { &OTHER } }
impl AsMut<A> for A { fn as_mut(&mut self) -> &mut A { Box::leak(Box::new(A(98))) } }
pub type Alias = A;
impl<T> AsRef<[T]> for A { fn as_ref(&self) -> &[T] { &[] } }
impl<T> AsMut<[T]> for A { fn as_mut(&mut self) -> &mut [T] { &mut [] } }
/// A wrapper whose own Deref / AsRef / Index / IntoIterator expose its SECOND half (reversed for iteration).
#[derive(Debug, Clone, PartialEq)] pub struct W(pub Vec<A>, pub Vec<A>);
impl W { pub fn new(k: u8) -> W { W(vec![A(k), A(k + 1)], vec![A(k + 10), A(k + 11), A(k + 12)]) } }
impl Deref for W { type Target = Vec<A>; fn deref(&self) -> &Vec<A> { &self.1 } }
impl DerefMut for W { fn deref_mut(&mut self) -> &mut Vec<A> { &mut self.1 } }
impl AsRef<A> for W { fn as_ref(&self) -> &A { &self.1[0] } }
impl AsMut<A> for W { fn as_mut(&mut self) -> &mut A { &mut self.1[0] } }
impl AsRef<[A]> for W { fn as_ref(&self) -> &[A] { &self.1[1..] } }
impl AsMut<[A]> for W { fn as_mut(&mut self) -> &mut [A] { &mut self.1[1..] } }
impl Index<usize> for W { type Output = A; fn index(&self, i: usize) -> &A { &self.1[self.1.len() - 1 - i] } }
impl IndexMut<usize> for W { fn index_mut(&mut self, i: usize) -> &mut A { let n = self.1.len(); &mut self.1[n - 1 - i] } }
impl IntoIterator for W { type Item = A; type IntoIter = std::iter::Rev<std::vec::IntoIter<A>>; fn into_iter(self) -> Self::IntoIter { self.1.into_iter().rev() } }
impl<'a> IntoIterator for &'a W { type Item = &'a A; type IntoIter = std::iter::Rev<std::slice::Iter<'a, A>>; fn into_iter(self) -> Self::IntoIter { self.1.iter().rev() } }
impl<'a> IntoIterator for &'a mut W { type Item = &'a mut A; type IntoIter = std::iter::Rev<std::slice::IterMut<'a, A>>; fn into_iter(self) -> Self::IntoIter { self.1.iter_mut().rev() } }
'''


def struct_src(derives, attr_on, n, k, named, ty, style, struct_attr="", generic=False):
    """n fields of the same type `ty`; field k selected by `attr_on` (one `#[..]` text per derive attr name)."""
    fs = []
    for i in range(n):
        a = ""
        if i == k and style == "select":
            a = " ".join(attr_on) + " "
        if i != k and style == "ignore":
            a = " ".join("#[" + re.match(r"#\[(\w+)", x).group(1) + "(ignore)]" for x in attr_on) + " "
        fs.append(a + (f"pub f{i}: {ty}" if named else f"pub {ty}"))
    body = " { " + ", ".join(fs) + " }" if named else "(" + ", ".join(fs) + ");"
    g = "<T>" if generic else ""
    return f"#[derive({', '.join('derive_more::' + d for d in derives)}, Clone, Debug)] {struct_attr}pub struct S{g}{body}"


def behaviour(res, rng, tier):
    cf = C.CaseFile(PRELUDE)
    descs = {}
    reps = 3 if tier == "quick" else 25
    cid = [0]

    def add(src, lines):
        i = cid[0]; cid[0] += 1
        lines = [l.replace("@ID", str(i)) for l in lines]
        cf.add(i, src + "\npub fn run() { " + " ".join(lines) + " }", main_call=f"c{i}::run();")
        descs[str(i)] = re.sub(r"#\[derive\((.*?), Clone, Debug\)\]", r"#[derive(\1)]", src).replace("derive_more::", "")

    def shape():
        n = 1 + rng.below(4)
        k = rng.below(n)
        named = rng.chance(1, 2)
        style = "none" if n == 1 and rng.chance(1, 2) else rng.choice(["select", "ignore"] if n > 1 else ["select"])
        acc = (lambda i: f"s.f{i}") if named else (lambda i: f"s.{i}")
        return n, k, named, style, acc

    def ctor(n, named, mk):
        return "S { " + ", ".join(f"f{i}: {mk(i)}" for i in range(n)) + " }" if named else "S(" + ", ".join(mk(i) for i in range(n)) + ")"

    for _ in range(reps):
        # Deref / DerefMut, direct
        n, k, named, style, acc = shape()
        src = struct_src(["Deref", "DerefMut"], ["#[deref]", "#[deref_mut]"], n, k, named, "Vec<u8>", style)
        f = acc(k)
        add(src, [
            f"let mut s = {ctor(n, named, lambda i: f'vec![{i}u8, {i + 1}]')};",
            f'let t: &Vec<u8> = &*s; check("@ID", "deref address == field {k} address", addr(t).to_string(), addr(&{f}).to_string());',
            f'let a = addr(&{f}); let t: &mut Vec<u8> = &mut *s; check("@ID", "deref_mut address == field {k} address", addr(t).to_string(), a.to_string());',
            f's.deref_mut().push(77); check("@ID", "write through deref_mut visible in field {k}", format!("{{:?}}", {f}), format!("{{:?}}", vec![{k}u8, {k + 1}, 77]));',
        ] + [f'check("@ID", "neighbour field {j} untouched", format!("{{:?}}", {acc(j)}), format!("{{:?}}", vec![{j}u8, {j + 1}]));' for j in range(n) if j != k])
        # Deref / DerefMut, forward
        n, k, named, style, acc = shape()
        if style == "none":
            src = struct_src(["Deref", "DerefMut"], [], n, k, named, "W", style, struct_attr="#[deref(forward)] #[deref_mut(forward)] ")
        else:
            src = struct_src(["Deref", "DerefMut"], ["#[deref(forward)]", "#[deref_mut(forward)]"], n, k, named, "W", style)
            if style == "ignore":
                src = src.replace("pub struct", "#[deref(forward)] #[deref_mut(forward)] pub struct")
        f = acc(k)
        add(src, [
            f"let mut s = {ctor(n, named, lambda i: f'W::new({20 * i})')};",
            f'let t: &Vec<A> = &*s; check("@ID", "forwarded deref == field {k}\'s own deref", addr(t).to_string(), addr(<W as Deref>::deref(&{f})).to_string());',
            f's.deref_mut().push(A(7)); check("@ID", "forwarded deref_mut writes what field {k}\'s own deref_mut writes", format!("{{:?}}", {f}.1.last()), format!("{{:?}}", Some(A(7))));',
        ] + [f'check("@ID", "neighbour field {j} untouched", format!("{{:?}}", {acc(j)}), format!("{{:?}}", W::new({20 * j})));' for j in range(n) if j != k])
        # struct-level `forward` switched off again for the selected field by `not(forward)`: back to the field's own storage
        # (added after seed C14-j: a field-level `not(..)` must override what the struct-level attribute turned on)
        n, k, named, style, acc = shape()
        fs = []
        for j in range(n):
            a = "#[deref(not(forward))] #[deref_mut(not(forward))] " if j == k else "#[deref(ignore)] #[deref_mut(ignore)] "
            fs.append(a + (f"pub f{j}: W" if named else "pub W"))
        body = " { " + ", ".join(fs) + " }" if named else "(" + ", ".join(fs) + ");"
        src = f"#[derive(derive_more::Deref, derive_more::DerefMut, Clone, Debug)] #[deref(forward)] #[deref_mut(forward)] pub struct S{body}"
        f = acc(k)
        add(src, [
            f"let mut s = {ctor(n, named, lambda i: f'W::new({20 * i})')};",
            f'let t: &W = &*s; check("@ID", "not(forward): deref address == field {k} address", addr(t).to_string(), addr(&{f}).to_string());',
            f'let a = addr(&{f}); let t: &mut W = &mut *s; check("@ID", "not(forward): deref_mut address == field {k} address", addr(t).to_string(), a.to_string());',
        ])
        # Index / IndexMut
        n, k, named, style, acc = shape()
        src = struct_src(["Index", "IndexMut"], ["#[index]", "#[index_mut]"], n, k, named, "W", style)
        f = acc(k)
        lines = [f"let mut s = {ctor(n, named, lambda i: f'W::new({20 * i})')};"]
        for ix in range(3):
            lines.append(f'check("@ID", "index({ix}) == field {k}\'s own index({ix})", addr(&s[{ix}usize]).to_string(), addr(<W as Index<usize>>::index(&{f}, {ix})).to_string());')
        lines.append(f's[0usize] = A(200); check("@ID", "index_mut(0) writes where field {k}\'s own index_mut(0) writes", format!("{{:?}}", {f}.1[2]), format!("{{:?}}", A(200)));')
        lines.append(f'check("@ID", "index(3) panics like the field\'s", caught(|| {{ let s = {ctor(n, named, lambda i: "W::new(0)")}; let _ = &s[3usize]; }}).is_none().to_string(), String::from("true"));')
        lines += [f'check("@ID", "neighbour field {j} untouched", format!("{{:?}}", {acc(j)}), format!("{{:?}}", W::new({20 * j})));' for j in range(n) if j != k]
        add(src, lines)
        # Index on a Vec with a range index (the index type is generic)
        n, k, named, style, acc = shape()
        src = struct_src(["Index", "IndexMut"], ["#[index]", "#[index_mut]"], n, k, named, "Vec<A>", style)
        f = acc(k)
        add(src, [
            f"let mut s = {ctor(n, named, lambda i: f'vec![A({i}), A({i + 1}), A({i + 2})]')};",
            f'check("@ID", "index(1..) == field {k}[1..]", format!("{{}}/{{}}", addr(&s[1..]), s[1..].len()), format!("{{}}/{{}}", addr(&{f}[1..]), 2));',
            f's[1..][0] = A(201); check("@ID", "index_mut(1..) writes into field {k}", format!("{{:?}}", {f}), format!("{{:?}}", vec![A({k}), A(201), A({k + 2})]));',
        ])
        # IntoIterator, the three forms
        n, k, named, style, acc = shape()
        ty = rng.choice(["W", "Vec<A>"])
        mk = (lambda i: f"W::new({20 * i})") if ty == "W" else (lambda i: f"vec![A({i}), A({i + 1}), A({i + 2})]")
        if style == "none":
            src = struct_src(["IntoIterator"], [], n, k, named, ty, style, struct_attr="#[into_iterator(owned, ref, ref_mut)] ")
        else:
            src = struct_src(["IntoIterator"], ["#[into_iterator(owned, ref, ref_mut)]"], n, k, named, ty, style)
            if style == "ignore":
                src = src.replace("pub struct", "#[into_iterator(owned, ref, ref_mut)] pub struct")
        f = acc(k)
        add(src, [
            f"let mut s = {ctor(n, named, mk)};",
            f'let want: Vec<usize> = <&{ty} as IntoIterator>::into_iter(&{f}).map(|x| addr(x)).collect();',
            f'let got: Vec<usize> = (&s).into_iter().map(|x| addr(x)).collect(); check("@ID", "(&s).into_iter() visits field {k}\'s elements in its order", format!("{{:?}}", got), format!("{{:?}}", want));',
            f'let gotm: Vec<usize> = (&mut s).into_iter().map(|x| addr(&*x)).collect(); check("@ID", "(&mut s).into_iter() visits the same elements in the same order", format!("{{:?}}", gotm), format!("{{:?}}", want));',
            f'let wanto: Vec<A> = <{ty} as IntoIterator>::into_iter({f}.clone()).collect(); let refv: Vec<A> = (&s).into_iter().cloned().collect();',
            f'let goto: Vec<A> = s.clone().into_iter().collect(); check("@ID", "s.into_iter() yields what field {k}\'s own into_iter yields", format!("{{:?}}", goto), format!("{{:?}}", wanto));',
            f'check("@ID", "owned and shared forms visit the same elements in the same order", format!("{{:?}}", goto), format!("{{:?}}", refv));',
            f'for x in &mut s {{ x.0 = 9; }} check("@ID", "writes through the mutable form are visible in field {k}", {f}.clone().into_iter().all(|x| x.0 == 9).to_string(), String::from("true"));',
        ] + [f'check("@ID", "neighbour field {j} untouched", format!("{{:?}}", {acc(j)}), format!("{{:?}}", {mk(j)}));' for j in range(n) if j != k])
        # a generic struct, a field whose type mentions no parameter, and a type list in which one type mentions a parameter while
        # another is an alias of the field's own type: "are generics involved" is a question about each listed type, not about
        # the list (seed C14-l) - the alias still yields the field itself, the generic one is forwarded
        for attrs in ("#[as_ref(Alias, [T])] #[as_mut(Alias, [T])]", "#[as_ref([T], Alias)] #[as_mut([T], Alias)]",
                      "#[as_ref([T])] #[as_ref(Alias)] #[as_mut(Alias)] #[as_mut([T])]"):
            src = f"#[derive(derive_more::AsRef, derive_more::AsMut, Clone, Debug)] pub struct S<T>({attrs} pub A, pub core::marker::PhantomData<T>);"
            add(src, [
                "let mut s = S::<u16>(A(1), core::marker::PhantomData);",
                'check("@ID", "as_ref to an alias of the field type is the field itself (generic struct, mixed list)", addr(<S<u16> as AsRef<A>>::as_ref(&s)).to_string(), addr(&s.0).to_string());',
                'let a = addr(&s.0); check("@ID", "as_mut to an alias of the field type is the field itself (generic struct, mixed list)", addr(<S<u16> as AsMut<A>>::as_mut(&mut s)).to_string(), a.to_string());',
                'check("@ID", "as_ref to the generic listed type is the field type own impl", <S<u16> as AsRef<[u16]>>::as_ref(&s).len().to_string(), String::from("0"));',
            ])
        # AsRef / AsMut on a field of type A: plain, listed own type, alias of own type, qualified path
        for listed in ["", "(A)", "(Alias)", "(self::A)", "(crate::A)", "(super::A)"]:
            if listed in ("(self::A)", "(super::A)") :
                # inside the case module `A` is imported from the crate root by `use super::*`; `self::A` resolves through the glob too
                pass
            n, k, named, style, acc = shape()
            if listed and style == "ignore":
                style = "select"
            if not listed and style == "none" and n > 1:
                style = "select"
            if style == "none" and listed:
                src = struct_src(["AsRef", "AsMut"], [], n, k, named, "A", style, struct_attr=f"#[as_ref{listed}] #[as_mut{listed}] ")
            elif style == "ignore":
                src = struct_src(["AsRef", "AsMut"], ["#[as_ref(skip)]", "#[as_mut(skip)]"], n, k, named, "A", "ignore")
                src = src.replace("(ignore)", "(skip)")
            else:
                src = struct_src(["AsRef", "AsMut"], [f"#[as_ref{listed}]", f"#[as_mut{listed}]"], n, k, named, "A", style)
            f = acc(k)
            add(src, [
                f"let mut s = {ctor(n, named, lambda i: f'A({i})')};",
                f'check("@ID", "as_ref{listed} to the field\'s type is field {k} itself", addr(<S as AsRef<A>>::as_ref(&s)).to_string(), addr(&{f}).to_string());',
                f'let a = addr(&{f}); check("@ID", "as_mut{listed} to the field\'s type is field {k} itself", addr(<S as AsMut<A>>::as_mut(&mut s)).to_string(), a.to_string());',
                f'<S as AsMut<A>>::as_mut(&mut s).0 = 55; check("@ID", "write through as_mut{listed} visible in field {k}", format!("{{:?}}", {f}), String::from("A(55)"));',
            ] + [f'check("@ID", "neighbour field {j} untouched", format!("{{:?}}", {acc(j)}), String::from("A({j})"));' for j in range(n) if j != k])
        # AsRef / AsMut forwarding: forward, listed other types (specialised), generic field (forwarded)
        for form in ["forward", "listed", "generic"]:
            n, k, named, style, acc = shape()
            style = "select" if n > 1 else rng.choice(["select", "none"])
            if form == "generic":
                attr = ["#[as_ref(A, [A])]", "#[as_mut(A, [A])]"]
                ty, g = "T", True
            elif form == "listed":
                attr = ["#[as_ref(A, [A])]", "#[as_mut(A, [A])]"]
                ty, g = "W", False
            else:
                attr = ["#[as_ref(forward)]", "#[as_mut(forward)]"]
                ty, g = "W", False
            if style == "none":
                src = struct_src(["AsRef", "AsMut"], [], n, k, named, ty, style, struct_attr=" ".join(attr) + " ", generic=g)
            else:
                src = struct_src(["AsRef", "AsMut"], attr, n, k, named, ty, style, generic=g)
            f = acc(k)
            S = "S<W>" if g else "S"
            add(src, [
                f"let mut s: {S} = {ctor(n, named, lambda i: f'W::new({20 * i})')};",
                f'check("@ID", "as_ref::<A> ({form}) == field {k}\'s own AsRef<A>", addr(<{S} as AsRef<A>>::as_ref(&s)).to_string(), addr(<W as AsRef<A>>::as_ref(&{f})).to_string());',
                f'check("@ID", "as_ref::<[A]> ({form}) == field {k}\'s own AsRef<[A]>", format!("{{}}/{{}}", addr(<{S} as AsRef<[A]>>::as_ref(&s)), <{S} as AsRef<[A]>>::as_ref(&s).len()), format!("{{}}/2", addr(<W as AsRef<[A]>>::as_ref(&{f}))));',
                f'<{S} as AsMut<A>>::as_mut(&mut s).0 = 66; check("@ID", "as_mut::<A> ({form}) writes where field {k}\'s own AsMut<A> writes", format!("{{:?}}", {f}.1[0]), String::from("A(66)"));',
                f'<{S} as AsMut<[A]>>::as_mut(&mut s)[0].0 = 67; check("@ID", "as_mut::<[A]> ({form}) writes where field {k}\'s own AsMut<[A]> writes", format!("{{:?}}", {f}.1[1]), String::from("A(67)"));',
            ] + [f'check("@ID", "neighbour field {j} untouched", format!("{{:?}}", {acc(j)}), format!("{{:?}}", W::new({20 * j})));' for j in range(n) if j != k])
    # the run-time helper of the specialised body, directly (src/as.rs; model: `extractRef`)
    add("pub struct Unused;", [
        "use derive_more::__private::{Conv, ExtractRef as _};",
        'let a = A(1); let conv = <Conv<&A, Alias> as Default>::default(); check("@ID", "extract_ref: equal types -> identity", addr((&&conv).__extract_ref(&a)).to_string(), addr(&a).to_string());',
        'let w = W::new(0); let conv = <Conv<&W, A> as Default>::default(); check("@ID", "extract_ref: different types -> the field\'s AsRef", addr((&&conv).__extract_ref(&w)).to_string(), addr(<W as AsRef<A>>::as_ref(&w)).to_string());',
        'let mut a = A(1); let p = addr(&a); let conv = <Conv<&mut A, Alias> as Default>::default(); check("@ID", "extract_ref (mut): equal types -> identity", addr((&&conv).__extract_ref(&mut a)).to_string(), p.to_string());',
        'let mut w = W::new(0); let p = addr(<W as AsRef<A>>::as_ref(&w)); let conv = <Conv<&mut W, A> as Default>::default(); check("@ID", "extract_ref (mut): different types -> the field\'s AsMut", addr((&&conv).__extract_ref(&mut w)).to_string(), p.to_string());',
    ])
    ncases = cid[0]
    d = C.scratch_crate("c14-delegate", cf.source('unsafe { println!("DONE checks={} fails={}", CHECKS, FAILS); }').replace(
        "fn main() {\n", "fn main() {\n    std::panic::set_hook(Box::new(|_| {}));\n"))
    try:
        rc, out, err = C.scratch_run(d)
        if "DONE" not in out:
            rc2, diags, err2 = C.scratch_check(d)
            by, stray = cf.errors_by_case(diags)
            for c, errs in list(by.items())[:10]:
                res.violation("compile:" + descs[str(c)], f"{descs[str(c)]} does not compile: {errs[0][:300]}",
                              {"cmd": "compile", "source": descs[str(c)], "errors": errs[:3]})
            if not by:
                raise C.BuildError("C14 behaviour crate (real proc-macro) did not build/run", (err or out)[-3000:])
            return 0, ncases
        checks = int(out.split("DONE checks=")[1].split()[0])
        seen = set()
        for l in out.splitlines():
            if l.startswith("FAIL|"):
                _, c, what, got, want = l.split("|", 4)
                if (c, what) in seen:
                    continue
                seen.add((c, what))
                res.violation("delegate:" + descs[c] + "|" + what, f"{descs[c]}: {what}: got {got}, the property requires {want}",
                              {"cmd": "behaviour", "source": descs[c], "what": what, "got": got, "want": want})
        return checks, ncases
    finally:
        C.scratch_cleanup(d)


# ---------------------------------------------------------------- generic parameters in every syntactic position
# AsRef / AsMut with a listed type that differs from the field's type must forward (`where Field: AsRef<Listed>`) as soon as a
# generic parameter of the struct occurs anywhere in either type — the autoref-specialised body "doesn't work when generics
# are involved" — and may specialise only when none does. Oracle: a declared parameter occurs in a type iff its name is one
# of the type's tokens (a type cannot shadow a parameter).
POS_TEMPLATES = ["X", "&'L X", "&'L mut X", "[X; C]", "[X]", "*const X", "(X, Q)", "(Q, X, Q)", "fn(X) -> Q", "fn(Q) -> X", "fn(&'L Q)",
                 "Box<X>", "K<X>", "K<C>", "K<{ C }>", "K<'L>", "W<'L, X, C>", "W<'static, Q, { C }>", "Box<dyn Tr<X>>", "Box<dyn Tr<Q> + 'L>",
                 "Box<dyn Fn(X) -> Q>", "Box<dyn Fn(Q) -> X>", "<X as Tr<Q>>::Out", "<Q as Tr<X>>::Out", "Vec<[X; C]>", "Option<&'L [X]>",
                 "K<{ C + 1 }>", "K<{ M::<X>() }>", "core::marker::PhantomData<(X, &'L Q)>", "Tr2<Item = X>", "(((X,),),)", "[[X; 2]; C]", "!"]
FILL = {"X": ["T", "Q", "u8", "U"], "C": ["N", "3", "M"], "L": ["a", "static", "b"]}


def fill_template(rng, t):
    out = t
    for hole, opts in FILL.items():
        while re.search(rf"(?<![A-Za-z0-9_']){hole}(?![A-Za-z0-9_])" if hole != "L" else r"'L\b", out):
            v = rng.choice(opts)
            if hole == "L":
                out = re.sub(r"'L\b", "'" + v, out, count=1)
            else:
                out = re.sub(rf"(?<![A-Za-z0-9_']){hole}(?![A-Za-z0-9_])", v, out, count=1)
    return out


def mentions_param(ty):
    toks = re.findall(r"'[A-Za-z_]\w*|[A-Za-z_]\w*", ty)
    return any(t in ("T", "U", "N", "M", "'a", "'b") for t in toks)


def generic_positions(res, inproc, rng, n):
    """(cases, disagreements): struct S<'a, 'b, T, U, const N: usize, const M: usize>(FIELD) with #[as_ref(LISTED)] / #[as_mut(LISTED)]."""
    cases = []
    for i in range(n):
        field = fill_template(rng, rng.choice(POS_TEMPLATES))
        listed = fill_template(rng, rng.choice(POS_TEMPLATES)) if rng.chance(1, 2) else rng.choice(["Q", "[Q]", "str"])
        if G.strip_ws(field) == G.strip_ws(listed):
            continue
        derive, attr = rng.choice([("AsRef", "as_ref"), ("AsMut", "as_mut")])
        place = rng.choice(["struct", "field"])
        if place == "struct":
            src = f"#[{attr}({listed})] struct S<'a, 'b, T, U, const N: usize, const M: usize>({field});"
        else:
            src = f"struct S<'a, 'b, T, U, const N: usize, const M: usize> {{ #[{attr}({listed})] f: {field}, g: u8 }}"
        cases.append((derive, src, field, listed))
    ans = C.drive(inproc, [f"expand {d} {C.hexs(src)}" for d, src, _, _ in cases])
    bad, dist = [], {}
    for (d, src, field, listed), a in zip(cases, ans):
        want = "forwarded" if mentions_param(field) or mentions_param(listed) else "specialised"
        if not a.startswith("ok"):
            got = "rejected"
            # (`!`, `{ C + 1 }` … may be refused by syn without its `full` feature: not this stage's business)
            dist["rejected"] = dist.get("rejected", 0) + 1
            continue
        got = "specialised" if "__extract_ref" in a else ("forwarded" if "where" in a else "direct")
        dist[want] = dist.get(want, 0) + 1
        if got != want:
            bad.append({"derive": d, "source": src, "field": field, "listed": listed, "expected": want, "got": got})
    for b in sorted(bad, key=lambda b: len(b["source"]))[:4]:
        res.violation(f"generic-position:{b['field'][:40]}:{b['listed'][:40]}:{b['got']}",
                      f"#[derive({b['derive']})] {b['source']}: the impl is {b['got']}, but a generic parameter " +
                      ("occurs in the field's or the listed type, so it must be forwarded with a where-clause (the specialised body does not compile for generic types)"
                       if b["expected"] == "forwarded" else "occurs in neither type, so it must be the specialised one (a forwarded impl demands `Field: AsRef<Listed>` even when the listed type is the field's own)"),
                      {"cmd": f"expand {b['derive']}", **b})
    return len(cases), len(bad), dist


def run(tier):
    res = C.Result("C14", tier)
    rng = C.Rng(C.seed())
    extra, cov, corr_bad = [], {}, []
    try:
        inproc = C.cargo_build_inproc()
        lean_ok, _ = C.lake_build(["Dm.Props.C14", "dmdriver"])
        n = 500 if tier == "quick" else 8000
        cases = []
        for derive in list(LEGACY) + ["AsRef", "AsMut"]:
            for _ in range(n):
                src, req = gen_legacy(rng, derive) if derive in LEGACY else gen_as(rng, derive)
                cases.append((derive, src, req))
        impl = C.drive(inproc, [f"expand {d} {C.hexs(src)}" for d, src, _ in cases])
        model = C.drive_lean([req for _, _, req in cases]) if lean_ok else [None] * len(cases)
        kinds = {}
        for (d, src, req), ia, ma in zip(cases, impl, model):
            got = extract(ia, d)
            kinds[got.split(" ")[0]] = kinds.get(got.split(" ")[0], 0) + 1
            if ma is not None and got != ma:
                corr_bad.append({"derive": d, "source": src, "impl": got[:600], "model": ma[:600], "raw": ia[:300]})
        checks, nst = behaviour(res, rng, tier)
        n_pos, n_pos_bad, pos_dist = generic_positions(res, inproc, rng, 1500 if tier == "quick" else 30000)
        extra = [("correspondence: selected field, target/return types and method bodies == model", lean_ok and not corr_bad)]
        cov = {
            "evaluations": len(cases) + checks,
            "distinct_nontrivial": len({(c[0], c[1]) for c in cases}) + nst,
            "rule": "distinct (derive, struct with attribute placement) pairs expanded in-process + structs whose delegating methods are run with the real macro and compared by address/content with the field's own",
            "traces_validated_against_impl": len(cases),
            "model_vs_impl_disagreements": len(corr_bad),
            "distribution": {"expansions": len(cases), "outcomes": kinds, "behaviour_structs": nst, "address_content_checks": checks,
                             "generic_position_cases": n_pos, "generic_position_outcomes": pos_dist},
            "samples": [{"derive": c[0], "struct": c[1]} for c in cases[:3]],
        }
    except C.BuildError as e:
        res.violation("build", e.what, {"output": e.output[-3000:]}, found_input=False)
        cov = {"build_error": e.what}
    failed = C.proof_obligations(res, "C14", ["C14"], extra)
    if failed and not res.violations:
        res.violation("obligations:" + ";".join(failed)[:200], "proof obligation / correspondence no longer checks: " + "; ".join(failed)[:400],
                      {"failed_obligations": failed, "correspondence_disagreements": corr_bad[:8]}, found_input=False)
    elif corr_bad:
        res.coverage["correspondence_disagreements"] = corr_bad[:8]
    res.coverage.update(cov)
    res.coverage["impl_vs_oracle_failures"] = len(res.violations)
    res.coverage["trusted_base"] += [
        "model of State's single-enabled-field selection and of the seven delegating derives' method bodies compared with the working-tree expansions",
        "rustc's autoref method probing (which ExtractRef impl `(&&conv).__extract_ref` selects) is modelled by `extractRef tyEq` and validated by running the real helper, not proved",
    ]
    return res.finish()

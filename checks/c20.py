"""C20 — every feature works on its own, with and without std."""
import os
import re
import shutil
import subprocess
import sys
from concurrent.futures import ThreadPoolExecutor

from . import common as C

sys.path.insert(0, os.path.join(C.VERIF, "tools"))
import gen_tables  # noqa: E402

WORKERS = 6


def cargo(args, target, timeout=3000):
    env = dict(C.ENV)
    env["CARGO_TARGET_DIR"] = target
    env["CARGO_NET_OFFLINE"] = "true"
    p = subprocess.run(["cargo"] + args, cwd=C.REPO, env=env, stdout=subprocess.PIPE, stderr=subprocess.STDOUT, text=True, timeout=timeout)
    return p.returncode, p.stdout


def run_config(job):
    """job = (mode, features tuple, worker id) ; mode in test | check | check-impl"""
    mode, feats, wid = job
    target = os.path.join(C.SCRATCH, f"target-c20-{wid}")
    fl = ",".join(feats)
    if mode == "test":
        args = ["test", "--offline", "-q", "-p", "derive_more", "--no-default-features", "--features", fl, "--tests", "--no-fail-fast"]
    elif mode == "check":
        args = ["check", "--offline", "-q", "-p", "derive_more", "--no-default-features", "--features", fl, "--tests"]
    else:
        args = ["check", "--offline", "-q", "-p", "derive_more-impl", "--no-default-features", "--features", fl]
    rc, out = cargo(args, target)
    if rc != 0 and mode == "test":
        # `tests/compile_fail.rs` (trybuild, needs `full`) fails on the pinned tree with and without any change (it is
        # outside the repository's stable baseline); a run in which it is the only failing target counts as passing
        failing = set(re.findall(r"--test (\w+)`", out))
        if failing == {"compile_fail"} and "could not compile" not in out:
            rc = 0
    passed = sum(int(x) for x in re.findall(r"test result: \w+\. (\d+) passed", out))
    failed = sum(int(x) for x in re.findall(r"test result: \w+\. \d+ passed; (\d+) failed", out))
    return mode, feats, rc, out, passed, failed


def first_error(out):
    m = re.search(r"^(error(?:\[E\d+\])?: .*(?:\n.*){0,6})", out, flags=re.M)
    if m:
        return m.group(1)[:900]
    m = re.search(r"^(---- .* ----(?:\n.*){0,8})", out, flags=re.M)
    return (m.group(1) if m else out[-900:])[:900]


def shape_space_under(feats, derive_feature, wid):
    """The C01 shape space restricted to the derives of the enabled features, compiled with the real macro under
    exactly that feature set: the repository's own test programs do not use every code path of a derive.
    Returns (number of items, [(key, description, replay)])."""
    from . import c01gen as GEN
    enabled = {f for f in feats if f != "std"}
    items = []
    from .c01 import twin_lifetime_finding
    for name, src in GEN.all_items(kinds=("plain",)):
        if twin_lifetime_finding(name):
            continue     # does not compile under `full` either (C01's known finding): not a matter of the feature set
        used = set(re.findall(r"derive_more::(\w+)", src.split("]")[0]))
        if used and all(derive_feature.get(d) in enabled for d in used):
            items.append((name, src))
    if "error" in enabled:
        # Error alone (the shape space derives Debug / Display with derive_more, so it needs those features too): every flavour of
        # source the facade's `AsDynError` helper covers, with hand-written Debug / Display
        for k, obj in enumerate(["dyn ::core::error::Error", "dyn ::core::error::Error + Send", "dyn ::core::error::Error + Send + Sync",
                                 "dyn ::core::error::Error + Send + Sync + ::core::panic::UnwindSafe"]):
            for j, (decl, use) in enumerate([("pub struct X { source: Box<OBJ> }", "X { source: b }"), ("pub struct X(Box<OBJ>);", "X(b)"),
                                             ("pub enum X { A { source: Box<OBJ> }, B(#[error(source)] Box<OBJ>, u8), C }", "X::B(b, 1)"),
                                             ("pub struct X { #[error(source)] inner: &'static (OBJ + 'static) }", None)]):
                body = decl.replace("OBJ", obj + (" + 'static" if "Box" in decl else ""))
                items.append((f"error-source-object/{k}/{j}",
                              f"#[derive(Debug, derive_more::Error)] {body} impl ::core::fmt::Display for X {{ fn fmt(&self, f: &mut ::core::fmt::Formatter<'_>) -> ::core::fmt::Result {{ f.write_str(\"x\") }} }}\n"
                              "pub fn probe(e: &X) -> bool { ::core::error::Error::source(e).is_some() }"))
    if not items:
        return 0, []
    cf = C.CaseFile(GEN.PRELUDE.replace("#![deny(warnings)]", ""))
    for i, (name, src) in enumerate(items):
        if "r#fn" in src:
            src = src.replace("pub enum E", "#[allow(non_camel_case_types)] pub enum E")
        cf.add(i, src)
    d = C.scratch_crate(f"c20-space-{wid}", cf.source(), features=tuple(feats), default_features=False)
    found = []
    try:
        env = dict(C.ENV)
        env["CARGO_TARGET_DIR"] = os.path.join(C.SCRATCH, f"target-c20-{wid}")
        p = subprocess.run(["cargo", "check", "--offline", "--message-format=json", "--quiet"], cwd=d, env=env,
                           stdout=subprocess.PIPE, stderr=subprocess.PIPE, text=True, timeout=1800)
        diags = []
        for line in p.stdout.splitlines():
            try:
                m = __import__("json").loads(line)
            except ValueError:
                continue
            if m.get("reason") == "compiler-message" and m["message"].get("level") in ("error", "warning"):
                diags.append(m["message"])
        by, stray = cf.errors_by_case(diags)
        seen = set()
        for cid, errs in sorted(by.items()):
            name, src = items[cid]
            key = (name.split("/")[2], errs[0].split(":")[0])
            if key in seen:
                continue
            seen.add(key)
            if len(seen) <= 4:
                found.append((f"space:{','.join(feats)}:{key[0]}:{key[1]}",
                              f"with `--no-default-features --features {','.join(feats)}`: {src[:200]} does not compile: {errs[0][:200]}",
                              {"cmd": "compile under feature set", "features": list(feats), "item": name, "source": src, "errors": errs[:3]}))
        if p.returncode != 0 and not by:
            found.append((f"space:{','.join(feats)}:crate", f"a crate using derive_more with features {','.join(feats)} does not build: {(stray[0] if stray else p.stderr)[:300]}",
                          {"cmd": "compile under feature set", "features": list(feats), "errors": (stray or [p.stderr[-2000:]])[:3]}))
        return len(items), found
    finally:
        C.scratch_cleanup(d)


def schedule(jobs):
    """Runs jobs on WORKERS target directories in parallel (cargo serialises per target directory)."""
    buckets = [[] for _ in range(WORKERS)]
    for k, (mode, feats) in enumerate(jobs):
        buckets[k % WORKERS].append((mode, feats, k % WORKERS))

    def work(bucket):
        return [run_config(j) for j in bucket]
    with ThreadPoolExecutor(max_workers=WORKERS) as ex:
        results = [r for rs in ex.map(work, buckets) for r in rs]
    return results


def run(tier):
    res = C.Result("C20", tier)
    rng = C.Rng(C.seed())
    extra, cov = [], {}
    info, failing, witness = None, None, []
    try:
        exe = gen_tables.build_translate()
        os.makedirs(gen_tables.GEN, exist_ok=True)
        info = gen_tables.gen_cfg(exe)
        gen_ok, _ = C.lake_build(["dmgen"])
        if gen_ok:
            dmgen = os.path.join(C.LEAN, ".lake", "build", "bin", "dmgen")
            fl, wt = C.drive(dmgen, ["cfg-failing", "cfg-witness"])
            failing = [e for e in fl[3:].split(";") if e]
            witness = [e.split("|", 1)[1].split(",") for e in wt[3:].split(";") if e and e.split("|", 1)[1]]
        derive = info["derive_features"]
        jobs = []
        # configurations the failing references of the model point at come first
        for w in witness:
            w = [x for x in w if x in derive or x == "std"]
            if any(x in derive for x in w):
                jobs.append(("test", tuple(w)))
                jobs.append(("test", tuple(w + ["std"])) if "std" not in w else ("check", tuple(w)))
        for f in derive:
            jobs.append(("test", (f,)))
            jobs.append(("test", (f, "std")))
        pairs = [(a, b) for i, a in enumerate(derive) for b in derive[i + 1:]]
        if tier == "quick":
            chosen = rng.sample(pairs, 24)
            for a, b in chosen:
                jobs.append(("check", (a, b) if rng.chance(1, 2) else (a, b, "std")))
            for f in rng.sample(derive, 8):
                jobs.append(("check-impl", (f,)))
        else:
            for a, b in pairs:
                jobs.append(("check", (a, b)))
                jobs.append(("check", (a, b, "std")))
            for f in derive:
                jobs.append(("check-impl", (f,)))
            jobs.append(("test", ("full",)))
            jobs.append(("test", ("full", "std")))
        seen, uniq = set(), []
        for j in jobs:
            if j not in seen:
                seen.add(j); uniq.append(j)
        results = schedule(uniq)
        derive_feature = {d["trait"]: d["feature"] for d in info["derives"]}
        space_cfgs = []
        for w in witness:
            w = tuple(x for x in w if x in derive or x == "std")
            if any(x in derive for x in w) and w not in space_cfgs:
                space_cfgs.append(w)
        space_cfgs += [(f,) for f in derive if (f,) not in space_cfgs]
        if tier == "thorough":
            space_cfgs += [(f, "std") for f in derive]
        buckets = [[] for _ in range(WORKERS)]
        for k, w in enumerate(space_cfgs):
            buckets[k % WORKERS].append(w)
        with ThreadPoolExecutor(max_workers=WORKERS) as ex:
            space_results = [r for rs in ex.map(lambda kb: [shape_space_under(w, derive_feature, kb[0]) for w in kb[1]], enumerate(buckets)) for r in rs]
        n_space = sum(r[0] for r in space_results)
        for _, found in space_results:
            for key, what, replay in found[:3]:
                res.violation(key, what, replay)
        n_tests = 0
        bad_cfg = 0
        for mode, feats, rc, out, passed, failed in results:
            n_tests += passed
            if rc != 0:
                bad_cfg += 1
                cfgs = ",".join(feats)
                cmdline = {"test": f"cargo test -p derive_more --no-default-features --features {cfgs} --tests",
                           "check": f"cargo check -p derive_more --no-default-features --features {cfgs} --tests",
                           "check-impl": f"cargo check -p derive_more-impl --no-default-features --features {cfgs}"}[mode]
                err = first_error(out)
                if bad_cfg <= 8:
                    res.violation(f"config:{mode}:{cfgs}", f"`{cmdline}` fails: {err.splitlines()[0][:200] if err else ''}",
                                  {"cmd": cmdline, "features": list(feats), "mode": mode, "error": err, "tests_failed": failed})
        extra = [("translator: every crate-internal path of both crates resolves by name in the item tables", not info["unresolved"] and not info["errors"]),
                 ("regenerated table: every reference holds in every feature set (model evaluation)", failing == []),
                 ("regenerated Cargo tables: facade feature == impl feature, full == all, default == [std]",
                  info["cargo_identity"] and info["full_is_all"] and info["default_is_std"])]
        modes = {}
        for m, *_ in results:
            modes[m] = modes.get(m, 0) + 1
        cov = {
            "evaluations": len(results) + info["refs"],
            "distinct_nontrivial": len(results),
            "rule": "distinct (cargo command, feature set) configurations built (and, for `test`, the repository's own test programs of the enabled derives run) from the working tree",
            "traces_validated_against_impl": len(results),
            "model_vs_impl_disagreements": bad_cfg if failing == [] else 0,
            "distribution": {"configurations": len(results), "by_mode": modes, "repo_tests_passed_in_configurations": n_tests, "failing_configurations": bad_cfg,
                             "references": info["refs"], "references_by_kind": info["by_kind"], "failing_references": failing, "shape_space_items_compiled_under_feature_sets": n_space, "shape_space_feature_sets": [",".join(w) for w in space_cfgs[:40]],
                             "witness_configurations": witness, "unresolved_paths": info["unresolved"][:10]},
            "samples": [{"config": ",".join(f), "mode": m} for m, f, *_ in results[:3]],
        }
    except (C.BuildError, RuntimeError, subprocess.CalledProcessError) as e:
        what = getattr(e, "what", str(e))
        res.violation("build", what, {"output": getattr(e, "output", "")[-3000:]}, found_input=False)
        cov = {"build_error": what}
    finally:
        for w in range(WORKERS):
            shutil.rmtree(os.path.join(C.SCRATCH, f"target-c20-{w}"), ignore_errors=True)
    failed = C.proof_obligations(res, "C20", ["C20"], extra)
    if failed and not res.violations:
        res.violation("obligations:" + ";".join(failed)[:200], "proof obligation / translator tie no longer checks: " + "; ".join(failed)[:300] +
                      (f"; failing references: {'; '.join(failing[:4])}" if failing else ""),
                      {"failed_obligations": failed, "failing_references": failing, "shape_space_items_compiled_under_feature_sets": n_space, "shape_space_feature_sets": [",".join(w) for w in space_cfgs[:40]], "witness_configurations": witness,
                       "note": "every configuration built and tested (including the witnesses) passed"}, found_input=False)
    res.coverage.update(cov)
    res.coverage["impl_vs_oracle_failures"] = len(res.violations)
    res.coverage["trusted_base"] += [
        "translator (harness/oracle_syn `translate cfg` + tools/gen_tables.py): syn's parse of both crates, cfg attributes conjoined along the module tree, name-based resolution of `crate::`/`super::`/`self::` paths and of `derive_more::X` in templates, tomllib for the feature tables; `docsrs`/`ci`/`test`/`nightly` are taken as false; unresolved paths are reported, not assumed",
        "a template is attributed to the derives whose entry module is its module or below it (reuse across entry modules, e.g. `#[mul(forward)]` calling add_like, is not modelled; the cargo runs cover it)",
        "syn API families behind syn's features, the linker and the test programs themselves are outside the model: cargo check / cargo test decide them for the configurations run (all singles with and without std; pairs sampled in quick, all 276 x 2 in thorough)",
    ]
    return res.finish()

"""C20 — every feature works on its own, with and without std."""
import os
import re
import shutil
import subprocess
import sys
from concurrent.futures import ThreadPoolExecutor

from . import common as C

sys.path.insert(0, os.path.join(C.VERIF, "tools"))
import gen_tables  # noqa: E402

WORKERS = 6


def cargo(args, target, timeout=3000):
    env = dict(C.ENV)
    env["CARGO_TARGET_DIR"] = target
    env["CARGO_NET_OFFLINE"] = "true"
    p = subprocess.run(["cargo"] + args, cwd=C.REPO, env=env, stdout=subprocess.PIPE, stderr=subprocess.STDOUT, text=True, timeout=timeout)
    return p.returncode, p.stdout


def run_config(job):
    """job = (mode, features tuple, worker id) ; mode in test | check | check-impl"""
    mode, feats, wid = job
    target = os.path.join(C.SCRATCH, f"target-c20-{wid}")
    fl = ",".join(feats)
    if mode == "test":
        args = ["test", "--offline", "-q", "-p", "derive_more", "--no-default-features", "--features", fl, "--tests", "--no-fail-fast"]
    elif mode == "check":
        args = ["check", "--offline", "-q", "-p", "derive_more", "--no-default-features", "--features", fl, "--tests"]
    else:
        args = ["check", "--offline", "-q", "-p", "derive_more-impl", "--no-default-features", "--features", fl]
    rc, out = cargo(args, target)
    if rc != 0 and mode == "test":
        # `tests/compile_fail.rs` (trybuild, needs `full`) fails on the pinned tree with and without any change (it is
        # outside the repository's stable baseline); a run in which it is the only failing target counts as passing
        failing = set(re.findall(r"--test (\w+)`", out))
        if failing == {"compile_fail"} and "could not compile" not in out:
            rc = 0
    passed = sum(int(x) for x in re.findall(r"test result: \w+\. (\d+) passed", out))
    failed = sum(int(x) for x in re.findall(r"test result: \w+\. \d+ passed; (\d+) failed", out))
    return mode, feats, rc, out, passed, failed


def first_error(out):
    m = re.search(r"^(error(?:\[E\d+\])?: .*(?:\n.*){0,6})", out, flags=re.M)
    if m:
        return m.group(1)[:900]
    m = re.search(r"^(---- .* ----(?:\n.*){0,8})", out, flags=re.M)
    return (m.group(1) if m else out[-900:])[:900]


def schedule(jobs):
    """Runs jobs on WORKERS target directories in parallel (cargo serialises per target directory)."""
    buckets = [[] for _ in range(WORKERS)]
    for k, (mode, feats) in enumerate(jobs):
        buckets[k % WORKERS].append((mode, feats, k % WORKERS))

    def work(bucket):
        return [run_config(j) for j in bucket]
    with ThreadPoolExecutor(max_workers=WORKERS) as ex:
        results = [r for rs in ex.map(work, buckets) for r in rs]
    return results


def run(tier):
    res = C.Result("C20", tier)
    rng = C.Rng(C.seed())
    extra, cov = [], {}
    info, failing, witness = None, None, []
    try:
        exe = gen_tables.build_translate()
        os.makedirs(gen_tables.GEN, exist_ok=True)
        info = gen_tables.gen_cfg(exe)
        gen_ok, _ = C.lake_build(["dmgen"])
        if gen_ok:
            dmgen = os.path.join(C.LEAN, ".lake", "build", "bin", "dmgen")
            fl, wt = C.drive(dmgen, ["cfg-failing", "cfg-witness"])
            failing = [e for e in fl[3:].split(";") if e]
            witness = [e.split("|", 1)[1].split(",") for e in wt[3:].split(";") if e and e.split("|", 1)[1]]
        derive = info["derive_features"]
        jobs = []
        # configurations the failing references of the model point at come first
        for w in witness:
            w = [x for x in w if x in derive or x == "std"]
            if any(x in derive for x in w):
                jobs.append(("test", tuple(w)))
                jobs.append(("test", tuple(w + ["std"])) if "std" not in w else ("check", tuple(w)))
        for f in derive:
            jobs.append(("test", (f,)))
            jobs.append(("test", (f, "std")))
        pairs = [(a, b) for i, a in enumerate(derive) for b in derive[i + 1:]]
        if tier == "quick":
            chosen = rng.sample(pairs, 24)
            for a, b in chosen:
                jobs.append(("check", (a, b) if rng.chance(1, 2) else (a, b, "std")))
            for f in rng.sample(derive, 8):
                jobs.append(("check-impl", (f,)))
        else:
            for a, b in pairs:
                jobs.append(("check", (a, b)))
                jobs.append(("check", (a, b, "std")))
            for f in derive:
                jobs.append(("check-impl", (f,)))
            jobs.append(("test", ("full",)))
            jobs.append(("test", ("full", "std")))
        seen, uniq = set(), []
        for j in jobs:
            if j not in seen:
                seen.add(j); uniq.append(j)
        results = schedule(uniq)
        n_tests = 0
        bad_cfg = 0
        for mode, feats, rc, out, passed, failed in results:
            n_tests += passed
            if rc != 0:
                bad_cfg += 1
                cfgs = ",".join(feats)
                cmdline = {"test": f"cargo test -p derive_more --no-default-features --features {cfgs} --tests",
                           "check": f"cargo check -p derive_more --no-default-features --features {cfgs} --tests",
                           "check-impl": f"cargo check -p derive_more-impl --no-default-features --features {cfgs}"}[mode]
                err = first_error(out)
                if bad_cfg <= 8:
                    res.violation(f"config:{mode}:{cfgs}", f"`{cmdline}` fails: {err.splitlines()[0][:200] if err else ''}",
                                  {"cmd": cmdline, "features": list(feats), "mode": mode, "error": err, "tests_failed": failed})
        extra = [("translator: every crate-internal path of both crates resolves by name in the item tables", not info["unresolved"] and not info["errors"]),
                 ("regenerated table: every reference holds in every feature set (model evaluation)", failing == []),
                 ("regenerated Cargo tables: facade feature == impl feature, full == all, default == [std]",
                  info["cargo_identity"] and info["full_is_all"] and info["default_is_std"])]
        modes = {}
        for m, *_ in results:
            modes[m] = modes.get(m, 0) + 1
        cov = {
            "evaluations": len(results) + info["refs"],
            "distinct_nontrivial": len(results),
            "rule": "distinct (cargo command, feature set) configurations built (and, for `test`, the repository's own test programs of the enabled derives run) from the working tree",
            "traces_validated_against_impl": len(results),
            "model_vs_impl_disagreements": bad_cfg if failing == [] else 0,
            "distribution": {"configurations": len(results), "by_mode": modes, "repo_tests_passed_in_configurations": n_tests, "failing_configurations": bad_cfg,
                             "references": info["refs"], "references_by_kind": info["by_kind"], "failing_references": failing,
                             "witness_configurations": witness, "unresolved_paths": info["unresolved"][:10]},
            "samples": [{"config": ",".join(f), "mode": m} for m, f, *_ in results[:3]],
        }
    except (C.BuildError, RuntimeError, subprocess.CalledProcessError) as e:
        what = getattr(e, "what", str(e))
        res.violation("build", what, {"output": getattr(e, "output", "")[-3000:]}, found_input=False)
        cov = {"build_error": what}
    finally:
        for w in range(WORKERS):
            shutil.rmtree(os.path.join(C.SCRATCH, f"target-c20-{w}"), ignore_errors=True)
    failed = C.proof_obligations(res, "C20", ["C20"], extra)
    if failed and not res.violations:
        res.violation("obligations:" + ";".join(failed)[:200], "proof obligation / translator tie no longer checks: " + "; ".join(failed)[:300] +
                      (f"; failing references: {'; '.join(failing[:4])}" if failing else ""),
                      {"failed_obligations": failed, "failing_references": failing, "witness_configurations": witness,
                       "note": "every configuration built and tested (including the witnesses) passed"}, found_input=False)
    res.coverage.update(cov)
    res.coverage["impl_vs_oracle_failures"] = len(res.violations)
    res.coverage["trusted_base"] += [
        "translator (harness/oracle_syn `translate cfg` + tools/gen_tables.py): syn's parse of both crates, cfg attributes conjoined along the module tree, name-based resolution of `crate::`/`super::`/`self::` paths and of `derive_more::X` in templates, tomllib for the feature tables; `docsrs`/`ci`/`test`/`nightly` are taken as false; unresolved paths are reported, not assumed",
        "a template is attributed to the derives whose entry module is its module or below it (reuse across entry modules, e.g. `#[mul(forward)]` calling add_like, is not modelled; the cargo runs cover it)",
        "syn API families behind syn's features, the linker and the test programs themselves are outside the model: cargo check / cargo test decide them for the configurations run (all singles with and without std; pairs sampled in quick, all 276 x 2 in thorough)",
    ]
    return res.finish()

"""Container attributes of the formatting derives (`#[display("..", args)]`, `bound(..)` / `bounds(..)` / `where(..)`,
`rename_all = ".."`, several of them on one item): Lean model `fc` (what each attribute is read as, how they merge)
against the working tree. The model's answer is spelled back in *normal form* (at most one format attribute, one
bounds attribute holding every predicate in order, one `rename_all`) and expanded by the working tree: it must expand
to exactly what the attributes as written expand to; where the model rejects, the working tree must reject."""
from . import common as C

LITS = {0: ['"x"', '"{a}"', '"{b:?} and {a}"', '"{a} {a}"'], 1: ['"{}"', '"{0} {a}"', '"{:?}"'], 2: ['"{} {}"', '"{1} {0:?}"']}
ARGS = ["a", "b", "b + 1", "n = b"]
PREDS = ["T: Clone", "T: core::fmt::Debug", "u8: Copy", "Vec<T>: Sized", "T: 'static", "T: Clone + Default"]
CASES = {"lower": "lowercase", "upper": "UPPERCASE", "pascal": "PascalCase", "camel": "camelCase", "snake": "snake_case",
         "screaming_snake": "SCREAMING_SNAKE_CASE", "kebab": "kebab-case", "screaming_kebab": "SCREAMING-KEBAB-CASE"}
UNKNOWN = ["skip", "bogus(T: Clone)", "1", 'rename = "snake_case"', "", None, "bound", "rename_all", "bounds = \"T: Clone\"",
           "rename_all(\"snake_case\")", "ignore", "forward", "'a'", "where", "bound[T: Clone]"]
POSITIONS = {
    # name: (derive, attribute name, grammar, source with {A})
    "display-struct": ("Display", "display", "display", "{A}struct S<T> {{ a: T, b: u8 }}"),
    "display-variant": ("Display", "display", "display", "enum E<T> {{ {A}Vee {{ a: T, b: u8 }}, #[display(\"w\")] Www }}"),
    "display-unit-variant": ("Display", "display", "display", "enum E {{ {A}VeeVee, Www }}"),
    "display-enum": ("Display", "display", "display", "{A}enum E<T> {{ #[display(\"{{a}}\")] Vee {{ a: T, b: u8 }}, WwwXx }}"),
    "display-newtype": ("Display", "display", "display", "{A}struct S<T>(T);"),
    "lowerhex-struct": ("LowerHex", "lower_hex", "display", "{A}struct S<T> {{ a: T, b: u8 }}"),
    "debug-struct": ("Debug", "debug", "common", "{A}struct S<T> {{ a: T, b: u8 }}"),
    "debug-enum": ("Debug", "debug", "debug-enum", "{A}enum E<T> {{ Vee {{ a: T, b: u8 }}, Www }}"),
    "debug-variant": ("Debug", "debug", "fmt-only", "enum E<T> {{ {A}Vee {{ a: T, b: u8 }}, Www }}"),
}
NOFIELDS = {"display-unit-variant", "display-enum", "display-newtype", "debug-enum"}
# positions where an item without a format attribute is refused for a reason outside the attribute grammar (several fields)
NEEDS_FMT = {"display-struct", "lowerhex-struct", "display-variant"}     # positions whose format may not name a / b


def gen_attr(rng, pos):
    """(source of the parenthesised arguments or None for `#[name]`, sexp for `fc`)"""
    r = rng.below(20)
    if r < 7:
        k = 0 if pos in NOFIELDS else rng.choice([0, 0, 1, 2])
        args = [rng.below(len(ARGS) - 1) if pos not in NOFIELDS else 0 for _ in range(k)]
        li = 0 if pos in NOFIELDS else rng.below(len(LITS[k]))
        lit = LITS[k][li]
        src = ", ".join([lit] + [ARGS[a] for a in args]) + ("," if rng.chance(1, 5) else "")
        return src, f"(f {k * 10 + li}" + "".join(f" {a}" for a in args) + ")"
    if r < 13:
        kw = rng.choice(["bound", "bounds", "bound", "bounds", "where"])
        ps = [rng.below(len(PREDS)) for _ in range(rng.choice([0, 1, 1, 2, 3]))]
        src = f"{kw}(" + ", ".join(PREDS[p] for p in ps) + ("," if ps and rng.chance(1, 4) else "") + ")"
        if kw == "where":
            return src, "u"       # let through by the lookahead, refused by BoundsAttribute::parse (a keyword is no path)
        return src, f"(b {kw}" + "".join(f" {p}" for p in ps) + ")"
    if r < 16:
        c = rng.choice(sorted(CASES))
        spell = rng.choice([CASES[c], CASES[c], CASES[c].upper(), CASES[c].replace("_", "-"), CASES[c].lower().replace("-", "_")])
        return f'rename_all = "{spell}"', f"(r {c})"
    if r == 16:
        return f'rename_all = "{rng.choice(["bogus", "snake case", "", "Title Case"])}"', "(r -)"
    if r == 17:
        return rng.choice(['fmt = "{}"', 'fmt = "{}", a', 'fmt = "x"']), "lf"
    if r == 18:
        return 'bound = "T: Clone"', "lb"
    return rng.choice(UNKNOWN), "u"


def attrs_src(name, srcs):
    return "".join(f"#[{name}] " if s is None else f"#[{name}({s})] " for s in srcs)


def normal_form(name, ans):
    """`(p <-|(f lit args)> (b preds) <case|->)` -> attribute source in normal form."""
    body = ans[3:-1]
    out = []
    if body.startswith("(f "):
        end = body.index(")")
        nums = [int(x) for x in body[3:end].split()]
        k, li = divmod(nums[0], 10)
        out.append(", ".join([LITS[k][li]] + [ARGS[a] for a in nums[1:]]))
        body = body[end + 1:].strip()
    else:
        body = body[1:].strip()
    end = body.index(")")
    preds = [int(x) for x in body[2:end].split()]
    if preds:
        out.append("bound(" + ", ".join(PREDS[p] for p in preds) + ")")
    case = body[end + 1:].strip()
    if case != "-":
        out.append(f'rename_all = "{CASES[case]}"')
    return attrs_src(name, out)


def correspondence(inproc, lean_drive, rng, n, impls):
    cases = []
    for pos, (derive, name, grammar, tmpl) in POSITIONS.items():
        for i in range(n):
            k = rng.choice([0, 1, 1, 2, 2, 3, 4]) if i else 0
            parts = [gen_attr(rng, pos) for _ in range(k)]
            src = tmpl.format(A=attrs_src(name, [p[0] for p in parts]))
            req = f"fc ({grammar}" + "".join(" " + p[1] for p in parts) + ")"
            cases.append((pos, src, req))
    model = lean_drive([c[2] for c in cases])
    srcs = []
    for (pos, src, req), m in zip(cases, model):
        derive, name, grammar, tmpl = POSITIONS[pos]
        srcs.append(src)
        srcs.append(tmpl.format(A=normal_form(name, m)) if m.startswith("(p") else src)
    impl = C.drive(inproc, [f"expand {POSITIONS[cases[i // 2][0]][0]} {C.hexs(s)}" for i, s in enumerate(srcs)])
    bad, dist = [], {}
    for i, ((pos, src, req), m) in enumerate(zip(cases, model)):
        ra, rb = impl[2 * i], impl[2 * i + 1]
        verdict = "ok" if ra.startswith("ok") else ("panic" if ra.startswith("panic") else "err")
        key = pos + ":" + ("accepted" if m.startswith("(p") else m)
        dist[key] = dist.get(key, 0) + 1
        if m == "err":
            if verdict != "err":
                bad.append({"position": pos, "source": src, "impl": verdict, "model": "err", "raw": ra[:300]})
        elif m.startswith("(p"):
            # (a unit variant of a non-Display derive etc. may still be refused for reasons outside the attribute grammar:
            # the normal form then has to be refused as well)
            if verdict != "ok" and (m.startswith("(p (f") or pos not in NEEDS_FMT):
                bad.append({"position": pos, "source": src, "impl": verdict, "model": m, "raw": ra[:300]})
            elif impls(ra) != impls(rb):
                bad.append({"position": pos, "source": src, "normal_form": srcs[2 * i + 1], "impl": ra[:400], "impl_normal_form": rb[:400], "model": m})
        else:
            bad.append({"position": pos, "source": src, "model": m, "impl": verdict})
    return cases, bad, dist


# ---------------------------------------------------------------- field attributes of Debug
FIELD_ATTR = {"s": "#[debug(skip)] ", "i": "#[debug(ignore)] ", "f": None, "u": None}
FIELD_UNREADABLE = ["#[debug(bogus)] ", "#[debug] ", "#[debug()] ", "#[debug(bound(T: Clone))] ", '#[debug(fmt = "{}")] ', "#[debug(skip, ignore)] ",
                    "#[debug(skip = true)] ", '#[debug(rename_all = "snake_case")] ', "#[debug(1)] ", "#[debug(forward)] "]


def gen_debug_fields(rng):
    """A struct or a variant deriving Debug with field attributes; (source, `fd` request)."""
    named = rng.chance(1, 2)
    k = 1 + rng.below(3)
    names = ["a", "b", "c"][:k]
    cf = rng.chance(1, 2)
    codes, decls = [], []
    for i in range(k):
        n = rng.choice([0, 0, 1, 1, 1, 2])
        cs, src = [], ""
        for _ in range(n):
            c = rng.choice(["s", "i", "f", "f", "u"])
            cs.append(c)
            if c == "f":
                ref = names[i] if named else f"_{i}"
                src += rng.choice([f'#[debug("{{{ref}}}")] ', '#[debug("x")] ', f'#[debug("{{}}", {ref})] ', f'#[debug("{{{ref}:?}}",)] '])
            elif c == "u":
                src += rng.choice(FIELD_UNREADABLE)
            else:
                src += FIELD_ATTR[c]
        codes.append(",".join(cs) if cs else "-")
        decls.append(src + (f"{names[i]}: u8" if named else "u8"))
    body = (" { " + ", ".join(decls) + " }") if named else ("(" + ", ".join(decls) + ")")
    cattr = '#[debug("lit")] ' if cf else ""
    if rng.chance(1, 2):
        src = f"{cattr}struct S{body}" + ("" if named else ";")
    else:
        src = f"enum E {{ First, {cattr}V{body}, #[debug(\"l\")] Last(u8) }}"
    return src, f"fd {1 if cf else 0} " + " ".join(codes)


def debug_fields_correspondence(inproc, lean_drive, rng, n):
    cases = [gen_debug_fields(rng) for _ in range(n)]
    model = lean_drive([c[1] for c in cases])
    impl = C.drive(inproc, [f"expand Debug {C.hexs(c[0])}" for c in cases])
    bad, dist = [], {}
    for (src, req), m, ia in zip(cases, model, impl):
        got = "ok" if ia.startswith("ok") else ("panic" if ia.startswith("panic") else "err")
        dist[m] = dist.get(m, 0) + 1
        if got != m:
            bad.append({"source": src, "model": m, "impl": got, "raw": ia[:300]})
    return cases, bad, dist

"""C04 — inferred formatting bounds on generics are sufficient and not excessive."""
from . import common as C
from . import fmtgen as G
from . import fmtx

TRAITS = G.TRAITS + ["Debug"]
TYCH = {"Display": "", "Debug": "?", "LowerHex": "x", "UpperHex": "X", "Octal": "o", "Binary": "b",
        "LowerExp": "e", "UpperExp": "E", "Pointer": "p"}
BY_CH = {v: k for k, v in TYCH.items()}

# (source, type parameters mentioned, well-typed & Debug when its parameters are Debug)
TYPOOL = [
    ("T", "T", True), ("&'static T", "T", False), ("[T; 2]", "T", True), ("(T, u8)", "T", True),
    ("Vec<T>", "T", True), ("Option<U>", "U", True), ("u8", "", True), ("String", "", True),
    ("core::marker::PhantomData<V>", "V", True), ("(U, Vec<T>)", "TU", True), ("Box<U>", "U", True),
    ("fn(T) -> U", "TU", False), ("Box<dyn Fn(T) -> u8>", "T", False), ("T::Item", "T", False),
    ("<U as Tr>::Out", "U", False), ("Wrap<'static, T, 3>", "T", False), ("Box<dyn Tr<T>>", "T", False),
    ("Foo<Item = U>", "U", False), ("[u8; N]", "", False), ("*const V", "V", True), ("&'static [U]", "U", False),
    ("std::vec::Vec<u8>", "", True),
    # several inputs, only one of them (or only the output) generic
    ("Box<dyn Fn(T, u8) -> u8>", "T", False), ("Box<dyn Fn(u8, u16) -> U>", "U", False), ("fn(u8, T) -> u8", "T", False),
    ("fn(u8, u16) -> V", "V", False), ("Box<dyn Fn(u8, u16)>", "", False),
    # qualified paths with a concrete `Self` type: the parameter is in the trait's / the associated type's arguments
    ("<u8 as Conv<T>>::Out", "T", True), ("<Fam as Family>::Of<U>", "U", True), ("<u8 as Conv<u16>>::Out", "", True),
]


def split_top(s):
    """Splits a whitespace-free predicate list at top-level commas."""
    out, cur, depth, i = [], [], 0, 0
    while i < len(s):
        c = s[i]
        if s.startswith("->", i):
            cur.append("->"); i += 2; continue
        if c in "<([{":
            depth += 1
        elif c in ">)]}":
            depth -= 1
        if c == "," and depth == 0:
            out.append("".join(cur)); cur = []
        else:
            cur.append(c)
        i += 1
    if cur:
        out.append("".join(cur))
    return out


def gen_fields(rng, welltyped):
    named = rng.chance(1, 2)
    k = 1 + rng.below(4)
    pool = [t for t in TYPOOL if t[2]] if welltyped else TYPOOL
    names = rng.sample(["a", "b", "c", "r#type", "source"], k) if named else [f"_{i}" for i in range(k)]
    return named, [(names[i],) + rng.choice(pool) for i in range(k)]


def gen_attr(rng, fields, derive, welltyped):
    """Builds a literal + args over `fields`; returns (attr source, [(field index, trait)] in order)."""
    pieces, args, named_args, expect = [], [], [], []
    nph = 1 + rng.below(4)
    unraw = lambda n: n[2:] if n.startswith("r#") else n
    pos = 0            # std's implicit counter
    # at times one field's name is also given as an explicit `name = <expression>` argument: `{name}` then denotes that
    # argument, as it does for format_args!, and needs no bound (the field can still be reached as a bare identifier)
    sf = None
    if rng.chance(1, 4):
        cand = [i for i, f in enumerate(fields) if not f[0].startswith("r#")]
        if cand:
            sf = rng.choice(cand)
            named_args.append(f"{fields[sf][0]} = {rng.choice(['0u8', '1 + 1', 'u8::MAX', '(2u8)'])}")
            pieces.append("{" + fields[sf][0] + "}")
    for _ in range(nph):
        fi = rng.below(len(fields))
        name, ty, mentions, _ok = fields[fi]
        if welltyped:
            ch = "?" if ty not in ("T", "&'static T", "u8", "String", "Box<U>") or rng.chance(1, 2) else rng.choice(["", "?"])
        else:
            ch = rng.choice(list(TYCH.values()))
        tr = BY_CH[ch]
        spec_mods = rng.choice(["", "", ">8", "#", " "]) if ch in ("", "?") else ""
        spec = (":" + spec_mods.strip() + ch if (spec_mods.strip() or ch) else "") + (" " if spec_mods == " " else "")
        k = rng.below(8)
        if k == 0:
            pieces.append("{" + unraw(name) + spec + "}")
            if fi != sf:
                expect.append((fi, tr))
        elif k == 1:                                   # implicit positional with a bare identifier
            while len(args) < pos:
                args.append("0usize")
            if len(args) == pos:
                args.append(name)
                pieces.append("{" + spec + "}")
                pos += 1
                expect.append((fi, tr))
            else:
                pieces.append("{" + unraw(name) + spec + "}")
                if fi != sf:
                    expect.append((fi, tr))
        elif k == 2:                                   # explicit index
            args.append(name)
            pieces.append("{" + str(len(args) - 1) + spec + "}")
            expect.append((fi, tr))
        elif k == 3:                                   # alias of a bare identifier
            al = rng.choice(["z", "val"]) + str(len(named_args))
            named_args.append(f"{al} = {name}")
            pieces.append("{" + al + spec + "}")
            expect.append((fi, tr))
        elif k == 4 and len(args) == pos:              # `.*`: precision from the next position first
            args.append("2usize")
            args.append(name)
            pieces.append("{:.*" + ch + "}")
            pos += 2
            expect.append((fi, tr))
        elif k == 6 and len(args) == pos:              # explicit argument with `.*`: the precision still takes the next position
            args.append("2usize")
            pos += 1
            pieces.append("{" + unraw(name) + ":.*" + ch + "}")
            if fi != sf:
                expect.append((fi, tr))
        elif k == 5:                                   # an expression: no bound can be inferred
            args.append("0u8")
            pieces.append("{" + str(len(args) - 1) + "}")
        else:
            pieces.append("{" + unraw(name) + spec + "}")
            if fi != sf:
                expect.append((fi, tr))
        if rng.chance(1, 3):
            pieces.append(rng.choice([" ", "{{", "}}", "-"]))
    # unused positional arguments are rejected by format_args!: reference every one
    lit = "".join(pieces)
    used = set()
    import re
    for m in re.finditer(r"\{(\d+)", lit):
        used.add(int(m.group(1)))
    # implicit placeholders consume 0..pos-1
    for i in range(pos):
        used.add(i)
    for i, a in enumerate(args):
        if i not in used and "=" not in a:
            lit += "{" + str(i) + ":.0}" if a == "2usize" or a == "0usize" else "{" + str(i) + "}"
            if a not in ("2usize", "0usize", "0u8"):
                fi = [f[0] for f in fields].index(a)
                expect.append((fi, "Display"))
    src = '"' + lit + '"' + "".join(", " + a for a in args + named_args)
    return src, expect


def fields_decl(named, fields, field_attrs=None):
    fa = field_attrs or {}
    if named:
        return " { " + ", ".join(fa.get(i, "") + f"{n}: {t}" for i, (n, t, _, _) in enumerate(fields)) + " }"
    return "(" + ", ".join(fa.get(i, "") + t for i, (n, t, _, _) in enumerate(fields)) + ")"


def gen_case(rng, derive, welltyped, marker=False):
    """One generic struct or enum with known expected inferred predicates (by construction)."""
    an = G.ATTR_NAME[derive]
    is_enum = rng.chance(1, 3)
    variants = []
    expect = []
    nvar = 1 + rng.below(3) if is_enum else 1
    for vi in range(nvar):
        named, fields = gen_fields(rng, welltyped)
        mode = rng.below(4)
        field_attrs = {}
        attr_src = ""
        if derive == "Debug" and mode >= 2:
            # no container attribute: every non-skipped field is bounded by Debug, field literals by their placeholders
            for i, (n, t, m, _) in enumerate(fields):
                r = rng.below(5)
                if r == 0:
                    field_attrs[i] = f"#[debug({rng.choice(['skip', 'ignore'])})] "
                elif r == 1:
                    s, ex = gen_attr(rng, fields, derive, welltyped)
                    field_attrs[i] = f"#[debug({s})] "
                    expect += [(vi, j, tr) for j, tr in ex]
                else:
                    expect.append((vi, i, "Debug"))
        elif (derive != "Debug" and mode == 3 and len(fields) == 1 and (is_enum or not marker)
              and (not welltyped or fields[0][1] in ("T", "&'static T", "Box<U>", "u8", "String"))):
            expect.append((vi, 0, derive))          # implicit delegation to the only field
        else:
            s, ex = gen_attr(rng, fields, derive, welltyped)
            attr_src = f"#[{an}({s})] "
            expect += [(vi, j, tr) for j, tr in ex]
        if marker and not is_enum:
            # keep every parameter used without formatting it
            mi = len(fields)
            fields = fields + [("marker_" if named else f"_{mi}", "core::marker::PhantomData<(T, U, V)>", "", True)]
            if derive == "Debug" and not attr_src:
                field_attrs[mi] = "#[debug(skip)] "
        variants.append((named, fields, attr_src, field_attrs))
    if marker and is_enum:
        variants.append((False, [("_0", "core::marker::PhantomData<(T, U, V)>", "", True)], f'#[{an}("m")] ', {}))
    preds = []
    for vi, j, tr in expect:
        n, t, m, _ = variants[vi][1][j]
        if m:
            preds.append(G.strip_ws(t) + ":derive_more::core::fmt::" + tr)
    user = rng.choice(["", "", "#[%s(bound(V: Clone))] " % an])
    gen = ("<T: 'static, U: 'static, V: 'static>" if marker else "<T, U, V" + (", const N: usize" if not welltyped else "") + ">")
    if is_enum:
        body = " { " + ", ".join(f"{a}V{i}{fields_decl(nm, fs, fa)}" for i, (nm, fs, a, fa) in enumerate(variants)) + " }"
        src = f"{user}enum S{gen}{body}"
    else:
        nm, fs, a, fa = variants[0]
        src = f"{user}{a}struct S{gen}{fields_decl(nm, fs, fa)}" + ("" if nm else ";")
    if user:
        # struct: user bounds come after the attribute's own; Debug: first; enums: per variant
        pass
    formatted = set()
    for vi, j, tr in expect:
        formatted |= set(variants[vi][1][j][2])
    return {"src": src, "preds": preds, "user": bool(user), "formatted": formatted, "derive": derive}


def oracle_check(res, inproc, rng, n):
    cases = [gen_case(rng, rng.choice(TRAITS), welltyped=False) for _ in range(n)]
    ans = C.drive(inproc, [f"expand {c['derive']} {C.hexs(c['src'])}" for c in cases])
    n_ok = n_with = 0
    for c, a in zip(cases, ans):
        if not a.startswith("ok "):
            if a.startswith("panic"):
                res.violation("panic:" + C.hexs(c["src"]), f"{c['src']}: the expander panicked: {a}", {"cmd": "expand", "derive": c["derive"], "source": c["src"], "answer": a})
            continue
        n_ok += 1
        body, wh = G.split_expansion(a, "S")
        got = split_top(wh[5:]) if wh.startswith("where") else []
        got = [g for g in got if g != "V:Clone"]
        want = c["preds"]
        if want:
            n_with += 1
        if sorted(got) != sorted(want):
            missing = [w for w in want if w not in got]
            extra = [g for g in got if g not in want]
            res.violation("bounds:" + C.hexs(c["src"]),
                          f"#[derive({c['derive']})] {c['src']}: inferred predicates differ from the ones its placeholders need: missing {missing}, superfluous {extra}",
                          {"cmd": "expand", "derive": c["derive"], "source": c["src"], "inferred": got, "needed": want})
    return len(cases), n_ok, n_with, cases[:3]


PRELUDE = r'''
#![allow(dead_code, unused_variables, non_camel_case_types, unused_imports)]
use core::fmt;
pub struct NoFmt;
macro_rules! only { ($($n:ident $t:ident),*) => { $( pub struct $n; impl fmt::$t for $n { fn fmt(&self, f: &mut fmt::Formatter<'_>) -> fmt::Result { f.write_str("o") } } )* } }
only!(OnlyDisplay Display, OnlyLowerHex LowerHex, OnlyUpperHex UpperHex, OnlyOctal Octal, OnlyBinary Binary, OnlyLowerExp LowerExp, OnlyUpperExp UpperExp);
pub fn need_Display<X: fmt::Display>() {}
pub fn need_Debug<X: fmt::Debug>() {}
pub fn need_LowerHex<X: fmt::LowerHex>() {}
pub fn need_UpperHex<X: fmt::UpperHex>() {}
pub fn need_Octal<X: fmt::Octal>() {}
pub fn need_Binary<X: fmt::Binary>() {}
pub fn need_LowerExp<X: fmt::LowerExp>() {}
pub fn need_UpperExp<X: fmt::UpperExp>() {}
pub fn need_Pointer<X: fmt::Pointer>() {}
pub trait Conv<X> { type Out; }
impl<X> Conv<X> for u8 { type Out = Vec<X>; }
pub struct Fam;
pub trait Family { type Of<X>; }
impl Family for Fam { type Of<X> = Option<X>; }
pub trait Named { const NAME: &'static str; }
impl Named for u8 { const NAME: &'static str = "u8"; }
'''


def compile_check(res, rng, tier):
    """Sufficiency: the generic impls type-check with no user bounds. Non-excess: the impl exists
    when every parameter that is not formatted is instantiated with a type without any fmt impl."""
    n = 90 if tier == "quick" else 900
    cf = C.CaseFile(PRELUDE)
    metas = {}
    for i in range(n):
        derive = rng.choice(["Display", "Debug", "Debug", "Display"])
        c = gen_case(rng, derive, welltyped=True, marker=True)
        if c["user"]:
            continue
        inst = ", ".join(("u8" if p in c["formatted"] else "NoFmt") for p in "TUV")
        cf.add(i, f"#[derive(derive_more::{derive})] {c['src']}\npub fn chk() {{ need_{derive}::<S<{inst}>>(); }}")
        metas[i] = c
    # fixed cases with stable keys (reference fields next to owned ones)
    fixed = [
        ("static-ref-only", "Debug", "struct S<T: 'static, U, V>(&'static T, core::marker::PhantomData<(U, V)>);", "u8, NoFmt, NoFmt"),
        ("static-ref-and-owned-same-param", "Debug", "struct S<T: 'static, U, V>(T, &'static T, core::marker::PhantomData<(U, V)>);", "u8, NoFmt, NoFmt"),
        ("static-ref-and-owned-same-param-display", "Display", "#[display(\"{_0} {_1}\")] struct S<T: 'static, U, V>(T, &'static T, core::marker::PhantomData<(U, V)>);", "u8, NoFmt, NoFmt"),
        ("ref-lifetime-param", "Debug", "struct S<'a, T, U, V>(&'a T, core::marker::PhantomData<(U, V)>);", "'static, u8, NoFmt, NoFmt"),
        # bounds that come from the enum-level (shared) attribute
        ("shared-attr-positional", "Display", "#[display(\"<{_variant}> {_0}\")] enum S<T, U, V> { #[display(\"a\")] A(T), #[display(\"b\")] B(T, core::marker::PhantomData<(U, V)>) }", "u8, NoFmt, NoFmt"),
        ("shared-attr-named-hex", "LowerHex", "#[lower_hex(\"{_variant}/{x:x}\")] enum S<T, U, V> { #[lower_hex(\"a\")] A { x: T }, #[lower_hex(\"b\")] B { x: T, p: core::marker::PhantomData<(U, V)> } }", "u8, NoFmt, NoFmt"),
        ("shared-attr-and-variant-attr", "Display", "#[display(\"{_variant}|{_1:?}\")] enum S<T, U, V> { #[display(\"{_0}\")] A(T, U), #[display(\"b\")] B(u8, U, core::marker::PhantomData<V>) }", "u8, u8, NoFmt"),
    ]
    # `bound(..)` predicates given next to a variant's own format reach the where-clause also for unit and field-less variants,
    # whose format can still use a parameter statically (seed C04-k; theorem user_bounds_always_kept)
    for tr, an in (("Display", "display"), ("Octal", "octal")):
        fixed.append((f"user-bound-on-fieldless-variants-{an}", tr,
                      f"enum S<T, U, V> {{ #[{an}(\"e {{}}\", T::NAME)] #[{an}(bound(T: Named))] Empty, #[{an}(\"t {{}}\", U::NAME)] #[{an}(bound(U: Named))] Tup(), "
                      f"#[{an}(\"b {{}}\", T::NAME)] #[{an}(bound(T: Named))] Braces {{}}, #[{an}(\"f\")] Full(core::marker::PhantomData<(T, U, V)>) }}", "u8, u8, NoFmt"))
    # implicit delegation of a single-field variant under a wrapping enum-level format, and of a newtype, for every trait:
    # the bound is the derived trait on the field's type, and a type implementing only that trait must be enough
    for tr, an in (("Display", "display"), ("LowerHex", "lower_hex"), ("UpperHex", "upper_hex"), ("Octal", "octal"), ("Binary", "binary"),
                   ("LowerExp", "lower_exp"), ("UpperExp", "upper_exp")):
        only = f"Only{tr}"
        fixed.append((f"wrapped-implicit-{an}", tr, f"#[{an}(\"<{{_variant}}>\")] enum S<T, U, V> {{ A(T), #[{an}(\"b\")] B(core::marker::PhantomData<(U, V)>) }}", f"{only}, NoFmt, NoFmt"))
        fixed.append((f"wrapped-implicit-with-arg-{an}", tr, f"#[{an}(\"{{_variant}} {{}}\", 1)] enum S<T, U, V> {{ A(T), B(U), #[{an}(\"c\")] C(V) }}", f"{only}, {only}, NoFmt"))
        fixed.append((f"newtype-implicit-{an}", tr, "struct S<T, U, V>(T, core::marker::PhantomData<(U, V)>);" if False else f"enum S<T, U, V> {{ A(T), #[{an}(\"b\")] B(core::marker::PhantomData<(U, V)>) }}", f"{only}, NoFmt, NoFmt"))
    for j, (key, derive, src, inst) in enumerate(fixed):
        i = 100000 + j
        cf.add(i, f"#[derive(derive_more::{derive})] {src}\npub fn chk() {{ need_{derive}::<S<{inst}>>(); }}")
        metas[i] = {"src": src, "derive": derive, "key": key}
    d = C.scratch_crate("c04-bounds", cf.source())
    try:
        rc, diags, err = C.scratch_check(d)
        by, stray = cf.errors_by_case(diags)
        if rc != 0 and not by:
            raise C.BuildError("C04 scratch crate failed to build without an error attributable to a case", err[-3000:])
        for i, errs in by.items():
            c = metas[i]
            res.violation("compile:" + (c.get("key") or C.hexs(c["src"])),
                          f"#[derive({c['derive']})] {c['src']} with unformatted parameters instantiated by a type without fmt impls: {errs[0][:300]}",
                          {"cmd": "compile", "derive": c["derive"], "source": c["src"], "errors": errs[:3]})
        return len(metas), [metas[k]["src"] for k in list(metas)[:2]]
    finally:
        C.scratch_cleanup(d)


def run(tier):
    res = C.Result("C04", tier)
    rng = C.Rng(C.seed())
    extra, bad, cov = [], [], {}
    try:
        inproc = C.cargo_build_inproc()
        lean_ok, _ = C.lake_build(["Dm.Props.C04", "dmdriver"])
        n = 120 if tier == "quick" else 2500
        cases, bad = fmtx.correspond(inproc, rng, TRAITS, n) if lean_ok else ([], [])
        no, n_ok, n_with, osamples = oracle_check(res, inproc, rng, 6000 if tier == "quick" else 100000)
        ncomp, csamples = compile_check(res, rng, tier)
        with_where = sum(1 for c in cases if c["impl"] and c["impl"][1] != "nowhere")
        extra = [("correspondence: Display-like/Debug expander model == working-tree expanders (where-clause and fmt body)", lean_ok and not bad)]
        cov = {
            "evaluations": len(cases) + no + ncomp,
            "distinct_nontrivial": len({c["src"] for c in cases if c["impl"] and c["impl"][1] != "nowhere"}) + n_with,
            "rule": "items whose expansion carries at least one inferred where-predicate (correspondence) + generated generic items that need at least one bound (oracle by construction)",
            "traces_validated_against_impl": len(cases),
            "model_vs_impl_disagreements": len(bad),
            "distribution": {"items": len(cases), "items_with_where_clause": with_where, "oracle_cases": no,
                             "oracle_cases_expanded": n_ok, "oracle_cases_needing_bounds": n_with,
                             "compiled_generic_types": ncomp},
            "samples": [{"item": c["src"], "where": c["impl"][1] if c["impl"] else "err"} for c in cases[:3]]
                       + [{"oracle_case": c["src"], "needed": c["preds"]} for c in osamples] + [{"compiled": s} for s in csamples],
        }
    except C.BuildError as e:
        res.violation("build", e.what, {"output": e.output[-3000:]}, found_input=False)
        cov = {"build_error": e.what}
    failed = C.proof_obligations(res, "C04", ["C04"], extra)
    if failed and not res.violations:
        res.violation("obligations:" + ";".join(failed)[:200], "proof obligation / correspondence no longer checks: " + "; ".join(failed)[:400],
                      {"failed_obligations": failed,
                       "correspondence_disagreements": [{"trait": b["trait"], "item": b["src"], "impl": b["impl"], "model": b["model"]} for b in bad[:8]]},
                      found_input=False)
    res.coverage.update(cov)
    res.coverage["impl_vs_oracle_failures"] = len(res.violations)
    res.coverage["trusted_base"] += [
        "model of bounded_types / generate_bounds / contains_generics compared with the working-tree expanders' where-clauses on every generated item",
        "oracle: the predicates a literal needs are known by construction of the generated literal (std's positional rules incl. `.*`)",
        "rustc's trait solving decides sufficiency / availability for the compiled sample (real proc-macro)",
    ]
    return res.finish()

"""C09 — Error::source returns exactly the field the documented rules select."""
import itertools
import re

from . import common as C
from . import fmtgen as G

ATTRS = [("-", ""), ("s", "#[error(source)] "), ("ns", "#[error(not(source))] "), ("b", "#[error(backtrace)] "),
         ("nb", "#[error(not(backtrace))] "), ("i", "#[error(ignore)] "), ("b+s", "#[error(backtrace, source)] "),
         ("e", "#[error] ")]
NAMES = [("s", "source"), ("b", "backtrace"), ("o", "other"), ("o", "second")]
TYPES = [("0", "Inner"), ("1", "Backtrace")]


def shapes(tier, rng):
    """Every struct / variant shape with 0..3 fields over the attribute x name x type grid."""
    out = []
    for named in (False, True):
        for k in range(0, 4):
            per_field = list(itertools.product(ATTRS, TYPES))
            name_sets = list(itertools.permutations(NAMES, k)) if named else [tuple(("o", f"_{i}") for i in range(k))]
            combos = itertools.product(name_sets, itertools.product(per_field, repeat=k))
            for names, fs in combos:
                out.append((named, names, fs))
    if tier == "quick":
        small = [s for s in out if len(s[1]) <= 2]
        big = [s for s in out if len(s[1]) == 3]
        return small + rng.sample(big, 9000)
    return out


def src_and_req(named, names, fs, enum, item_attr=""):
    fields_src = []
    req = []
    for (ncode, nm), ((acode, asrc), (tcode, ty)) in zip(names, fs):
        fields_src.append(asrc + (f"{nm}: {ty}" if named else ty))
        req.append(f"{ncode},{tcode},{acode}")
    body = (" { " + ", ".join(fields_src) + " }") if named else ("(" + ", ".join(fields_src) + ")")
    if not fs and not named:
        body = "()"
    if enum == "ignored":
        # an ignored variant: no source, whatever its fields carry (added after seed C09-j)
        src = f"enum E {{ #[error(ignore)] V{body}, Other }}"
    elif enum:
        src = f"enum E {{ V{body}, Other }}"
    else:
        src = f"{item_attr}struct S{body}" + ("" if named else ";")
    return src, "es " + ("1" if named else "0") + " 1 " + (";".join(req) if req else "-") + (" vi" if enum == "ignored" else "")


def impl_decision(ans, named, names, enum):
    """Reads which field the real expansion returns from `source()`: ('ok', index|None) / ('err',) / ('panic', text)."""
    if ans.startswith("err "):
        return ("err",)
    if ans.startswith("panic"):
        return ("panic", ans[:160])
    s = G.strip_ws(ans[3:]).replace("derive_more::core::option::Option::", "").replace("derive_more::core::option::Option<", "Option<")
    m = re.search(r"fnsource\(&self\)->Option<&\(dynderive_more::with_trait::Error\+'static\)>\{usederive_more::__private::AsDynError;(.*?)\}(fnprovide|\}$)", s)
    if not m:
        return ("ok", None) if "fnsource" not in s else ("other", "unrecognised `source` body: " + s[s.index("fnsource"):][:160])
    body = m.group(1)
    if not enum:
        mm = re.fullmatch(r"Some\(self\.(r#\w+|\w+)\.as_dyn_error\(\)\)", body)
        if not mm:
            return ("other", body[:120])
        member = mm.group(1)
        if named:
            idx = [nm for _, nm in names].index(member)
        else:
            idx = int(member)
        return ("ok", idx)
    mm = re.search(r"E::V([\(\{])(.*?)[\)\}]=>Some\(source\.as_dyn_error\(\)\)", body)
    if not mm:
        return ("ok", None) if "Some(" not in body else ("other", body[:120])
    parts = mm.group(2).split(",")
    for i, p in enumerate(parts):
        if p == "source" or p.endswith(":source"):
            if named:
                nm = p.split(":")[0]
                return ("ok", [n for _, n in names].index(nm))
            return ("ok", i)
    return ("other", body[:120])


def oracle(named, names, fs):
    """The documented rules (doc/error.md + property), on positions among all fields."""
    k = len(fs)
    meta = []
    for ((acode, _), (tcode, _)), (ncode, _) in zip(fs, names):
        params = [] if acode in ("-", "e") else acode.split("+")
        meta.append({"ignored": "i" in params, "src": True if "s" in params else (False if "ns" in params else None),
                     "bt": True if "b" in params else (False if "nb" in params else None),
                     "ty_bt": tcode == "1", "name": ncode})
    live = [i for i in range(k) if not meta[i]["ignored"]]

    def pick(flag, inferred):
        ex = [i for i in live if meta[i][flag] is True]
        if len(ex) > 1:
            return "err"
        if ex:
            return ex[0]
        inf = [i for i in live if meta[i][flag] is None and inferred(i)]
        if len(inf) > 1:
            return "err"
        return inf[0] if inf else None
    if named:
        s = pick("src", lambda i: meta[i]["name"] == "s")
        b = pick("bt", lambda i: meta[i]["name"] == "b" or meta[i]["ty_bt"])
        if s == "err" or b == "err":
            return ("err",)
        return ("ok", s, b)
    s = pick("src", lambda i: k == 1 and not meta[i]["ty_bt"])
    b = pick("bt", lambda i: meta[i]["ty_bt"])
    if s == "err" or b == "err":
        return ("err",)
    if s is None and k == 2 and b is not None:
        other = 1 - b
        if other in live and meta[other]["src"] is not False:
            s = other
    return ("ok", s, b)


PRELUDE = r'''
#![feature(error_generic_member_access)]
#![allow(dead_code, unused_variables, non_camel_case_types, unused_imports)]
use std::backtrace::Backtrace;
use std::error::Error as _;
#[derive(Debug)] pub struct Inner(pub u8);
impl std::fmt::Display for Inner { fn fmt(&self, f: &mut std::fmt::Formatter<'_>) -> std::fmt::Result { write!(f, "inner") } }
impl std::error::Error for Inner {}
pub static mut FAILS: u32 = 0;
pub static mut CHECKS: u32 = 0;
pub fn addr<T: ?Sized>(p: &T) -> usize { p as *const T as *const u8 as usize }
pub fn check(id: &str, got: Option<usize>, want: Option<usize>) {
    unsafe { CHECKS += 1; }
    if got != want { unsafe { FAILS += 1; } println!("FAIL|{}|{:?}|{:?}", id, got, want); }
}
'''


def behaviour(res, rng, cases, tier):
    """Compiles a sample with the real proc-macro (nightly: Backtrace-typed fields generate
    `provide`) and compares the address `source()` returns with the addresses of the fields."""
    def welltyped(c):
        s_, b_ = c["oracle"][1], c["oracle_bt"]
        return ((s_ is None or c["fs"][s_][1][0] == "0") and (b_ is None or c["fs"][b_][1][0] == "1"))
    okc = [c for c in cases if c["oracle"][0] == "ok" and welltyped(c)]
    pick = rng.sample(okc, 140 if tier == "quick" else 1500)
    # make sure shapes with an ignored field in front of the source are present
    pick += [c for c in okc if c["oracle"][1] not in (None, 0) and any(a[0][0] == "i" for a in c["fs"][:c["oracle"][1]])][:40]
    # ignored variants whose fields would select a source if the variant were not ignored: `source()` is `None`
    def would_have_source(c):
        o = oracle(c["named"], c["names"], c["fs"])
        return o[0] == "ok" and o[1] is not None and c["fs"][o[1]][1][0] == "0" and (o[2] is None or c["fs"][o[2]][1][0] == "1")
    pick += rng.sample([c for c in cases if c["enum"] == "ignored" and would_have_source(c)], 40 if tier == "quick" else 400)
    cf = C.CaseFile(PRELUDE)
    meta = {}
    for n, c in enumerate(pick):
        named, names, fs, enum = c["named"], c["names"], c["fs"], c["enum"]
        vals = ["Backtrace::disabled()" if t[0] == "1" else f"Inner({i})" for i, (_, t) in enumerate(fs)]
        if named:
            init = " { " + ", ".join(f"{nm}: {v}" for (_, nm), v in zip(names, vals)) + " }"
        else:
            init = "(" + ", ".join(vals) + ")"
        path = "E::V" if enum else "S"
        want = c["oracle"][1]
        if want is None:
            want_expr = "None"
        else:
            member = names[want][1] if named else str(want)
            if enum:
                pat = (" { " + ", ".join(nm for _, nm in names) + " }") if named else ("(" + ", ".join(f"f{i}" for i in range(len(fs))) + ")")
                b = names[want][1] if named else f"f{want}"
                want_expr = f"match &v {{ E::V{pat} => Some(addr({b})), _ => None }}"
            else:
                want_expr = f"Some(addr(&v.{member}))"
        disp = "impl std::fmt::Display for %s { fn fmt(&self, f: &mut std::fmt::Formatter<'_>) -> std::fmt::Result { write!(f, \"x\") } }" % ("E" if enum else "S")
        cf.add(n, f"#[derive(Debug, derive_more::Error)] pub {c['src']}\n{disp}\n"
                  f'pub fn run() {{ let v = {path}{init}; let got = v.source().map(|s| addr(s)); let want = {want_expr}; check("{n}", got.map(|a| a), want); }}',
               main_call=f"c{n}::run();")
        meta[str(n)] = c
    d = C.scratch_crate("c09-src", cf.source('unsafe { println!("DONE checks={} fails={}", CHECKS, FAILS); }'))
    try:
        rc, out, err = C.scratch_run(d, nightly=True)
        if "DONE" not in out:
            rc2, diags, err2 = C.scratch_check(d, nightly=True)
            by, stray = cf.errors_by_case(diags)
            for cid, errs in list(by.items())[:10]:
                c = meta[str(cid)]
                res.violation("compile:" + c["src"], f"#[derive(Error)] {c['src']} is accepted by the documented rules but does not compile: {errs[0][:200]}",
                              {"cmd": "compile", "source": c["src"], "errors": errs[:3]})
            if not by:
                raise C.BuildError("C09 behaviour crate (real proc-macro, nightly) did not build/run", (err or out)[-3000:])
            return 0, len(pick)
        checks = int(out.split("DONE checks=")[1].split()[0])
        for l in out.splitlines():
            if l.startswith("FAIL|"):
                _, cid, got, want = l.split("|", 3)
                c = meta[cid]
                res.violation("addr:" + c["src"], f"#[derive(Error)] {c['src']}: source() returns the object at {got}, the documented field (#{c['oracle'][1]}) is at {want}",
                              {"cmd": "behaviour", "source": c["src"], "documented_field": c["oracle"][1]})
        return checks, len(pick)
    finally:
        C.scratch_cleanup(d)


def run(tier):
    res = C.Result("C09", tier)
    rng = C.Rng(C.seed())
    extra, cov, corr_bad = [], {}, []
    try:
        inproc = C.cargo_build_inproc()
        lean_ok, _ = C.lake_build(["Dm.Props.C09", "dmdriver"])
        cases = []
        all_shapes = shapes(tier, rng)
        for (named, names, fs) in all_shapes:
            for enum in (False, True):
                src, req = src_and_req(named, names, fs, enum)
                cases.append({"named": named, "names": names, "fs": fs, "enum": enum, "src": src, "req": req})
        # ignored variants: every shape up to two fields, a sample of the three-field ones
        for (named, names, fs) in [s_ for s_ in all_shapes if len(s_[1]) <= 2] + rng.sample([s_ for s_ in all_shapes if len(s_[1]) == 3], 2000 if tier == "quick" else 20000):
            src, req = src_and_req(named, names, fs, "ignored")
            cases.append({"named": named, "names": names, "fs": fs, "enum": "ignored", "src": src, "req": req})
        impl = C.drive(inproc, [f"expand Error {C.hexs(c['src'])}" for c in cases])
        model = C.drive_lean([c["req"] for c in cases]) if lean_ok else [None] * len(cases)
        n_src = n_err = 0
        for c, ia, ma in zip(cases, impl, model):
            c["impl"] = impl_decision(ia, c["named"], c["names"], c["enum"])
            o = ("ok", None, None) if c["enum"] == "ignored" else oracle(c["named"], c["names"], c["fs"])
            c["oracle"] = o[:2]
            c["oracle_bt"] = o[2] if len(o) > 2 else None
            if ma is not None:
                if ma == "err":
                    c["model"] = ("err",)
                else:
                    m = re.match(r"ok src=(\S+) bt=(\S+)", ma)
                    c["model"] = ("ok", None if m.group(1) == "-" else int(m.group(1)))
                if c["model"] != c["impl"]:
                    corr_bad.append(c)
            if c["oracle"][0] == "ok" and c["oracle"][1] is not None:
                n_src += 1
            if c["oracle"][0] == "err":
                n_err += 1
            if c["impl"] != c["oracle"]:
                kind = "panic" if c["impl"][0] == "panic" else "field"
                res.violation(f"{kind}:" + c["src"],
                              f"#[derive(Error)] {c['src']}: expansion gives {c['impl']}, the documented rules give {c['oracle']}",
                              {"cmd": "expand Error", "source": c["src"], "impl": c["impl"], "documented": c["oracle"]})
        checks, ncomp = behaviour(res, rng, cases, tier)
        extra = [("correspondence: model of error.rs field selection == working-tree expansion on every shape", lean_ok and not corr_bad)]
        cov = {
            "evaluations": len(cases) + checks,
            "distinct_nontrivial": n_src,
            "rule": "struct / enum-variant shapes (0..3 fields x 8 attribute forms x names {source, backtrace, other} x types {error, Backtrace}) for which the documented rules select a field",
            "exhaustive": tier == "thorough",
            "traces_validated_against_impl": len(cases),
            "model_vs_impl_disagreements": len(corr_bad),
            "distribution": {"shapes": len(cases), "with_source": n_src, "documented_errors": n_err, "compiled": ncomp, "address_checks": checks},
            "samples": [{"source": c["src"], "impl": c["impl"], "documented": c["oracle"]} for c in (cases[5], cases[200], cases[-1])],
        }
    except C.BuildError as e:
        res.violation("build", e.what, {"output": e.output[-3000:]}, found_input=False)
        cov = {"build_error": e.what}
    failed = C.proof_obligations(res, "C09", ["C09"], extra)
    if failed and not res.violations:
        res.violation("obligations:" + ";".join(failed)[:200], "proof obligation / correspondence no longer checks: " + "; ".join(failed)[:400],
                      {"failed_obligations": failed,
                       "correspondence_disagreements": [{"source": c["src"], "impl": c["impl"], "model": c["model"]} for c in corr_bad[:8]]},
                      found_input=False)
    res.coverage.update(cov)
    res.coverage["impl_vs_oracle_failures"] = len(res.violations)
    res.coverage["trusted_base"] += [
        "model of parse_fields / infer_source_field and of State's enabled-field bookkeeping compared with the working-tree expansion on every shape of the grid",
        "documented rules written a second time (Python) as the oracle for the implementation; Lean's `documentedSource` is proved equal to the model",
        "as_dyn_error autoref dispatch (vendored helper) and the nightly-only `provide` half are not modelled",
    ]
    return res.finish()

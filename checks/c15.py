"""C15 — expansions depend on no name from the caller's scope."""
import json
import os
import re
import subprocess
import sys

from . import common as C
from . import fmtgen as G

sys.path.insert(0, os.path.join(C.VERIF, "tools"))
import gen_tables  # noqa: E402

CORPUS = os.path.join(C.VERIF, "checks", "data", "c15_corpus.rs")

# (name, kind) pairs of the hostile scopes; every prelude name of the 2021 prelude + the macros in scope by default
TYPES = ["Result", "Option", "String", "Vec", "Box"]
VARIANTS = ["Ok", "Err", "Some"]
TRAITS = ["Debug", "Display", "From", "Into", "Error", "Clone", "Copy", "Default", "Iterator", "IntoIterator", "AsRef", "AsMut",
          "TryFrom", "TryInto", "ToString", "Sized", "Send", "Sync", "Fn", "FnMut", "FnOnce", "Drop", "PartialEq", "Eq", "PartialOrd",
          "Ord", "ToOwned", "Extend", "FromIterator", "DoubleEndedIterator", "ExactSizeIterator", "Unpin", "FromStr", "Formatter",
          "Add", "Mul", "Not", "Neg", "Sum", "Product", "Deref", "DerefMut", "Index", "IndexMut"]
MACROS = ["panic", "stringify", "write", "format_args", "matches", "unreachable", "format", "vec", "assert", "concat", "todo",
          "unimplemented", "writeln", "debug_assert", "assert_eq", "compile_error_", "line", "file", "column", "env", "cfg"]


# local traits named like prelude traits, with the prelude trait's methods, implemented for every type
# (receiver kinds as in the prelude): what a caller's module may perfectly well define
METHOD_TRAITS = {
    "AsRef": "fn as_ref(&self) -> Hostile { Hostile }",
    "AsMut": "fn as_mut(&mut self) -> Hostile { Hostile }",
    "Into": "fn into(self) -> Hostile where Self: ::core::marker::Sized { Hostile }",
    "TryInto": "fn try_into(self) -> Hostile where Self: ::core::marker::Sized { Hostile }",
    "From": "fn from() -> Hostile { Hostile }",
    "TryFrom": "fn try_from() -> Hostile { Hostile }",
    "Clone": "fn clone(&self) -> Hostile { Hostile }",
    "ToString": "fn to_string(&self) -> Hostile { Hostile }",
    "ToOwned": "fn to_owned(&self) -> Hostile { Hostile }",
    "IntoIterator": "fn into_iter(self) -> Hostile where Self: ::core::marker::Sized { Hostile }",
    "Iterator": "fn next(&mut self) -> Hostile { Hostile } fn fold<A, B>(self, a: A, b: B) -> Hostile where Self: ::core::marker::Sized { Hostile } "
                "fn map<A>(self, a: A) -> Hostile where Self: ::core::marker::Sized { Hostile }",
    "PartialEq": "fn eq(&self, o: &Self) -> Hostile { Hostile } fn ne(&self, o: &Self) -> Hostile { Hostile }",
    "Default": "fn default() -> Hostile { Hostile }",
    "Debug": "fn fmt(&self) -> Hostile { Hostile }",
    "Error": "fn source(&self) -> Hostile { Hostile } fn provide(&self) -> Hostile { Hostile }",
    "FromStr": "fn from_str() -> Hostile { Hostile }",
    "Drop": "fn drop(&mut self) -> Hostile { Hostile }",
    "Extend": "fn extend(&mut self) -> Hostile { Hostile }",
    "Fn": "fn call(&self) -> Hostile { Hostile }",
}


def trait_item(t, with_methods=True):
    if with_methods and t in METHOD_TRAITS:
        return f"pub trait {t} {{ {METHOD_TRAITS[t]} }} impl<T: ?::core::marker::Sized> {t} for T {{}}"
    return f"pub trait {t} {{}}"


def shadow_items(types=TYPES, variants=VARIANTS, traits=TRAITS, macros=MACROS, none=True, fns=True):
    out = ["pub struct Hostile;"]
    out += [f"pub struct {t};" for t in types]
    out += [f"pub struct {v}<T>(pub T);" for v in variants]
    if none:
        out.append("pub struct None;")
    out += [trait_item(t) for t in traits]
    if fns:
        out.append("pub fn drop() {} pub fn size_of() {} pub fn align_of() {}")
    for m in macros:
        if m == "compile_error_":
            continue
        out.append(f'macro_rules! {m} {{ ($($t:tt)*) => {{ compile_error!("the caller\'s local {m}! was used") }} }}')
    return "\n".join(out)


DIGEST = r'''
macro_rules! digest { ($m:ident) => {{
    use std::fmt::Write as _;
    use std::error::Error as _;
    let mut s = String::new();
    macro_rules! d { ($e:expr) => { let _ = write!(s, "{:?};", $e); } }
    d!($m::Tup(3) + $m::Tup(4)); d!($m::Tup(9) - $m::Tup(4)); d!($m::Tup(6) & $m::Tup(3)); d!($m::Tup(6) | $m::Tup(1)); d!($m::Tup(6) ^ $m::Tup(3));
    { let mut t = $m::Tup(1); t += $m::Tup(2); t -= $m::Tup(1); t &= $m::Tup(7); t |= $m::Tup(8); t ^= $m::Tup(1); d!(t); }
    d!($m::Tup(6) * 2); d!($m::Tup(6) / 2); d!($m::Tup(7) % 4); d!($m::Tup(8) >> 1); d!($m::Tup(1) << 3);
    { let mut t = $m::Tup(6); t *= 2; t /= 3; t %= 3; t <<= 4; t >>= 1; d!(t); }
    d!(!$m::Tup(1)); d!(-$m::Tup(1)); d!(vec![$m::Tup(1), $m::Tup(2)].into_iter().sum::<$m::Tup>()); d!($m::Tup::new(5)); d!($m::Tup::from(5)); d!(i32::from($m::Tup(5)));
    d!(format!("{} {:b} {:o} {:x} {:X}", $m::Tup(10), $m::Tup(10), $m::Tup(10), $m::Tup(10), $m::Tup(10)));
    d!("12".parse::<$m::Tup>()); d!("x".parse::<$m::Tup>().is_err()); d!(*$m::Tup(1)); { let mut t = $m::Tup(1); *t = 4; d!(t); }
    d!(<$m::Tup as AsRef<i32>>::as_ref(&$m::Tup(3))); { let mut t = $m::Tup(1); *<$m::Tup as AsMut<i32>>::as_mut(&mut t) = 9; d!(t); }
    d!($m::Named { a: 1, b: 2 } + $m::Named { a: 3, b: 4 }); d!($m::Named { a: 1, b: 2 } * 3); d!(!$m::Named { a: 1, b: 2 }); d!(format!("{}", $m::Named { a: 1, b: 2 }));
    d!(vec![$m::Named { a: 1, b: 2 }].into_iter().sum::<$m::Named>()); d!($m::Named::new(1, 2)); d!($m::Named::from((1, 2))); d!(<(i32, i32)>::from($m::Named { a: 1, b: 2 }));
    d!($m::Fwd(3) * $m::Fwd(4)); d!($m::Fwd(9) / $m::Fwd(2)); d!($m::Fwd(9) % $m::Fwd(2)); d!($m::Fwd(9) >> $m::Fwd(1)); d!($m::Fwd(9) << $m::Fwd(1));
    { let mut t = $m::Fwd(6); t *= $m::Fwd(2); t /= $m::Fwd(3); t %= $m::Fwd(3); t <<= $m::Fwd(4); t >>= $m::Fwd(1); d!(t); }
    d!(vec![$m::Fwd(2), $m::Fwd(5)].into_iter().product::<$m::Fwd>()); d!(vec![$m::Fwd(2), $m::Fwd(5)].into_iter().sum::<$m::Fwd>());
    d!($m::En::One(1) + $m::En::One(2)); d!($m::En::Unit + $m::En::Unit); d!($m::En::One(1) - $m::En::Two { x: 2 }); d!(($m::En::Unit + $m::En::Unit).map_err(|e| e.to_string()));
    d!(-$m::EnNoUnit::One(1)); d!(!$m::EnNoUnit::Two { x: 1 }); d!($m::En::from(1i32)); d!($m::En::from(1i64)); d!($m::En::One(1).is_one()); d!($m::En::Unit.is_two());
    d!(i32::try_from($m::En::One(1))); d!(i64::try_from($m::En::One(1)).map_err(|e| e.to_string())); d!(<&i64>::try_from(&$m::En::Two { x: 5 }).ok());
    d!(format!("{} {} {}", $m::En::One(1), $m::En::Two { x: 2 }, $m::En::Unit));
    d!($m::UnwEn::One(1).unwrap_one()); d!($m::UnwEn::Two(1, 2).unwrap_two_ref()); d!($m::UnwEn::Two(1, 2).try_unwrap_one().map_err(|e| e.to_string()));
    d!(std::panic::catch_unwind(|| $m::UnwEn::Unit.unwrap_one()).is_err()); d!($m::UnwEn::Unit.try_unwrap_unit()); { let mut u = $m::UnwEn::One(1); *u.try_unwrap_one_mut().unwrap() = 3; d!(u); }
    d!("alpha".parse::<$m::Units>()); d!("GAMMA".parse::<$m::Units>()); d!("nope".parse::<$m::Units>().map_err(|e| e.to_string())); d!($m::Units::try_from(2u8)); d!($m::Units::try_from(3u8).map_err(|e| e.to_string()));
    d!(format!("{} {}", $m::Units::Alpha, $m::Units::Gamma)); d!($m::Units::Beta.is_beta()); d!($m::Units::Beta.try_unwrap_alpha().is_err());
    d!(format!("{}", $m::Renamed::FirstOne)); d!("second_one".parse::<$m::Renamed>().is_ok() || "SecondOne".parse::<$m::Renamed>().is_ok());
    d!($m::ReprD::try_from(-1i16)); d!($m::ReprD::try_from(300i16)); d!($m::ReprD::try_from(5i16).is_err());
    d!(format!("{}", $m::Ptr(&7)).len() > 2); d!(format!("{:?} {}", $m::Fmt1(1.5), $m::Fmt1(1.5)));
    d!(format!("{:?} {:#?} {}", $m::Gen { a: 1u8, b: 2, c: 255 }, $m::Gen { a: 1u8, b: 2, c: 255 }, $m::Gen { a: 1u8, b: 2, c: 255 }));
    d!(format!("{:?} {:?} {:?} {} {} {}", $m::FmtEn::A(1u8), $m::FmtEn::<u8>::B { x: 2 }, $m::FmtEn::<u8>::C, $m::FmtEn::A(1u8), $m::FmtEn::<u8>::B { x: 2 }, $m::FmtEn::<u8>::C));
    d!(format!("{} {} {} {} {}", $m::Wrapped::A(1u8), $m::Wrapped::<u8>::B(2), $m::Wrapped::<u8>::C { x: 3 }, $m::Wrapped::<u8>::U, $m::Wrapped::<u8>::Plain));
    d!(format!("{:x} {:x}", $m::WrappedHex::A(255), $m::WrappedHex::B(1, 300)));
    d!(format!("{:?} {:#?} {:?} {:?} {:#?} {:?}", $m::DbgTuple(1, 2, 3), $m::DbgTuple(1, 2, 3), $m::DbgUnit, $m::DbgEn::A(1, 2), $m::DbgEn::B { x: 1, y: 2 }, $m::DbgEn::C));
    d!($m::Outer { source: $m::Inner }.source().map(|e| e.to_string())); d!($m::Outer2($m::Inner, 1).source().is_some()); d!($m::Inner.source().is_none());
    d!($m::GenErr { source: $m::Inner }.source().is_some());
    d!([$m::ErrEn::A { source: $m::Inner }.source().is_some(), $m::ErrEn::B($m::Inner, 1).source().is_some(), $m::ErrEn::C($m::Inner).source().is_some(),
        $m::ErrEn::D($m::Inner).source().is_some(), $m::ErrEn::E.source().is_some()]);
    d!($m::FromFwd::from(3i32)); d!($m::FromTypes::from(1i8)); d!($m::FromTypes::from(2i16)); d!(i64::from($m::FromTypes(2))); d!(i128::from($m::FromTypes(2)));
    d!(i32::from($m::IntoRefs { a: 1, b: 2 })); d!(<&i32>::from(&$m::IntoRefs { a: 1, b: 2 })); { let mut r = $m::IntoRefs { a: 1, b: 2 }; *<&mut i32>::from(&mut r) = 5; d!(r); }
    d!($m::FromEn::from(1i64)); d!($m::FromEn::from((1i8, 2i8))); d!($m::FromEn2::from(1u8)); d!($m::FromEn3::from(1u8)); d!($m::FromEn3::from(1u16)); d!($m::FromEn3::from(()));
    d!(i64::from($m::IntoField { a: 1, b: 2, c: 3 })); d!(u8::from($m::IntoField { a: 1, b: 2, c: 3 }));
    { static mut X: i32 = 5; let r = $m::DerefFwd(unsafe { &mut *std::ptr::addr_of_mut!(X) }); d!(*r); }
    { let mut mu = $m::Multi { v: [1, 2, 3], other: 4 }; d!(mu.len()); d!(mu[1]); mu[1] = 9; mu.reverse(); d!((&mu).into_iter().sum::<i32>()); for x in &mut mu { *x += 1; } d!(mu.into_iter().collect::<Vec<_>>()); }
    { let mut a = $m::Arr([1, 2, 3]); d!(a[2]); a[0] = 7; d!(a.into_iter().sum::<i32>()); }
    d!(<$m::AsFwd as AsRef<[u8]>>::as_ref(&$m::AsFwd([1, 2, 3, 4]))); d!(<$m::AsTypes as AsRef<[u8]>>::as_ref(&$m::AsTypes([1, 2, 3, 4]))); d!(<$m::AsTypes as AsRef<[u8; 4]>>::as_ref(&$m::AsTypes([1, 2, 3, 4])));
    { let mut a = $m::AsTypes([1, 2, 3, 4]); <$m::AsTypes as AsMut<[u8]>>::as_mut(&mut a)[0] = 9; d!(a); }
    d!(<$m::AsFields<u8> as AsRef<i32>>::as_ref(&$m::AsFields { a: 1, b: [2u8, 3], c: 4 })); d!(<$m::AsFields<u8> as AsRef<[u8]>>::as_ref(&$m::AsFields { a: 1, b: [2u8, 3], c: 4 }));
    d!(<$m::AsSkip as AsRef<i32>>::as_ref(&$m::AsSkip { a: 1, c: 2 })); d!(<$m::AsAll as AsRef<u8>>::as_ref(&$m::AsAll { a: 1, b: 2 })); d!(<$m::AsAll as AsRef<i32>>::as_ref(&$m::AsAll { a: 1, b: 2 }));
    d!(i32::try_from($m::TryEn::A(1))); d!(i32::try_from($m::TryEn::B(2))); d!(u8::try_from($m::TryEn::C(3, 4))); d!(i64::try_from($m::TryEn::D { x: 5 })); d!(i32::try_from($m::TryEn::D { x: 5 }).map_err(|e| e.to_string()));
    d!(<&i32>::try_from(&$m::TryEn::A(1)).ok()); { let mut t = $m::TryEn::B(1); *<&mut i32>::try_from(&mut t).unwrap() = 8; d!(t); }
    d!($m::CtorUnit::new()); d!($m::CtorGen::<u8, 2>::new([1, 2], 3)); d!($m::CtorGen::<u8, 2>::from(([1, 2], 3))); d!(<([u8; 2], i32)>::from($m::CtorGen::<u8, 2> { a: [1, 2], b: 3 }));
    s
}} }
'''


def hostile_crate(corpus, modules, digest=True):
    src = ["#![allow(dead_code, unused, non_camel_case_types, non_snake_case, static_mut_refs)]"]
    for name, attrs, pre in modules:
        src.append(f"{attrs}\npub mod {name} {{\n{pre}\n{corpus}\n}} // end mod {name}")
    if digest:
        src.append(DIGEST)
        src.append("fn main() {\n    std::panic::set_hook(Box::new(|_| {}));")
        for name, _, _ in modules:
            src.append(f'    println!("DIGEST|{name}|{{}}", digest!({name}));')
        src.append("}")
    else:
        src.append("fn main() {}")
    return "\n".join(src) + "\n"


def item_at(src_lines, line):
    """The module and the derive item (its `pub struct/enum` line) that contain source line `line` (1-based);
    (None, None) when the line is outside the hostile modules (the digest code)."""
    mod, start = None, None
    for i, l in enumerate(src_lines, 1):
        m = re.match(r"pub mod (\w+) \{", l)
        if m and i <= line:
            mod, start = m.group(1), i
    if mod is None:
        return None, None
    end = next((i for i in range(start, len(src_lines) + 1) if src_lines[i - 1] == "} // end mod " + mod), len(src_lines))
    if line > end:
        return None, None
    item = None
    for i in range(line - 1, min(len(src_lines), line + 12)):
        m = re.match(r"\s*pub (struct|enum) (\w+)", src_lines[i])
        if m:
            item = m.group(2); break
    return mod, item


def hostile_compile(res, tier):
    corpus = open(CORPUS).read()
    modules = [("plain", "", ""),
               ("np", "#[no_implicit_prelude]", "use ::derive_more;"),
               ("shadow", "", shadow_items())]
    if tier == "thorough":
        for t in TYPES:
            modules.append((f"sh_ty_{t.lower()}", "", f"pub struct {t};"))
            modules.append((f"sh_tr_{t.lower()}", "", f"pub trait {t} {{}}"))
        for v in VARIANTS:
            modules.append((f"sh_v_{v.lower()}", "", f"pub struct {v}<T>(pub T);"))
            modules.append((f"sh_fn_{v.lower()}", "", f"pub fn {v}() {{}}"))
        modules.append(("sh_v_none", "", "pub struct None;"))
        modules.append(("sh_c_none", "", "pub const None: u8 = 0;"))
        for t in TRAITS:
            modules.append((f"sh_tr_{t.lower()}", "", "pub struct Hostile; " + trait_item(t)))
            modules.append((f"sh_ty_{t.lower()}", "", f"pub struct {t};"))
        for m in MACROS:
            if m != "compile_error_":
                modules.append((f"sh_m_{m}", "", shadow_items([], [], [], [m], none=False, fns=False)))
        modules.append(("np_shadow", "#[no_implicit_prelude]", "use ::derive_more;\n" + shadow_items(macros=[])))
        seen, uniq = set(), []
        for m in modules:
            if m[0] not in seen:
                seen.add(m[0]); uniq.append(m)
        modules = uniq
    n_items = len(re.findall(r"^pub (struct|enum) ", corpus, flags=re.M))
    n_derives = len(set(re.findall(r"derive_more::(\w+)", corpus)))
    src = hostile_crate(corpus, modules)
    d = C.scratch_crate("c15-hostile", src)
    stats = {"modules": len(modules), "items_per_module": n_items, "distinct_derives": n_derives, "digests_equal": None}
    try:
        rc, out, err = C.scratch_run(d)
        digests = {l.split("|", 2)[1]: l.split("|", 2)[2] for l in out.splitlines() if l.startswith("DIGEST|")}
        if len(digests) != len(modules):
            rc2, diags, err2 = C.scratch_check(d)
            lines = src.splitlines()
            reported = set()
            for dg in diags:
                if dg.get("level") != "error":
                    continue
                spans = dg.get("spans") or []
                prim = next((sp for sp in spans if sp.get("is_primary")), None)
                if prim is None:
                    continue
                line = prim["line_start"]
                exp = prim.get("expansion")     # an error inside a macro body: attribute it to the outermost call site
                while exp:
                    call = exp.get("span") or {}
                    if call.get("line_start"):
                        line = call["line_start"]
                    exp = call.get("expansion")
                mod, item = item_at(lines, line)
                if mod in (None, "plain"):
                    continue
                derive = None
                for sp in spans:
                    exp = sp.get("expansion")
                    while exp:
                        nm = exp.get("macro_decl_name", "")
                        mm = re.search(r"derive_more::(\w+)", nm)
                        if mm:
                            derive = mm.group(1)
                        exp = (exp.get("span") or {}).get("expansion")
                msg = dg.get("message", "")
                key = (mod if not mod.startswith("sh_") else mod, item, derive, msg)
                if key in reported:
                    continue
                reported.add(key)
                mn, ma, mp = next(m for m in modules if m[0] == mod)
                short = re.sub(r"macro_rules! (\w+) [^\n]*", lambda m_: "macro_rules! " + m_.group(1) + " {..}", mp)[:160]
                mdesc = ma + " mod " + mn + " { " + short.replace("\n", " ") + " .. }"
                res.violation(f"hostile:{'np' if mod.startswith('np') else 'shadow'}:{item}:{derive}:{msg[:80]}",
                              f"#[derive({derive})] on `{item}` of the corpus does not compile in {mdesc.strip()[:200]}: {msg[:200]}",
                              {"cmd": "hostile-compile", "module": mod, "module_source": mdesc, "item": item, "derive": derive,
                               "error": (dg.get("rendered") or msg)[:1500], "corpus": "checks/data/c15_corpus.rs"})
            if not reported:
                plain_err = [dg for dg in diags if dg.get("level") == "error"]
                raise C.BuildError("C15 hostile-scope crate failed for a reason unrelated to the hostile scopes",
                                   (plain_err[0].get("rendered") if plain_err else (err or out))[-3000:])
            return stats
        ref = digests["plain"]
        stats["digests_equal"] = all(v == ref for v in digests.values())
        stats["digest_entries"] = ref.count(";")
        for name, v in digests.items():
            if v != ref:
                a, b = ref.split(";"), v.split(";")
                k = next((i for i in range(min(len(a), len(b))) if a[i] != b[i]), min(len(a), len(b)))
                res.violation(f"behaviour:{name}:{k}", f"the corpus behaves differently in module `{name}`: digest entry {k} is {b[k] if k < len(b) else None!r}, in the plain module {a[k] if k < len(a) else None!r}",
                              {"cmd": "hostile-behaviour", "module": name, "entry": k, "plain": a[k] if k < len(a) else None, "hostile": b[k] if k < len(b) else None})
        return stats
    finally:
        C.scratch_cleanup(d)


def nostd_compile(res):
    """The corpus in a `#![no_std]` library (no prelude from std at all)."""
    corpus = open(CORPUS).read()
    feats = ["add", "add_assign", "as_ref", "constructor", "debug", "deref", "deref_mut", "display", "error", "from", "from_str",
             "index", "index_mut", "into", "into_iterator", "is_variant", "mul", "mul_assign", "not", "sum", "try_from", "try_into",
             "try_unwrap", "unwrap"]
    d = C.scratch_crate("c15-nostd", "", features=feats, default_features=False)
    os.remove(os.path.join(d, "src", "main.rs"))
    with open(os.path.join(d, "src", "lib.rs"), "w") as f:
        f.write("#![no_std]\n#![allow(dead_code, unused)]\n#[no_implicit_prelude]\npub mod np { use ::derive_more;\n" + corpus + "\n}\npub mod plain {\n" + corpus + "\n}\n")
    try:
        rc, diags, err = C.scratch_check(d)
        errs = [dg for dg in diags if dg.get("level") == "error"]
        for dg in errs[:6]:
            msg = dg.get("message", "")
            res.violation("nostd:" + msg[:100], f"the corpus does not compile in a #![no_std] crate: {msg[:200]}",
                          {"cmd": "nostd-compile", "error": (dg.get("rendered") or msg)[:1500]})
        if rc != 0 and not errs:
            raise C.BuildError("C15 no_std crate did not build", err[-3000:])
        return {"no_std_errors": len(errs)}
    finally:
        C.scratch_cleanup(d)


def aliased_crate_compile(res):
    """The corpus in a crate that uses the name `core` for another crate (`extern crate alloc as core;`): an expansion that
    spells `::core::..` itself, instead of going through `derive_more::core`, no longer resolves (added after seed C15-j)."""
    corpus = open(CORPUS).read().replace("::core::fmt::", "::std::fmt::")
    d = C.scratch_crate("c15-alias", "")
    os.remove(os.path.join(d, "src", "main.rs"))
    with open(os.path.join(d, "src", "lib.rs"), "w") as f:
        f.write("#![allow(dead_code, unused)]\nextern crate alloc as core;\npub mod plain {\n" + corpus + "\n}\n")
    try:
        rc, diags, err = C.scratch_check(d)
        errs = [dg for dg in diags if dg.get("level") == "error"]
        for dg in errs[:6]:
            msg = dg.get("message", "")
            res.violation("alias:" + msg[:100], f"the corpus does not compile in a crate where `core` names another crate (`extern crate alloc as core;`): {msg[:200]}",
                          {"cmd": "aliased-crate-compile", "error": (dg.get("rendered") or msg)[:1500]})
        if rc != 0 and not errs:
            raise C.BuildError("C15 aliased-crate crate did not build", err[-3000:])
        return {"aliased_core_errors": len(errs)}
    finally:
        C.scratch_cleanup(d)


def translator_faithful(info):
    """Front end: every extracted template, re-printed, is literally in the source span it was taken from.
    Back end: the identifiers the Lean table holds are the identifiers of the extraction, in order."""
    bad = []
    cache = {}
    for t in info["raw"]:
        lines = cache.setdefault(t["file"], open(t["file"]).read().splitlines())
        span = G.strip_ws("\n".join(re.sub(r"//.*", "", l) for l in lines[t["line"] - 1:t["end_line"]]))
        text = G.strip_ws("".join(gen_tables.render(x) for x in t["tokens"]))
        if text not in span:
            bad.append(f"{t['file']}:{t['line']} re-printed template is not in its source span")
    return bad


def idents_of(toks):
    out = []
    for x in toks:
        if x[0] == "i":
            out.append(x[1])
        elif x[0] in ("g", "r"):
            out += idents_of(x[2])
    return out


def run(tier):
    res = C.Result("C15", tier)
    extra, cov = [], {}
    escaping = None
    try:
        exe = gen_tables.build_translate()
        os.makedirs(gen_tables.GEN, exist_ok=True)
        info = gen_tables.gen_templates(exe)
        gen_ok, gen_out = C.lake_build(["dmgen"])
        faithful = translator_faithful(info)
        table_ok = False
        if gen_ok:
            dmgen = os.path.join(C.LEAN, ".lake", "build", "bin", "dmgen")
            sc, esc, ids = C.drive(dmgen, ["gen-selfcheck", "hyg-escaping", "hyg-idents"])
            escaping = [e for e in esc[3:].split(";") if e]
            model_ids = [e.split(" ")[1:] for e in ids[3:].split("|")] if ids.startswith("ok") else []
            model_ids = [[x for x in l if x] for l in model_ids]
            want_ids = [idents_of(t["tokens"]) for t in info["raw"]]
            table_ok = sc == "ok" and model_ids == want_ids
            if model_ids != want_ids:
                faithful.append("identifier sequences of the Lean table differ from the extraction")
        lean_ok, _ = C.lake_build(["Dm.Props.C15"])
        stats = hostile_compile(res, tier)
        ns = nostd_compile(res)
        ns.update(aliased_crate_compile(res))
        extra = [("translator: templates re-print into their source spans; Lean table ids == names (gen-selfcheck)", gen_ok and table_ok and not faithful),
                 ("regenerated table: no template has an escaping head (model evaluation)", escaping == [])]
        cov = {
            "evaluations": info["templates"] + stats["modules"] * stats["items_per_module"],
            "distinct_nontrivial": info["templates"] + stats["modules"] * stats["items_per_module"],
            "rule": "templates (quote!/parse_quote! bodies of impl/src, all of them) analysed in the model + (hostile module, corpus item) pairs compiled and run with the real macro",
            "traces_validated_against_impl": info["templates"],
            "model_vs_impl_disagreements": len(faithful),
            "distribution": {"templates": info["templates"], "format_ident_calls": info["format_idents"], "interned_names": info["names"],
                             "escaping_heads": escaping, **stats, **ns},
            "samples": [{"template": f"{t['file']}:{t['line']}", "text": "".join(gen_tables.render(x) for x in t["tokens"])[:120]} for t in info["raw"][:3]],
        }
        if faithful:
            res.coverage["translator_problems"] = faithful[:10]
    except (C.BuildError, RuntimeError, subprocess.CalledProcessError) as e:
        what = getattr(e, "what", str(e))
        res.violation("build", what, {"output": getattr(e, "output", "")[-3000:]}, found_input=False)
        cov = {"build_error": what}
    failed = C.proof_obligations(res, "C15", ["C15"], extra)
    if failed and not res.violations:
        res.violation("obligations:" + ";".join(failed)[:200], "proof obligation / translator tie no longer checks: " + "; ".join(failed)[:300] +
                      (f"; escaping heads: {'; '.join(escaping[:6])}" if escaping else ""),
                      {"failed_obligations": failed, "escaping_heads": escaping, "note": "the hostile-scope corpus compiles and behaves identically; no failing input among its items"},
                      found_input=False)
    res.coverage.update(cov)
    res.coverage["impl_vs_oracle_failures"] = len(res.violations)
    res.coverage["trusted_base"] += [
        "translator (harness/oracle_syn translate + tools/gen_tables.py): proc_macro2 tokenisation of impl/src, quote's `#x` / `#(..)*` interpolation syntax, name interning; checked by re-printing into the source spans and by gen-selfcheck, not proved",
        "only quote!/quote_spanned!/parse_quote!/parse_quote_spanned! bodies are templates; identifiers made by format_ident!/Ident::new reach expansions only through interpolation (the user's or derive_more's reserved `__` names)",
        "rustc name resolution is modelled as: first path segment / macro name / method name looked up in the caller's scope; primitive types, keywords, `::crate` paths, associated-item definitions, lower-case variables and `__`-prefixed names are scope-independent; built-in attributes and the hostile scopes' universe (no prelude; prelude names redefined) are assumptions, validated by the hostile-scope compiles",
        "interpolated method names (`self.0.#method(rhs.0)`) in add_helpers/add_like/not_like are methods of the trait of the enclosing impl, which rustc treats as in scope",
    ]
    return res.finish()

"""C12 — TryFrom<repr> is the exact inverse of the enum-to-integer cast."""
import os
import re
import sys

from . import common as C
from . import fmtgen as G

sys.path.insert(0, os.path.join(C.VERIF, "tools"))
import gen_tables  # noqa: E402

INTS = ["u8", "u16", "u32", "u64", "u128", "usize", "i8", "i16", "i32", "i64", "i128", "isize"]
RANGE = {"u8": (0, 255), "i8": (-128, 127), "u16": (0, 65535), "i16": (-32768, 32767),
         "u32": (0, 2**32 - 1), "i32": (-2**31, 2**31 - 1), "u64": (0, 2**64 - 1), "i64": (-2**63, 2**63 - 1),
         "usize": (0, 2**64 - 1), "isize": (-2**63, 2**63 - 1), "u128": (0, 2**128 - 1), "i128": (-2**127, 2**127 - 1)}


def gen_discr(rng, lo, hi):
    """A constant expression (source, value) with value in [lo, hi]."""
    for _ in range(50):
        k = rng.below(12)
        if k >= 9 and lo != 0:
            k = rng.below(9)
        # untyped constants whose value depends on the width of the repr type, under operators that are not modular: they
        # mean what they mean *in the repr type*, also when an implicit discriminant is rebuilt from them (seed C12-j)
        if k == 9:
            b = 1 + rng.below(4); v = hi >> b; s = f"!0 >> {b}"
        elif k == 10:
            a = 2 + rng.below(7); v = hi // a; s = f"!0 / {a}"
        elif k == 11:
            a = 50 + rng.below(150); v = hi % a; s = f"!0 % {a}"
        elif k == 0:
            v = lo + rng.below(min(hi - lo, 300) + 1); s = str(v) if v >= 0 else f"-{-v}"
        elif k == 1:
            a, b = 1 + rng.below(3), rng.below(6); v = a << b; s = f"{a} << {b}"
        elif k == 2:
            a, b = rng.below(16), rng.below(16); v = a | b; s = f"{a} | {b}"
        elif k == 3:
            a, b = rng.below(10), rng.below(10); v = (a + b) * 3; s = f"({a} + {b}) * 3"
        elif k == 4:
            if lo == 0:
                continue        # rustc: unary minus does not apply to an unsigned type, not even in `-0` (E0600)
            a = rng.below(100); v = -a; s = f"-{a}"
        elif k == 5:
            a, b = 64 + rng.below(60), rng.below(4); v = a >> b; s = f"{a} >> {b}"
        elif k == 6:
            a = rng.below(200); v = a; s = f"0x{a:x}"
        elif k == 7:
            a, b = rng.below(30), rng.below(30); v = a ^ b; s = f"{a} ^ {b}"
        else:
            a, b = 50 + rng.below(50), rng.below(40); v = a - b; s = f"{a} - {b}"
        if lo <= v <= hi - 6:
            return s, v
    return "1", 1


def gen_enum(rng, repr_ty=None, fieldless_only=False, generics=False):
    repr_ty = repr_ty or rng.choice(INTS)
    lo, hi = RANGE[repr_ty]
    n = 1 + rng.below(6)
    used = set()
    vs = []
    prev = None
    for i in range(n):
        for _ in range(30):
            explicit = rng.chance(1, 3) or (prev is not None and (prev + 1 in used or prev + 1 > hi))
            if explicit:
                s, v = gen_discr(rng, lo, hi)
            else:
                s, v = None, (0 if prev is None else prev + 1)
            if v not in used and lo <= v <= hi:
                break
        else:
            break
        used.add(v)
        prev = v
        kind = "unit" if fieldless_only else rng.choice(["unit", "unit", "unit", "empty_tuple", "empty_brace", "tuple", "named"])
        if kind in ("tuple", "named") and s is not None and repr_ty == "isize" and False:
            kind = "unit"
        vs.append({"name": f"V{i}", "kind": kind, "discr_src": s, "value": v})
    return {"repr": repr_ty, "variants": vs}


def enum_src(e, repr_attrs, generics=""):
    body = []
    for v in e["variants"]:
        f = {"unit": "", "empty_tuple": "()", "empty_brace": " {}", "tuple": "(u8)", "named": " { a: u8 }"}[v["kind"]]
        d = f" = {v['discr_src']}" if v["discr_src"] is not None else ""
        body.append(f"{v['name']}{f}{d}")
    return f"{repr_attrs}#[try_from(repr)] enum E{generics} {{ " + ", ".join(body) + " }"


def repr_attrs_for(rng, ty):
    """Attribute text + model hints: the integer among other hints, possibly in separate attributes."""
    forms = [
        ([f"#[repr({ty})] "], [[ty]]),
        ([f"#[repr(C, {ty})] "], [["o", ty]]),
        ([f"#[repr({ty}, C)] "], [[ty, "o"]]),
        ([f"#[repr(align(8), {ty})] "], [["o", ty]]),
        ([f"#[repr({ty}, align(8))] "], [[ty, "o"]]),
        (["#[repr(C)] ", f"#[repr({ty})] "], [["o"], [ty]]),
        ([f"#[repr({ty})] ", "#[repr(align(4))] "], [[ty], ["o"]]),
    ]
    if ty == "isize":
        forms += [([], []), (["#[repr(C)] "], [["o"]])]
    srcs, hints = rng.choice(forms)
    return "".join(srcs), hints


def model_req(e, hints):
    rs = " ".join("(r " + " ".join(h) + ")" for h in hints)
    vs = []
    for v in e["variants"]:
        fl = "0" if v["kind"] in ("tuple", "named") else "1"
        f = {"unit": "", "empty_tuple": "()", "empty_brace": "{}", "tuple": "(u8)", "named": "{a:u8}"}[v["kind"]]
        d = C.hexs(G.strip_ws(v["discr_src"])) if v["discr_src"] is not None else "-"
        vs.append(f"(v {C.hexs(v['name'])} {fl} {d} {C.hexs(f)})")
    return f"tf (tf (reprs {rs}) (vs {' '.join(vs)}))"


def impl_skeleton(ans):
    if ans.startswith("err "):
        return "err"
    if not ans.startswith("ok "):
        return ans[:120]
    s = G.strip_ws(ans[3:])
    m = re.search(r"impl(.*?)derive_more::core::convert::TryFrom<(\w+)(.*?)>forE(.*?)\{typeError", s)
    if not m:
        return "?" + s[:100]
    impl_g, ty, trait_extra, self_args = m.group(1), m.group(2), m.group(3), m.group(4)
    consts = re.findall(r"const__DISCRIMINANT_(\w+):\w+=(.*?);(?=const__DISCRIMINANT_|matchval\{)", s)
    arms = re.findall(r"__DISCRIMINANT_\w+=>derive_more::core::result::Result::Ok\(E::(.*?)\),", s)
    return (f"ok repr={ty} consts=" + ";".join(f"{n}={t}" for n, t in consts) + " arms=" + ";".join(arms),
            impl_g, trait_extra, self_args)


PRELUDE = r'''
#![allow(dead_code, unused_variables, non_camel_case_types, unused_imports, unreachable_patterns)]
pub static mut FAILS: u32 = 0;
pub static mut CHECKS: u64 = 0;
pub fn fail(id: &str, n: i128, got: String, want: String) {
    unsafe { FAILS += 1; if FAILS < 200 { println!("FAIL|{}|{}|{}|{}", id, n, got, want); } }
}
'''


def behaviour(res, rng, tier):
    """Real proc-macro. 8/16-bit reprs: every value of the domain; wider: discriminants +-1 and
    the extremes. The reference is the cast `variant as repr` (field-less enums) or the stored
    discriminant of a constructed value (enums with fields, primitive repr)."""
    n = 40 if tier == "quick" else 400
    cf = C.CaseFile(PRELUDE)
    descs = {}
    for i in range(n):
        ty = rng.choice(["u8", "i8", "u16", "i16", "u8", "i8", "i32", "u64", "isize", "i128", "usize"])
        fieldless = rng.chance(1, 2)
        e = gen_enum(rng, ty, fieldless_only=fieldless)
        attrs, _ = repr_attrs_for(rng, ty)
        no_fields = all(v["kind"] not in ("tuple", "named") for v in e["variants"])
        if (fieldless or no_fields) and "C" in attrs:   # rustc: repr(C) conflicts with an integer repr on a field-less enum (E0566)
            attrs = rng.choice([f"#[repr({ty})] ", f"#[repr({ty}, align(8))] ", f"#[repr(align(4))] #[repr({ty})] "])
        if not fieldless and ty not in attrs:
            attrs = f"#[repr({ty})] "
        gen = rng.choice(["", "", "<'a, const N: usize>"]) if fieldless else ""
        if gen and ty not in attrs:
            attrs = f"#[repr({ty})] "     # the variant added below has a field: rustc then demands an explicit integer repr (E0732)
        # generic parameters must be used: add a phantom variant with fields only when generics are present
        src = enum_src(e, attrs, "")
        if gen:
            # lifetime/const parameters on a field-less enum are only allowed when used
            src = src.replace("enum E {", "enum E<const N: usize> {").rstrip("}") + ", Gen([u8; N]) }"
        tname = "E::<3>" if gen else "E"
        tyname = "E<3>" if gen else "E"
        arms = []
        for v in e["variants"]:
            if v["kind"] in ("tuple", "named"):
                continue
            ctor = {"unit": "", "empty_tuple": "()", "empty_brace": " {}"}[v["kind"]]
            arms.append((v["name"], ctor))
        if fieldless and not gen:
            disc = lambda nm, ct: f"({tname}::{nm}{ct} as {ty})"
        else:
            disc = lambda nm, ct: f"(unsafe {{ *(&{tname}::{nm}{ct} as *const {tyname} as *const {ty}) }})"
        lo, hi = RANGE[ty]
        if ty in ("u8", "i8", "u16", "i16"):
            domain = f"({ty}::MIN..={ty}::MAX)"
        else:
            pts = set()
            for v in e["variants"]:
                for d in (-1, 0, 1):
                    if lo <= v["value"] + d <= hi:
                        pts.add(v["value"] + d)
            pts |= {lo, hi, 0 if lo <= 0 else lo}
            domain = "[" + ", ".join(f"({p}{ty})" if p >= 0 else f"(-{-p}{ty})" for p in sorted(pts)) + "].into_iter()"
        ref = " else ".join(f'if n == {disc(nm, ct)} {{ String::from("{nm}") }}' for nm, ct in arms)
        ref = (ref + ' else { format!("Err({})", n) }') if arms else 'format!("Err({})", n)'
        show = "match &r { " + " ".join(f'Ok({tname}::{nm}{ct if ct.strip() != "" else ""}) => String::from("{nm}"),' for nm, ct in arms) + \
               " Ok(_) => String::from(\"other\"), Err(e) => format!(\"Err({})\", e.input) }"
        cf.add(i, f"#[derive(derive_more::TryFrom)] {src.replace('enum E', 'pub enum E', 1)}\n"
                  f"pub fn run() {{ for n in {domain} {{ unsafe {{ CHECKS += 1; }} let r = <{tyname} as core::convert::TryFrom<{ty}>>::try_from(n); "
                  f'let got = {show}; let want = {ref}; if got != want {{ fail("{i}", n as i128, got, want); }} }} }}',
               main_call=f"c{i}::run();")
        descs[str(i)] = src
    # long enums: the distance from the last explicit discriminant exceeds the positive range of the (signed) repr type although
    # every discriminant fits (defect of the pinned tree, fixed: theorem consts_in_repr_are_discriminants). The reference reads
    # the stored discriminant: rustc's own lint on `E::A128 as i8` computes `-1_i8 + i8::MIN` and refuses the cast.
    for ty, first, count in (("i8", -1, 129), ("i8", -128, 256), ("u8", 0, 256), ("i8", -100, 150), ("i16", -3, 300)):
        i = n
        n += 1
        names = [f"A{j}" for j in range(count)]
        src = f"#[repr({ty})] #[try_from(repr)] enum E {{ {names[0]} = {first if first >= 0 else '-' + str(-first)}, " + ", ".join(names[1:]) + " }"
        disc = lambda nm: f"(unsafe {{ *(&E::{nm} as *const E as *const {ty}) }})"
        ref = " else ".join(f'if n == {disc(nm)} {{ String::from("{nm}") }}' for nm in names) + ' else { format!("Err({})", n) }'
        show = "match &r { " + " ".join(f'Ok(E::{nm}) => String::from("{nm}"),' for nm in names) + " Err(e) => format!(\"Err({})\", e.input) }"
        cf.add(i, f"#[derive(derive_more::TryFrom)] {src.replace('enum E', 'pub enum E', 1)}\n"
                  f"pub fn run() {{ for n in ({ty}::MIN..={ty}::MAX) {{ unsafe {{ CHECKS += 1; }} let r = <E as core::convert::TryFrom<{ty}>>::try_from(n); "
                  f'let got = {show}; let want = {ref}; if got != want {{ fail("{i}", n as i128, got, want); }} }} }}',
               main_call=f"c{i}::run();")
        descs[str(i)] = f"#[repr({ty})] #[try_from(repr)] enum E {{ A0 = {first}, A1, .., A{count - 1} }}"
    d = C.scratch_crate("c12-tf", cf.source('unsafe { println!("DONE checks={} fails={}", CHECKS, FAILS); }'))
    try:
        rc, out, err = C.scratch_run(d)
        if "DONE" not in out:
            rc2, diags, err2 = C.scratch_check(d)
            by, stray = cf.errors_by_case(diags)
            for cid, errs in list(by.items())[:10]:
                res.violation("compile:" + descs[str(cid)], f"#[derive(TryFrom)] {descs[str(cid)]} does not compile: {errs[0][:240]}",
                              {"cmd": "compile", "source": descs[str(cid)], "errors": errs[:3]})
            if not by:
                raise C.BuildError("C12 behaviour crate (real proc-macro) did not build/run", (err or out)[-3000:])
            return 0, n, []
        checks = int(out.split("DONE checks=")[1].split()[0])
        seen = set()
        for l in out.splitlines():
            if l.startswith("FAIL|"):
                _, cid, val, got, want = l.split("|", 4)
                if cid in seen:
                    continue
                seen.add(cid)
                res.violation("tryfrom:" + descs[cid], f"#[derive(TryFrom)] {descs[cid]}: try_from({val}) = {got}, the cast says {want}",
                              {"cmd": "behaviour", "source": descs[cid], "value": val, "got": got, "want": want})
        return checks, n, [descs["0"], descs["1"]]
    finally:
        C.scratch_cleanup(d)


def run(tier):
    res = C.Result("C12", tier)
    rng = C.Rng(C.seed())
    extra, cov, corr_bad = [], {}, []
    try:
        inproc = C.cargo_build_inproc()
        # the integer names `attr::ReprInt` recognises are re-read from the source: source_repr_ints_are_the_model is re-checked
        os.makedirs(gen_tables.GEN, exist_ok=True)
        reprs = gen_tables.gen_repr_ints()
        lean_ok, _ = C.lake_build(["Dm.Props.C12", "dmdriver"])
        n = 3000 if tier == "quick" else 60000
        cases = []
        for _ in range(n):
            ty = rng.choice(INTS)
            e = gen_enum(rng, ty)
            attrs, hints = repr_attrs_for(rng, ty)
            gen = rng.choice(["", "", "", "<'a>", "<const N: usize>", "<'a, T, const N: usize>"])
            cases.append({"src": enum_src(e, attrs, gen), "req": model_req(e, hints), "gen": gen, "ty": ty})
        impl = C.drive(inproc, [f"expand TryFrom {C.hexs(c['src'])}" for c in cases])
        model = C.drive_lean([c["req"] for c in cases]) if lean_ok else [None] * n
        header_bad = 0
        for c, ia, ma in zip(cases, impl, model):
            sk = impl_skeleton(ia)
            if isinstance(sk, tuple):
                line, impl_g, trait_extra, self_args = sk
                # header: the generic arguments belong to the enum, nothing else
                want_self = G.strip_ws(c["gen"]).replace("constN:usize", "N") if c["gen"] else ""
                if trait_extra != "" or G.strip_ws(self_args) != want_self:
                    header_bad += 1
                    res.violation("header:" + c["gen"],
                                  f"{c['src']}: impl header is `TryFrom<{c['ty']}{trait_extra}> for E{self_args}`; the generic arguments {want_self!r} must be applied to the enum only",
                                  {"cmd": "expand TryFrom", "source": c["src"], "trait_args_extra": trait_extra, "self_args": self_args})
            else:
                line = sk
            if ma is not None and line != ma:
                corr_bad.append((c, line, ma))
        checks, nen, samples = behaviour(res, rng, tier)
        extra = [("correspondence: model of try_from.rs (repr, constants, arms) == working-tree expansion", lean_ok and not corr_bad),
                 ("translator: the integer names and the default of attr::ReprInt were read completely", not reprs["problems"])]
        cov = {
            "evaluations": n + checks,
            "distinct_nontrivial": len({c["src"] for c in cases}),
            "rule": "distinct generated enum layouts (explicit/implicit discriminants, variants with fields interleaved, every integer repr among other hints)",
            "traces_validated_against_impl": n,
            "model_vs_impl_disagreements": len(corr_bad),
            "distribution": {"layouts": n, "header_mismatches": header_bad, "behaviour_enums": nen, "try_from_calls_compared_with_cast": checks},
            "samples": [{"enum": s} for s in samples] + [{"enum": cases[0]["src"], "impl": impl_skeleton(impl[0])[0] if isinstance(impl_skeleton(impl[0]), tuple) else impl_skeleton(impl[0])}],
        }
    except C.BuildError as e:
        res.violation("build", e.what, {"output": e.output[-3000:]}, found_input=False)
        cov = {"build_error": e.what}
    failed = C.proof_obligations(res, "C12", ["C12"], extra)
    if failed and not res.violations:
        res.violation("obligations:" + ";".join(failed)[:200], "proof obligation / correspondence no longer checks: " + "; ".join(failed)[:400],
                      {"failed_obligations": failed,
                       "correspondence_disagreements": [{"source": c["src"], "impl": l, "model": m} for c, l, m in corr_bad[:8]]},
                      found_input=False)
    res.coverage.update(cov)
    res.coverage["impl_vs_oracle_failures"] = len(res.violations)
    res.coverage["trusted_base"] += [
        "model of the constant reconstruction `(last) + inc`, the match and ReprInt compared with the working-tree expansion on every generated layout",
        "rustc's constant evaluation of discriminant expressions is modelled as integer arithmetic (overflow is a compile error on both sides)",
        "reference in the behaviour run: `variant as repr` / the stored discriminant of a constructed value",
    ]
    return res.finish()

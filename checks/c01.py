"""C01 — every supported derive input is accepted and expands to code that compiles (without warnings)."""
import re

from . import common as C
from . import fmtgen as G
from . import c01gen as GEN

FRESH_LIFETIMES = {"'__deriveMoreLifetime", "'__derive_more_into"}


def split_top(s, sep=","):
    out, cur, depth = [], "", 0
    i = 0
    while i < len(s):
        ch = s[i]
        if ch in "([{<":
            depth += 1
        elif ch in ")]}":
            depth -= 1
        elif ch == ">" and not (i > 0 and s[i - 1] in "-="):
            depth -= 1
        if ch == sep and depth == 0:
            out.append(cur); cur = ""
        else:
            cur += ch
        i += 1
    if cur:
        out.append(cur)
    return out


def angle_group(s, start):
    """s[start] == '<' : returns the index just after the matching '>'."""
    depth = 0
    i = start
    while i < len(s):
        if s[i] == "<":
            depth += 1
        elif s[i] == ">" and not (i > 0 and s[i - 1] in "-="):
            depth -= 1
            if depth == 0:
                return i + 1
        i += 1
    return len(s)


def param_name(p):
    p = p.strip()
    if p.startswith("'"):
        return ("l", re.match(r"'\w+", p).group(0))
    if p.startswith("const"):
        return ("c", re.match(r"const(\w+)", p).group(1))
    return ("t", re.match(r"(?:r#)?\w+", p).group(0))


def tok_angle(toks, start):
    """toks[start] == '<': index just after the matching '>' (`->` and `=>` are single puncts in the token text)."""
    depth = 0
    i = start
    while i < len(toks):
        if toks[i] == "<":
            depth += 1
        elif toks[i] == ">" and not (i > 0 and toks[i - 1] in ("-", "=")):
            depth -= 1
            if depth == 0:
                return i + 1
        i += 1
    return len(toks)


def headers_of(expansion):
    """(impl generics [(kind, name)], [argument lists of the derived type]) for every impl block of an
    expansion given as space-separated tokens (proc_macro2's Display)."""
    toks = expansion.split()
    out = []
    i = 0
    depth = 0
    while i < len(toks):
        t = toks[i]
        if t == "{":
            depth += 1
        elif t == "}":
            depth -= 1
        if t == "impl" and depth == 0:
            pos = i + 1
            gens = []
            if pos < len(toks) and toks[pos] == "<":
                end = tok_angle(toks, pos)
                gens = [param_name(G.strip_ws(p)) for p in split_top(" ".join(toks[pos + 1:end - 1])) if p.strip()]
                pos = end
            body = pos
            while body < len(toks) and toks[body] != "{":
                body += 1
            head = toks[pos:body]
            args = []
            k = 0
            while k < len(head):
                if head[k] in ("S", "E") and not (k > 0 and head[k - 1] in (":", ".")):
                    if k + 1 < len(head) and head[k + 1] == "<":
                        e = tok_angle(head, k + 1)
                        args.append([G.strip_ws(a) for a in split_top(" ".join(head[k + 2:e - 1]))])
                        k = e
                        continue
                    args.append([])
                k += 1
            out.append((gens, args))
            i = body
            continue
        i += 1
    return out


def decl_params(decl):
    if not decl:
        return []
    return [param_name(G.strip_ws(p)) for p in split_top(decl.strip()[1:-1])]


def correspondence(inproc, lean_ok):
    """impl header of every expansion of the plain shape space == the model's header."""
    items = [it for it in GEN.all_items(kinds=("plain",)) if not it[0].startswith("pos/")]   # (the header model is about the header grid)
    hdr = {h[0]: h for h in GEN.HEADERS}
    reqs = []
    for name, src in items:
        derives = re.findall(r"derive_more::(\w+)", src.split("]")[0])
        body = src[src.index("]") + 1:]
        if name.endswith("/alone"):
            body = body[:body.index(" impl")]      # the hand-written operator impl that follows is not derive input
        for d in derives:
            reqs.append((name, d, body))
    impl = C.drive(inproc, [f"expand {d} {C.hexs(b)}" for _, d, b in reqs])
    bad, n_headers, model_reqs, pending = [], 0, [], []
    for (name, d, body), ans in zip(reqs, impl):
        if not ans.startswith("ok"):
            bad.append({"item": name, "derive": d, "problem": "not accepted: " + ans[:200], "source": body})
            continue
        decl = hdr[name.split("/")[0]][1]
        params = decl_params(decl)
        ids = {nm: i + 1 for i, (_, nm) in enumerate(params)}
        sx = " ".join(f"({k} {ids[nm]})" for k, nm in params)
        for gens, arglists in headers_of(ans[3:]):
            n_headers += 1
            extra_l = [g for g in gens if g[0] == "l" and g[1] in FRESH_LIFETIMES]
            extra_t = [g for g in gens if g[0] == "t" and g[1] not in ids]
            if extra_l and not extra_t:
                fam = "lifetime"
            elif extra_t and not extra_l:
                # add_where_clauses_for_new_ident inserts before the const parameters; the forward impls push at the end
                fam = "typeparam" if d in ("Index", "IndexMut") + tuple(GEN.MUL + GEN.MUL_ASSIGN) and len(extra_t) == 1 else f"pushtype{len(extra_t)}"
            elif not extra_l and not extra_t:
                fam = "plain"
            else:
                fam = "?"
            model_reqs.append(f"gn {fam} ({sx})")
            pending.append((name, d, body, gens, arglists, ids, extra_l, extra_t, fam))
    model = C.drive_lean(model_reqs) if lean_ok and model_reqs else [None] * len(model_reqs)
    for (name, d, body, gens, arglists, ids, extra_l, extra_t, fam), ma in zip(pending, model):
        if ma is None:
            continue
        if not ma.startswith("impl="):
            bad.append({"item": name, "derive": d, "problem": f"model has no family for this header ({fam})", "header": gens, "source": body}); continue
        mi, ms = ma[5:].split(";self=")
        fresh = {}
        for j, g in enumerate(extra_l):
            fresh[g[1]] = 900
        for j, g in enumerate(extra_t):
            fresh[g[1]] = 901 + j
        got_impl = ",".join(f"{k}{fresh.get(nm, ids.get(nm, '?'))}" for k, nm in gens)
        if got_impl != mi:
            bad.append({"item": name, "derive": d, "problem": "impl generics differ from the model", "impl": got_impl, "model": mi, "family": fam, "source": body})
        want_self = [x[1:] for x in ms.split(",") if x]
        inv = {str(v): k for k, v in ids.items()}
        want_names = [inv[x] for x in want_self]
        for al in arglists:
            if [a for a in al] != want_names:
                bad.append({"item": name, "derive": d, "problem": "generic arguments applied to the type differ from its declared parameters",
                            "applied": al, "declared": want_names, "source": body})
                break
    return len(reqs), n_headers, bad


def twin_lifetime_finding(name):
    """The known finding: scalar Mul-like on a type with two fields whose types differ only by a lifetime."""
    parts = name.split("/")
    return parts[0] == "many" and parts[2] in GEN.MUL + GEN.MUL_ASSIGN and parts[3] in ("tuple", "named")


def compile_space(res, tier):
    kinds = ("plain", "deprecated", "never")
    items = GEN.all_items(kinds=kinds)
    cf = C.CaseFile(GEN.PRELUDE)
    for i, (name, src) in enumerate(items):
        if "r#fn" in src:
            src = src.replace("pub enum E", "#[allow(non_camel_case_types)] pub enum E")
        cf.add(i, src)
    d = C.scratch_crate("c01-space", cf.source())
    try:
        rc, diags, err = C.scratch_check(d)
        by, stray = cf.errors_by_case(diags)
        if rc != 0 and not by:
            raise C.BuildError("C01 shape-space crate failed outside the generated items", (stray[0] if stray else err)[-3000:])
        n_bad = 0
        per_key = {}
        for cid, errs in sorted(by.items()):
            name, src = items[cid]
            is_warning = all(e.split(":")[0] in ("deprecated", "unreachable_code", "unused_variables", "unused_mut", "unreachable_patterns", "unused_parens", "unused_imports") for e in errs)
            if twin_lifetime_finding(name) and any(e.startswith(("E0283", "E0284")) for e in errs):
                key = "compile:mul-scalar-two-fields-differing-only-by-lifetime"
            else:
                parts = name.split("/")
                key = f"compile:{parts[2]}/{parts[3]}/{parts[1]}:{errs[0].split(':')[0]}:{parts[0]}"
            n_bad += 1
            if key in per_key:
                per_key[key] += 1
                continue
            per_key[key] = 1
            res.violation(key, f"{src[:260]} -- {'compiles with a warning of the expansion' if is_warning else 'does not compile'} under #![deny(warnings)]: {errs[0][:220]}",
                          {"cmd": "compile", "item": name, "source": src, "errors": errs[:4], "prelude": "checks/c01gen.py PRELUDE"})
        return len(items), n_bad, per_key
    finally:
        C.scratch_cleanup(d)


def run(tier):
    res = C.Result("C01", tier)
    extra, cov, corr_bad = [], {}, []
    try:
        inproc = C.cargo_build_inproc()
        lean_ok, _ = C.lake_build(["Dm.Props.C01", "dmdriver"])
        n_exp, n_headers, corr_bad = correspondence(inproc, lean_ok)
        for b in [b for b in corr_bad if b["problem"].startswith("not accepted")][:6]:
            res.violation(f"rejected:{b['derive']}:{b['item']}", f"#[derive({b['derive']})] {b['source'][:200]}: a supported input is {b['problem']}",
                          {"cmd": f"expand {b['derive']}", "source": b["source"], "answer": b["problem"]})
        for b in [b for b in corr_bad if b["problem"].startswith("generic arguments")][:6]:
            res.violation(f"header:{b['derive']}:{b['item']}", f"#[derive({b['derive']})] {b['source'][:200]}: {b['problem']}: applied {b['applied']}, declared {b['declared']}",
                          {"cmd": f"expand {b['derive']}", "source": b["source"], "applied": b["applied"], "declared": b["declared"]})
        model_bad = [b for b in corr_bad if not b["problem"].startswith(("not accepted", "generic arguments"))]
        n_items, n_bad, per_key = compile_space(res, tier)
        extra = [("correspondence: impl generics and type arguments of every expansion == model header", lean_ok and not model_bad)]
        cov = {
            "evaluations": n_exp + n_items,
            "distinct_nontrivial": n_exp + n_items,
            "rule": "distinct (derive, item) expansions whose impl headers are compared with the model + distinct items of the shape space compiled by rustc with the real macro under #![deny(warnings)]",
            "traces_validated_against_impl": n_headers,
            "model_vs_impl_disagreements": len(model_bad),
            "distribution": {"expansions": n_exp, "impl_headers": n_headers, "compiled_items": n_items, "generic_headers": [h[0] for h in GEN.HEADERS],
                             "member_kinds": ["plain", "#[deprecated] field or variant", "uninhabited field"], "items_not_compiling_cleanly": n_bad,
                             "by_key": per_key},
            "samples": [{"item": n, "source": s[:120]} for n, s in GEN.all_items(kinds=("plain",))[:3]],
        }
        if model_bad:
            res.coverage["correspondence_disagreements"] = model_bad[:8]
    except C.BuildError as e:
        res.violation("build", e.what, {"output": e.output[-3000:]}, found_input=False)
        cov = {"build_error": e.what}
    failed = C.proof_obligations(res, "C01", ["C01"], extra)
    if failed and not res.violations:
        res.violation("obligations:" + ";".join(failed)[:200], "proof obligation / correspondence no longer checks: " + "; ".join(failed)[:400],
                      {"failed_obligations": failed, "correspondence_disagreements": corr_bad[:8]}, found_input=False)
    res.coverage.update(cov)
    res.coverage["impl_vs_oracle_failures"] = len(res.violations)
    res.coverage["trusted_base"] += [
        "model of syn's split_for_impl printing (lifetimes first, defaults dropped) and of the generics helpers of utils.rs, compared with the impl headers of the working-tree expansions for every derive on every generic header of the shape space",
        "that the generated items type-check and raise no warning is rustc's verdict on the generated shape space (12 generic headers x 50 derives x struct / enum shapes x plain / deprecated / uninhabited members), not a theorem",
        "documented trait requirements are met by construction of the corpus (helper field types implementing every forwarded trait); shapes Rust itself rules out (orphan rule for a lone type parameter, forward on a bare type parameter) are not generated",
    ]
    return res.finish()

"""C03 — format literals are interpreted exactly as std::fmt interprets them.

Deciding method: Lean theorems (Dm/Props/C03.lean) about the model of the literal parser
(Dm/Model/FmtParse.lean) against the std::fmt grammar (Dm/Model/StdFmt.lean); the model is tied to
/repo by running model and working-tree parser on the same literals; the grammar model is tied to
rustc by running it and rustc_parse_format on the same derivations.
"""
import itertools
import re

from . import common as C

ALPHABET = list("{}:.*$019xX?<^>+-#_aepbo ") + ["é", "中", "\U0001F600", "·", "　"]
NONASCII = "é中\U0001F600·　д "

TYPES = ["Display", "Debug", "LowerDebug", "UpperDebug", "Octal", "LowerHex", "UpperHex",
         "Pointer", "Binary", "LowerExp", "UpperExp"]

ARGS = ["-", "i0", "i1", "i007", "n" + C.hexs("x"), "n" + C.hexs("_a"), "n" + C.hexs("été")]
FILLALIGN = [("-", "-"), ("-", "L"), ("-", "C"), ("-", "R"), ("78", "L"), ("20", "C"), ("7d", "R"),
             ("30", "L"), ("3c", "L"), ("4e2d", "R")]
SIGNS = ["-", "P", "M"]
WIDTHS = ["-", "i5", "i12", "pi1", "pn" + C.hexs("w"), "pi0"]
PRECS = ["-", "i3", "pi1", "pn" + C.hexs("p"), "*", "i0"]
WSS = ["-", C.hexs(" "), C.hexs(" \t　")]


def classes(inproc):
    """Char classes of the non-ASCII characters used, from the real unicode-xid crate."""
    ans = C.drive(inproc, ["xid " + C.hexs(NONASCII)])[0].split(",")
    xs = "".join(c for c, a in zip(NONASCII, ans) if "s" in a)
    xc = "".join(c for c, a in zip(NONASCII, ans) if "c" in a)
    ws = "".join(c for c, a in zip(NONASCII, ans) if "w" in a)
    return C.hexs(xs), C.hexs(xc), C.hexs(ws), (xs, xc, ws)


def ph(arg, fill, align, sign, alt, zero, width, prec, ty, ws):
    return f"P{arg};{fill};{align};{sign};{alt};{zero};{width};{prec};{ty};{ws}"


def canonical(zero, width):
    # SpecA.ZeroCanonical: without the zero flag the width text must not start with '0' (except `0$`)
    if zero == "1" or width == "-":
        return True
    if width == "pi0":
        return True
    txt = width[2:] if width.startswith("pi") else (width[1:] if width.startswith("i") else "")
    return not txt.startswith("0")


def derivation_product(rng, tier):
    out = []
    full = itertools.product(ARGS, FILLALIGN, SIGNS, "01", "01", WIDTHS, PRECS, TYPES, WSS)
    if tier == "thorough":
        for (a, (f, al), s, alt, z, w, p, t, ws) in full:
            if canonical(z, w):
                out.append([ph(a, f, al, s, alt, z, w, p, t, ws)])
        for a in ARGS:
            for ws in WSS:
                out.append([f"P{a};nospec;{ws}"])
        return out
    # quick: every pair of adjacent dimensions fully, rest sampled from the full product
    small = itertools.product(ARGS[:5], FILLALIGN[:6], SIGNS[:2], "01", "01", WIDTHS[:4] + WIDTHS[5:], PRECS[:5], TYPES, WSS[:2])
    for (a, (f, al), s, alt, z, w, p, t, ws) in small:
        if canonical(z, w) and rng.chance(1, 4):
            out.append([ph(a, f, al, s, alt, z, w, p, t, ws)])
    for _ in range(20000):
        a = rng.choice(ARGS); f, al = rng.choice(FILLALIGN); s = rng.choice(SIGNS)
        alt = rng.choice("01"); z = rng.choice("01"); w = rng.choice(WIDTHS); p = rng.choice(PRECS)
        t = rng.choice(TYPES); ws = rng.choice(WSS)
        if canonical(z, w):
            out.append([ph(a, f, al, s, alt, z, w, p, t, ws)])
    for a in ARGS:
        for ws in WSS:
            out.append([f"P{a};nospec;{ws}"])
    return out


def random_piece(rng):
    k = rng.below(10)
    if k < 2:
        return "T" + C.hexs("".join(rng.choice(list("ab :$.x0 é中\n")) for _ in range(1 + rng.below(4))))
    if k == 2:
        return "L"
    if k == 3:
        return "R"
    if k == 4:
        return f"P{rng.choice(ARGS)};nospec;{rng.choice(WSS)}"
    while True:
        a = rng.choice(ARGS); f, al = rng.choice(FILLALIGN); s = rng.choice(SIGNS)
        alt = rng.choice("01"); z = rng.choice("01"); w = rng.choice(WIDTHS); p = rng.choice(PRECS)
        t = rng.choice(TYPES); ws = rng.choice(WSS)
        if canonical(z, w):
            return ph(a, f, al, s, alt, z, w, p, t, ws)


def in_doc_grammar(lit, cls):
    """Recogniser of the grammar printed in std::fmt's documentation (only used to classify
    rustc-accepted literals on which the implementation differs)."""
    xs, xc, ws = cls
    start = "A-Za-z" + re.escape(xs)
    cont = "A-Za-z0-9_" + re.escape(xc)
    ident = f"(?:[{start}][{cont}]*|_[{cont}]+)"
    arg = rf"(?:\d+|{ident})"
    count = rf"(?:{arg}\$|\d+)"
    wsre = "[ \\t\\n\\x0b\\x0c\\r" + re.escape(ws) + "]"
    spec = rf"(?:.?[<^>])?[+-]?#?0?(?:{count})?(?:\.(?:{count}|\*))?(?:\?|x\?|X\?|o|x|X|p|b|e|E|)"
    fmt = rf"\{{(?:{arg})?(?::{spec})?{wsre}*\}}"
    whole = rf"(?:[^{{}}]|\{{\{{|\}}\}}|{fmt})*"
    return re.fullmatch(whole, lit, re.S) is not None


def norm_formats(ans):
    """`ok F(..) F(..) | ...` -> list of F strings with `nospec` expanded; None if rejected."""
    head = ans.split(" | ")[0]
    if not head.startswith("ok"):
        return None
    fs = head[2:].split()
    return [f.replace("nospec", "al=-,sg=-,alt=0,zp=0,w=-,p=-,ty=Display") for f in fs]


def field(ans, name):
    for part in ans.split(" | "):
        if part.startswith(name + "="):
            return part[len(name) + 1:].strip()
    return None


def run(tier):
    res = C.Result("C03", tier)
    rng = C.Rng(C.seed())
    extra = []
    corr_bad = []
    spec_bad = []
    stats = {}
    try:
        inproc = C.cargo_build_inproc()
        lean_ok, _ = C.lake_build(["Dm.Props.C03", "dmdriver"])
        hxs, hxc, hws, cls = classes(inproc)
        cl = f"{hxs} {hxc} {hws}"

        # ---- corpus + generators -------------------------------------------------------
        corpus = []
        cpath = C.os.path.join(C.VERIF, "corpus", "C03.txt")
        if C.os.path.exists(cpath):
            corpus = [C.unhex(l.split()[0]) for l in open(cpath) if l.strip() and not l.startswith("#")]
        derivs = derivation_product(rng, tier)
        n_rand = 5000 if tier == "quick" else 200000
        for _ in range(n_rand):
            derivs.append([random_piece(rng) for _ in range(1 + rng.below(6))])
        std_ans = C.drive_lean([f"std {cl} " + " ".join(d) for d in derivs]) if lean_ok else []
        lits = list(corpus)
        deriv_lits = []
        for a in std_ans:
            lit = C.unhex(field(a, "lit"))
            deriv_lits.append(lit)
        lits += deriv_lits
        maxlen = 3 if tier == "quick" else 4
        short = []
        for n in range(0, maxlen + 1):
            if n == 4:
                # length 4: all strings that start with `{` (the others add nothing over length 3)
                for t in itertools.product(ALPHABET, repeat=3):
                    short.append("{" + "".join(t))
                    short.append("".join(t) + "}")
            else:
                for t in itertools.product(ALPHABET, repeat=n):
                    short.append("".join(t))
        lits += short
        # one-edit neighbours of a sample of derivation literals
        nsample = 2000 if tier == "quick" else 40000
        neigh = []
        for lit in rng.sample(deriv_lits, nsample) if deriv_lits else []:
            for _ in range(3):
                k = rng.below(3)
                i = rng.below(len(lit) + 1)
                c = rng.choice(ALPHABET)
                if k == 0 and lit:
                    i = min(i, len(lit) - 1)
                    neigh.append(lit[:i] + lit[i + 1:])
                elif k == 1:
                    neigh.append(lit[:i] + c + lit[i:])
                elif lit:
                    i = min(i, len(lit) - 1)
                    neigh.append(lit[:i] + c + lit[i + 1:])
        lits += neigh
        # long / hostile literals
        for _ in range(300 if tier == "quick" else 5000):
            lits.append("".join(rng.choice(ALPHABET) for _ in range(5 + rng.below(40))))
        lits += ["{:" + "9" * 30 + "}", "{" + "9" * 30 + "}", "{:.18446744073709551616}", "{:18446744073709551615}",
                 "{18446744073709551615}", "{" * 50, "}" * 50, "{:" + "0" * 40 + "$}"]
        # dedupe, keep order
        seen = set()
        uniq = []
        for l in lits:
            if "\x00" in l or l in seen:
                continue
            seen.add(l)
            uniq.append(l)
        lits = uniq

        impl = C.drive(inproc, ["fmt " + C.hexs(l) for l in lits])
        model = C.drive_lean([f"fmt {C.hexs(l)} {cl}" for l in lits]) if lean_ok else [None] * len(lits)
        rpf = C.drive_rpf(["fmt " + C.hexs(l) for l in lits])

        n_rpf_ok = n_in_grammar = n_with_ph = n_beyond = n_impl_panic = 0
        distinct_nontrivial = 0
        for lit, ia, ma, ra in zip(lits, impl, model, rpf):
            if ia.startswith("panic"):
                n_impl_panic += 1
            if ma is not None and ia != ma:
                corr_bad.append((lit, ia, ma))
            r_ok = ra.startswith("ok")
            if r_ok:
                n_rpf_ok += 1
                r_fs = norm_formats(ra)
                r_ph = field(ra, "ph")
                i_fs = norm_formats(ia)
                i_ph = field(ia, "ph")
                if r_ph:
                    n_with_ph += 1
                differs = (i_fs != r_fs) or (i_ph != r_ph)
                ing = in_doc_grammar(lit, cls)
                if ing:
                    n_in_grammar += 1
                    if r_ph:
                        distinct_nontrivial += 1
                    if differs:
                        res.violation("lit=" + C.hexs(lit),
                                      f"literal {lit!r}: derive_more reads {ia!r}, rustc_parse_format reads {ra!r}",
                                      {"cmd": "fmt", "literal": lit, "impl": ia, "rustc_parse_format": ra})
                elif differs:
                    n_beyond += 1
        # ---- grammar model vs rustc, theorem content on the derivations -------------------
        rmap = dict(zip(lits, rpf))
        for d, a in zip(derivs, std_ans):
            lit = C.unhex(field(a, "lit"))
            ra = rmap.get(lit)
            if ra is None:
                continue
            if ra.startswith("ok"):
                if field(ra, "ph") != field(a, "std"):
                    spec_bad.append((d, lit, field(a, "std"), ra))
            else:
                # the only derivations rustc may reject are those with counts beyond u16 — none generated
                spec_bad.append((d, lit, field(a, "std"), ra))
            if field(a, "dm") != field(a, "std"):
                spec_bad.append((d, lit, "model parser " + field(a, "dm"), "grammar " + field(a, "std")))

        # ---- Unicode tables (observation only) -------------------------------------------
        t_impl = C.drive(inproc, ["xidtable"])[0].strip()
        sane = C.drive(inproc, ["sanetable"])[0].strip()
        t_rustc = C.drive_rpf(["xidtable"])[0].strip()

        extra = [
            ("correspondence: model of fmt/parsing.rs == working-tree parser on every literal", not corr_bad and lean_ok),
            ("validation: std::fmt grammar model == rustc_parse_format on every derivation", not spec_bad and lean_ok),
            ("hypotheses `Sane` and `Sane2` of the round-trip theorems hold for unicode-xid / char::is_whitespace (all code points; the eighteen ASCII characters of `Sane2`): " + sane, sane == "ok"),
        ]
        stats = {
            "literals": len(lits), "derivations": len(derivs), "short_strings": len(short),
            "one_edit_neighbours": len(neigh), "rustc_accepts": n_rpf_ok, "in_documented_grammar": n_in_grammar,
            "with_placeholders": n_with_ph, "rustc_more_permissive_than_documentation": n_beyond,
            "impl_panics": n_impl_panic,
            "unicode_xid_vs_rustc_lexer_tables": {"unicode-xid": t_impl, "rustc_lexer": t_rustc,
                                                  "equal": t_impl == t_rustc},
        }
    except C.BuildError as e:
        res.coverage["build_error"] = {"what": e.what, "output": e.output[-3000:]}
        res.violation("build", e.what, {"output": e.output[-3000:]}, found_input=False)
        res.coverage.setdefault("obligations", 1)
        res.coverage.setdefault("discharged", 0)
        res.coverage.setdefault("checker_cmd", "n/a (build failed)")
        res.coverage.setdefault("trusted_base", [])
        return res.finish()

    failed = C.proof_obligations(res, "C03", ["C03"], extra)
    # A broken obligation with no concrete failing input from the implementation-vs-oracle search
    if failed and not res.violations:
        detail = {"failed_obligations": failed,
                  "correspondence_disagreements": [
                      {"literal": l, "impl": i, "model": m} for l, i, m in corr_bad[:10]],
                  "grammar_model_disagreements": [
                      {"derivation": d, "literal": l, "model": s, "rustc": r} for d, l, s, r in spec_bad[:10]]}
        res.violation("obligations:" + ";".join(failed)[:200],
                      "proof obligation / correspondence no longer checks: " + "; ".join(failed)[:500],
                      detail, found_input=False)
    elif failed:
        res.coverage["failed_obligations"] = failed
        res.coverage["correspondence_disagreements"] = [
            {"literal": l, "impl": i, "model": m} for l, i, m in corr_bad[:10]]
    res.coverage.update({
        "evaluations": len(lits) + len(derivs),
        "distinct_nontrivial": distinct_nontrivial,
        "rule": "distinct literals in the documented grammar that rustc accepts and that contain at least one placeholder",
        "traces_validated_against_impl": len(lits),
        "model_vs_impl_disagreements": len(corr_bad),
        "grammar_model_vs_rustc_disagreements": len(spec_bad),
        "impl_vs_oracle_failures": len(res.violations) + len(res.known_hits),
        "distribution": stats,
        "samples": [
            {"literal": lits[i], "impl": impl[i], "model": model[i], "rustc_parse_format": rpf[i]}
            for i in ([len(corpus) + k for k in (0, 7, 4000)] if len(lits) > len(corpus) + 4001 else [0])
        ],
    })
    res.coverage["trusted_base"] += [
        "hand-written Lean model of impl/src/fmt/parsing.rs and Placeholder::parse_fmt_string, compared with the working-tree code on every literal of this run",
        "std::fmt grammar as derivations (Dm/Model/StdFmt.lean) with std's reading `meaning`, compared with nightly rustc_parse_format on every derivation of this run",
        "XID_Start/XID_Continue/whitespace are parameters of the theorems; the driver instantiates them with the unicode-xid crate's answers",
        "LitStr::value() (syn unescaping) and format_args!'s rejection of literals it does not accept are not modelled",
    ]
    res.assumptions += [
        "rustc_parse_format of the installed nightly stands for the stable compiler's parser",
        "literals rustc accepts beyond the documented grammar (e.g. `{0 :x}`, `{:.}`) are outside the property's quantifier; counted in distribution.rustc_more_permissive_than_documentation",
    ]
    return res.finish()

"""Correspondence of the Display-like / Debug expander models with the working-tree expanders."""
from . import common as C
from . import fmtgen as G
from .c03 import classes


def correspond(inproc, rng, traits, n, bare_bias=False, items=None):
    """Generates n items per trait, expands them with the real expander and with the model.
    Returns (cases, disagreements) where cases = list of dict(trait, src, impl, model, item)."""
    hxs, hxc, hws, cls = classes(inproc)
    gen = []
    for tr in traits:
        for _ in range(n):
            gen.append((tr, G.gen_item(rng, tr, bare_bias=bare_bias)))
    if items:
        gen = items + gen
    # convert_case answers (parameter of the model)
    conv_keys = sorted({(cs, nm) for _, it in gen for cs, nm in it["convs"]})
    conv_ans = C.drive(inproc, [f"case {cs} {C.hexs(nm)}" for cs, nm in conv_keys])
    conv = dict(zip(conv_keys, conv_ans))
    reqs_impl = [f"expand {tr} {C.hexs(it['src'])}" for tr, it in gen]
    reqs_model = []
    for tr, it in gen:
        tps = " ".join(C.hexs(t) for t in it["tps"])
        if tr == "Debug":
            reqs_model.append(f"fx (dbg {hxs} {hxc} {hws} (tparams {tps}) {it['sexp']})")
        else:
            cv = " ".join(f"({cs} {C.hexs(nm)} {conv[(cs, nm)]})" for cs, nm in it["convs"])
            reqs_model.append(f"fx (disp {tr} {hxs} {hxc} {hws} (conv {cv}) (tparams {tps}) {it['sexp']})")
    impl = C.drive(inproc, reqs_impl)
    model = C.drive_lean(reqs_model)
    cases = []
    bad = []
    for (tr, it), ia, ma in zip(gen, impl, model):
        if ia.startswith("ok "):
            i_n = G.split_expansion(ia, G.strip_ws(it["name"]))
        elif ia.startswith("err "):
            i_n = None
        else:
            i_n = ("other", ia[:200])
        m_n = G.norm_model(ma)
        case = {"trait": tr, "src": it["src"], "impl": i_n, "model": m_n, "impl_raw": ia[:300], "item": it}
        cases.append(case)
        if i_n != m_n:
            bad.append(case)
    return cases, bad

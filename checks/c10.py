"""C10 — derived operators act field-wise with operand order preserved."""
import re

from . import common as C
from . import fmtgen as G

ADD = ["Add", "Sub", "BitAnd", "BitOr", "BitXor"]
MUL = ["Mul", "Div", "Rem", "Shr", "Shl"]
ALL = ADD + [t + "Assign" for t in ADD] + MUL + [t + "Assign" for t in MUL] + ["Not", "Neg", "Sum", "Product"]
SYM = {"Add": "+", "Sub": "-", "BitAnd": "&", "BitOr": "|", "BitXor": "^", "Mul": "*", "Div": "/", "Rem": "%", "Shr": ">>", "Shl": "<<"}
TYPES = ["u8", "i64", "Tag", "Vec<u8>", "core::primitive::u32", "Wrapper<'static, T>"]


def method(trait):
    return (trait[:-6].lower() + "_assign") if trait.endswith("Assign") else trait.lower()


def gen_fields(rng, shape):
    if shape == "unit":
        return []
    k = 1 + rng.below(4) if rng.chance(9, 10) else 0
    names = rng.sample(["a", "b", "r#type", "x1", "rhs", "self_"], k) if shape == "named" else [None] * k
    return [(names[i], rng.choice(TYPES)) for i in range(k)]


def fields_src(shape, fs):
    if shape == "unit":
        return ""
    if shape == "tuple":
        return "(" + ", ".join(t for _, t in fs) + ")"
    return " { " + ", ".join(f"{n}: {t}" for n, t in fs) + " }"


def fields_sexp(fs):
    return " ".join(f"(f {C.hexs(n) if n else '-'} {C.hexs(G.strip_ws(t))})" for n, t in fs)


def gen_item(rng, trait):
    fwd = trait.rstrip("Assign") in MUL + [m for m in MUL] and rng.chance(1, 2) and (trait in MUL or trait[:-6] in MUL)
    attr = f"#[{method(trait)}(forward)] " if fwd else ""
    if rng.chance(1, 3):
        nv = rng.below(5)
        vs = []
        for i in range(nv):
            sh = rng.choice(["unit", "tuple", "named"])
            vs.append((rng.choice(["A", "Bee", "r#fn"]) + str(i) if i else rng.choice(["A", "r#fn", "Unit"]), sh, gen_fields(rng, sh)))
        src = f"{attr}enum E {{ " + ", ".join(n + fields_src(sh, fs) for n, sh, fs in vs) + " }"
        sexp = f"(enum {C.hexs('E')} " + " ".join(f"(v {C.hexs(n)} {sh} {fields_sexp(fs)})" for n, sh, fs in vs) + ")"
    else:
        sh = rng.choice(["tuple", "named", "tuple", "named", "unit"])
        fs = gen_fields(rng, sh)
        name = rng.choice(["S", "r#type", "Point"])
        src = f"{attr}struct {name}{fields_src(sh, fs)}" + ("" if sh == "named" else ";")
        sexp = f"(struct {C.hexs(name)} {sh} {fields_sexp(fs)})"
    return src, f"op (op {trait} {1 if fwd else 0} {sexp})"


def impl_body(ans, trait):
    if ans.startswith("panic"):
        return "panic"
    if ans.startswith("err"):
        return "err"
    s = G.strip_ws(ans[3:])
    m = method(trait)
    i = s.find(f"fn{m}(")
    if i < 0:
        i = s.find(f"fn{m}<")
    if i < 0:
        return "?" + s[:80]
    j = s.find("{", s.find(")", i) if "->" not in s[i:i + 400] else s.find("->", i))
    # the first `{` after the signature: signatures contain no braces
    j = s.find("{", i)
    body = s[j + 1:]
    if body.endswith("}}"):
        body = body[:-2]
    return f"ok method={m} body={body}"


PRELUDE = r'''
#![allow(dead_code, unused_variables, non_camel_case_types, unused_imports, non_snake_case)]
use core::ops::*;
pub static mut FAILS: u32 = 0;
pub static mut CHECKS: u64 = 0;
pub fn check(id: &str, what: &str, got: String, want: String) {
    unsafe { CHECKS += 1; }
    if got != want { unsafe { FAILS += 1; if FAILS < 300 { println!("FAIL|{}|{}|{}|{}", id, what, got, want); } } }
}
/// Operand type that records every operation applied to it (non-commutative by construction).
#[derive(Clone, Debug, PartialEq)]
pub struct Tag(pub String);
pub fn t(s: &str) -> Tag { Tag(s.to_string()) }
macro_rules! bin { ($($tr:ident $m:ident $sym:literal),*) => { $(
    impl $tr for Tag { type Output = Tag; fn $m(self, r: Tag) -> Tag { Tag(format!("({}{}{})", self.0, $sym, r.0)) } }
    impl $tr<u8> for Tag { type Output = Tag; fn $m(self, r: u8) -> Tag { Tag(format!("({}{}#{})", self.0, $sym, r)) } }
)* } }
bin!(Add add "+", Sub sub "-", BitAnd bitand "&", BitOr bitor "|", BitXor bitxor "^", Mul mul "*", Div div "/", Rem rem "%", Shr shr ">>", Shl shl "<<");
macro_rules! asg { ($($tr:ident $m:ident $sym:literal),*) => { $(
    impl $tr for Tag { fn $m(&mut self, r: Tag) { self.0 = format!("({}{}{})", self.0, $sym, r.0); } }
    impl $tr<u8> for Tag { fn $m(&mut self, r: u8) { self.0 = format!("({}{}#{})", self.0, $sym, r); } }
)* } }
asg!(AddAssign add_assign "+", SubAssign sub_assign "-", BitAndAssign bitand_assign "&", BitOrAssign bitor_assign "|", BitXorAssign bitxor_assign "^",
     MulAssign mul_assign "*", DivAssign div_assign "/", RemAssign rem_assign "%", ShrAssign shr_assign ">>", ShlAssign shl_assign "<<");
impl Not for Tag { type Output = Tag; fn not(self) -> Tag { Tag(format!("!{}", self.0)) } }
impl Neg for Tag { type Output = Tag; fn neg(self) -> Tag { Tag(format!("-{}", self.0)) } }
// the field type's own Sum / Product is *not* a fold with `+` / `*` over a non-empty iterator: the derive must use it for the empty
// sum / product only and fold with the derived operator from there (seed C10-l)
impl core::iter::Sum for Tag { fn sum<I: Iterator<Item = Tag>>(i: I) -> Tag { let v: Vec<String> = i.map(|t| t.0).collect(); if v.is_empty() { Tag("S0".into()) } else { Tag(format!("sum[{}]", v.join(","))) } } }
impl core::iter::Product for Tag { fn product<I: Iterator<Item = Tag>>(i: I) -> Tag { let v: Vec<String> = i.map(|t| t.0).collect(); if v.is_empty() { Tag("P1".into()) } else { Tag(format!("product[{}]", v.join(","))) } } }
'''


def behaviour(res, rng, tier):
    """Real proc-macro on types whose fields are `Tag`; the expected text follows the property."""
    cf = C.CaseFile(PRELUDE)
    descs = {}
    i = 0
    reps = 1 if tier == "quick" else 6
    for _ in range(reps):
        for trait in ALL:
            base = trait[:-6] if trait.endswith("Assign") else trait
            for shape in ("tuple", "named"):
                k = 1 + rng.below(3)
                names = ["a", "r#type", "c"][:k] if shape == "named" else [None] * k
                body = ("(" + ", ".join("pub Tag" for _ in range(k)) + ");") if shape == "tuple" else (" { " + ", ".join(f"pub {n}: Tag" for n in names) + " }")
                def val(p):
                    vals = [f't("{p}{j}")' for j in range(k)]
                    return ("S(" + ", ".join(vals) + ")") if shape == "tuple" else ("S { " + ", ".join(f"{n}: {v}" for n, v in zip(names, vals)) + " }")
                def fld(e, j):
                    return f"{e}.{j}.0.clone()" if shape == "tuple" else f"{e}.{names[j]}.0.clone()"
                fwd = base in MUL and rng.chance(1, 2)
                attr = f"#[{method(trait)}(forward)] " if fwd else ""
                lines = []
                if base in SYM:
                    sym = SYM[base]
                    scalar = base in MUL and not fwd
                    if trait.endswith("Assign"):
                        op = f"let mut x = {val('a')}; x {sym}= {'3u8' if scalar else val('b')};"
                    else:
                        op = f"let x = {val('a')} {sym} {'3u8' if scalar else val('b')};"
                    lines.append(op)
                    for j in range(k):
                        want = f"(a{j}{sym}#3)" if scalar else f"(a{j}{sym}b{j})"
                        lines.append(f'check("{i}", "field{j}", {fld("x", j)}, String::from("{want}"));')
                elif trait in ("Not", "Neg"):
                    pre = "!" if trait == "Not" else "-"
                    lines.append(f"let x = {pre}{val('a')};")
                    for j in range(k):
                        lines.append(f'check("{i}", "field{j}", {fld("x", j)}, String::from("{pre}a{j}"));')
                else:
                    # Sum / Product need the binary operator on the struct as well
                    opn, sym, idn = ("Add", "+", "S0") if trait == "Sum" else ("Mul", "*", "P1")
                    attr = f"#[derive(derive_more::{opn})] " + ("#[mul(forward)] " if opn == "Mul" else "")
                    src = None
                    lines.append(f"let x: S = vec![{val('a')}, {val('b')}, {val('c')}].into_iter().{'sum' if trait == 'Sum' else 'product'}();")
                    for j in range(k):
                        lines.append(f'check("{i}", "field{j}", {fld("x", j)}, String::from("((({idn}{sym}a{j}){sym}b{j}){sym}c{j})"));')
                    lines.append(f"let e: S = Vec::<S>::new().into_iter().{'sum' if trait == 'Sum' else 'product'}();")
                    for j in range(k):
                        lines.append(f'check("{i}", "empty{j}", {fld("e", j)}, String::from("{idn}"));')
                src = f"#[derive(derive_more::{trait})] {attr}pub struct S{body}\npub fn run() {{ {' '.join(lines)} }}"
                cf.add(i, src, main_call=f"c{i}::run();")
                descs[str(i)] = f"{attr}#[derive({trait})] struct S{body}"
                i += 1
        # enums: same variant field-wise, mismatch, unit
        for trait in ADD + ["Not", "Neg"]:
            src_enum = f"#[derive(derive_more::{trait}, Debug, PartialEq, Clone)] pub enum E {{ Two(Tag, Tag), Named {{ x: Tag, r#y: Tag }}, One(Tag), U1, U2 }}"
            lines = []
            if trait in SYM:
                sym = SYM[trait]
                m = method(trait)
                lines.append(f'check("{i}", "two", format!("{{:?}}", E::Two(t("a0"), t("a1")) {sym} E::Two(t("b0"), t("b1"))), format!("{{:?}}", Ok::<E, derive_more::BinaryError>(E::Two(t("(a0{sym}b0)"), t("(a1{sym}b1)")))));')
                lines.append(f'check("{i}", "named", format!("{{:?}}", E::Named {{ x: t("a0"), y: t("a1") }} {sym} E::Named {{ x: t("b0"), y: t("b1") }}), format!("{{:?}}", Ok::<E, derive_more::BinaryError>(E::Named {{ x: t("(a0{sym}b0)"), y: t("(a1{sym}b1)") }})));')
                lines.append(f'check("{i}", "mismatch", format!("{{:?}}", E::One(t("a")) {sym} E::Two(t("b0"), t("b1"))), format!("{{:?}}", Err::<E, _>(derive_more::BinaryError::Mismatch(derive_more::WrongVariantError::new("{m}")))));')
                lines.append(f'check("{i}", "unit", format!("{{:?}}", E::U1 {sym} E::U1), format!("{{:?}}", Err::<E, _>(derive_more::BinaryError::Unit(derive_more::UnitError::new("{m}")))));')
                lines.append(f'check("{i}", "two-units", format!("{{:?}}", E::U1 {sym} E::U2), format!("{{:?}}", Err::<E, _>(derive_more::BinaryError::Mismatch(derive_more::WrongVariantError::new("{m}")))));')
                lines.append(f'check("{i}", "unit-vs-fields", format!("{{:?}}", E::U2 {sym} E::One(t("b"))), format!("{{:?}}", Err::<E, _>(derive_more::BinaryError::Mismatch(derive_more::WrongVariantError::new("{m}")))));')
            else:
                pre = "!" if trait == "Not" else "-"
                m = method(trait)
                lines.append(f'check("{i}", "two", format!("{{:?}}", {pre}E::Two(t("a0"), t("a1"))), format!("{{:?}}", Ok::<E, derive_more::UnitError>(E::Two(t("{pre}a0"), t("{pre}a1")))));')
                lines.append(f'check("{i}", "unit", format!("{{:?}}", {pre}E::U1), format!("{{:?}}", Err::<E, _>(derive_more::UnitError::new("{m}"))));')
            cf.add(i, src_enum + "\npub fn run() { " + " ".join(lines) + " }", main_call=f"c{i}::run();")
            descs[str(i)] = src_enum
            i += 1
            # field-less variants that are not unit variants (`Empty()`, `Braces {}`): no unit error for them, and without a
            # unit variant Not / Neg return the enum itself, not a `Result` (added after seed C10-j)
            src0 = f"#[derive(derive_more::{trait}, Debug, PartialEq, Clone)] pub enum E {{ Two(Tag, Tag), Empty(), Braces {{}} }}"
            lines = []
            if trait in SYM:
                sym = SYM[trait]
                m = method(trait)
                lines.append(f'check("{i}", "empty-tuple", format!("{{:?}}", E::Empty() {sym} E::Empty()), format!("{{:?}}", Ok::<E, derive_more::BinaryError>(E::Empty())));')
                lines.append(f'check("{i}", "empty-braces", format!("{{:?}}", E::Braces {{}} {sym} E::Braces {{}}), format!("{{:?}}", Ok::<E, derive_more::BinaryError>(E::Braces {{}})));')
                lines.append(f'check("{i}", "empty-mismatch", format!("{{:?}}", E::Empty() {sym} E::Braces {{}}), format!("{{:?}}", Err::<E, _>(derive_more::BinaryError::Mismatch(derive_more::WrongVariantError::new("{m}")))));')
                lines.append(f'check("{i}", "two", format!("{{:?}}", E::Two(t("a0"), t("a1")) {sym} E::Two(t("b0"), t("b1"))), format!("{{:?}}", Ok::<E, derive_more::BinaryError>(E::Two(t("(a0{sym}b0)"), t("(a1{sym}b1)")))));')
            else:
                pre = "!" if trait == "Not" else "-"
                lines.append(f'let x: E = {pre}E::Two(t("a0"), t("a1")); check("{i}", "two-no-unit", format!("{{:?}}", x), format!("{{:?}}", E::Two(t("{pre}a0"), t("{pre}a1"))));')
                lines.append(f'let y: E = {pre}E::Empty(); check("{i}", "empty-tuple", format!("{{:?}}", y), format!("{{:?}}", E::Empty()));')
                lines.append(f'let z: E = {pre}E::Braces {{}}; check("{i}", "empty-braces", format!("{{:?}}", z), format!("{{:?}}", E::Braces {{}}));')
            cf.add(i, src0 + "\npub fn run() { " + " ".join(lines) + " }", main_call=f"c{i}::run();")
            descs[str(i)] = src0
            i += 1
    d = C.scratch_crate("c10-ops", cf.source('unsafe { println!("DONE checks={} fails={}", CHECKS, FAILS); }'))
    try:
        rc, out, err = C.scratch_run(d)
        if "DONE" not in out:
            rc2, diags, err2 = C.scratch_check(d)
            by, stray = cf.errors_by_case(diags)
            for cid, errs in list(by.items())[:10]:
                res.violation("compile:" + descs[str(cid)], f"{descs[str(cid)]} does not compile: {errs[0][:240]}",
                              {"cmd": "compile", "source": descs[str(cid)], "errors": errs[:3]})
            if not by:
                raise C.BuildError("C10 behaviour crate (real proc-macro) did not build/run", (err or out)[-3000:])
            return 0, i, []
        checks = int(out.split("DONE checks=")[1].split()[0])
        seen = set()
        for l in out.splitlines():
            if l.startswith("FAIL|"):
                _, cid, what, got, want = l.split("|", 4)
                if cid in seen:
                    continue
                seen.add(cid)
                res.violation("ops:" + descs[cid] + "|" + what, f"{descs[cid]}: {what} is {got}, the property requires {want}",
                              {"cmd": "behaviour", "source": descs[cid], "what": what, "got": got, "want": want})
        return checks, i, [descs["0"], descs["3"]]
    finally:
        C.scratch_cleanup(d)


def run(tier):
    res = C.Result("C10", tier)
    rng = C.Rng(C.seed())
    extra, cov, corr_bad = [], {}, []
    try:
        inproc = C.cargo_build_inproc()
        lean_ok, _ = C.lake_build(["Dm.Props.C10", "dmdriver"])
        n = 200 if tier == "quick" else 3000
        cases = []
        for trait in ALL:
            for _ in range(n):
                src, req = gen_item(rng, trait)
                cases.append((trait, src, req))
        impl = C.drive(inproc, [f"expand {tr} {C.hexs(src)}" for tr, src, _ in cases])
        model = C.drive_lean([req for _, _, req in cases]) if lean_ok else [None] * len(cases)
        n_ok = 0
        for (tr, src, req), ia, ma in zip(cases, impl, model):
            got = impl_body(ia, tr)
            if got.startswith("ok"):
                n_ok += 1
            if ma is not None and got != ma:
                corr_bad.append({"trait": tr, "source": src, "impl": got[:400], "model": ma[:400]})
        checks, ntypes, samples = behaviour(res, rng, tier)
        extra = [("correspondence: generated method bodies of the 24 operator derives == model (token text)", lean_ok and not corr_bad)]
        cov = {
            "evaluations": len(cases) + checks,
            "distinct_nontrivial": len({(c[0], c[1]) for c in cases}) + ntypes,
            "rule": "distinct (derive, item) pairs expanded in-process + types run with the real macro on the tagging operand type",
            "traces_validated_against_impl": len(cases),
            "model_vs_impl_disagreements": len(corr_bad),
            "distribution": {"expansions": len(cases), "accepted": n_ok, "behaviour_types": ntypes, "behaviour_checks": checks},
            "samples": [{"type": s} for s in samples] + [{"derive": cases[0][0], "item": cases[0][1], "impl": impl_body(impl[0], cases[0][0])[:300]}],
        }
    except C.BuildError as e:
        res.violation("build", e.what, {"output": e.output[-3000:]}, found_input=False)
        cov = {"build_error": e.what}
    failed = C.proof_obligations(res, "C10", ["C10"], extra)
    if failed and not res.violations:
        res.violation("obligations:" + ";".join(failed)[:200], "proof obligation / correspondence no longer checks: " + "; ".join(failed)[:400],
                      {"failed_obligations": failed, "correspondence_disagreements": corr_bad[:8]}, found_input=False)
    res.coverage.update(cov)
    res.coverage["impl_vs_oracle_failures"] = len(res.violations)
    res.coverage["trusted_base"] += [
        "model of add_like / add_assign_like / mul_like / mul_assign_like / not_like / sum_like bodies compared token-for-token with the working-tree expansions",
        "first-arm-wins `match`, method-call and UFCS evaluation are the modelled fragment of Rust; the field operators are parameters of the theorems",
    ]
    return res.finish()

"""Generator of Display-like / Debug derive inputs: Rust source + the abstract item (s-expression)
the Lean model consumes.  Everything random derives from the Rng passed in."""
from . import common as C

H = C.hexs

TRAITS = ["Display", "Binary", "Octal", "LowerHex", "UpperHex", "LowerExp", "UpperExp", "Pointer"]
ATTR_NAME = {"Display": "display", "Binary": "binary", "Octal": "octal", "LowerHex": "lower_hex",
             "UpperHex": "upper_hex", "LowerExp": "lower_exp", "UpperExp": "upper_exp",
             "Pointer": "pointer", "Debug": "debug"}
CASES = [("lower", "lowercase"), ("upper", "UPPERCASE"), ("pascal", "PascalCase"), ("camel", "camelCase"),
         ("snake", "snake_case"), ("screamingSnake", "SCREAMING_SNAKE_CASE"), ("kebab", "kebab-case"),
         ("screamingKebab", "SCREAMING-KEBAB-CASE")]


def strip_ws(s):
    """Removes whitespace outside string literals (both sides of every comparison go through this)."""
    out = []
    i = 0
    n = len(s)
    while i < n:
        c = s[i]
        if c == '"':
            j = i + 1
            while j < n:
                if s[j] == "\\":
                    j += 2
                    continue
                if s[j] == '"':
                    break
                j += 1
            out.append(s[i:j + 1])
            i = j + 1
        elif c.isspace():
            i += 1
        else:
            out.append(c)
            i += 1
    return "".join(out)


# ----------------------------------------------------------------------------- types

def seg(name, args="n"):
    return f"(s {H(name)} {args})"


def ty_path(names_args, qself=None):
    q = qself if qself else "-"
    return f"(p {q} " + " ".join(seg(n, a) for n, a in names_args) + ")"


def gen_type(rng, tps, depth=0):
    """Returns (source, ast, mentions_type_param: bool by construction)."""
    k = rng.below(18 if depth < 2 else 4)
    if k == 0 or not tps and k in (1, 2):
        n = rng.choice(["i32", "u8", "String", "bool"])
        return n, ty_path([(n, "n")]), False
    if k == 1:
        t = rng.choice(tps)
        return t, ty_path([(t, "n")]), True
    if k == 2:
        t = rng.choice(tps)
        return f"{t}::Item", ty_path([(t, "n"), ("Item", "n")]), True
    if k == 3:
        n = rng.choice(["std::string::String", "core::primitive::u8"])
        parts = n.split("::")
        return n, ty_path([(p, "n") for p in parts]), False
    s, a, m = gen_type(rng, tps, depth + 1)
    if k == 4:
        return f"&'static {s}", f"(e {a})", m
    if k == 5:
        return f"[{s}; 2]", f"(e {a})", m
    if k == 6:
        return f"*const {s}", f"(e {a})", m
    if k == 7:
        return f"({s})", f"(e {a})", m
    if k == 8:
        s2, a2, m2 = gen_type(rng, tps, depth + 1)
        return f"({s}, {s2})", f"(t {a} {a2})", m or m2
    if k == 9:
        c = rng.choice(["Vec", "Option", "Box", "std::marker::PhantomData"])
        parts = c.split("::")
        segs = [(p, "n") for p in parts[:-1]] + [(parts[-1], f"(a (ty {a}))")]
        return f"{c}<{s}>", ty_path(segs), m
    if k == 10:
        s2, a2, m2 = gen_type(rng, tps, depth + 1)
        return f"fn({s}) -> {s2}", f"(fn ({a}) {a2})", m or m2
    if k == 11:
        return f"Box<dyn Fn({s}) -> u8>", ty_path([("Box", f"(a (ty (dyn (b (s {H('Fn')} (pa ({a}) {ty_path([('u8', 'n')])}))))))")]), m
    if k == 12:
        return (f"Box<dyn Iterator<Item = {s}> + 'static>",
                ty_path([("Box", f"(a (ty (dyn (b (s {H('Iterator')} (a (as {a})))))))")]), m)
    if k == 13:
        return f"<{s} as IntoIterator>::Item", ty_path([("IntoIterator", "n"), ("Item", "n")], qself=a), m
    if k == 14:
        return f"Wrap<'static, {s}, 3>", ty_path([("Wrap", f"(a o (ty {a}) o)")]), m
    # qualified paths whose `Self` type is concrete and whose parameter sits in the trait's or the associated type's
    # arguments (added after seed C04-j: the path part must be searched even when the qself type has no parameter)
    if k == 15:
        return f"<u8 as Conv<{s}>>::Out", ty_path([("Conv", f"(a (ty {a}))"), ("Out", "n")], qself=ty_path([("u8", "n")])), m
    if k == 16:
        return f"<Fam as Family>::Of<{s}>", ty_path([("Family", "n"), ("Of", f"(a (ty {a}))")], qself=ty_path([("Fam", "n")])), m
    return f"[{s}]", f"(e {a})", m


# ----------------------------------------------------------------------------- literals and args

SPECS = ["", ":?", ":x", ":X", ":o", ":b", ":e", ":E", ":p", ":#?", ":>8", ":08.3", ":x?", ":+", ":w$", ":.*", ": <5", " ", ":x "]


def gen_fmt_attr(rng, field_names, allow_variant=False, bare_bias=False):
    """field_names: binding names usable (`x`, `_0`, `r#type`). Returns dict(lit, args[list of
    (alias, ident, src)], src, sexp)."""
    pieces = []
    args = []
    nph = 1 if bare_bias and rng.chance(3, 4) else rng.below(4)
    with_text = not (bare_bias and rng.chance(2, 3))
    if with_text and rng.chance(1, 2):
        pieces.append(rng.choice(["v=", "é ", "{{", "a}}b", "x: "]))
    for _ in range(nph):
        spec = rng.choice(SPECS[:2] if bare_bias and rng.chance(1, 2) else SPECS)
        if bare_bias and rng.chance(1, 2):
            spec = rng.choice(["", ":?", ":x", ":p", ":e"])
        k = rng.below(8)
        if allow_variant and rng.chance(1, 3):
            k = rng.choice([4, 4, 5])
        unraw = [f[2:] if f.startswith("r#") else f for f in field_names]
        if k == 0 and unraw:
            pieces.append("{" + rng.choice(unraw) + spec + "}")
        elif k == 1:
            pieces.append("{" + spec + "}")
            args.append(gen_arg(rng, field_names, positional=True))
        elif k == 2:
            idx = rng.below(3)
            pieces.append("{" + str(idx) + spec + "}")
            while len(args) <= idx and rng.chance(3, 4):
                args.append(gen_arg(rng, field_names, positional=True))
        elif k == 3:
            al = rng.choice(["a", "val", "x"])
            plain = [f for f in field_names if not f.startswith("r#")]
            if plain and rng.chance(1, 2):
                al = rng.choice(plain)        # an explicit `name = expr` shadowing the field of that name (a keyword is no alias)
            pieces.append("{" + al + spec + "}")
            a = gen_arg(rng, field_names, positional=True)
            args.append((al, a[1], a[2]))
        elif k == 4 and allow_variant:
            pieces.append("{_variant" + (spec if rng.chance(1, 6) else "") + "}")
        elif k == 5 and allow_variant:
            pieces.append("{" + spec + "}")
            args.append((None, "_variant", "_variant"))
        elif k == 6 and unraw:
            pieces.append("{" + rng.choice(unraw) + ":p}")
        else:
            pieces.append("{" + spec + "}")
            args.append(gen_arg(rng, field_names, positional=True))
        if with_text and rng.chance(1, 3):
            pieces.append(rng.choice([" ", ", ", "}}", "-"]))
    if rng.chance(1, 8):
        args.append(gen_arg(rng, field_names, positional=True))
    lit = "".join(pieces)
    trailing = rng.chance(1, 6)
    arg_srcs = [(f"{al} = {src}" if al else src) for al, _, src in args]
    src = '"' + lit + '"' + ("".join(", " + a for a in arg_srcs)) + ("," if trailing and (args or rng.chance(1, 2)) else "")
    had_comma = "," in src[len(lit) + 2:]
    # FmtAttribute re-emits `lit [,] args`; the comma after the literal is kept only when arguments follow
    # (`"x",` alone would otherwise double the comma in `write!(f, "x", ,)`: fixed by 5810693)
    emit = '"' + lit + '"' + ("," if had_comma and arg_srcs else "") + ",".join(strip_ws(a) for a in arg_srcs)
    sexp = (f"(fmt {H(lit)} {H(emit)} (args " +
            " ".join(f"(a {H(al) if al else '-'} {H(idn) if idn else '-'} {H(strip_ws(s))})" for al, idn, s in args) + "))")
    return {"lit": lit, "args": args, "src": src, "sexp": sexp, "emit": emit}


def gen_arg(rng, field_names, positional):
    k = rng.below(7)
    if field_names and k <= 2:
        f = rng.choice(field_names)
        return (None, f, f)
    if field_names and k == 3:
        f = rng.choice(field_names)
        u = f[2:] if f.startswith("r#") else f
        return (None, u, u)
    if field_names and k == 4:
        f = rng.choice(field_names)
        return (None, None, f"{f}.clone()")
    if k == 5:
        return (None, None, "self")
    return (None, None, rng.choice(["1 + 2", "\"s\"", "f(a, b)", "x::<u8>()"]))


# ----------------------------------------------------------------------------- items

def gen_fields(rng, tps, debug=False, max_fields=3, kind=None):
    kind = kind or rng.choice(["unit", "unnamed", "named", "unnamed", "named"])
    if kind == "unit":
        return {"kind": "unit", "fields": [], "names": []}
    n = rng.below(max_fields + 1)
    fields = []
    pool = ["a", "b", "source", "r#type", "_0", "x1"]
    names = rng.sample(pool, n) if kind == "named" else [None] * n
    for i in range(n):
        s, a, m = gen_type(rng, tps)
        fields.append({"name": names[i], "ty": s, "ast": a, "mentions": m, "dbg": None})
    bind = [f["name"] if f["name"] else f"_{i}" for i, f in enumerate(fields)]
    return {"kind": kind, "fields": fields, "names": bind}


def fields_src(fs, attr_name):
    def fattr(f):
        if f["dbg"] is None:
            return ""
        if f["dbg"] == "skip":
            return f"#[{attr_name}({f.get('skipword', 'skip')})] "
        return f"#[{attr_name}({f['dbg']['src']})] "
    if fs["kind"] == "unit":
        return ""
    if fs["kind"] == "unnamed":
        return "(" + ", ".join(fattr(f) + f["ty"] for f in fs["fields"]) + ")"
    return " { " + ", ".join(fattr(f) + f"{f['name']}: {f['ty']}" for f in fs["fields"]) + " }"


def fields_sexp(fs):
    if fs["kind"] == "unit":
        return "unit"
    def one(f):
        d = "none" if f["dbg"] is None else ("skip" if f["dbg"] == "skip" else f["dbg"]["sexp"])
        return f"(f {H(f['name']) if f['name'] else '-'} {H(strip_ws(f['ty']))} {f['ast']} {d})"
    return f"({fs['kind']} " + " ".join(one(f) for f in fs["fields"]) + ")"


def gen_cattrs(rng, trait, names, allow_variant=False, p_fmt=(2, 3), bare_bias=False, allow_rename=True):
    """Container attribute list: [(kind, src, sexp)]."""
    out = []
    if rng.chance(*p_fmt):
        a = gen_fmt_attr(rng, names, allow_variant=allow_variant, bare_bias=bare_bias)
        out.append(("fmt", a["src"], a["sexp"], a))
    if rng.chance(1, 6):
        word = rng.choice(["bound", "bounds"])
        preds = rng.choice([["T: Clone"], ["T: core::fmt::Display", "U: Copy"], []])
        out.append(("bound", f"{word}(" + ", ".join(preds) + ")", "(bound " + " ".join(H(strip_ws(p)) for p in preds) + ")", None))
    if allow_rename and rng.chance(1, 8):
        cid, cname = rng.choice(CASES)
        out.append(("rename", f'rename_all = "{cname}"', f"(rename {cid})", None))
    if rng.chance(1, 25) and out:
        out.append(out[0])      # duplicate attribute
    return rng.shuffle(out)


def attrs_src(attrs, attr_name):
    return "".join(f"#[{attr_name}({a[1]})] " for a in attrs)


def gen_item(rng, trait, bare_bias=False):
    """Returns dict(src, sexp, conv_needed: [(case, name)], kind, ...)."""
    attr_name = ATTR_NAME[trait]
    debug = trait == "Debug"
    ntp = rng.below(3)
    tps = ["T", "U"][:ntp]
    generics = ""
    if rng.chance(1, 4):
        generics_list = ["'a"] + tps + (["const N: usize"] if rng.chance(1, 2) else [])
    else:
        generics_list = list(tps)
    if generics_list:
        generics = "<" + ", ".join(generics_list) + ">"
    where = []
    if tps and rng.chance(1, 5):
        where = [f"{tps[0]}: Clone"]
    where_src = (" where " + ", ".join(where) + ("," if rng.chance(1, 3) else "")) if where else ""
    where_sexp = "(where " + " ".join(H(strip_ws(w)) for w in where) + ")"
    kind = rng.choice(["struct", "struct", "enum", "enum", "enum", "union"] if rng.chance(1, 10) else ["struct", "enum", "enum"])
    name = rng.choice(["S", "Foo", "r#type", "MyEnumName"])
    convs = []
    if kind in ("struct", "union"):
        fs = gen_fields(rng, tps, debug, kind=("named" if kind == "union" else None))
        if debug:
            for f in fs["fields"]:
                r = rng.below(6)
                if r == 0:
                    f["dbg"] = "skip"
                    f["skipword"] = rng.choice(["skip", "ignore"])
                elif r == 1:
                    f["dbg"] = gen_fmt_attr(rng, fs["names"])
        cattrs = gen_cattrs(rng, trait, fs["names"], bare_bias=bare_bias, allow_rename=not debug or rng.chance(1, 10),
                            p_fmt=((1, 3) if debug else (2, 3)))
        body_src = fields_src(fs, attr_name)
        semi = ";" if fs["kind"] in ("unit", "unnamed") and kind == "struct" else ""
        src = f"{attrs_src(cattrs, attr_name)}{kind} {name}{generics}{body_src if fs['kind'] != 'named' else ''}{where_src}{body_src if fs['kind'] == 'named' else ''}{semi}"
        if kind == "union" and fs["kind"] != "named":
            src = f"{attrs_src(cattrs, attr_name)}union {name}{generics}{where_src} {{ }}"
        for a in cattrs:
            if a[0] == "rename":
                convs.append((a[2].split()[1].rstrip(")"), name[2:] if name.startswith("r#") else name))
        sexp = f"({kind} {H(name)} {where_sexp} (attrs {' '.join(a[2] for a in cattrs)}) {fields_sexp(fs)})"
    else:
        nv = rng.below(4)
        vnames = rng.sample(["A", "Bee", "r#fn", "UnitLike", "HTTPError", "snake_v"], nv)
        variants = []
        allnames = []
        vs_src = []
        vs_sexp = []
        cattrs = gen_cattrs(rng, trait, ["a", "_0"], allow_variant=True, p_fmt=(1, 2) if not debug else (1, 12), allow_rename=not debug or rng.chance(1, 10))
        ccase = [a[2].split()[1].rstrip(")") for a in cattrs if a[0] == "rename"]
        for vn in vnames:
            fs = gen_fields(rng, tps, debug, max_fields=2)
            if debug:
                for f in fs["fields"]:
                    r = rng.below(6)
                    if r == 0:
                        f["dbg"] = "skip"
                        f["skipword"] = rng.choice(["skip", "ignore"])
                    elif r == 1:
                        f["dbg"] = gen_fmt_attr(rng, fs["names"])
            vattrs = gen_cattrs(rng, trait, fs["names"], p_fmt=(1, 2), bare_bias=bare_bias, allow_rename=not debug or rng.chance(1, 10))
            if debug:
                vattrs = [a for a in vattrs if a[0] == "fmt" or rng.chance(1, 10)]
            vs_src.append(f"{attrs_src(vattrs, attr_name)}{vn}{fields_src(fs, attr_name)}")
            vs_sexp.append(f"(v {H(vn)} (attrs {' '.join(a[2] for a in vattrs)}) {fields_sexp(fs)})")
            vcase = [a[2].split()[1].rstrip(")") for a in vattrs if a[0] == "rename"]
            for cs in set(vcase + ccase):
                convs.append((cs, vn[2:] if vn.startswith("r#") else vn))
        src = f"{attrs_src(cattrs, attr_name)}enum {name}{generics}{where_src} {{ " + ", ".join(vs_src) + " }"
        sexp = f"(enum {H(name)} {where_sexp} (attrs {' '.join(a[2] for a in cattrs)}) (variants {' '.join(vs_sexp)}))"
    return {"src": src, "sexp": sexp, "convs": sorted(set(convs)), "tps": tps, "kind": kind, "name": name}


def split_expansion(ans, name):
    """`ok <tokens>` of the real expansion -> (body, where) whitespace-free; None if not ok."""
    if not ans.startswith("ok "):
        return None
    s = strip_ws(ans[3:])
    marker = "fnfmt(&self,__derive_more_f:&mutderive_more::core::fmt::Formatter<'_>)->derive_more::core::fmt::Result{"
    i = s.find(marker)
    if i < 0:
        return ("?", "?")
    header = s[:i]
    body = s[i + len(marker):]
    if body.endswith("}}"):
        body = body[:-2]
    header = header[:header.rfind("{")]
    j = header.find("where", header.find("for" + name))
    wh = header[j:] if j >= 0 else "nowhere"
    if wh.endswith(","):
        wh = wh[:-1]
    if wh == "where":
        wh = "nowhere"
    return (body, wh)


def norm_model(ans):
    if not ans.startswith("ok body="):
        return None if ans == "err" else ("bad", ans)
    rest = ans[len("ok body="):]
    k = rest.rfind(" where=")
    body, wh = rest[:k], rest[k + 7:]
    if wh.endswith(","):
        wh = wh[:-1]
    if wh == "where":
        wh = "nowhere"
    return (body, wh)

"""Generator of the supported-shape space for C01: every derive on structs / enums with every kind of
generic parameter list, raw identifiers, deprecated and uninhabited members. Each item is built so that
the documented trait requirements of the derive are met; the compiler (with `#![deny(warnings)]`) is the judge."""

PRELUDE = r'''#![deny(warnings)]
#![allow(dead_code)] // the corpus never calls what it defines
use core::marker::PhantomData;
/// helper field types carrying a lifetime / a const parameter and implementing every trait the derives forward to
#[derive(Clone, Copy, Debug, Default, PartialEq)] pub struct L<'a>(pub i32, pub PhantomData<&'a ()>);
#[derive(Clone, Copy, Debug, Default, PartialEq)] pub struct K<const N: usize>(pub i32);
#[derive(Clone, Copy, Debug, Default, PartialEq)] pub struct P(pub i32);
#[derive(Debug)] pub struct Src;
impl core::fmt::Display for Src { fn fmt(&self, f: &mut core::fmt::Formatter<'_>) -> core::fmt::Result { f.write_str("src") } }
impl std::error::Error for Src {}
#[derive(Debug, Clone, Copy)] pub enum Never {}
@HELPERS@
'''

def _helpers():
    out = []
    bins = ["Add add", "Sub sub", "BitAnd bitand", "BitOr bitor", "BitXor bitxor", "Mul mul", "Div div", "Rem rem", "Shl shl", "Shr shr"]
    for g, t, mk in (("'a", "L<'a>", "|x| L(x, PhantomData)"), ("const N: usize", "K<N>", "K"), ("", "P", "P")):
        for b in bins:
            tr, m = b.split()
            out.append(f"impl<{g}> core::ops::{tr} for {t} {{ type Output = Self; fn {m}(self, r: Self) -> Self {{ ({mk})(core::ops::{tr}::{m}(self.0, r.0)) }} }}")
            out.append(f"impl<{g}> core::ops::{tr}<i32> for {t} {{ type Output = Self; fn {m}(self, r: i32) -> Self {{ ({mk})(core::ops::{tr}::{m}(self.0, r)) }} }}")
            out.append(f"impl<{g}> core::ops::{tr}Assign for {t} {{ fn {m}_assign(&mut self, r: Self) {{ core::ops::{tr}Assign::{m}_assign(&mut self.0, r.0) }} }}")
            out.append(f"impl<{g}> core::ops::{tr}Assign<i32> for {t} {{ fn {m}_assign(&mut self, r: i32) {{ core::ops::{tr}Assign::{m}_assign(&mut self.0, r) }} }}")
        for tr in ("Display", "Binary", "Octal", "LowerHex", "UpperHex", "LowerExp", "UpperExp"):
            out.append(f"impl<{g}> core::fmt::{tr} for {t} {{ fn fmt(&self, f: &mut core::fmt::Formatter<'_>) -> core::fmt::Result {{ core::fmt::{tr}::fmt(&self.0, f) }} }}")
        out.append(f"impl<{g}> core::fmt::Pointer for {t} {{ fn fmt(&self, f: &mut core::fmt::Formatter<'_>) -> core::fmt::Result {{ core::fmt::Pointer::fmt(&(&self.0 as *const i32), f) }} }}")
        out.append(f"impl<{g}> core::ops::Not for {t} {{ type Output = Self; fn not(self) -> Self {{ ({mk})(!self.0) }} }}")
        out.append(f"impl<{g}> core::ops::Neg for {t} {{ type Output = Self; fn neg(self) -> Self {{ ({mk})(-self.0) }} }}")
        out.append(f"impl<{g}> core::iter::Sum for {t} {{ fn sum<I: Iterator<Item = Self>>(i: I) -> Self {{ ({mk})(i.map(|x| x.0).sum()) }} }}")
        out.append(f"impl<{g}> core::iter::Product for {t} {{ fn product<I: Iterator<Item = Self>>(i: I) -> Self {{ ({mk})(i.map(|x| x.0).product()) }} }}")
        out.append(f"impl<{g}> core::str::FromStr for {t} {{ type Err = core::num::ParseIntError; fn from_str(s: &str) -> Result<Self, Self::Err> {{ s.parse().map({mk}) }} }}")
    return "\n".join(out)


PRELUDE = PRELUDE.replace("@HELPERS@", _helpers())

# (id, generic parameter declaration, where clause, field types consuming every parameter)
HEADERS = [
    ("none", "", "", ["P"]),
    ("ty", "<T>", "", ["T"]),
    ("lt_ty", "<'a, T>", "", ["T", "L<'a>"]),
    ("ty_const", "<T, const N: usize>", "", ["T", "K<N>"]),
    ("const_ty", "<const N: usize, T>", "", ["K<N>", "T"]),
    ("many", "<'a, 'b: 'a, T: Clone + 'a, U, const N: usize, const M: usize>", "", ["T", "U", "L<'a>", "L<'b>", "K<N>", "K<M>"]),
    ("default", "<T = i32>", "", ["T"]),
    ("where", "<T, U>", "where T: Clone, U: Copy", ["T", "U"]),
    ("const_default", "<T: Clone, const N: usize = 2>", "", ["T", "K<N>"]),
    ("lt_only", "<'a>", "", ["L<'a>"]),
    ("const_only", "<const N: usize>", "", ["K<N>"]),
    ("where_lt_const", "<'a, T, const N: usize>", "where T: 'a, K<N>: Copy", ["T", "L<'a>", "K<N>"]),
]

BIN = ["Add", "Sub", "BitAnd", "BitOr", "BitXor"]
BIN_ASSIGN = ["AddAssign", "SubAssign", "BitAndAssign", "BitOrAssign", "BitXorAssign"]
MUL = ["Mul", "Div", "Rem", "Shr", "Shl"]
MUL_ASSIGN = ["MulAssign", "DivAssign", "RemAssign", "ShrAssign", "ShlAssign"]
FMT = {"Display": ("display", ""), "Binary": ("binary", ":b"), "Octal": ("octal", ":o"), "LowerHex": ("lower_hex", ":x"), "UpperHex": ("upper_hex", ":X"),
       "LowerExp": ("lower_exp", ":e"), "UpperExp": ("upper_exp", ":E"), "Pointer": ("pointer", ":p")}
SNAKE = {"MulAssign": "mul_assign", "DivAssign": "div_assign", "RemAssign": "rem_assign", "ShrAssign": "shr_assign", "ShlAssign": "shl_assign",
         "Mul": "mul", "Div": "div", "Rem": "rem", "Shr": "shr", "Shl": "shl"}


def D(*names):
    return "#[derive(" + ", ".join("derive_more::" + n for n in names) + ")]"


def impl_parts(decl):
    """`<'a, T: Clone = u8, const N: usize = 2>` -> (`<'a, T: Clone, const N: usize>`, `<'a, T, N>`)"""
    if not decl:
        return "", ""
    params, cur, depth = [], "", 0
    for ch in decl.strip()[1:-1]:
        if ch in "<([":
            depth += 1
        elif ch in ">)]":
            depth -= 1
        if ch == "," and depth == 0:
            params.append(cur.strip()); cur = ""
        else:
            cur += ch
    if cur.strip():
        params.append(cur.strip())
    gens, args = [], []
    for p in params:
        nodef = p.split("=")[0].strip() if not p.startswith("'") else p
        gens.append(nodef)
        if p.startswith("'"):
            args.append(p.split(":")[0].strip())
        elif p.startswith("const"):
            args.append(p.split()[1].rstrip(":"))
        else:
            args.append(p.split(":")[0].split("=")[0].strip())
    return "<" + ", ".join(gens) + ">", "<" + ", ".join(args) + ">"


def tuple_struct(decl, where, fields, attrs=None, dep=None):
    attrs = attrs or [""] * len(fields)
    fs = ", ".join(("#[deprecated] " if dep == i else "") + f"{a}pub {t}" for i, (a, t) in enumerate(zip(attrs, fields)))
    return f"pub struct S{decl}({fs}) {where};"


def named_struct(decl, where, fields, attrs=None, dep=None, raw=True):
    attrs = attrs or [""] * len(fields)
    names = field_names(len(fields), raw)
    fs = ", ".join(("#[deprecated] " if dep == i else "") + f"{a}pub {n}: {t}" for i, (a, n, t) in enumerate(zip(attrs, names, fields)))
    return f"pub struct S{decl} {where} {{ {fs} }}"


def field_names(n, raw=True):
    return [("r#type" if raw and i == 0 else f"f{i}") for i in range(n)]


def enum_item(decl, where, fields, unit=True, dep=False, named=True, vattr=""):
    tup = ", ".join(fields)
    names = field_names(len(fields))
    nam = ", ".join(f"{n}: {t}" for n, t in zip(names, fields))
    vs = [f"{vattr}Alpha({tup})"]
    if named:
        vs.append(f"{vattr}BetaGamma {{ {nam} }}")
    else:
        vs.append(f"{vattr}BetaGamma({tup})")
    if unit:
        vs.append(("#[deprecated] " if dep else "") + "Unit")
    elif dep:
        vs[1] = "#[deprecated] " + vs[1]
    return f"pub enum E{decl} {where} {{ {', '.join(vs)} }}"


def items_for(header, kinds=("plain", "deprecated", "never")):
    """Yields (case name, derive list, source). One item per derive family and shape."""
    hid, decl, where, fields = header
    k = len(fields)
    for kind in kinds:
        dep = 0 if kind == "deprecated" else None
        depb = kind == "deprecated"
        fl = list(fields) + (["Never"] if kind == "never" else [])
        allow = "#[allow(deprecated)] " if depb else ""   # the *definition* of a deprecated member is not a use; nothing needed, kept empty
        allow = ""
        # --- operators on structs
        if kind != "never":
            for d in BIN + BIN_ASSIGN + ["Not", "Neg"]:
                yield f"{hid}/{kind}/{d}/tuple", D(d) + " " + tuple_struct(decl, where, fields, dep=dep)
                yield f"{hid}/{kind}/{d}/named", D(d) + " " + named_struct(decl, where, fields, dep=dep)
            for d in BIN + ["Not", "Neg"]:
                yield f"{hid}/{kind}/{d}/enum", D(d) + " " + enum_item(decl, where, fields, unit=d in BIN, dep=depb)
            for d in MUL + MUL_ASSIGN:
                yield f"{hid}/{kind}/{d}/tuple", D(d) + " " + tuple_struct(decl, where, fields, dep=dep)
                yield f"{hid}/{kind}/{d}/named", D(d) + " " + named_struct(decl, where, fields, dep=dep)
                yield f"{hid}/{kind}/{d}/forward", D(d) + f" #[{SNAKE[d]}(forward)] " + tuple_struct(decl, where, fields, dep=dep)
            yield f"{hid}/{kind}/Sum/tuple", D("Add", "Sum") + " " + tuple_struct(decl, where, fields, dep=dep)
            if kind == "plain":
                # Sum / Product alone (the operator impl written by hand): the expansion may only need what `sum` provides
                ig, ia = impl_parts(decl)
                for d, op, m in (("Sum", "Add", "add"), ("Product", "Mul", "mul")):
                    yield f"{hid}/{kind}/{d}/alone", (D(d) + " " + tuple_struct(decl, where, fields) +
                                                     f" impl{ig} core::ops::{op} for S{ia} {where} {{ type Output = Self; fn {m}(self, _r: Self) -> Self {{ self }} }}")
            yield f"{hid}/{kind}/Product/named", D("Mul", "Product") + " #[mul(forward)] " + named_struct(decl, where, fields, dep=dep)
        # a lone bare type parameter as the target of `impl From<S<T>> for T` violates Rust's orphan rule (E0210),
        # and `#[from(forward)]` on it overlaps with the reflexive `impl From<T> for T` (E0119): not derive_more's doing
        lone = len(fl) == 1 and fl[0] in ("T", "U")
        fl_conv = [f"Vec<{fl[0]}>"] if lone else fl
        # --- conversions
        yield f"{hid}/{kind}/Constructor/tuple", D("Constructor") + " " + tuple_struct(decl, where, fl, dep=dep)
        yield f"{hid}/{kind}/Constructor/named", D("Constructor") + " " + named_struct(decl, where, fl, dep=dep)
        yield f"{hid}/{kind}/From/tuple", D("From") + " " + tuple_struct(decl, where, fl, dep=dep)
        yield f"{hid}/{kind}/From/named", D("From") + " " + named_struct(decl, where, fl, dep=dep)
        yield f"{hid}/{kind}/From/enum", D("From") + " " + enum_item(decl, where, fl, unit=True, dep=depb, named=True).replace("BetaGamma {", "#[from(skip)] BetaGamma {")
        if k == 1 and kind != "never" and not lone:
            yield f"{hid}/{kind}/From/forward", D("From") + " #[from(forward)] " + tuple_struct(decl, where, fields, dep=dep)
        yield f"{hid}/{kind}/Into/tuple", D("Into") + " #[into(owned, ref, ref_mut)] " + tuple_struct(decl, where, fl_conv, dep=dep)
        yield f"{hid}/{kind}/Into/named", D("Into") + " " + named_struct(decl, where, fl_conv, dep=dep)
        yield f"{hid}/{kind}/Into/skip", D("Into") + " #[into(ref)] " + named_struct(decl, where, fl_conv + ["u8"], attrs=[""] * len(fl_conv) + ["#[into(skip)] "], dep=dep)
        # --- enum accessors
        yield f"{hid}/{kind}/IsVariant/enum", D("IsVariant") + " " + enum_item(decl, where, fl, dep=depb)
        yield f"{hid}/{kind}/Unwrap/enum", D("Unwrap") + " #[unwrap(owned, ref, ref_mut)] " + enum_item(decl, where, fl, dep=depb, named=False)
        yield f"{hid}/{kind}/TryUnwrap/enum", D("TryUnwrap") + " #[try_unwrap(owned, ref, ref_mut)] " + enum_item(decl, where, fl, dep=depb, named=False)
        yield f"{hid}/{kind}/TryInto/enum", D("TryInto") + " #[try_into(owned, ref, ref_mut)] " + enum_item(decl, where, fl_conv, dep=depb, unit=False).replace("BetaGamma {", "#[try_into(ignore)] BetaGamma {")
        # --- formatting
        yield f"{hid}/{kind}/Debug/tuple", D("Debug") + " " + tuple_struct(decl, where, fl, dep=dep)
        yield f"{hid}/{kind}/Debug/named", D("Debug") + " " + named_struct(decl, where, fl, dep=dep)
        yield f"{hid}/{kind}/Debug/enum", D("Debug") + " " + enum_item(decl, where, fl, dep=depb)
        yield f"{hid}/{kind}/Debug/fmt", D("Debug") + ' #[debug("{_0:?}")] ' + tuple_struct(decl, where, fl, dep=dep)
        if kind != "never":
            for d, (a, spec) in FMT.items():
                yield f"{hid}/{kind}/{d}/tuple", D(d) + f' #[{a}("{{_0{spec}}}")] ' + tuple_struct(decl, where, fields, dep=dep)
                nm = "r#type"
                yield f"{hid}/{kind}/{d}/named", D(d) + f' #[{a}("{{}}/{{f}}", {nm}, f = self.{nm})] '.replace("{}/{f}", "{" + spec + "}/{f" + spec + "}") + named_struct(decl, where, fields, dep=dep)
                yield f"{hid}/{kind}/{d}/enum", D(d) + " " + enum_item(decl, where, fields, dep=depb).replace("Alpha(", f'#[{a}("{{_0{spec}}}")] Alpha(').replace("BetaGamma {", f'#[{a}("b")] BetaGamma {{').replace("Unit", f'#[{a}("u")] Unit')
            # `.*` takes the precision from the argument before the value: the bound must land on the value's type
            yield f"{hid}/{kind}/Display/precision-star", D("Display") + f' #[display("{{:.*}}", _{k}, _0)] ' + tuple_struct(decl, where, fields + ["usize"], dep=dep)
            yield f"{hid}/{kind}/LowerExp/width-arg", D("LowerExp") + f' #[lower_exp("{{0:1$e}}", _0, _{k})] ' + tuple_struct(decl, where, fields + ["usize"], dep=dep)
            if k == 1:
                yield f"{hid}/{kind}/Display/transparent", D("Display") + " " + tuple_struct(decl, where, fields, dep=dep)
        # --- delegating derives on the first field
        if kind != "never":
            a = ["#[deref] #[deref_mut] "] + [""] * (k - 1)
            yield f"{hid}/{kind}/Deref/named", D("Deref", "DerefMut") + " " + named_struct(decl, where, fields, attrs=a if k > 1 else None, dep=dep)
            a = ["#[deref(forward)] #[deref_mut(forward)] "] + [""] * (k - 1)
            yield f"{hid}/{kind}/Deref/forward", D("Deref", "DerefMut") + " " + tuple_struct(decl, where, [f"Box<{fields[0]}>"] + fields[1:], attrs=a, dep=dep)
            a = ["#[index] #[index_mut] "] + [""] * (k - 1)
            yield f"{hid}/{kind}/Index/named", D("Index", "IndexMut") + " " + named_struct(decl, where, [f"Vec<{fields[0]}>"] + fields[1:], attrs=a if k > 1 else None, dep=dep)
            a = ["#[into_iterator(owned, ref, ref_mut)] "] + [""] * (k - 1)
            yield f"{hid}/{kind}/IntoIterator/tuple", D("IntoIterator") + " " + tuple_struct(decl, where, [f"Vec<{fields[0]}>"] + fields[1:], attrs=a, dep=dep)
            a = ["#[as_ref] #[as_mut] "] + [""] * (k - 1)
            yield f"{hid}/{kind}/AsRef/field", D("AsRef", "AsMut") + " " + named_struct(decl, where, fields, attrs=a, dep=dep)
            if k == 1:
                yield f"{hid}/{kind}/AsRef/forward", D("AsRef", "AsMut") + " #[as_ref(forward)] #[as_mut(forward)] " + tuple_struct(decl, where, [f"Vec<{fields[0]}>"], dep=dep)
                yield f"{hid}/{kind}/AsRef/types", D("AsRef", "AsMut") + f" #[as_ref([{fields[0]}], Vec<{fields[0]}>)] #[as_mut([{fields[0]}])] " + tuple_struct(decl, where, [f"Vec<{fields[0]}>"], dep=dep)
                yield f"{hid}/{kind}/FromStr/tuple", D("FromStr") + " " + tuple_struct(decl, where, fields, dep=dep)
                yield f"{hid}/{kind}/FromStr/named", D("FromStr") + " " + named_struct(decl, where, fields, dep=dep)
        # --- error
        src_fields = ["Src"] + fl
        names = ["source"] + field_names(len(fl))
        body = ", ".join(("#[deprecated] " if dep == 0 and i == 1 else "") + f"pub {n}: {t}" for i, (n, t) in enumerate(zip(names, src_fields)))
        yield f"{hid}/{kind}/Error/named", D("Debug", "Display", "Error") + ' #[display("e")] ' + f"pub struct S{decl} {where} {{ {body} }}"
        yield f"{hid}/{kind}/Error/enum", D("Debug", "Display", "Error") + " " + enum_item(decl, where, fl, dep=depb).replace("Alpha(", '#[display("a")] Alpha(#[error(source)] Src, ').replace(
            "BetaGamma {", '#[display("b")] BetaGamma { source: Src, ').replace("Unit", '#[display("u")] Unit')
        # --- ignored members (the generated `match` / impl set must stay complete)
        tup = ", ".join(fl)
        yield f"{hid}/{kind}/Error/enum-ignored-variant", D("Debug", "Display", "Error") + f' pub enum E{decl} {where} {{ #[display("a")] Alpha {{ source: Src }}, #[display("o")] #[error(ignore)] Other({tup}), #[display("p")] #[error(ignore)] Plain }}'
        yield f"{hid}/{kind}/Error/enum-ignored-field", D("Debug", "Display", "Error") + f' pub enum E{decl} {where} {{ #[display("a")] Alpha(#[error(ignore)] u8, #[error(source)] Src), #[display("o")] Other(#[error(ignore)] Src, {tup}) }}'
        yield f"{hid}/{kind}/Error/struct-ignored-field", D("Debug", "Display", "Error") + f' #[display("s")] pub struct S{decl}(#[error(ignore)] pub Src, {", ".join("pub " + t for t in fl)}) {where};'
        yield f"{hid}/{kind}/IsVariant/ignored", D("IsVariant") + f" pub enum E{decl} {where} {{ Alpha({tup}), #[is_variant(ignore)] BetaGamma({tup}), Unit }}"
        yield f"{hid}/{kind}/Unwrap/ignored", D("Unwrap", "TryUnwrap") + f" #[unwrap(ref)] #[try_unwrap(ref_mut)] pub enum E{decl} {where} {{ Alpha({tup}), #[unwrap(ignore)] #[try_unwrap(ignore)] BetaGamma({tup}), Unit }}"
        yield f"{hid}/{kind}/Debug/skip", D("Debug") + f" pub struct S{decl}(#[debug(skip)] pub u8, {', '.join('pub ' + t for t in fl)}) {where};"
        yield f"{hid}/{kind}/Debug/enum-skip", D("Debug") + f" pub enum E{decl} {where} {{ Alpha(#[debug(skip)] u8, {tup}), BetaGamma {{ #[debug(ignore)] x: u8, y: ({tup},) }} }}"
        if kind != "never":
            yield f"{hid}/{kind}/AsRef/skip", D("AsRef", "AsMut") + f" pub struct S{decl} {where} {{ #[as_ref(skip)] #[as_mut(skip)] pub skipped: u8, pub f: ({', '.join(fields)},) }}"
            yield f"{hid}/{kind}/From/enum-explicit", D("From") + f" pub enum E{decl} {where} {{ #[from] Alpha({', '.join(fields)}), BetaGamma({', '.join(fields)}), #[from(ignore)] Unit }}"
    # --- field-less enums: only lifetime-free, type-free headers can be declared without using their parameters
    if hid in ("none", "const_only"):
        for kind in kinds:
            if kind == "never":
                continue
            dep = "#[deprecated] " if kind == "deprecated" else ""
            yield f"{hid}/{kind}/FromStr/unit-enum", D("FromStr") + f" pub enum E{decl} {{ Alpha, {dep}BetaGamma, r#fn }}"
            yield f"{hid}/{kind}/TryFrom/repr", D("TryFrom") + f" #[try_from(repr)] #[repr(u8)] pub enum E{decl} {{ Alpha = 1, {dep}BetaGamma = 5, Last }}"
            yield f"{hid}/{kind}/Display/unit-enum", D("Display") + f" pub enum E{decl} {{ Alpha, {dep}BetaGamma }}"
            yield f"{hid}/{kind}/IsVariant/unit-enum", D("IsVariant") + f" pub enum E{decl} {{ Alpha, {dep}BetaGamma }}"


# Items whose generic parameters occur in unusual syntactic positions (the header grid above uses every parameter as a
# plain generic argument): a const parameter only inside an expression (array length, braced argument), a lifetime only
# inside a reference / trait object, a type parameter only inside a tuple / array / fn pointer.
POSITION_ITEMS = [
    ("pos/plain/AsRef/const-array-len-field", 'AsRef, derive_more::AsMut', "pub struct S<const N: usize>(#[as_ref(P)] #[as_mut(P)] pub [P; N]);"),
    ("pos/plain/AsRef/const-array-len-struct", 'AsRef, derive_more::AsMut', "#[as_ref(P)] #[as_mut(P)] pub struct S<const N: usize>(pub [P; N]);"),
    ("pos/plain/AsRef/const-braced-arg", 'AsRef, derive_more::AsMut', "#[as_ref(P)] #[as_mut(P)] pub struct S<const N: usize>(pub K<{ N }>);"),
    ("pos/plain/AsRef/const-listed-type", 'AsRef', "#[as_ref([P; N])] pub struct S<const N: usize>(pub Vec<P>);"),
    ("pos/plain/AsRef/const-and-lifetime", 'AsRef', "#[as_ref(P)] pub struct S<'a, const N: usize>(pub &'a [P; N]);"),
    ("pos/plain/AsRef/type-in-tuple", 'AsRef, derive_more::AsMut', "#[as_ref(P)] #[as_mut(P)] pub struct S<T>(pub (T, P));"),
    ("pos/plain/AsRef/type-in-array", 'AsRef, derive_more::AsMut', "#[as_ref([P])] #[as_mut([P])] pub struct S<T>(pub [T; 2]);"),
    ("pos/plain/AsRef/type-in-fn-pointer", 'AsRef', "#[as_ref(P)] pub struct S<T>(pub fn(T) -> P);"),
    ("pos/plain/AsRef/lifetime-in-dyn", 'AsRef', "#[as_ref(P)] pub struct S<'a>(pub Box<dyn Fn() -> P + 'a>);"),
    ("pos/plain/From/const-array-len", 'From', "#[from(forward)] pub struct S<const N: usize>(pub [P; N]);"),
    ("pos/plain/Into/const-array-len", 'Into', "#[into(ref)] pub struct S<const N: usize>(pub [P; N], pub K<N>);"),
    ("pos/plain/Deref/const-array-len", 'Deref, derive_more::DerefMut', "#[deref(forward)] #[deref_mut(forward)] pub struct S<const N: usize>(pub Box<[P; N]>);"),
    ("pos/plain/Index/const-array-len", 'Index, derive_more::IndexMut', "pub struct S<const N: usize>(pub [P; N]);"),
    ("pos/plain/IntoIterator/const-array-len", 'IntoIterator', "#[into_iterator(owned, ref, ref_mut)] pub struct S<const N: usize>(pub [P; N]);"),
    ("pos/plain/Display/const-array-len", 'Debug', "pub struct S<T, const N: usize>(pub [T; N]);"),
    ("pos/plain/Constructor/const-array-len", 'Constructor', "pub struct S<const N: usize> { pub a: [P; N], pub b: K<{ N }> }"),
]


def all_items(kinds=("plain", "deprecated", "never"), headers=None):
    out = []
    for h in HEADERS:
        if headers and h[0] not in headers:
            continue
        out += list(items_for(h, kinds))
    if "plain" in kinds and not headers:
        out += [(name, f"#[derive(derive_more::{d})] {src}") for name, d, src in POSITION_ITEMS]
    return out

"""C08 — From, Into and Constructor preserve field order and invert each other."""
import re

from . import common as C
from . import fmtgen as G

TYS = ["u8", "i16", "u32", "i64", "String", "bool", "char", "Vec<u8>"]
SRC_TYS = ["u8", "i8", "&'static str", "(u8, i8)", "()", "(u8,)", "[u8; 2]", "core::primitive::char"]


def ty_sexp(t):
    t = t.strip()
    toks = G.strip_ws(t)
    if t.startswith("(") and t.endswith(")"):
        inner = t[1:-1].strip()
        if inner == "":
            return f"(ty {C.hexs(toks)} (el))"
        # split at top-level commas
        parts, depth, cur = [], 0, ""
        for ch in inner:
            if ch in "<([":
                depth += 1
            if ch in ">)]":
                depth -= 1
            if ch == "," and depth == 0:
                parts.append(cur); cur = ""
            else:
                cur += ch
        if cur.strip():
            parts.append(cur)
        if len(parts) == 1 and not inner.rstrip().endswith(","):
            # parenthesised type, not a tuple
            return f"(ty {C.hexs(toks)} -)"
        return f"(ty {C.hexs(toks)} (el " + " ".join(C.hexs(G.strip_ws(p)) for p in parts) + "))"
    return f"(ty {C.hexs(toks)} -)"


def gen_fields(rng, kind, kmax=4):
    if kind == "unit":
        return []
    k = rng.below(kmax + 1)
    tys = rng.sample(TYS, k)
    names = rng.sample(["a", "b", "r#type", "x1", "value"], k) if kind == "named" else [None] * k
    return list(zip(names, tys))


def fields_src(kind, fs, attrs=None):
    attrs = attrs or [""] * len(fs)
    if kind == "unit":
        return ""
    if kind == "tuple":
        return "(" + ", ".join(a + t for a, (_, t) in zip(attrs, fs)) + ")"
    return " { " + ", ".join(a + f"{n}: {t}" for a, (n, t) in zip(attrs, fs)) + " }"


def fsexp(fs):
    return " ".join(f"(f {C.hexs(n) if n else '-'} {C.hexs(G.strip_ws(t))})" for n, t in fs)


def gen_from_attr(rng, fs, variant=True):
    r = rng.below(8)
    if r in (2, 3) and not variant:
        r = 0          # `#[from]` and skip / ignore are variant-level options only
    k = len(fs)
    if r <= 1:
        return "", "n"
    if r == 2:
        return "#[from] ", "e"
    if r == 3:
        return f"#[from({rng.choice(['skip', 'ignore'])})] ", "s"
    if r == 4:
        return "#[from(forward)] ", "fw"
    ntys = 1 + rng.below(2)
    tys = []
    for _ in range(ntys):
        if k > 1 and rng.chance(5, 6):
            arity = k if rng.chance(5, 6) else rng.choice([k - 1, k + 1])
            tys.append("(" + ", ".join(rng.choice(["u8", "i8", "&'static str"]) for _ in range(arity)) + ("," if arity == 1 else "") + ")")
        else:
            tys.append(rng.choice(SRC_TYS))
    return "#[from(" + ", ".join(tys) + ")] ", "(t " + " ".join(ty_sexp(t) for t in tys) + ")"


def gen_from_case(rng):
    if rng.chance(1, 2):
        kind = rng.choice(["tuple", "named", "unit", "tuple", "named"])
        fs = gen_fields(rng, kind)
        a_src, a_sx = gen_from_attr(rng, fs, variant=False)
        name = rng.choice(["S", "r#type"])
        src = f"{a_src}struct {name}{fields_src(kind, fs)}" + ("" if kind == "named" else ";")
        return src, f"cv (from struct {C.hexs(name)} {kind} {a_sx} {fsexp(fs)})", name
    nv = 1 + rng.below(4)
    vs_src, vs_sx = [], []
    for i in range(nv):
        kind = rng.choice(["tuple", "named", "unit"])
        fs = gen_fields(rng, kind, 3)
        a_src, a_sx = gen_from_attr(rng, fs) if rng.chance(1, 2) else ("", "n")
        vn = f"V{i}" if i else rng.choice(["V0", "r#fn"])
        vs_src.append(f"{a_src}{vn}{fields_src(kind, fs)}")
        vs_sx.append(f"(v {C.hexs(vn)} {kind} {a_sx} {fsexp(fs)})")
    return "enum E { " + ", ".join(vs_src) + " }", f"cv (from enum {C.hexs('E')} {' '.join(vs_sx)})", "E"


def gen_convs(rng, k):
    """One `#[into(...)]` attribute body in the new syntax + its sexp."""
    def tys(n):
        out = []
        for _ in range(n):
            if k > 1:
                arity = k if rng.chance(5, 6) else k + 1
                out.append("(" + ", ".join(rng.choice(["u64", "i64", "String"]) for _ in range(arity)) + ")")
            else:
                out.append(rng.choice(["u64", "i64", "String", "(u8, u8)", "()"]))
        return out
    r = rng.below(7)
    if r == 6:
        # the same reference kind twice in one attribute: a typed list and the bare keyword, in either order (seed C08-k)
        key, word = rng.choice([("o", "owned"), ("r", "ref"), ("m", "ref_mut")])
        t = tys(1 + rng.below(2))
        typed = f"{word}(" + ", ".join(t) + ")"
        parts = [typed, word] if rng.chance(1, 2) else [word, typed]
        sx = {"o": (0, []), "r": (0, []), "m": (0, [])}
        sx[key] = (1, t)
        if rng.chance(1, 3):
            k2, w2 = rng.choice([x for x in (("o", "owned"), ("r", "ref"), ("m", "ref_mut")) if x[0] != key])
            parts.insert(rng.below(len(parts) + 1), w2); sx[k2] = (1, [])
        return "(" + ", ".join(parts) + ")", "(c " + " ".join(f"({k_} {c} " + " ".join(ty_sexp(x) for x in t_) + ")" for k_, (c, t_) in sx.items()) + ")"
    if r == 0:
        return "", "e"
    if r == 1:
        t = tys(1 + rng.below(2))
        return "(" + ", ".join(t) + ")", "(c (o 0 " + " ".join(ty_sexp(x) for x in t) + ") (r 0) (m 0))"
    parts, sx = [], {"o": (0, []), "r": (0, []), "m": (0, [])}
    for key, word in (("o", "owned"), ("r", "ref"), ("m", "ref_mut")):
        if rng.chance(1, 2):
            if rng.chance(1, 2):
                parts.append(word); sx[key] = (1, sx[key][1])
            else:
                t = tys(1 + rng.below(2))
                parts.append(f"{word}(" + ", ".join(t) + ")"); sx[key] = (sx[key][0], t)
    if not parts:
        parts, sx["o"] = ["owned"], (1, [])
    return "(" + ", ".join(parts) + ")", "(c " + " ".join(f"({k_} {c} " + " ".join(ty_sexp(x) for x in t) + ")" for k_, (c, t) in sx.items()) + ")"


def gen_into_case(rng):
    kind = rng.choice(["tuple", "named", "unit", "tuple", "named"])
    fs = gen_fields(rng, kind, 3)
    k = len(fs)
    sattrs_src, sattrs_sx = [], []
    for _ in range(rng.choice([0, 1, 1, 2])):
        a, sx = gen_convs(rng, k)
        sattrs_src.append(f"#[into{a}] "); sattrs_sx.append(sx)
    fattr_src, flds_sx = [], []
    for (n, t) in fs:
        r = rng.below(8)
        if r == 0:
            w = rng.choice(["skip", "ignore"])
            fattr_src.append(f"#[into({w})] "); fa = ["s"]
        elif r == 1:
            a, sx = gen_convs(rng, 1)
            fattr_src.append(f"#[into{a}] "); fa = [sx]
        elif r == 2:
            # a field that is skipped by the struct-level conversion and has a conversion of its own (either order)
            a, sx = gen_convs(rng, 1)
            w = rng.choice(["skip", "ignore"])
            if rng.chance(1, 2):
                fattr_src.append(f"#[into({w})] #[into{a}] "); fa = ["s", sx]
            else:
                fattr_src.append(f"#[into{a}] #[into({w})] "); fa = [sx, "s"]
        else:
            fattr_src.append(""); fa = []
        flds_sx.append(f"(fld (f {C.hexs(n) if n else '-'} {C.hexs(G.strip_ws(t))}) (attrs {' '.join(fa)}))")
    name = rng.choice(["S", "r#type"])
    src = "".join(sattrs_src) + f"struct {name}{fields_src(kind, fs, fattr_src)}" + ("" if kind == "named" else ";")
    return src, f"cv (into {C.hexs(name)} {kind} (attrs {' '.join(sattrs_sx)}) {' '.join(flds_sx)})", name


def gen_ctor_case(rng):
    kind = rng.choice(["tuple", "named", "unit"])
    fs = gen_fields(rng, kind)
    name = rng.choice(["S", "r#type"])
    src = f"struct {name}{fields_src(kind, fs)}" + ("" if kind == "named" else ";")
    return src, f"cv (ctor {C.hexs(name)} {kind} {fsexp(fs)})", name


def impl_list(ans, derive):
    if ans.startswith("err "):
        return "err"
    if ans.startswith("panic"):
        return "panic"
    s = G.strip_ws(ans[3:])
    if derive == "Constructor":
        m = re.search(r"pubconstfn(new\(.*?\)->.*)\}$", s)
        return "ok " + (m.group(1) if m else "?")
    out = []
    for block in s.split("#[automatically_derived]impl")[1:]:
        i = block.find("derive_more::core::convert::From<")
        rest = block[i + len("derive_more::core::convert::From<"):]
        j = rest.find("{")
        header = rest[:j]
        k = rest.find("->Self{")
        body = rest[k + len("->Self{"):]
        # strip the closing braces of fn and impl (and attributes of a following impl)
        body = re.sub(r"\}\}(#\[[^\]]*\])*$", "", body)
        out.append(header + "{" + body + "}")
    return "ok " + ";".join(out)


PRELUDE = r'''
#![allow(dead_code, unused_variables, non_camel_case_types, unused_imports, non_snake_case)]
pub static mut FAILS: u32 = 0;
pub static mut CHECKS: u64 = 0;
pub fn check(id: &str, what: &str, got: String, want: String) {
    unsafe { CHECKS += 1; }
    if got != want { unsafe { FAILS += 1; if FAILS < 300 { println!("FAIL|{}|{}|{}|{}", id, what, got, want); } } }
}
pub fn addr<T>(p: &T) -> usize { p as *const T as usize }
/// distinct tagged types
#[derive(Debug, Clone, PartialEq)] pub struct A(pub u8);
#[derive(Debug, Clone, PartialEq)] pub struct B(pub u8);
#[derive(Debug, Clone, PartialEq)] pub struct Cc(pub u8);
#[derive(Debug, Clone, PartialEq)] pub struct D(pub u8);
/// a source type convertible into each of them, recording that a conversion happened
#[derive(Debug, Clone, PartialEq)] pub struct Raw(pub u8);
impl From<Raw> for A { fn from(r: Raw) -> A { A(r.0 + 100) } }
impl From<Raw> for B { fn from(r: Raw) -> B { B(r.0 + 100) } }
impl From<Raw> for Cc { fn from(r: Raw) -> Cc { Cc(r.0 + 100) } }
impl From<Raw> for D { fn from(r: Raw) -> D { D(r.0 + 100) } }
#[derive(Debug, Clone, PartialEq)] pub struct Wide(pub u16);
impl From<A> for Wide { fn from(a: A) -> Wide { Wide(a.0 as u16 + 1000) } }
impl From<B> for Wide { fn from(a: B) -> Wide { Wide(a.0 as u16 + 2000) } }
impl From<Cc> for Wide { fn from(a: Cc) -> Wide { Wide(a.0 as u16 + 3000) } }
impl From<D> for Wide { fn from(a: D) -> Wide { Wide(a.0 as u16 + 4000) } }
impl From<Wide> for u32 { fn from(w: Wide) -> u32 { w.0 as u32 } }
macro_rules! has_impl { ($t:ty : $($tr:tt)+) => {{ trait No { const Y: bool = false; } impl<T: ?Sized> No for T {} struct W<T: ?Sized>(core::marker::PhantomData<T>); #[allow(dead_code)] impl<T: ?Sized + $($tr)+> W<T> { const Y: bool = true; } <W<$t>>::Y }} }
'''

FT = ["A", "B", "Cc", "D"]


def behaviour(res, rng, tier):
    cf = C.CaseFile(PRELUDE)
    descs = {}
    i = 0
    reps = 2 if tier == "quick" else 20
    for _ in range(reps):
        for named in (False, True):
            for k in range(1, 5):
                tys = FT[:k]
                names = ["a", "r#type", "c", "d"][:k]
                decl = (" { " + ", ".join(f"pub {n}: {t}" for n, t in zip(names, tys)) + " }") if named else ("(" + ", ".join(f"pub {t}" for t in tys) + ");")
                get = (lambda e, j: f"{e}.{names[j]}") if named else (lambda e, j: f"{e}.{j}")
                vals = [f"{t}({j + 1})" for j, t in enumerate(tys)]
                tup = vals[0] if k == 1 else "(" + ", ".join(vals) + ")"
                tty = tys[0] if k == 1 else "(" + ", ".join(tys) + ")"
                skip = rng.below(k) if k > 1 and rng.chance(1, 2) else None
                decl_skip = decl
                if skip is not None:
                    if named:
                        decl_skip = " { " + ", ".join(("#[into(skip)] " if j == skip else "") + f"pub {n}: {t}" for j, (n, t) in enumerate(zip(names, tys))) + " }"
                    else:
                        decl_skip = "(" + ", ".join(("#[into(skip)] " if j == skip else "") + f"pub {t}" for j, t in enumerate(tys)) + ");"
                keep = [j for j in range(k) if j != skip]
                ktys = [tys[j] for j in keep]
                ktt = ktys[0] if len(keep) == 1 else "(" + ", ".join(ktys) + ")"
                lines = [f"let s = S::from({tup});"]
                for j in range(k):
                    lines.append(f'check("{i}", "from.{j}", format!("{{:?}}", {get("s", j)}), format!("{{:?}}", {vals[j]}));')
                # constructor
                lines.append(f"let n = S::new({', '.join(vals)});")
                for j in range(k):
                    lines.append(f'check("{i}", "new.{j}", format!("{{:?}}", {get("n", j)}), format!("{{:?}}", {vals[j]}));')
                # typed / forward conversions: exactly one From::from per field
                raws = [f"Raw({j + 1})" for j in range(k)]
                rtup = raws[0] if k == 1 else "(" + ", ".join(raws) + ")"
                lines.append(f"let f = Fw::from({rtup}); let t = Ty::from({rtup});")
                for j in range(k):
                    lines.append(f'check("{i}", "forward.{j}", format!("{{:?}}", {get("f", j)}), format!("{{:?}}", {tys[j]}({j + 101})));')
                    lines.append(f'check("{i}", "typed.{j}", format!("{{:?}}", {get("t", j)}), format!("{{:?}}", {tys[j]}({j + 101})));')
                # into: owned, ref, ref_mut in declaration order, same objects for references
                want_owned = "(" + ", ".join(vals[j] for j in keep) + ("," if len(keep) == 1 else "") + ")"
                lines.append(f"let mut s2 = I::from_parts({', '.join(vals)});")
                if len(keep) == 1:
                    lines.append(f'{{ let r: &{ktys[0]} = (&s2).into(); check("{i}", "into.ref.addr", addr(r).to_string(), addr(&{get("s2", keep[0])}).to_string()); }}')
                    lines.append(f'{{ let a0 = addr(&{get("s2", keep[0])}); let r: &mut {ktys[0]} = (&mut s2).into(); check("{i}", "into.mut.addr", addr(r).to_string(), a0.to_string()); }}')
                    lines.append(f'{{ let o: {ktys[0]} = s2.clone().into(); check("{i}", "into.owned", format!("{{:?}}", o), format!("{{:?}}", {vals[keep[0]]})); }}')
                    lines.append(f'{{ let w: Wide = s2.clone().into(); check("{i}", "into.typed", format!("{{:?}}", w), format!("{{:?}}", Wide::from({vals[keep[0]]}))); }}')
                else:
                    pat = "(" + ", ".join(f"r{j}" for j in keep) + ")"
                    lines.append(f'{{ let {pat}: ({", ".join("&" + t for t in ktys)}) = (&s2).into(); ' + " ".join(f'check("{i}", "into.ref.addr{j}", addr(r{j}).to_string(), addr(&{get("s2", j)}).to_string());' for j in keep) + " }")
                    lines.append("{ " + " ".join(f'let a{j} = addr(&{get("s2", j)});' for j in keep) + f' let {pat}: ({", ".join("&mut " + t for t in ktys)}) = (&mut s2).into(); ' + " ".join(f'check("{i}", "into.mut.addr{j}", addr(r{j}).to_string(), a{j}.to_string());' for j in keep) + " }")
                    lines.append(f'{{ let o: {ktt} = s2.clone().into(); check("{i}", "into.owned", format!("{{:?}}", o), format!("{{:?}}", {want_owned})); }}')
                    wt = "(" + ", ".join("Wide" for _ in keep) + ")"
                    lines.append(f'{{ let w: {wt} = s2.clone().into(); check("{i}", "into.typed", format!("{{:?}}", w), format!("{{:?}}", ({", ".join("Wide::from(" + vals[j] + ")" for j in keep)},))); }}'.replace(",)))", "))))") if False else
                                 f'{{ let w: {wt} = s2.clone().into(); check("{i}", "into.typed", format!("{{:?}}", w), format!("{{:?}}", ({", ".join("Wide::from(" + vals[j] + ")" for j in keep)}))); }}')
                if skip is None:
                    lines.append(f'{{ let back: {tty} = S::from({tup}).into(); check("{i}", "roundtrip", format!("{{:?}}", S::from(back)), format!("{{:?}}", S::from({tup}))); }}')
                wide = "Wide" if len(keep) == 1 else "(" + ", ".join("Wide" for _ in keep) + ")"
                rawt = "Raw" if k == 1 else "(" + ", ".join("Raw" for _ in range(k)) + ")"
                ctor = (lambda nm: f"{nm} {{ " + ", ".join(f"{n}: p{j}" for j, n in enumerate(names)) + " }") if named else (lambda nm: f"{nm}(" + ", ".join(f"p{j}" for j in range(k)) + ")")
                params = ", ".join(f"p{j}: {t}" for j, t in enumerate(tys))
                src = (f"#[derive(derive_more::From, derive_more::Into, derive_more::Constructor, Debug, Clone, PartialEq)] pub struct S{decl}\n"
                       f"#[derive(derive_more::From, Debug)] #[from(forward)] pub struct Fw{decl}\n"
                       f"#[derive(derive_more::From, Debug)] #[from({rawt})] pub struct Ty{decl}\n"
                       f"#[derive(derive_more::Into, Debug, Clone)] #[into(owned, ref, ref_mut, owned({wide}))] pub struct I{decl_skip}\n"
                       f"impl I {{ pub fn from_parts({params}) -> I {{ {ctor('I')} }} }}\n"
                       f"pub fn run() {{ {' '.join(lines)} }}")
                cf.add(i, src, main_call=f"c{i}::run();")
                descs[str(i)] = f"struct S{decl} / I{decl_skip}"
                i += 1
    # the generated impl set of enums: presence / absence through trait resolution
    enum_src = ("#[derive(derive_more::From, Debug)] pub enum E1 { A(A), B { b: B }, U, Two(Cc, D) }\n"
                "#[derive(derive_more::From, Debug)] pub enum E2 { #[from] A(A), B(B), #[from(skip)] C(Cc), U }\n"
                "#[derive(derive_more::From, Debug)] pub enum E3 { #[from(Raw)] A(A), #[from(Wide, u8)] B(u32), C(Cc) }\n"
                "pub fn run() {\n"
                + "\n".join(f'check("{i}", "{e}: From<{t}> is {w}", has_impl!({e}: From<{t}>).to_string(), String::from("{w}"));' for e, t, w in [
                    ("E1", "A", "true"), ("E1", "B", "true"), ("E1", "()", "false"), ("E1", "(Cc, D)", "true"),
                    ("E2", "A", "true"), ("E2", "B", "false"), ("E2", "Cc", "false"), ("E2", "()", "false"),
                    ("E3", "Raw", "true"), ("E3", "A", "false"), ("E3", "Cc", "false"), ("E3", "u8", "true"), ("E3", "Wide", "true"), ("E3", "u32", "false")])
                + "\n}")
    cf.add(i, enum_src, main_call=f"c{i}::run();")
    descs[str(i)] = "enums E1/E2/E3 (impl set)"
    i += 1
    # repeated #[into(...)] attributes: the impl set is the union, whatever the order and split
    import itertools
    kinds = ["owned", "ref", "ref_mut"]
    lines, decls = [], []
    m = 0
    for r in (1, 2, 3):
        for sub in itertools.combinations(kinds, r):
            splits = [list(p) for p in itertools.permutations(sub)] + [[", ".join(sub)]]
            for attrs in splits:
                nm = f"M{m}"
                m += 1
                decls.append("#[derive(derive_more::Into)] " + " ".join(f"#[into({a})]" for a in attrs) + f" pub struct {nm}(pub A, pub B);")
                for kd, tgt, srcty in (("owned", "(A, B)", nm), ("ref", "(&'static A, &'static B)", f"&'static {nm}"), ("ref_mut", "(&'static mut A, &'static mut B)", f"&'static mut {nm}")):
                    want = "true" if kd in sub else "false"
                    lines.append(f'check("{i}", "{" ".join("#[into(" + a + ")]" for a in attrs)}: {kd} impl is {want}", has_impl!({tgt}: From<{srcty}>).to_string(), String::from("{want}"));')
    cf.add(i, "\n".join(decls) + "\npub fn run() {\n" + "\n".join(lines) + "\n}", main_call=f"c{i}::run();")
    descs[str(i)] = "struct M(A, B) with repeated #[into(owned|ref|ref_mut)] attributes"
    i += 1
    d = C.scratch_crate("c08-conv", cf.source('unsafe { println!("DONE checks={} fails={}", CHECKS, FAILS); }'))
    try:
        rc, out, err = C.scratch_run(d)
        if "DONE" not in out:
            rc2, diags, err2 = C.scratch_check(d)
            by, stray = cf.errors_by_case(diags)
            for cid, errs in list(by.items())[:10]:
                res.violation("compile:" + descs[str(cid)], f"{descs[str(cid)]} does not compile: {errs[0][:300]}",
                              {"cmd": "compile", "source": descs[str(cid)], "errors": errs[:3]})
            if not by:
                raise C.BuildError("C08 behaviour crate (real proc-macro) did not build/run", (err or out)[-3000:])
            return 0, i
        checks = int(out.split("DONE checks=")[1].split()[0])
        seen = set()
        for l in out.splitlines():
            if l.startswith("FAIL|"):
                _, cid, what, got, want = l.split("|", 4)
                if (cid, what) in seen:
                    continue
                seen.add((cid, what))
                res.violation("conv:" + descs[cid] + "|" + what, f"{descs[cid]}: {what} is {got}, the property requires {want}",
                              {"cmd": "behaviour", "source": descs[cid], "what": what, "got": got, "want": want})
        return checks, i
    finally:
        C.scratch_cleanup(d)


def split_entries(ans):
    """`ok A>forB{body};C>forD{body}` -> {header: body} (bodies contain `;` only inside braces)."""
    out, cur, depth = [], "", 0
    for ch in ans[3:]:
        if ch == "{":
            depth += 1
        elif ch == "}":
            depth -= 1
        if ch == ";" and depth == 0:
            out.append(cur); cur = ""
        else:
            cur += ch
    if cur:
        out.append(cur)
    res = {}
    for e in out:
        k = e.find("{")
        res[e[:k] if k >= 0 else e] = e[k:] if k >= 0 else ""
    return res


def model_guided_search(res, disagreements):
    """Where expansion and model disagree on the impl set of an item, the impls the model derives from the documented
    rules must exist with the real macro and no other conversion impl may: the differing header is probed."""
    cf = C.CaseFile(PRELUDE)
    descs = {}
    k = 0
    for dis in disagreements:
        d, src = dis["derive"], dis["source"]
        if d == "Constructor" or not dis["model_full"].startswith("ok") or not dis["impl_full"].startswith("ok") or "r#" in src or "__" in dis["model_full"]:
            continue
        m, i = split_entries(dis["model_full"]), split_entries(dis["impl_full"])
        lines = []
        for hdr in sorted(set(m) ^ set(i)):
            if ">for" not in hdr:
                continue
            a, b = hdr.split(">for", 1)
            fix = lambda t: t.replace("'__derive_more_intomut", "'static mut ").replace("'__derive_more_into", "'static ")
            want = "true" if hdr in m else "false"
            lines.append(f'check("{k}", "impl From<{a}> for {b} exists", has_impl!({fix(b)}: From<{fix(a)}>).to_string(), String::from("{want}"));')
        if not lines:
            continue
        cf.add(k, f"#[derive(derive_more::{d})] pub {src}\npub fn run() {{ {' '.join(lines)} }}", main_call=f"c{k}::run();")
        descs[str(k)] = f"#[derive({d})] {src}"
        k += 1
    if not k:
        return 0
    dcr = C.scratch_crate("c08-guided", cf.source('unsafe { println!("DONE checks={} fails={}", CHECKS, FAILS); }'))
    try:
        rc, out, err = C.scratch_run(dcr)
        if "DONE" not in out:
            rc2, diags, err2 = C.scratch_check(dcr)
            by, stray = cf.errors_by_case(diags)
            for cid, errs in list(by.items())[:6]:
                res.violation("guided-compile:" + descs[str(cid)], f"{descs[str(cid)]}: does not compile: {errs[0][:240]}",
                              {"cmd": "compile", "source": descs[str(cid)], "errors": errs[:3]})
            return k
        seen = set()
        for l in out.splitlines():
            if l.startswith("FAIL|"):
                _, cid, what, got, want = l.split("|", 4)
                if (cid, what) not in seen and len(seen) < 8:
                    seen.add((cid, what))
                    res.violation("impl-set:" + descs[cid] + "|" + what, f"{descs[cid]}: {what} is {got}, the documented rules give {want}",
                                  {"cmd": "behaviour", "source": descs[cid], "what": what, "got": got, "want": want})
        return k
    finally:
        C.scratch_cleanup(dcr)


def run(tier):
    res = C.Result("C08", tier)
    rng = C.Rng(C.seed())
    extra, cov, corr_bad = [], {}, []
    try:
        inproc = C.cargo_build_inproc()
        lean_ok, _ = C.lake_build(["Dm.Props.C08", "dmdriver"])
        n = 1500 if tier == "quick" else 30000
        cases = []
        for _ in range(n):
            cases.append(("From",) + gen_from_case(rng))
            cases.append(("Into",) + gen_into_case(rng))
        for _ in range(n // 5):
            cases.append(("Constructor",) + gen_ctor_case(rng))
        impl = C.drive(inproc, [f"expand {d} {C.hexs(src)}" for d, src, _, _ in cases])
        model = C.drive_lean([req for _, _, req, _ in cases]) if lean_ok else [None] * len(cases)
        n_ok = n_panic = 0
        for (d, src, req, name), ia, ma in zip(cases, impl, model):
            got = impl_list(ia, d)
            if got.startswith("ok"):
                n_ok += 1
            if got == "panic":
                n_panic += 1
                res.violation("panic:" + src, f"#[derive({d})] {src}: the expander panicked ({ia[:160]})",
                              {"cmd": f"expand {d}", "source": src, "answer": ia[:300]})
            if ma is not None and got != ma:
                corr_bad.append({"derive": d, "source": src, "impl": got[:500], "model": ma[:500], "impl_full": got, "model_full": ma})
        checks, ntypes = behaviour(res, rng, tier)
        if corr_bad and not res.violations:
            model_guided_search(res, sorted(corr_bad, key=lambda c: len(c["source"]))[:16])
        for c in corr_bad:
            c.pop("impl_full", None); c.pop("model_full", None)
        extra = [("correspondence: From / Into / Constructor impl sets and bodies == model (token text)", lean_ok and not corr_bad)]
        cov = {
            "evaluations": len(cases) + checks,
            "distinct_nontrivial": len({(c[0], c[1]) for c in cases}) + ntypes,
            "rule": "distinct (derive, item with attribute placement) pairs expanded in-process + type families run with the real macro (values, addresses, impl presence)",
            "traces_validated_against_impl": len(cases),
            "model_vs_impl_disagreements": len(corr_bad),
            "distribution": {"expansions": len(cases), "accepted": n_ok, "panics": n_panic, "behaviour_type_families": ntypes, "behaviour_checks": checks},
            "samples": [{"derive": c[0], "item": c[1]} for c in cases[:4]],
        }
    except C.BuildError as e:
        res.violation("build", e.what, {"output": e.output[-3000:]}, found_input=False)
        cov = {"build_error": e.what}
    failed = C.proof_obligations(res, "C08", ["C08"], extra)
    if failed and not res.violations:
        res.violation("obligations:" + ";".join(failed)[:200], "proof obligation / correspondence no longer checks: " + "; ".join(failed)[:400],
                      {"failed_obligations": failed, "correspondence_disagreements": corr_bad[:8]}, found_input=False)
    elif corr_bad:
        res.coverage["correspondence_disagreements"] = corr_bad[:8]
    res.coverage.update(cov)
    res.coverage["impl_vs_oracle_failures"] = len(res.violations)
    res.coverage["trusted_base"] += [
        "model of from.rs / into.rs / constructor.rs (impl set, source/target types, per-field initialisers) compared token-for-token with the working-tree expansions",
        "attribute *parsing* of Into's conversion lists is covered by C17/C18; here attributes enter the model already parsed",
    ]
    return res.finish()

"""./check --setup : build everything from files on disk (offline)."""
from . import common as C


def run():
    ok, out = C.lake_build([])
    if not ok:
        print(out[-4000:])
        return 1
    try:
        C.cargo_build_inproc()
        C.build_oracle_rpf()
    except C.BuildError as e:
        print(e.what)
        print(e.output[-4000:])
        return 1
    print("setup ok")
    return 0

"""./check --setup : build everything from files on disk (offline)."""
from . import common as C


def run():
    import os, sys
    sys.path.insert(0, os.path.join(C.VERIF, "tools"))
    try:
        import gen_tables
        gen_tables.main()          # regenerate lean/Dm/Gen/*.lean from /repo's current source
    except Exception as e:         # noqa: BLE001
        print("translator failed:", e)
        return 1
    ok, out = C.lake_build(["Dm", "dmdriver", "dmgen"])
    if not ok:
        print(out[-4000:])
        return 1
    try:
        C.cargo_build_inproc()
        C.build_oracle_rpf()
    except C.BuildError as e:
        print(e.what)
        print(e.output[-4000:])
        return 1
    print("setup ok")
    return 0

"""C07 — enum-level format: wraps via `_variant`, otherwise is only a default."""
import os
import sys

from . import common as C
from . import fmtgen as G
from . import fmtx

sys.path.insert(0, os.path.join(C.VERIF, "tools"))
import gen_tables  # noqa: E402

PRELUDE = r'''
#![allow(dead_code, unused_variables, non_camel_case_types, unused_imports, non_snake_case)]
pub static mut FAILS: u32 = 0;
pub static mut CHECKS: u32 = 0;
pub fn check(id: &str, what: &str, got: String, want: String) {
    unsafe { CHECKS += 1; }
    if got != want { unsafe { FAILS += 1; } println!("FAIL|{}|{}|{}|{}", id, what, got, want); }
}
'''

SHARED = [
    # (attribute source, mentions `_variant`, needs positional field _0 in every variant)
    (None, False, False),
    ('"{_variant}"', True, False),
    ('"<{_variant}>"', True, False),
    ('"[{}]", _variant', True, False),
    ('"{_variant}/{_variant}"', True, False),
    ('"{0} and {v}", _variant, v = 1 + 1', True, False),
    ('"default"', False, False),
    ('"default {}", 40 + 2', False, False),
    ('"{_variant} first={_0}"', True, True),
    ('"first={_0:>3}"', False, True),
    ('"{x}", x = _variant', True, False),
    # a bare placeholder at enum level is a "transparent" call: it still applies to every variant without its own format
    ('"{_0}"', False, True),
    ('"{_0:>5}"', False, True),
    ('"{_0:?}"', False, True),
]


def gen_enum(rng, idx, conv):
    """Returns (rust source of the enum + its check function, description)."""
    trait, tych = rng.choice([("Display", ""), ("Display", ""), ("LowerHex", "x"), ("Octal", "o"), ("UpperHex", "X"), ("Binary", "b"),
                              ("LowerExp", "e"), ("UpperExp", "E")])
    an = G.ATTR_NAME[trait]
    sh_src, mentions, needs0 = rng.choice(SHARED)
    case = rng.choice([None, None] + G.CASES)
    vnames = rng.sample(["Alpha", "BetaGamma", "HTTPError", "r#fn", "snake_case_v", "X"], 2 + rng.below(3))
    variants = []
    arms = []
    ctor = []
    for vi, vn in enumerate(vnames):
        shape = rng.choice(["unit", "one", "onenamed", "two", "unit_attr", "one_attr", "one_bare", "one_spec"])
        if needs0 and shape in ("unit", "onenamed", "unit_attr"):
            shape = "one"
        if trait != "Display" and shape == "unit":
            shape = "unit_attr"       # implicit unit variants are Display-only
        if shape == "two" and sh_src and not mentions and rng.below(2):
            shape = "two_shared"      # several fields, no format of its own: the enum-level format is the variant's format
        vcase = rng.choice([None, None, None] + G.CASES)
        own = None
        if shape == "unit":
            decl, pat, val, binds = vn, f"E::{vn}", f"E::{vn}", []
        elif shape == "unit_attr":
            own = '"U{}!", 7'
            decl, pat, val, binds = vn, f"E::{vn}", f"E::{vn}", []
        elif shape == "onenamed":
            decl, pat, val, binds = f"{vn} {{ f: u8 }}", f"E::{vn} {{ f }}", f"E::{vn} {{ f: {10 + vi} }}", ["f"]
        elif shape == "two_shared":
            decl, pat, val, binds = f"{vn}(u8, u16)", f"E::{vn}(_0, _1)", f"E::{vn}({10 + vi}, {300 + vi})", ["_0", "_1"]
        elif shape == "two":
            own = rng.choice(['"{_0}-{_1}"', '"{1}+{0}", _0, _1', '"{:>3}|{b}", _0, b = _1'])
            decl, pat, val, binds = f"{vn}(u8, u16)", f"E::{vn}(_0, _1)", f"E::{vn}({10 + vi}, {300 + vi})", ["_0", "_1"]
        else:
            decl, pat, val, binds = f"{vn}(u8)", f"E::{vn}(_0)", f"E::{vn}({10 + vi})", ["_0"]
            if shape == "one_attr":
                own = '"v={_0}"'
            elif shape == "one_bare":
                own = '"{_0}"'
            elif shape == "one_spec":
                own = '"{_0:>4}"'
        va = ([f"#[{an}({own})] "] if own else []) + ([f'#[{an}(rename_all = "{vcase[1]}")] '] if vcase else [])
        if len(va) == 2 and rng.chance(1, 2):
            va.reverse()                 # independent attributes: either order
        vattrs = "".join(va)
        variants.append(vattrs + decl)
        # documented text of the variant by itself
        unraw = vn[2:] if vn.startswith("r#") else vn
        eff_case = vcase or case
        if own:
            own_text = f"format!({own})"
        elif len(binds) == 1:
            own_text = f'format!("{{:{tych}}}", {binds[0]})'
        else:
            name = conv(eff_case[0], unraw) if eff_case else unraw
            own_text = f'String::from("{name}")'
        if sh_src and mentions:
            ref = f"{{ let _variant = {own_text}; format!({sh_src}) }}"
        elif own or not sh_src:
            ref = own_text
        else:
            ref = f"format!({sh_src})"
        arms.append(f"            {pat} => {ref},")
        ctor.append(val)
    ea = ([f"#[{an}({sh_src})] "] if sh_src else []) + ([f'#[{an}(rename_all = "{case[1]}")] '] if case else [])
    if len(ea) == 2 and rng.chance(1, 2):
        ea.reverse()
    eattrs = "".join(ea)
    src = (f"#[derive(derive_more::{trait})] {eattrs}pub enum E {{ " + ", ".join(variants) + " }\n"
           f"pub fn reference(v: &E) -> String {{\n        match v {{\n" + "\n".join(arms) + "\n        }\n    }\n"
           f"pub fn run() {{ for (i, v) in [{', '.join(ctor)}].iter().enumerate() {{ "
           f'check("{idx}", &i.to_string(), format!("{{:{tych}}}", v), reference(v)); }} }}')
    desc = f"#[derive({trait})] {eattrs}enum E {{ " + ", ".join(variants) + " }"
    return src, desc


def behaviour(res, inproc, rng, tier):
    n = 120 if tier == "quick" else 1500
    # convert_case answers for every (case, name) that may be needed
    names = ["Alpha", "BetaGamma", "HTTPError", "fn", "snake_case_v", "X"]
    keys = [(c[0], nm) for c in G.CASES for nm in names]
    ans = C.drive(inproc, [f"case {c} {C.hexs(nm)}" for c, nm in keys])
    table = {k: C.unhex(a) for k, a in zip(keys, ans)}
    conv = lambda c, nm: table[(c, nm)]
    cf = C.CaseFile(PRELUDE)
    descs = {}
    for i in range(n):
        src, desc = gen_enum(rng, i, conv)
        cf.add(i, src, main_call=f"c{i}::run();")
        descs[str(i)] = desc
    # pointer placeholders in a variant's own literal under a wrapping enum-level format: `_variant` is the text the
    # variant prints by itself, so `{_0:p}` / `{f:p}` print the pointer the field holds
    k = n
    for X, an, shared in (("Display", "display", '"<{_variant}>"'), ("Display", "display", '"{_variant} and {}", 7'),
                          ("Debug", "debug", None), ("LowerHex", "lower_hex", '"[{_variant}]"'), ("Pointer", "pointer", '"({_variant})"')):
        if X == "Debug":
            continue    # Debug has no enum-level format attribute
        pre, post = {'"<{_variant}>"': ("<", ">"), '"{_variant} and {}", 7': ("", " and 7"), '"[{_variant}]"': ("[", "]"), '"({_variant})"': ("(", ")")}[shared]
        src = (f"#[derive(derive_more::{X})] #[{an}({shared})] pub enum E {{ #[{an}(\"{{_0:p}}\")] A(&'static u8), "
               f"#[{an}(\"{{f:p}}|{{}}\", 1)] B {{ f: &'static u8 }}, #[{an}(\"{{:p}}~{{_1}}\", *_0)] C(&'static u8, u8) }}\n"
               "pub static Z: u8 = 9;\n"
               f"pub fn run() {{ let ch = \"{ {'Display': '', 'LowerHex': 'x', 'Pointer': 'p'}[X] }\"; let _ = ch;\n"
               f"  check(\"{k}\", \"A\", format!(\"{{:{ {'Display': '', 'LowerHex': 'x', 'Pointer': 'p'}[X] }}}\", E::A(&Z)), format!(\"{pre}{{:p}}{post}\", &Z));\n"
               f"  check(\"{k}\", \"B\", format!(\"{{:{ {'Display': '', 'LowerHex': 'x', 'Pointer': 'p'}[X] }}}\", E::B {{ f: &Z }}), format!(\"{pre}{{:p}}|1{post}\", &Z));\n"
               f"  check(\"{k}\", \"C\", format!(\"{{:{ {'Display': '', 'LowerHex': 'x', 'Pointer': 'p'}[X] }}}\", E::C(&Z, 4)), format!(\"{pre}{{:p}}~4{post}\", &Z)); }}")
        cf.add(k, src, main_call=f"c{k}::run();")
        descs[str(k)] = f"#[derive({X})] #[{an}({shared})] enum E {{ #[{an}(\"{{_0:p}}\")] A(&'static u8), #[{an}(\"{{f:p}}|{{}}\", 1)] B {{ f: &'static u8 }}, #[{an}(\"{{:p}}~{{_1}}\", *_0)] C(&'static u8, u8) }}"
        k += 1
    # attribute-less single-field variants of a Pointer derive under a wrapping enum-level format: `_variant` is what the
    # variant prints by itself, i.e. the pointer the field holds, not the address of the field (defect of the pinned tree
    # found in round 7: fixed by 019d8a6); also through the Display-trait `{_variant}` of a non-Display derive
    for shared, pre, post in (('"<{_variant}>"', "<", ">"), ('"{_variant}"', "", ""), ('"{_variant}/{}", 3', "", "/3")):
        src = (f"#[derive(derive_more::Pointer)] #[pointer({shared})] pub enum E<'a> {{ A(&'a u8), N {{ f: *const u8 }}, #[pointer(\"{{_0:p}}\")] O(&'a u8) }}\n"
               "pub static Z: u8 = 9;\n"
               f"pub fn run() {{ check(\"{k}\", \"A\", format!(\"{{:p}}\", E::A(&Z)), format!(\"{pre}{{:p}}{post}\", &Z));\n"
               f"  check(\"{k}\", \"N\", format!(\"{{:p}}\", E::N {{ f: &Z }}), format!(\"{pre}{{:p}}{post}\", &Z));\n"
               f"  check(\"{k}\", \"O\", format!(\"{{:p}}\", E::O(&Z)), format!(\"{pre}{{:p}}{post}\", &Z)); }}")
        cf.add(k, src, main_call=f"c{k}::run();")
        descs[str(k)] = f"#[derive(Pointer)] #[pointer({shared})] enum E<'a> {{ A(&'a u8), N {{ f: *const u8 }}, #[pointer(\"{{_0:p}}\")] O(&'a u8) }}"
        k += 1
    # every non-Display trait: an attribute-less single-field variant under a wrapping format prints its field under the derived
    # trait (deterministic since round 7: the random enums hit seeds C07-h / C04-i only for some generator seeds)
    for X, an, ch, val, ty in (("Binary", "binary", "b", "10u8", "u8"), ("Octal", "octal", "o", "64u8", "u8"), ("LowerHex", "lower_hex", "x", "255u8", "u8"),
                               ("UpperHex", "upper_hex", "X", "255u8", "u8"), ("LowerExp", "lower_exp", "e", "1234.5f64", "f64"),
                               ("UpperExp", "upper_exp", "E", "1234.5f64", "f64")):
        src = (f"#[derive(derive_more::{X})] #[{an}(\"<{{_variant}}>\")] pub enum E {{ A({ty}), N {{ f: {ty} }} }}\n"
               f"pub fn run() {{ check(\"{k}\", \"A\", format!(\"{{:{ch}}}\", E::A({val})), format!(\"<{{:{ch}}}>\", {val}));\n"
               f"  check(\"{k}\", \"N\", format!(\"{{:{ch}}}\", E::N {{ f: {val} }}), format!(\"<{{:{ch}}}>\", {val})); }}")
        cf.add(k, src, main_call=f"c{k}::run();")
        descs[str(k)] = f"#[derive({X})] #[{an}(\"<{{_variant}}>\")] enum E {{ A({ty}), N {{ f: {ty} }} }}"
        k += 1
    # a variant's own literal is a *format literal* also when it has no placeholder: its `{{` / `}}` escapes are un-escaped
    # before the text is bound to `_variant` (added after seed C07-j)
    for X, an, ch in (("Display", "display", ""), ("Octal", "octal", "o")):
        plain = ", Plain" if X == "Display" else ""     # an attribute-less unit variant is documented for Display only
        src = (f"#[derive(derive_more::{X})] #[{an}(\"[{{_variant}}]\")] pub enum E {{ #[{an}(\"{{{{set}}}}\")] Set, #[{an}(\"a}}}}b\")] Two(u8), "
               f"#[{an}(\"{{{{{{_0}}}}}}\")] Three(u8), #[{an}(\"plain\")] Four {{ x: u8 }}{plain} }}\n"
               f"pub fn run() {{ check(\"{k}\", \"Set\", format!(\"{{:{ch}}}\", E::Set), String::from(\"[{{set}}]\"));\n"
               f"  check(\"{k}\", \"Two\", format!(\"{{:{ch}}}\", E::Two(1)), String::from(\"[a}}b]\"));\n"
               f"  check(\"{k}\", \"Three\", format!(\"{{:{ch}}}\", E::Three(7)), String::from(\"[{{7}}]\"));\n"
               f"  check(\"{k}\", \"Four\", format!(\"{{:{ch}}}\", E::Four {{ x: 1 }}), String::from(\"[plain]\"));\n"
               + (f"  check(\"{k}\", \"Plain\", format!(\"{{:{ch}}}\", E::Plain), String::from(\"[Plain]\"));" if plain else "") + " }")
        cf.add(k, src, main_call=f"c{k}::run();")
        descs[str(k)] = f"#[derive({X})] #[{an}(\"[{{_variant}}]\")] enum E {{ #[{an}(\"{{{{set}}}}\")] Set, #[{an}(\"a}}}}b\")] Two(u8), #[{an}(\"{{{{{{_0}}}}}}\")] Three(u8), #[{an}(\"plain\")] Four {{ x: u8 }}{plain} }}"
        k += 1
    # an enum-level format that is a bare placeholder (a "transparent" call) is still the format of every variant
    # that has none of its own, whatever its number of fields and whichever trait the placeholder names
    for X, an, ch in (("Display", "display", ""), ("LowerHex", "lower_hex", "x"), ("Binary", "binary", "b")):
        for spec in ("", "x", "?", "o"):
            ph = "{_0" + (":" + spec if spec else "") + "}"
            fmt_ = "{" + (":" + spec if spec else "") + "}"
            src = (f"#[derive(derive_more::{X})] #[{an}(\"{ph}\")] pub enum E {{ A(u8, u16), B(u8), #[{an}(\"v={{_0}}\")] C(u8), "
                   f"#[{an}(\"{{_1}}\")] D(u8, u16) }}\n"
                   f"pub fn run() {{\n"
                   f"  check(\"{k}\", \"A\", format!(\"{{:{ch}}}\", E::A(11, 300)), format!(\"{fmt_}\", 11u8));\n"
                   f"  check(\"{k}\", \"B\", format!(\"{{:{ch}}}\", E::B(12)), format!(\"{fmt_}\", 12u8));\n"
                   f"  check(\"{k}\", \"C\", format!(\"{{:{ch}}}\", E::C(13)), String::from(\"v=13\"));\n"
                   f"  check(\"{k}\", \"D\", format!(\"{{:{ch}}}\", E::D(14, 301)), String::from(\"301\")); }}")
            cf.add(k, src, main_call=f"c{k}::run();")
            descs[str(k)] = f"#[derive({X})] #[{an}(\"{ph}\")] enum E {{ A(u8, u16), B(u8), #[{an}(\"v={{_0}}\")] C(u8), #[{an}(\"{{_1}}\")] D(u8, u16) }}"
            k += 1
    d = C.scratch_crate("c07-enums", cf.source('unsafe { println!("DONE checks={} fails={}", CHECKS, FAILS); }'))
    try:
        rc, out, err = C.scratch_run(d)
        if "DONE" not in out:
            rc2, diags, err2 = C.scratch_check(d)
            by, stray = cf.errors_by_case(diags)
            for cid, errs in list(by.items())[:8]:
                res.violation("compile:" + descs[str(cid)], f"{descs[str(cid)]}: does not compile: {errs[0][:240]}",
                              {"cmd": "compile", "source": descs[str(cid)], "errors": errs[:3]})
            if not by:
                raise C.BuildError("C07 behaviour crate (real proc-macro) did not build/run", (err or out)[-3000:])
            return 0, n, [descs["0"], descs["1"]]
        checks = int(out.split("DONE checks=")[1].split()[0])
        seen = set()
        for l in out.splitlines():
            if not l.startswith("FAIL|"):
                continue
            _, cid, vi, got, want = l.split("|", 4)
            if cid in seen:
                continue
            seen.add(cid)
            res.violation("enum:" + C.hexs(descs[cid]),
                          f"{descs[cid]}: variant #{vi} prints {got!r}, the documented rule gives {want!r}",
                          {"cmd": "behaviour", "enum": descs[cid], "variant_index": vi, "got": got, "want": want})
        return checks, n, [descs["0"], descs["1"]]
    finally:
        C.scratch_cleanup(d)


def rejections(res):
    cases = [
        ('#[derive(derive_more::Display)] #[display("{_variant:>5}")] pub enum E { A, B(u8) }', True),
        ('#[derive(derive_more::Display)] #[display("{_variant:?}")] pub enum E { A, B(u8) }', True),
        ('#[derive(derive_more::Display)] #[display("{:x}", _variant)] pub enum E { A, B(u8) }', True),
        ('#[derive(derive_more::Display)] #[display("{0:+}", _variant)] pub enum E { A, B(u8) }', True),
        ('#[derive(derive_more::Display)] #[display("{v:#}", v = _variant)] pub enum E { A, B(u8) }', True),
        ('#[derive(derive_more::Debug)] #[debug("x")] pub enum E { A, B(u8) }', True),
        ('#[derive(derive_more::Debug)] #[debug("{_variant}")] pub enum E { A, B(u8) }', True),
        ('#[derive(derive_more::Display)] #[display("{_variant} ")] pub enum E { A, B(u8) }', False),
        ('#[derive(derive_more::Debug)] pub enum E { #[debug("x")] A, B(u8) }', False),
    ]
    cf = C.CaseFile(PRELUDE)
    for i, (src, _) in enumerate(cases):
        cf.add(i, src)
    d = C.scratch_crate("c07-cf", cf.source())
    try:
        rc, diags, err = C.scratch_check(d)
        by, stray = cf.errors_by_case(diags)
        for i, (src, must_fail) in enumerate(cases):
            if must_fail and i not in by:
                res.violation("cf:" + src, f"{src} compiles, the property requires a compile-time rejection", {"cmd": "compile", "source": src})
            if not must_fail and i in by:
                res.violation("cf-ok:" + src, f"{src} must compile: {by[i][:2]}", {"cmd": "compile", "source": src, "errors": by[i][:3]})
        return len(cases)
    finally:
        C.scratch_cleanup(d)


def run(tier):
    res = C.Result("C07", tier)
    rng = C.Rng(C.seed())
    extra, bad, cov = [], [], {}
    try:
        inproc = C.cargo_build_inproc()
        # the two name tables of impl/src/fmt are re-read from the source; the theorems source_default_placeholders_* /
        # source_attribute_names_distinct are re-checked against what the code says now
        os.makedirs(gen_tables.GEN, exist_ok=True)
        tables = gen_tables.gen_fmt_tables()
        lean_ok, _ = C.lake_build(["Dm.Props.C07", "dmdriver"])
        n = 250 if tier == "quick" else 5000
        cases, bad = fmtx.correspond(inproc, rng, G.TRAITS + ["Debug"], n) if lean_ok else ([], [])
        enums = [c for c in cases if c["item"]["kind"] == "enum"]
        wrapped = sum(1 for c in enums if c["impl"] and "_variant=>" in c["impl"][0])
        checks, nen, samples = behaviour(res, inproc, rng, tier)
        ncf = rejections(res)
        extra = [("correspondence: Display-like/Debug expander model == working-tree expanders on generated enums/structs", lean_ok and not bad),
                 ("translator: every arm of trait_name_to_default_placeholder_literal / trait_name_to_attribute_name was read", not tables["problems"])]
        cov = {
            "evaluations": len(cases) + checks + ncf,
            "distinct_nontrivial": len({c["src"] for c in enums if c["impl"]}) + nen,
            "rule": "generated enums that expand successfully (in-process) + generated enums whose every variant is printed with the real macro and compared with the documented rule",
            "traces_validated_against_impl": len(cases),
            "model_vs_impl_disagreements": len(bad),
            "distribution": {"items": len(cases), "enums": len(enums), "enums_with_wrapping_arm": wrapped,
                             "behaviour_enums": nen, "behaviour_variant_checks": checks, "rejection_cases": ncf},
            "samples": [{"enum": s} for s in samples] + [{"item": c["src"], "impl_body": c["impl"][0] if c["impl"] else "err"} for c in enums[:2]],
        }
    except C.BuildError as e:
        res.violation("build", e.what, {"output": e.output[-3000:]}, found_input=False)
        cov = {"build_error": e.what}
    failed = C.proof_obligations(res, "C07", ["C07"], extra)
    if failed and not res.violations:
        res.violation("obligations:" + ";".join(failed)[:200], "proof obligation / correspondence no longer checks: " + "; ".join(failed)[:400],
                      {"failed_obligations": failed,
                       "correspondence_disagreements": [{"trait": b["trait"], "item": b["src"], "impl": b["impl"], "model": b["model"]} for b in bad[:8]]},
                      found_input=False)
    res.coverage.update(cov)
    res.coverage["impl_vs_oracle_failures"] = len(res.violations)
    res.coverage["trusted_base"] += [
        "model of shared_attr_info / generate_body / expand_enum compared with the working-tree expanders on every generated item",
        "reference text: the documented rule written with plain format! calls, compiled next to the real derive",
        "convert_case is a parameter of the model (answers taken from the crate itself)",
    ]
    return res.finish()

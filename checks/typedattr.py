"""Typed attribute parsers (`utils.rs` `mod attr`, into.rs `ConversionsAttribute`, from.rs `ConsiderLegacySyntax`):
token-level attribute arguments -> Lean model `ta` -> (merged, parsed attribute | err), against the working tree:
accept/reject must agree, and where the model accepts, the expansion predicted from the *parsed* attribute by the
C08 / C14 models (`cv`, `dl`) must be the expansion the working tree produces for the attribute as written."""
from . import common as C
from . import fmtgen as G
from . import c08, c14

SPECIAL = ["forward", "skip", "ignore", "repr", "owned", "ref", "ref_mut", "types"]
OTHER_WORDS = ["u8", "i16", "String", "bogus", "Wide"]
PATH_TYS = ["Vec<u8>", "core::primitive::u16", "Option<String>"]
OTHER_TYS = ["&'static str", "(u8, u8)", "[u8; 2]", "()", "*const u8"]

GRAMMARS = ["from-struct", "from-variant", "as-struct", "as-field", "tryfrom", "into-struct", "into-field"]
ATTR_NAME = {"from-struct": "from", "from-variant": "from", "as-struct": "as_ref", "as-field": "as_ref", "tryfrom": "try_from",
             "into-struct": "into", "into-field": "into"}
DERIVE = {"from-struct": "From", "from-variant": "From", "as-struct": "AsRef", "as-field": "AsRef", "tryfrom": "TryFrom",
          "into-struct": "Into", "into-field": "Into"}


def gen_item(rng, g, depth=0):
    r = rng.below(100)
    if r < 30:
        return ("w", rng.choice(SPECIAL))
    if r < 52:
        return ("w", rng.choice(OTHER_WORDS))
    if r < 62:
        return ("p", rng.choice(PATH_TYS))
    if r < 72:
        return ("o", rng.choice(OTHER_TYS))
    if r < 77:
        return ("s",)
    if r < 80:
        return ("i",)
    if depth >= 2:
        return ("w", rng.choice(OTHER_WORDS))
    w = rng.choice(SPECIAL + ["owned", "ref", "ref_mut", "types", "types", "repr"] + OTHER_WORDS[:2])
    k = rng.choice([0, 1, 1, 2, 2, 3])
    args = [gen_item(rng, g, depth + 1) for _ in range(k)]
    return ("c", w, bool(k) and rng.chance(1, 4), args)


# well-formed and nearly well-formed argument lists per grammar (the random stream alone rarely builds them)
def templates(g):
    T = lambda *names: [("w", n) for n in names]
    call = lambda w, *args, tr=False: ("c", w, tr, list(args))
    ty = [("w", "u8"), ("p", "Vec<u8>"), ("o", "&'static str"), ("w", "Wide")]
    out = [[], T("forward"), T("skip"), T("ignore"), T("u8"), T("u8", "i16"), [ty[1], ty[2]], T("forward", "u8"), T("skip", "ignore"),
           T("u8", "forward"), [call("types", *T("u8"))], [call("types", ("s",), ("w", "i16"))], T("types"),
           [("w", "u8"), call("types", ("w", "i16"))], T("repr"), [call("repr", *T("u8", "i16"))], [call("repr")],
           [call("repr", ("w", "u8"), tr=True)], T("repr", "u8"), [call("forward")], [call("skip", *T("u8"))],
           [call("types", ("i",))], [call("types", ("w", "u8"), ("i",))], [("s",)], [("i",)], T("ref"), [ty[2], ty[1], ty[0]]]
    if g.startswith("into"):
        out += [T("owned"), T("ref"), T("ref_mut"), T("owned", "ref", "ref_mut"), [call("owned", *T("u8", "i16")), ("w", "ref")],
                [call("owned", ("w", "u8"), tr=True), call("ref", ("w", "u8"))], [call("ref_mut", ty[2])], [call("owned")],
                [("w", "u8"), ("w", "ref")], [("w", "ref"), ("w", "u8")], [call("ref", ("w", "u8")), ("w", "i16")], T("owned", "owned"),
                [call("owned", call("types", ("w", "u8")))], [call("ref", call("types", ("s",), ("w", "i16")))],
                [call("owned", ("w", "u8"), call("types", ("w", "i16")))], [call("owned", call("types"))], [call("types")],
                [("w", "owned"), call("types", ("w", "u8"))], [call("ref", call("types", ("i",)))], [call("owned", ("s",))],
                [call("owned", call("types", ("w", "u8")), ("w", "i16"))], [("p", "Vec<u8>"), call("types", ("w", "u8"))],
                [call("ref_mut", call("types", ("p", "Vec<u8>")))], [call("bogus", ("w", "u8"))], [("w", "ref"), call("bogus", call("types", ("w", "u8")))],
                # the same reference kind twice in one attribute, typed and bare in either order (seed C08-k): the bare keyword
                # adds the conversion into the field types whatever was listed before it
                [call("owned", ("w", "u8")), ("w", "owned")], [("w", "owned"), call("owned", ("w", "u8"))], [call("ref", ("w", "u8")), ("w", "ref")],
                [("w", "ref"), call("ref", ("w", "u8"))], [call("ref", ("w", "u8")), call("ref", ("w", "i16"))], [call("ref_mut"), ("w", "ref_mut")],
                [call("owned", ("w", "u8")), ("w", "ref"), ("w", "owned")], [call("owned"), call("owned", ("w", "u8"))]]
    return out


def gen_attr(rng, g):
    r = rng.below(10)
    if r == 0:
        return "b"
    if r <= 4:
        items = [tuple(x) if not isinstance(x, tuple) else x for x in rng.choice(templates(g))]
        return ("l", bool(items) and rng.chance(1, 5), items)
    k = rng.choice([0, 1, 1, 1, 2, 2, 3])
    items = [gen_item(rng, g) for _ in range(k)]
    return ("l", bool(k) and rng.chance(1, 5), items)


def item_src(it):
    if it[0] in ("w", "p", "o"):
        return it[1]
    if it[0] == "s":
        return '"x"'
    if it[0] == "i":
        return "1"
    _, w, tr, args = it
    return f"{w}(" + ", ".join(item_src(a) for a in args) + ("," if tr else "") + ")"


def item_sx(it):
    if it[0] == "w":
        return f"(w {it[1]})"
    if it[0] in ("p", "o"):
        return f"({it[0]} {C.hexs(G.strip_ws(it[1]))})"
    if it[0] in ("s", "i"):
        return it[0]
    _, w, tr, args = it
    return f"(c {w} {1 if tr else 0}" + "".join(" " + item_sx(a) for a in args) + ")"


def attr_src(name, a):
    if a == "b":
        return f"#[{name}] "
    _, tr, items = a
    return f"#[{name}(" + ", ".join(item_src(i) for i in items) + ("," if tr else "") + ")] "


def attr_sx(a):
    if a == "b":
        return "b"
    _, tr, items = a
    return f"(l {1 if tr else 0}" + "".join(" " + item_sx(i) for i in items) + ")"


def gen_case(rng, g):
    n = rng.choice([1, 1, 1, 2, 2, 3])
    attrs = [gen_attr(rng, g) for _ in range(n)]
    name = ATTR_NAME[g]
    asrc = "".join(attr_src(name, a) for a in attrs)
    if g in ("from-struct", "as-struct", "into-struct"):
        src = f"{asrc}struct S(u8);"
    elif g == "from-variant":
        src = f"enum E {{ {asrc}A(u8), B }}"
    elif g == "tryfrom":
        src = f"#[repr(u8)] {asrc}enum E {{ A, B }}"
    else:
        src = f"struct S({asrc}u8, i16);"
    return g, src, "ta (" + g + "".join(" " + attr_sx(a) for a in attrs) + ")", attrs


def sx_parse(s):
    """Minimal s-expression reader (atoms and lists)."""
    toks = s.replace("(", " ( ").replace(")", " ) ").split()
    def rd(i):
        if toks[i] == "(":
            out, i = [], i + 1
            while toks[i] != ")":
                x, i = rd(i)
                out.append(x)
            return out, i + 1
        return toks[i], i + 1
    return rd(0)[0]


def tys_of(lst):
    return [C.unhex(h) for h in lst]


def convs_sx(c):
    """(c (o b hex...) (r ...) (m ...)) of the `ta` answer -> the `cv` attribute."""
    parts = []
    for part in c[1:]:
        parts.append(f"({part[0]} {part[1]}" + "".join(" " + c08.ty_sexp(t) for t in tys_of(part[2:])) + ")")
    return "(c " + " ".join(parts) + ")"


def second_stage(g, ans):
    """The request to the C08 / C14 model for the parsed attribute `ans` (a `ta` answer other than err), or None."""
    a = sx_parse(ans)
    f_u8, f_i16 = f"(f - {C.hexs('u8')})", f"(f - {C.hexs('i16')})"
    if g in ("from-struct", "from-variant"):
        if a == "none":
            at = "n"
        elif a in ("e", "s", "fw"):
            at = a
        else:
            at = "(t" + "".join(" " + c08.ty_sexp(t) for t in tys_of(a[1:])) + ")"
        if g == "from-struct":
            return f"cv (from struct {C.hexs('S')} tuple {at} {f_u8})"
        return f"cv (from enum {C.hexs('E')} (v {C.hexs('A')} tuple {at} {f_u8}) (v {C.hexs('B')} unit n))"
    if g in ("as-struct", "as-field"):
        if a == "none":
            at = "-"
        elif a in ("e", "s", "fw"):
            at = a
        else:
            at = "(t" + "".join(f" ({C.hexs(G.strip_ws(t))} 0)" for t in tys_of(a[1:])) + ")"
        if g == "as-struct":
            return f"dl (AsRef {C.hexs('S')} {at} (f - {C.hexs('u8')} 0 -))"
        return f"dl (AsRef {C.hexs('S')} - (f - {C.hexs('u8')} 0 {at}) (f - {C.hexs('i16')} 0 -))"
    if g == "into-struct":
        at = "" if a == "none" else ("e" if a == "e" else convs_sx(a))
        return f"cv (into {C.hexs('S')} tuple (attrs {at}) (fld {f_u8} (attrs)))"
    if g == "into-field":
        fa = []
        if a != "none":
            if a[1] == "1":
                fa.append("s")
            if a[2] != "-":
                fa.append(convs_sx(a[2]))
        return f"cv (into {C.hexs('S')} tuple (attrs) (fld {f_u8} (attrs {' '.join(fa)})) (fld {f_i16} (attrs)))"
    return None


def observed(g, ia):
    if g in ("from-struct", "from-variant"):
        return c08.impl_list(ia, "From")
    if g in ("into-struct", "into-field"):
        return c08.impl_list(ia, "Into")
    if g in ("as-struct", "as-field"):
        return c14.extract(ia, "AsRef")
    if ia.startswith("err "):
        return "err"
    if ia.startswith("panic"):
        return "panic"
    return "ok"


def observed_kind(g, ia):
    got = observed(g, ia)
    if got == "err" and "legacy syntax" in ia and g in ("from-struct", "from-variant", "into-struct", "into-field"):
        return "err-legacy"
    if g == "tryfrom" and got == "ok":
        return "d" if "impl" in ia else "none"
    return got


def correspondence(inproc, lean_drive, rng, n):
    """Returns (cases, disagreements, distribution). `lean_drive`: list of requests -> list of answers."""
    cases = []
    for g in GRAMMARS:
        # every template alone (with and without a trailing comma), and after a plain type list
        for items in templates(g):
            for tr in (False, True):
                if tr and not items:
                    continue
                for attrs in ([("l", tr, list(items))], [("l", False, [("w", "i16")]), ("l", tr, list(items))]):
                    cases.append((g, case_src(g, attrs), "ta (" + g + "".join(" " + attr_sx(a) for a in attrs) + ")", attrs))
        cases.append((g, case_src(g, ["b"]), f"ta ({g} b)", ["b"]))
        cases.append((g, case_src(g, ["b", "b"]), f"ta ({g} b b)", ["b", "b"]))
        cases.append((g, case_src(g, []), f"ta ({g})", []))
        for _ in range(n):
            cases.append(gen_case(rng, g))
    impl = C.drive(inproc, [f"expand {DERIVE[g]} {C.hexs(src)}" for g, src, _, _ in cases])
    ta = lean_drive([req for _, _, req, _ in cases])
    stage2_req, stage2_idx = [], []
    for i, ((g, src, req, _), t) in enumerate(zip(cases, ta)):
        if t not in ("err", "err-legacy", "bad-op") and g != "tryfrom":
            stage2_req.append(second_stage(g, t)); stage2_idx.append(i)
    stage2 = dict(zip(stage2_idx, lean_drive(stage2_req)))
    bad, dist = [], {}
    for i, ((g, src, req, _), ia, t) in enumerate(zip(cases, impl, ta)):
        got = observed_kind(g, ia)
        if t in ("bad-op", "err", "err-legacy") or g == "tryfrom":
            want = t
        else:
            want = stage2[i]
        key = g + ":" + (want if want.startswith("err") else "accepted")
        dist[key] = dist.get(key, 0) + 1
        if got != want:
            bad.append({"grammar": g, "source": src, "impl": got[:600], "model_parse": t[:300], "model": want[:600], "raw": ia[:200]})
    return cases, bad, dist


def case_src(g, attrs):
    name = ATTR_NAME[g]
    asrc = "".join(attr_src(name, a) for a in attrs)
    if g in ("from-struct", "as-struct", "into-struct"):
        return f"{asrc}struct S(u8);"
    if g == "from-variant":
        return f"enum E {{ {asrc}A(u8), B }}"
    if g == "tryfrom":
        return f"#[repr(u8)] {asrc}enum E {{ A, B }}"
    return f"struct S({asrc}u8, i16);"


def is_wrap(it):
    return it[0] in ("w", "c") and it[1] in ("owned", "ref", "ref_mut")


def rewrites(rng, g, attrs):
    """Synonymous spellings of an attribute list the model accepts, each licensed by a theorem of Dm.Props.C17Typed:
    any order of the attributes; a trailing comma after a list of two or more arguments; one attribute listing
    several arguments split into two (for Into: only when the two halves do not mix plain and wrapped types...
    which the unsplit attribute already guarantees); `skip` for `ignore`."""
    out = []
    if len(attrs) >= 2:
        out.append(("order", rng.shuffle(attrs)))
        out.append(("order", list(reversed(attrs))))
    for i, a in enumerate(attrs):
        if a == "b":
            continue
        _, tr, items = a
        if len(items) >= 2:
            out.append(("trailing-comma", attrs[:i] + [("l", not tr, items)] + attrs[i + 1:]))
            k = 1 + rng.below(len(items) - 1)
            lone = lambda h: len(h) == 1 and h[0] in (("w", "forward"), ("w", "skip"), ("w", "ignore"), ("w", "types"))
            # (a lone `forward` / `skip` / `ignore` is not a type list, a leading `types` is legacy syntax: the theorems
            # ask for halves that are accepted as lists on their own)
            if not lone(items[:k]) and not lone(items[k:]) and items[k] != ("w", "types"):
                out.append(("split", attrs[:i] + [("l", False, items[:k]), ("l", rng.chance(1, 2), items[k:])] + attrs[i + 1:]))
        if len(items) == 1 and not tr and items[0] in (("w", "skip"), ("w", "ignore")) and g in ("from-variant", "as-field", "into-field"):
            other = "ignore" if items[0][1] == "skip" else "skip"
            out.append(("skip-ignore", attrs[:i] + [("l", False, [("w", other)])] + attrs[i + 1:]))
        for j, it in enumerate(items):
            if it[0] == "c" and it[3] and g.startswith("into") and is_wrap(it):
                it2 = ("c", it[1], not it[2], it[3])
                out.append(("nested-trailing-comma", attrs[:i] + [("l", tr, items[:j] + [it2] + items[j + 1:])] + attrs[i + 1:]))
    return out


def synonym_cases(rng, cases, ta):
    """(grammar, kind, source a, source b) for the accepted cases."""
    out = []
    for (g, src, _, attrs), t in zip(cases, ta):
        if t in ("err", "err-legacy", "bad-op", "none") or g == "tryfrom":
            continue
        for kind, attrs2 in rewrites(rng, g, attrs):
            src2 = case_src(g, attrs2)
            if src2 != src:
                out.append((g, kind, src, src2))
    return out

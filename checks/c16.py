"""C16 — format arguments are split where Rust's expression grammar splits them."""
import os
import re

from . import common as C
from . import fmtgen as G

IDS = ["a", "b", "c", "x", "_0", "field", "r#type", "self", "n"]
TYS = ["u8", "A", "Vec<u8>", "M<K, V>", "Option<Vec<A>>", "&'static str", "[u8; 4]", "(A, B)", "fn(A) -> B"]
BINOPS = ["+", "-", "*", "/", "%", "&", "|", "^", "&&", "||", "==", "!=", "<", ">", "<=", ">=", "<<", ">>", "..", "..="]


def gen_expr(rng, depth=0):
    k = rng.below(34 if depth < 3 else 6)
    sub = lambda: gen_expr(rng, depth + 1)
    if k == 0:
        return rng.choice(IDS)
    if k == 1:
        return rng.choice(["1", "2.5", '"s, t"', "'c'", 'b"x,y"', "0xffu8", "true"])
    if k == 2:
        return rng.choice(["i32::MAX", "a::b::C", "Self::K", "crate::x::Y"])
    if k == 3:
        return rng.choice(IDS) + "." + rng.choice(["k", "0", "len()"])
    if k == 4:
        return "&" + rng.choice(IDS)
    if k == 5:
        return "-" + rng.choice(IDS)
    if k == 6:
        return f"f({sub()}, {sub()})"
    if k == 7:
        return f"{rng.choice(IDS)}.m({sub()})"
    if k == 8:
        return f"{rng.choice(IDS)}.m::<{rng.choice(TYS)}, {rng.choice(TYS)}>({sub()})"
    if k == 9:
        return f"f::<{rng.choice(TYS)}, {rng.choice(TYS)}>({sub()})"
    if k == 10:
        return f"{rng.choice(IDS)}.iter().collect::<Vec<_>>()"
    if k == 11:
        return f"<{rng.choice(TYS)} as T<{rng.choice(TYS)}, {rng.choice(TYS)}>>::X"
    if k == 12:
        return f"<{rng.choice(TYS)} as IntoIterator>::Item::f({sub()})"
    if k == 13:
        return f"{sub()} as u8"
    if k == 14:
        return f"{rng.choice(IDS)} as {rng.choice(TYS)}"
    if k == 15:
        return f"|p, q| {sub()}"
    if k == 16:
        return f"move |p: u8, q| {sub()}"
    if k == 17:
        return f"|| {sub()}"
    if k == 18:
        return f"!{sub()}"
    if k in (19, 20, 21):
        return f"{sub()} {rng.choice(BINOPS)} {sub()}"
    if k == 22:
        return f"{rng.choice(IDS)} += 1"
    if k == 23:
        return rng.choice(["..", "a..", "..=b", "1..2"])
    if k == 24:
        return "{ let y = (" + sub() + ", " + sub() + "); y }"
    if k == 25:
        return f"if {rng.choice(IDS)} {{ {sub()} }} else {{ {sub()} }}"
    if k == 26:
        return "match n { Some(n) => {}, None => {} }"
    if k == 27:
        return rng.choice(["loop { break i; }", "unsafe { f() }", "async { fut.await }"])
    if k == 28:
        return rng.choice(['format!("{}", q)', "vec![1, 2]", "m!{a, b}"])
    if k == 29:
        return f"({sub()})"
    if k == 30:
        return rng.choice([f"({sub()}, {sub()})", f"[{sub()}, {sub()}]", "[0u8; N]", f"{rng.choice(IDS)}[2]"])
    if k == 31:
        return "S { a: 1, b }"
    if k == 32:
        return f"{rng.choice(IDS)}?"
    return f"Vec::<{rng.choice(TYS)}>::new()"


def gen_list(rng):
    n = 1 + rng.below(4)
    parts = []
    for _ in range(n):
        e = gen_expr(rng)
        if rng.chance(1, 5):
            # every spacing of the `=`: glued to an expression that starts with a punctuation character it is a *joint* `=`
            # (`x=-1`, `w=&a`, `name=|p, q| ..`) and still an alias (added after seed C16-j)
            e = f"{rng.choice(['name', 'w', 'x', 'r#in'])}{rng.choice([' = ', '=', ' =', '= '])}{e}"
        parts.append(e)
    return ", ".join(parts) + ("," if rng.chance(1, 4) else "")


# complete expressions that `Ident::parse_any` also reads as an identifier; and the reserved `_`, which proc_macro2 presents as an
# identifier token: it can name no field (no bound, no pass-through follows from it) and `format_args!` refuses it as an expression,
# so whether it "counts as a field reference" is unobservable (thorough-tier token mutation, round 7)
KEYWORD_EXPRS = {"break", "continue", "return", "_"}


def norm_args(fields_args):
    """`alias US expr US ident RS ...` -> list of (alias, ws-free expr, ident)."""
    out = []
    if not fields_args:
        return out
    for ent in fields_args.split("\x1e"):
        al, ex, idn = (ent.split("\x1f") + ["", "", ""])[:3]
        ex = G.strip_ws(ex)
        out.append((al, ex, "" if ex in KEYWORD_EXPRS else idn))
    return out


def oracle_details(fields_args):
    """Oracle answer -> list of (alias, spaced expr tokens, features)."""
    out = []
    if not fields_args:
        return out
    for ent in fields_args.split("\x1e"):
        parts = ent.split("\x1f") + ["", "", "", ""]
        out.append((parts[0], parts[1], [f for f in parts[3].split("+") if f]))
    return out


class Eval:
    """Evaluates sources with the three parties in batch."""

    def __init__(self, inproc, syn):
        self.inproc, self.syn = inproc, syn

    def run(self, srcs, with_model=True):
        toks = C.drive(self.syn, ["toks " + C.hexs(s) for s in srcs])
        oracle = C.drive(self.syn, ["split " + C.hexs(s) for s in srcs])
        impl = C.drive(self.inproc, ["attr " + C.hexs('"", ' + s if s.strip() else '""') + " " + C.hexs(";") for s in srcs])
        model = C.drive_lean(["sp " + (t.replace("(toks ", "(toks (p 2c a) ", 1) if t.startswith("(toks") else t) for t in toks]) if with_model else [None] * len(srcs)
        res = []
        for s, t, o, i, m in zip(srcs, toks, oracle, impl, model):
            i_n = norm_args(C.hook_fields(i)["args"]) if i.startswith("ok ") else None
            o_n = norm_args(C.hook_fields(o)["args"]) if o.startswith("ok ") else None
            m_n = None
            if m is not None:
                m_n = norm_args(C.hook_fields(m)["args"]) if m.startswith("ok ") else None
            i_emit = G.strip_ws(C.hook_fields(i)["emit"]) if i.startswith("ok ") else None
            res.append({"src": s, "lex_ok": t.startswith("(toks"), "impl": i_n, "oracle": o_n, "model": m_n,
                        "oracle_details": oracle_details(C.hook_fields(o)["args"]) if o.startswith("ok ") else None,
                        "impl_emit": i_emit, "impl_raw": i[:200], "model_raw": m})
        return res


def fails(r):
    """Implementation-vs-oracle failure: syn-full accepts the list and derive_more splits differently
    (or rejects it), or re-emits other tokens."""
    if r["oracle"] is None or not r["lex_ok"]:
        return False
    if r["impl"] != r["oracle"]:
        return True
    want = '"",' + ",".join((a + "=" if a else "") + e for a, e, _ in r["oracle"]) if r["oracle"] else '""'
    return r["impl_emit"] is not None and r["impl_emit"] not in (want, want + ",")


def tokens_of(src):
    return re.findall(r"r#\w+|\w+|'[^'\\]'|\"[^\"]*\"|b\"[^\"]*\"|'\w+|::|->|=>|==|!=|<=|>=|&&|\|\||<<|>>|\.\.=|\.\.|\+=|[^\s\w]", src)


def shrink(ev, src):
    """Greedy token deletion while the input still fails (one batch per round)."""
    cur = tokens_of(src)
    for _ in range(60):
        cands = [cur[:i] + cur[i + 1:] for i in range(len(cur))]
        cands += [cur[:i] + cur[i + 2:] for i in range(len(cur) - 1)]
        srcs = [" ".join(c) for c in cands if c]
        if not srcs:
            break
        rs = ev.run(srcs, with_model=False)
        nxt = None
        for c, r in zip([c for c in cands if c], rs):
            if fails(r):
                nxt = c
                break
        if nxt is None:
            break
        cur = nxt
    return " ".join(cur)


def canonical(src):
    """Alpha-renames identifiers in order of appearance, literals to 0: the shape of a failing input."""
    toks = tokens_of(src)
    names = {}
    out = []
    kw = {"as", "move", "if", "else", "match", "loop", "let", "break", "unsafe", "async", "await", "Some", "None", "self", "Self", "crate", "mut", "fn"}
    for t in toks:
        if re.fullmatch(r"r#\w+|[A-Za-z_]\w*", t) and t not in kw:
            if t not in names:
                names[t] = "abcdefghijklmnopqrstuvwxyz"[len(names) % 26]
            out.append(names[t])
        elif re.fullmatch(r"\d\w*(\.\d+)?|\"[^\"]*\"|'[^']'|b\"[^\"]*\"", t):
            out.append("0")
        else:
            out.append(t)
    return " ".join(out).replace(" ", "")


def run(tier):
    res = C.Result("C16", tier)
    rng = C.Rng(C.seed())
    extra, cov = [], {}
    corr_bad = []
    try:
        inproc = C.cargo_build_inproc()
        env = dict(C.ENV)
        env["CARGO_TARGET_DIR"] = os.path.join(C.HARNESS, "target-syn")
        lock = os.path.join(C.HARNESS, "oracle_syn", "Cargo.lock")
        if not os.path.exists(lock):
            C.shutil.copy(os.path.join(C.REPO, "Cargo.lock"), lock)
        rc, out = C.run(["cargo", "build", "--offline", "--quiet"], cwd=os.path.join(C.HARNESS, "oracle_syn"), env=env)
        if rc != 0:
            raise C.BuildError("cargo build of the syn-full oracle failed", out)
        syn = os.path.join(C.HARNESS, "target-syn", "debug", "dmv-oracle-syn")
        lean_ok, _ = C.lake_build(["Dm.Props.C16", "dmdriver"])
        ev = Eval(inproc, syn)
        n = 6000 if tier == "quick" else 150000
        srcs = []
        cpath = os.path.join(C.VERIF, "corpus", "C16.txt")
        if os.path.exists(cpath):
            srcs += [l.rstrip("\n") for l in open(cpath) if l.strip() and not l.startswith("#")]
        srcs += [gen_list(rng) for _ in range(n)]
        # token-level mutants (so that inputs outside the generator's grammar reach both sides too)
        for s in rng.sample(srcs, n // 6):
            t = tokens_of(s)
            if len(t) < 2:
                continue
            i = rng.below(len(t))
            k = rng.below(3)
            if k == 0:
                t = t[:i] + t[i + 1:]
            elif k == 1:
                t = t[:i] + [rng.choice([",", "<", ">", "|", "::", "=", "a"])] + t[i:]
            else:
                j = rng.below(len(t))
                t[i], t[j] = t[j], t[i]
            srcs.append(" ".join(t))
        srcs = list(dict.fromkeys(srcs))
        results = ev.run(srcs, with_model=lean_ok)
        n_oracle_ok = sum(1 for r in results if r["oracle"] is not None)
        multi = sum(1 for r in results if r["oracle"] and len(r["oracle"]) > 1)
        failing = [r for r in results if fails(r)]
        for r in results:
            if lean_ok and r["lex_ok"] and r["model"] != r["impl"]:
                corr_bad.append(r)
        # attribute failures to known grammar constructs: put every argument that contains one in
        # parentheses (a single token tree); if the list then splits correctly, the failure is
        # explained by those constructs. Unexplained failures are shrunk and reported by shape.
        neutral = []
        for r in failing:
            parts = []
            feats = set()
            for al, ex, fs in r["oracle_details"]:
                if fs:
                    feats |= set(fs)
                    parts.append((al + " = " if al else "") + "(" + ex + ")")
                else:
                    parts.append((al + " = " if al else "") + ex)
            neutral.append((", ".join(parts), feats))
        nres = ev.run([n_[0] for n_ in neutral], with_model=False) if neutral else []
        explained = {}
        unexplained = []
        for r, (nsrc, feats), nr in zip(failing, neutral, nres):
            # a known construct explains a failure only if the scanner behaves there as its (validated) model does:
            # a split that differs from the model's is a different violation, whatever constructs the input contains
            same_as_model = (not lean_ok) or r["model"] == r["impl"]
            if feats and not fails(nr) and same_as_model:
                for f in feats:
                    explained.setdefault(f, r["src"])
            else:
                unexplained.append(r)
        what = {"bitor": "a binary `|` at the top level of an argument is taken for a closure parameter list (`a | b, c | d` is one argument)",
                "cast_generic": "the generic argument list of a cast's type is split at its commas (`x as M<K, V>`)",
                "arrow_in_generics": "`->` inside a generic argument list counts as a closing `>` (`f::<fn(A) -> B, C>(x)`)",
                "gt_then_global_path": "a `<` comparison in one argument and `> ::path` in a later one are paired as `<..>::` generic brackets (`a < b, c > ::d` is one argument)"}
        for f, example in explained.items():
            res.violation("construct:" + f, what.get(f, f) + f"; e.g. `{example}`", {"cmd": "split", "source": example, "construct": f})
        shapes = {}
        budget = 12 if tier == "quick" else 200
        for r in unexplained:
            if len(shapes) >= budget:
                break
            small = shrink(ev, r["src"])
            shape = canonical(small)
            if shape not in shapes:
                shapes[shape] = (small, r["src"])
        for shape, (small, orig) in shapes.items():
            rr = ev.run([small], with_model=False)[0]
            res.violation("shape:" + shape,
                          f"arguments `{small}`: derive_more splits {rr['impl']}, Rust's grammar (syn full) splits {rr['oracle']}; shrunk from `{orig}`",
                          {"cmd": "split", "source": small, "original": orig, "impl": rr["impl"], "oracle": rr["oracle"]})
        # how the derive *uses* the split: `{v}` with an explicit `v = <expr>` denotes that argument (as for format_args!),
        # and only an argument that is a single identifier counts as a reference to the field of that name
        NONIDENT = ["1 + 2", "f(v)", "v.clone()", "&v", "(v)", "v as u8", "{ v }", "-v", "v?", "v[0]", "v.0", "x::v", "v::<u8>()", "|v| v",
                    "*v", "!v", "v..", "v + 0", "self.v", "Some(v)", "v == v", "if true { v } else { v }", "[v]", "(v,)", "v.w", "w::v::<T>",
                    "f::<A, B>(v)", "v as M<K, V>", "<v as T<B, C>>::X"]
        use_cases = []
        for e in NONIDENT:
            use_cases.append((f'#[display("{{v}}", v = {e})] struct S<T> {{ v: T, w: u8 }}', False, e, "alias"))
            use_cases.append((f'#[display("{{}}", {e})] struct S<T> {{ v: T, w: u8 }}', False, e, "positional"))
            use_cases.append((f'#[display("{{0}} {{1}}", 1, {e})] struct S<T> {{ v: T, w: u8 }}', False, e, "indexed"))
            use_cases.append((f'#[display("{{n}}", n = {e})] struct S<T> {{ v: T, w: u8 }}', False, e, "other-alias"))
        for e in ["v", "r#v"]:
            use_cases.append((f'#[display("{{v}}", v = {e})] struct S<T> {{ v: T, w: u8 }}', True, e, "alias"))
            use_cases.append((f'#[display("{{}}", {e})] struct S<T> {{ v: T, w: u8 }}', True, e, "positional"))
            use_cases.append((f'#[display("{{n}} {{1}}", 1, {e}, n = 2)] struct S<T> {{ v: T, w: u8 }}', True, e, "indexed"))
            use_cases.append((f'#[display("{{n}}", n = {e})] struct S<T> {{ v: T, w: u8 }}', True, e, "other-alias"))
        use_cases.append(('#[display("{w}", w = v)] struct S<T> { v: T, w: u8 }', True, "v", "alias-of-other-field"))
        use_cases.append(('#[display("{v}", v = w)] struct S<T> { v: T, w: u8 }', False, "w", "alias-of-other-field"))
        uans = C.drive(inproc, [f"expand Display {C.hexs(src)}" for src, _, _, _ in use_cases])
        n_use = 0
        for (src, want_bound, e, how), ans in zip(use_cases, uans):
            if not ans.startswith("ok"):
                continue            # (an expression the attribute parser does not take is the scanner's business, above)
            n_use += 1
            has = bool(re.search(r"where\s*T\s*:", ans)) or "where T :" in ans
            if has != want_bound:
                res.violation(f"use:{how}:{e}", f"`{src}`: the argument `{e}` ({how}) is " +
                              ("not treated as the field it names: no bound on T" if want_bound else "treated as a reference to field `v`: the impl is bounded by `T: Display`") +
                              "; only a single identifier counts as a field reference, and `{v}` with an explicit `v = ..` denotes that argument",
                              {"cmd": "expand Display", "source": src, "expansion": ans[:1200]})
        extra = [("correspondence: scanner model == working-tree FmtAttribute parsing on every token stream", lean_ok and not corr_bad)]
        cov = {
            "evaluations": len(srcs),
            "distinct_nontrivial": len({r["src"] for r in results if r["oracle"] and len(r["oracle"]) > 1}),
            "rule": "distinct argument lists syn-full accepts with at least two arguments",
            "traces_validated_against_impl": len(srcs),
            "model_vs_impl_disagreements": len(corr_bad),
            "distribution": {"lists": len(srcs), "accepted_by_rust_grammar": n_oracle_ok, "with_two_or_more_arguments": multi,
                             "argument_use_cases": n_use, "failing": len(failing), "explained_by_known_constructs": len(failing) - len(unexplained),
                             "unexplained_shapes": len(shapes)},
            "samples": [{"source": r["src"], "impl": r["impl"], "syn_full": r["oracle"]} for r in results[:4]],
        }
    except C.BuildError as e:
        res.violation("build", e.what, {"output": e.output[-3000:]}, found_input=False)
        cov = {"build_error": e.what}
    failed = C.proof_obligations(res, "C16", ["C16"], extra)
    if failed and not res.violations:
        res.violation("obligations:" + ";".join(failed)[:200], "proof obligation / correspondence no longer checks: " + "; ".join(failed)[:400],
                      {"failed_obligations": failed,
                       "correspondence_disagreements": [{"source": r["src"], "impl": r["impl"], "model": r["model"]} for r in corr_bad[:8]]},
                      found_input=False)
    res.coverage.update(cov)
    res.coverage["impl_vs_oracle_failures"] = len(res.violations) + len(res.known_hits)
    res.coverage["trusted_base"] += [
        "model of impl/src/parsing.rs and FmtAttribute/FmtArgument parsing compared with the working tree on every generated token stream",
        "proc_macro2's tokenisation is shared by all parties; syn with feature `full` stands for Rust's expression grammar",
        "binary_or_swallows_comma / cast_to_generic_type_is_split are kernel-checked witnesses of the two known findings",
    ]
    return res.finish()

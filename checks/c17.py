"""C17 — synonymous attribute spellings are equivalent; contradictory ones rejected."""
import re

from . import common as C
from . import typedattr as TA
from . import fmtcontainer as FC
from . import fmtgen as G

NAMES = ["ignore", "forward", "owned", "ref", "ref_mut", "source", "backtrace"]
OTHER = {"x0": "skip", "x1": "types", "x2": "bogus", "x3": "repr", "x4": "bound"}
# the allow-lists that occur in impl/src (State::with_* and the explicit AttrParams)
ALLOW_LISTS = [["ignore"], ["ignore", "forward"], ["ignore", "owned", "ref", "ref_mut"], ["forward"], ["ignore", "source", "backtrace"], []]


def gen_meta(rng, allowed, depth=0):
    """-> (rust text, sexp)"""
    pool = allowed * 3 + NAMES + list(OTHER)
    k = rng.below(10)
    if k < 7 or depth >= 2:
        n = rng.choice(pool)
        return OTHER.get(n, n), f"(p {n})"
    if k < 9:
        args = [gen_meta(rng, allowed, depth + 1) for _ in range(rng.below(3))]
        return "not(" + ", ".join(a for a, _ in args) + ")", "(n " + " ".join(s for _, s in args) + ")"
    n = rng.choice(pool)
    args = [gen_meta(rng, allowed, depth + 1) for _ in range(rng.below(2))]
    return OTHER.get(n, n) + "(" + ", ".join(a for a, _ in args) + ")", f"(l {n} " + " ".join(s for _, s in args) + ")"


def gen_attrs(rng, name):
    allowed = rng.choice(ALLOW_LISTS)
    n_attr = rng.choice([0, 1, 1, 1, 1, 1, 2])
    src, sx = [], []
    for _ in range(n_attr):
        k = rng.below(12)
        if k == 0:
            src.append(f"#[{name}]"); sx.append("w")
        elif k == 1:
            src.append(f'#[{name} = "x"]'); sx.append("nv")
        else:
            ms = [gen_meta(rng, allowed) for _ in range(rng.choice([0, 1, 1, 2, 2, 3, 4]))]
            trailing = "," if ms and rng.chance(1, 4) else ""
            src.append(f"#[{name}(" + ", ".join(m for m, _ in ms) + trailing + ")]")
            sx.append("(l " + " ".join(s for _, s in ms) + ")")
    return allowed, " ".join(src), f"la ({' '.join(allowed)}) " + " ".join(sx)


def impls(ans):
    """the expansion as a sorted tuple of impl blocks (whitespace-free)"""
    if not ans.startswith("ok"):
        return ans.split(" ")[0]
    s = G.strip_ws(ans[3:])
    parts = re.split(r"(?=#\[(?:allow\(|automatically_derived\]))", s)
    blocks, cur = [], ""
    for p in parts:
        cur += p
        if "impl" in p and p.rstrip().endswith("}"):
            blocks.append(cur); cur = ""
    if cur:
        blocks.append(cur)
    return tuple(sorted(blocks))


# (derive, spelling A, spelling B): documented alternative spellings that must yield the identical implementation
SYNONYMS = [
    ("From", "struct S { #[from(skip)] a: u8, b: u16 }", "struct S { #[from(ignore)] a: u8, b: u16 }"),
    ("From", "enum E { #[from(skip)] A(u8), B(u16) }", "enum E { #[from(ignore)] A(u8), B(u16) }"),
    ("Into", "struct S { #[into(skip)] a: u8, b: u16 }", "struct S { #[into(ignore)] a: u8, b: u16 }"),
    ("AsRef", "struct S { #[as_ref(skip)] a: u8, b: u16 }", "struct S { #[as_ref(ignore)] a: u8, b: u16 }"),
    ("AsMut", "struct S { #[as_mut(skip)] a: u8, b: u16 }", "struct S { #[as_mut(ignore)] a: u8, b: u16 }"),
    ("Debug", "struct S { #[debug(skip)] a: u8, b: u16 }", "struct S { #[debug(ignore)] a: u8, b: u16 }"),
    ("Debug", "enum E { A(#[debug(skip)] u8, u16), B }", "enum E { A(#[debug(ignore)] u8, u16), B }"),
    ("Display", '#[display("{a}")] #[display(bound(T: Clone))] struct S<T> { a: T }', '#[display("{a}")] #[display(bounds(T: Clone))] struct S<T> { a: T }'),
    ("Debug", "#[debug(bound(T: Clone))] struct S<T> { a: T }", "#[debug(bounds(T: Clone))] struct S<T> { a: T }"),
    ("UpperHex", '#[upper_hex("{a:X}")] #[upper_hex(bound(T: Clone))] struct S<T> { a: T }', '#[upper_hex("{a:X}")] #[upper_hex(bounds(T: Clone))] struct S<T> { a: T }'),
    # one attribute listing several types == several attributes listing one each (order kept)
    ("From", "#[from(u8, u16, u32)] struct S(u64);", "#[from(u8)] #[from(u16)] #[from(u32)] struct S(u64);"),
    ("From", "#[from(u8, u16, u32)] struct S(u64);", "#[from(u8, u16)] #[from(u32)] struct S(u64);"),
    ("From", "enum E { #[from(u8, u16)] A(u32), B(i8) }", "enum E { #[from(u8)] #[from(u16)] A(u32), B(i8) }"),
    ("Into", "#[into(u16, u32)] struct S(u8);", "#[into(u16)] #[into(u32)] struct S(u8);"),
    ("Into", "#[into(owned(u16, u32), ref(u8))] struct S(u8);", "#[into(owned(u16, u32))] #[into(ref(u8))] struct S(u8);"),
    ("AsRef", "#[as_ref(u8, [u8])] struct S(Vec<u8>);", "#[as_ref(u8)] #[as_ref([u8])] struct S(Vec<u8>);"),
    ("AsMut", "struct S { #[as_mut(u8, [u8])] a: Vec<u8>, b: u8 }", "struct S { #[as_mut(u8)] #[as_mut([u8])] a: Vec<u8>, b: u8 }"),
    ("Display", '#[display("{a}")] #[display(bound(T: Clone, U: Copy))] struct S<T, U> { a: T, b: U }', '#[display("{a}")] #[display(bound(T: Clone))] #[display(bound(U: Copy))] struct S<T, U> { a: T, b: U }'),
    # trailing commas
    ("From", "#[from(u8, u16)] struct S(u64);", "#[from(u8, u16,)] struct S(u64);"),
    ("Into", "#[into(u16, u32)] struct S(u8);", "#[into(u16, u32,)] struct S(u8);"),
    ("Into", "#[into(owned(u16), ref)] struct S(u8);", "#[into(owned(u16,), ref,)] struct S(u8);"),
    ("AsRef", "#[as_ref(u8, [u8])] struct S(Vec<u8>);", "#[as_ref(u8, [u8],)] struct S(Vec<u8>);"),
    ("Display", '#[display("{} {a}", self.a, a = self.b)] struct S { a: u8, b: u8 }', '#[display("{} {a}", self.a, a = self.b,)] struct S { a: u8, b: u8 }'),
    ("Debug", '#[debug("{}", a)] struct S { a: u8 }', '#[debug("{}", a,)] struct S { a: u8 }'),
    ("Display", '#[display("x")] #[display(bound(T: Clone))] struct S<T>(T);', '#[display("x")] #[display(bound(T: Clone,))] struct S<T>(T);'),
    ("TryInto", "#[try_into(owned, ref)] enum E { A(u8), B(u16) }", "#[try_into(owned, ref,)] enum E { A(u8), B(u16) }"),
    ("Deref", "#[deref(forward)] struct S(Box<u8>);", "#[deref(forward,)] struct S(Box<u8>);"),
    # any order of independent attributes / parameters
    ("TryInto", "#[try_into(owned, ref, ref_mut)] enum E { A(u8), B(u16) }", "#[try_into(ref_mut, owned, ref)] enum E { A(u8), B(u16) }"),
    ("Unwrap", "#[unwrap(owned, ref)] enum E { A(u8), B }", "#[unwrap(ref, owned)] enum E { A(u8), B }"),
    ("TryUnwrap", "#[try_unwrap(ref_mut, ref)] enum E { A(u8), B }", "#[try_unwrap(ref, ref_mut)] enum E { A(u8), B }"),
    ("IntoIterator", "#[into_iterator(owned, ref_mut)] struct S(Vec<u8>);", "#[into_iterator(ref_mut, owned)] struct S(Vec<u8>);"),
    ("Error", "struct S { #[error(source, not(backtrace))] a: E1, b: u8 }", "struct S { #[error(not(backtrace), source)] a: E1, b: u8 }"),
    ("Display", '#[display("{a}")] #[display(bound(T: Clone))] struct S<T> { a: T }', '#[display(bound(T: Clone))] #[display("{a}")] struct S<T> { a: T }'),
    ("Debug", '#[debug("{a}")] #[debug(bound(T: Clone))] struct S<T> { a: T }', '#[debug(bound(T: Clone))] #[debug("{a}")] struct S<T> { a: T }'),
    ("Deref", "struct S { #[deref] #[deref_mut] a: u8, b: u8 }", "struct S { #[deref_mut] #[deref] a: u8, b: u8 }"),
    ("TryFrom", "#[try_from(repr)] #[repr(u8)] enum E { A, B }", "#[repr(u8)] #[try_from(repr)] enum E { A, B }"),
    ("Into", "#[into(owned(u16), ref(u8))] struct S(u8);", "#[into(ref(u8), owned(u16))] struct S(u8);"),
    ("TryFrom", "#[try_from(repr)] #[repr(u8)] #[repr(align(8))] enum E { A, B }", "#[try_from(repr)] #[repr(align(8))] #[repr(u8)] enum E { A, B }"),
    ("TryFrom", "#[try_from(repr)] #[repr(align(8), u8)] enum E { A, B }", "#[try_from(repr)] #[repr(align(8))] #[repr(u8)] enum E { A, B }"),
    ("TryFrom", "#[try_from(repr)] #[repr(u16, align(2))] enum E { A = 300, B }", "#[repr(align(2))] #[try_from(repr)] #[repr(u16)] enum E { A = 300, B }"),
    ("TryFrom", "#[try_from(repr)] #[repr(i8)] #[repr(align(1))] #[repr(align(2))] enum E { A = -1, B }", "#[try_from(repr)] #[repr(align(1))] #[repr(align(2))] #[repr(i8)] enum E { A = -1, B }"),
    ("Display", '#[display("x",)] struct S(u8);', '#[display("x")] struct S(u8);'), ("Debug", '#[debug("x",)] struct S(u8);', '#[debug("x")] struct S(u8);'),
    ("Display", 'enum E { #[display("a",)] A, #[display("{}", 1,)] B }', 'enum E { #[display("a")] A, #[display("{}", 1)] B }'),
    ("UpperHex", '#[upper_hex("{_0:X}",)] struct S(u8);', '#[upper_hex("{_0:X}")] struct S(u8);'),
    ("Display", '#[display("{a}")] #[display(rename_all = "snake_case")] enum E { A { a: u8 }, BeeCee }', '#[display(rename_all = "snake_case")] #[display("{a}")] enum E { A { a: u8 }, BeeCee }'),
]

def generated_synonyms():
    """one attribute listing several arguments == several attributes listing one each, in every order"""
    import itertools
    out = []
    args = {"owned": ["owned", "owned(u16)", "owned(u16, u32)"], "ref": ["ref", "ref(u8)"], "ref_mut": ["ref_mut", "ref_mut(u8)"]}
    for kinds in list(itertools.combinations(args, 2)) + [tuple(args)]:
        for choice in itertools.product(*(args[k] for k in kinds)):
            one = "#[into(" + ", ".join(choice) + ")] struct S(u8);"
            for perm in itertools.permutations(choice):
                out.append(("Into", one, " ".join(f"#[into({a})]" for a in perm) + " struct S(u8);"))
            onef = "struct S { #[into(" + ", ".join(choice) + ")] a: u8, b: u16 }"
            for perm in itertools.permutations(choice):
                out.append(("Into", onef, "struct S { " + " ".join(f"#[into({a})]" for a in perm) + " a: u8, b: u16 }"))
    tys = ["u8", "u16", "(u8, u8)", "[u8; 2]"]
    for k in (2, 3):
        for choice in itertools.combinations(tys, k):
            out.append(("From", "#[from(" + ", ".join(choice) + ")] struct S(u64);", " ".join(f"#[from({t})]" for t in choice) + " struct S(u64);"))
            out.append(("AsRef", "#[as_ref(" + ", ".join(choice) + ")] struct S(u64);", " ".join(f"#[as_ref({t})]" for t in choice) + " struct S(u64);"))
            out.append(("AsMut", "struct S { #[as_mut(" + ", ".join(choice) + ")] a: u64, b: u8 }", "struct S { " + " ".join(f"#[as_mut({t})]" for t in choice) + " a: u64, b: u8 }"))
    for perm in itertools.permutations(["owned", "ref", "ref_mut"]):
        for d, a in (("TryInto", "try_into"), ("Unwrap", "unwrap"), ("TryUnwrap", "try_unwrap"), ("IntoIterator", "into_iterator")):
            item = "enum E { A(u8), B(u16) }" if d != "IntoIterator" else "struct S(Vec<u8>);"
            out.append((d, f"#[{a}(owned, ref, ref_mut)] {item}", f"#[{a}({', '.join(perm)})] {item}"))
    return out


# (derive, corrupted item, kind of corruption): each must be rejected with a diagnostic
CORRUPTIONS = [
    # unknown argument
    ("Deref", "#[deref(bogus)] struct S(u8);", "unknown"), ("DerefMut", "#[deref_mut(forwrd)] struct S(Box<u8>);", "unknown"),
    ("Index", "struct S { #[index(bogus)] a: Vec<u8> }", "unknown"), ("IntoIterator", "#[into_iterator(owned, refmut)] struct S(Vec<u8>);", "unknown"),
    ("Mul", "#[mul(forwardd)] struct S(u8);", "unknown"), ("MulAssign", "#[mul_assign(bogus)] struct S(u8);", "unknown"),
    ("Error", "struct S { #[error(sauce)] a: E1 }", "unknown"), ("TryInto", "#[try_into(owned, bogus)] enum E { A(u8) }", "unknown"),
    ("Unwrap", "#[unwrap(bogus)] enum E { A(u8) }", "unknown"), ("TryUnwrap", "enum E { #[try_unwrap(bogus)] A(u8) }", "unknown"),
    ("IsVariant", "enum E { #[is_variant(bogus)] A }", "unknown"), ("Debug", "struct S { #[debug(bogus)] a: u8 }", "unknown"),
    ("Debug", "#[debug(bogus(T: Clone))] struct S<T>(T);", "unknown"), ("Display", '#[display("x")] #[display(bogus(T: Clone))] struct S<T>(T);', "unknown"),
    ("Display", '#[display(rename_al = "snake_case")] enum E { A }', "unknown"), ("Display", '#[display(rename_all = "bogus_case")] enum E { A }', "unknown"),
    ("TryFrom", "#[try_from(bogus)] #[repr(u8)] enum E { A }", "unknown"), 
("Into", "#[into(owned, bogus(u8))] struct S(u8);", "unknown"),
    # duplicated where only one is allowed
    ("Deref", "#[deref(forward, forward)] struct S(Box<u8>);", "duplicate"), ("Deref", "#[deref(forward)] #[deref(forward)] struct S(Box<u8>);", "duplicate"),
    ("TryInto", "#[try_into(owned, ref, owned)] enum E { A(u8) }", "duplicate"), ("Unwrap", "#[unwrap(ref)] #[unwrap(ref_mut)] enum E { A(u8) }", "duplicate"),
    ("Error", "struct S { #[error(source, source)] a: E1 }", "duplicate"), ("Error", "struct S { #[error(not(backtrace, backtrace))] a: E1 }", "duplicate"),
    ("IsVariant", "enum E { #[is_variant(ignore, ignore)] A, B }", "duplicate"), ("Mul", "#[mul(forward)] #[mul(forward)] struct S(u8);", "duplicate"),
    ("From", "#[from(forward)] #[from(forward)] struct S(u8);", "duplicate"), ("From", "enum E { #[from(skip)] #[from(skip)] A(u8), B(u16) }", "duplicate"),
    ("AsRef", "#[as_ref(forward)] #[as_ref(forward)] struct S(Vec<u8>);", "duplicate"), ("AsRef", "struct S { #[as_ref] #[as_ref] a: u8 }", "duplicate"),
    ("Debug", "struct S { #[debug(skip)] #[debug(skip)] a: u8 }", "duplicate"), ("Debug", '#[debug("a")] #[debug("b")] struct S(u8);', "duplicate"),
    ("Display", '#[display("a")] #[display("b")] struct S(u8);', "duplicate"), ("Display", '#[display(rename_all = "snake_case")] #[display(rename_all = "UPPERCASE")] enum E { A }', "duplicate"),
    ("TryFrom", "#[try_from(repr)] #[try_from(repr)] #[repr(u8)] enum E { A }", "duplicate"), ("Into", "struct S { #[into(skip)] #[into(skip)] a: u8, b: u8 }", "duplicate"),
    ("From", "#[from] #[from] struct S(u8);", "duplicate"),
    # a second attribute of the same name after a *bare* first one (added after seed C17-j: the early return for the bare form
    # must not skip the one-attribute check)
    ("Deref", "struct S { #[deref] #[deref(ignore)] a: Box<u8>, b: u8 }", "duplicate"), ("Index", "struct S { #[index] #[index] a: Vec<u8>, b: u8 }", "duplicate"),
    ("TryInto", "enum E { #[try_into] #[try_into(ignore)] A(u8), B(u16) }", "duplicate"), ("Error", "struct S { #[error] #[error(not(source))] source: E1 }", "duplicate"),
    ("Unwrap", "enum E { #[unwrap] #[unwrap(ignore)] A(u8) }", "duplicate"), ("IntoIterator", "struct S { #[into_iterator] #[into_iterator(bogus)] a: Vec<u8>, b: u8 }", "duplicate"),
    ("DerefMut", "struct S(#[deref_mut] #[deref_mut(forward)] Box<u8>, u8);", "duplicate"), ("IsVariant", "enum E { #[is_variant] #[is_variant(ignore)] A, B }", "duplicate"),
    # contradicting another one on the same item
    ("Error", "struct S { #[error(source, not(source))] a: E1 }", "conflict"), ("Error", "struct S { #[error(not(backtrace), backtrace)] a: E1 }", "conflict"),
    ("Deref", "#[deref(forward, not(forward))] struct S(Box<u8>);", "conflict"), ("From", "#[from(forward)] #[from(u8)] struct S(u16);", "conflict"),
    ("From", "enum E { #[from(skip)] #[from] A(u8), B(u16) }", "conflict"), ("From", "#[from] #[from(forward)] struct S(u8);", "conflict"),
    ("AsRef", "struct S { #[as_ref(skip)] #[as_ref(forward)] a: Vec<u8>, b: u8 }", "conflict"), ("AsRef", "#[as_ref(forward)] #[as_ref(u8)] struct S(Vec<u8>);", "conflict"),
    ("AsRef", "#[as_ref(forward)] struct S(#[as_ref] Vec<u8>);", "conflict"), ("Debug", 'struct S { #[debug(skip)] #[debug("{a}")] a: u8 }', "conflict"),
    ("Debug", '#[debug("x")] struct S { #[debug("{a}")] a: u8 }', "conflict"),
    ("Into", "#[into(u16, owned(u32))] struct S(u8);", "conflict"),
    ("Into", "#[into(u16, ref(u8))] struct S(u8);", "conflict"), ("Into", "#[into(u16, ref)] struct S(u8);", "conflict"),
    ("Into", "#[into(ref_mut, u16)] struct S(u8);", "conflict"), ("Into", "#[into(ref_mut(u8), u16)] struct S(u8);", "conflict"),
    ("Into", "struct S { #[into(u16, ref(u8))] a: u8, b: u8 }", "conflict"), ("Into", "#[into(owned, u16)] struct S(u8);", "conflict"),
 ("Error", "struct S { #[error(source)] a: E1, #[error(source)] b: E1 }", "conflict"),
    ("Deref", "struct S { #[deref] a: u8, #[deref] b: u8 }", "conflict-panic-ok"),
    # meaningless for the item kind / wrong position
    ("AsRef", "#[as_ref(forward)] struct S(Vec<u8>, u8);", "position"), ("AsMut", "#[as_mut(u8)] struct S { a: u8, b: u8 }", "position"),
    ("AsRef", "#[as_ref(forward)] struct S;", "position"), ("AsRef", "#[as_ref(u8)] struct S();", "position"),
    ("AsMut", "#[as_mut(forward)] struct S { a: Vec<u8>, #[as_mut(skip)] b: u8 }", "position"),
    ("Mul", "struct S(#[mul(forward)] u8);", "position"), ("Mul", "#[mul(forward)] enum E { A(u8) }", "position"),
    ("Deref", "enum E { #[deref(forward)] A(u8) }", "position-panic-ok"),
    ("TryFrom", "#[try_from(repr)] struct S(u8);", "position"),
    ("Debug", "struct S<T> { #[debug(bound(T: Clone))] a: T }", "position"), ("Error", "#[error(source)] struct S { a: E1 }", "position"),
    ("Error", "enum E { #[error(backtrace)] A { a: E1 } }", "position"), ("TryInto", "enum E { A(#[try_into(owned)] u8) }", "position"),
    ("Unwrap", "enum E { A(#[unwrap(ref)] u8) }", "position"),
   
    ("Debug", "#[debug(skip)] struct S(u8);", "position"),
    ("IsVariant", "#[is_variant(owned)] enum E { A }", "position"),
    ("Into", "enum E { #[into(u8)] A(u8) }", "position-note: Into is not derivable for enums"),
    # pre-1.0 legacy syntax
    ("Display", '#[display(fmt = "x")] struct S;', "legacy"), ("Display", '#[display(fmt = "{}", "_0")] struct S(u8);', "legacy"),
 ("Debug", '#[debug(fmt = "x")] struct S;', "legacy"),
 ("Display", '#[display("x")] #[display(bound = "T: Clone")] struct S<T>(T);', "legacy"),
    ("From", "#[from(types(u8, u16))] struct S(u32);", "legacy"), ("From", '#[from(types("u8"))] struct S(u32);', "legacy"),
    ("Into", "#[into(types(u8, u16))] struct S(u32);", "legacy"), ("Into", "#[into(owned(types(u16)))] struct S(u8);", "legacy"),
    ("From", "#[from(forward = true)] struct S(u8);", "legacy"), ("Deref", '#[deref = "forward"] struct S(Box<u8>);', "legacy"),
]


def run(tier):
    res = C.Result("C17", tier)
    rng = C.Rng(C.seed())
    extra, cov, corr_bad = [], {}, []
    try:
        inproc = C.cargo_build_inproc()
        lean_ok, _ = C.lake_build(["Dm.Props.C17", "Dm.Props.C17Typed", "Dm.Props.C17Fmt", "dmdriver"])
        # A. legacy parser: model vs get_meta_info (hook) on generated attribute lists
        n = 6000 if tier == "quick" else 120000
        cases = [gen_attrs(rng, "deref") for _ in range(n)]
        impl = C.drive(inproc, [f"meta deref {','.join(a) if a else '-'} {C.hexs(src)}" for a, src, _ in cases])
        model = C.drive_lean([req for _, _, req in cases]) if lean_ok else [None] * n
        kinds = {}
        for (a, src, req), ia, ma in zip(cases, impl, model):
            got = ia if ia.startswith("ok") else ("err" if ia.startswith("err") and not ia.startswith("err syn") else "syn")
            kinds[got.split(" ")[0]] = kinds.get(got.split(" ")[0], 0) + 1
            if got == "syn":
                continue
            if ma is not None and got != ma:
                corr_bad.append({"allowed": a, "attrs": src, "impl": ia[:200], "model": ma})
        # B. synonymous spellings on the real expansions
        prelude_note = "E1 stands for any error type"
        synonyms = SYNONYMS + generated_synonyms()
        out = C.drive(inproc, [f"expand {d} {C.hexs(x)}" for d, a, b in synonyms for x in (a, b)])
        n_syn = 0
        for k, (d, a, b) in enumerate(synonyms):
            ra, rb = out[2 * k], out[2 * k + 1]
            n_syn += 1
            if not ra.startswith("ok") or not rb.startswith("ok"):
                bad, ans = (a, ra) if not ra.startswith("ok") else (b, rb)
                res.violation(f"synonym-rejected:{d}:{bad[:100]}", f"#[derive({d})] {bad}: a documented spelling is not accepted: {ans[:200]}",
                              {"cmd": f"expand {d}", "source": bad, "answer": ans[:600], "other_spelling": b if bad == a else a})
            elif impls(ra) != impls(rb):
                res.violation(f"synonym-differs:{d}:{a[:80]}", f"#[derive({d})]: `{a}` and `{b}` expand differently",
                              {"cmd": f"expand {d}", "a": a, "b": b, "expansion_a": ra[:3000], "expansion_b": rb[:3000]})
        # C. single-step corruptions must be diagnosed
        out = C.drive(inproc, [f"expand {d} {C.hexs(x)}" for d, x, _ in CORRUPTIONS])
        ckinds = {}
        for (d, src, kind), ans in zip(CORRUPTIONS, out):
            k0 = kind.split("-")[0]
            verdict = "diag" if ans.startswith("err") else ("panic" if ans.startswith("panic") else "accepted")
            ckinds[k0 + "/" + verdict] = ckinds.get(k0 + "/" + verdict, 0) + 1
            if verdict == "accepted" or (verdict == "panic" and "panic-ok" not in kind):
                res.violation(f"corruption-{verdict}:{d}:{src[:100]}",
                              f"#[derive({d})] {src}: the {k0} argument is {'silently accepted' if verdict == 'accepted' else 'answered by a panic instead of a diagnostic'}",
                              {"cmd": f"expand {d}", "source": src, "corruption": kind, "answer": ans[:800]})
        # D. typed attribute parsers (From, AsRef, TryFrom, Into): token-level argument lists -> model `ta` -> parsed
        #    attribute -> C08 / C14 models -> predicted expansion, against the working tree; then the synonymous
        #    rewrites the theorems license (order, trailing commas, one attribute or several, skip/ignore) on the
        #    real expansions
        nt = 400 if tier == "quick" else 8000
        tcases, tbad, tdist = TA.correspondence(inproc, C.drive_lean, rng, nt) if lean_ok else ([], [], {})
        seen_panics = set()
        for b in sorted(tbad, key=lambda b: len(b["source"])):
            if b["impl"] == "panic":
                site = b["raw"].split(" ")[1] if len(b["raw"].split(" ")) > 1 else "?"
                if site in seen_panics:
                    continue
                seen_panics.add(site)
            if b["impl"].startswith("ok") and b["model"].startswith("err"):
                res.violation(f"typed-accepted:{b['source'][:120]}", f"#[derive({TA.DERIVE[b['grammar']]})] {b['source']}: the malformed / duplicated / contradicting attribute is accepted",
                              {"cmd": f"expand {TA.DERIVE[b['grammar']]}", "source": b["source"], "model": b["model"], "impl": b["impl"][:600]})
            elif b["impl"] == "panic":
                res.violation(f"typed-panic:{b['source'][:120]}", f"#[derive({TA.DERIVE[b['grammar']]})] {b['source']}: answered by a panic instead of a diagnostic ({b['raw'][:160]})",
                              {"cmd": f"expand {TA.DERIVE[b['grammar']]}", "source": b["source"], "answer": b["raw"]})
        ta_ans = C.drive_lean([req for _, _, req, _ in tcases]) if lean_ok and tcases else []
        tsyn = TA.synonym_cases(rng, tcases, ta_ans)
        out = C.drive(inproc, [f"expand {TA.DERIVE[g]} {C.hexs(x)}" for g, _, a, b in tsyn for x in (a, b)])
        syn_kinds = {}
        for k, (g, kind, a, b) in enumerate(tsyn):
            ra, rb = out[2 * k], out[2 * k + 1]
            syn_kinds[kind] = syn_kinds.get(kind, 0) + 1
            if ra.startswith("ok") and impls(ra) != impls(rb):
                res.violation(f"typed-synonym:{kind}:{a[:80]}|{b[:80]}", f"#[derive({TA.DERIVE[g]})]: `{a}` and its {kind} rewrite `{b}` do not expand to the same impls ({rb[:120]})",
                              {"cmd": f"expand {TA.DERIVE[g]}", "a": a, "b": b, "rewrite": kind, "expansion_a": ra[:2000], "expansion_b": rb[:2000]})
        # E. container attributes of the formatting derives: model `fc` -> normal-form spelling, expanded by the working
        #    tree, must equal the expansion of the attributes as written; what the model rejects must be rejected
        nf = 150 if tier == "quick" else 3000
        fcases, fbad, fdist = FC.correspondence(inproc, C.drive_lean, rng, nf, impls) if lean_ok else ([], [], {})
        for b in sorted(fbad, key=lambda b: len(b["source"]))[:6]:
            d = FC.POSITIONS[b["position"]][0]
            if "normal_form" in b:
                res.violation(f"fmt-container-synonym:{b['source'][:120]}", f"#[derive({d})]: `{b['source']}` and the same attributes in normal form `{b['normal_form']}` do not expand to the same impl",
                              {"cmd": f"expand {d}", "a": b["source"], "b": b["normal_form"], "expansion_a": b["impl"], "expansion_b": b["impl_normal_form"]})
            elif b.get("model") == "err" and b.get("impl") == "ok":
                res.violation(f"fmt-container-accepted:{b['source'][:120]}", f"#[derive({d})] {b['source']}: the unknown / duplicated / legacy attribute is accepted",
                              {"cmd": f"expand {d}", "source": b["source"], "answer": b.get("raw", "")})
            elif b.get("impl") == "panic":
                res.violation(f"fmt-container-panic:{b['source'][:120]}", f"#[derive({d})] {b['source']}: answered by a panic instead of a diagnostic",
                              {"cmd": f"expand {d}", "source": b["source"], "answer": b.get("raw", "")})
        # F. field attributes of Debug under / without a struct- or variant-level format
        dcases, dbad, ddist = FC.debug_fields_correspondence(inproc, C.drive_lean, rng, 600 if tier == "quick" else 12000) if lean_ok else ([], [], {})
        for b in sorted(dbad, key=lambda b: len(b["source"]))[:4]:
            if b["model"] == "err" and b["impl"] == "ok":
                res.violation(f"debug-field-accepted:{b['source'][:120]}", f"#[derive(Debug)] {b['source']}: the unknown / duplicated / contradicting field attribute is accepted",
                              {"cmd": "expand Debug", "source": b["source"], "answer": b["raw"]})
            elif b["impl"] == "panic":
                res.violation(f"debug-field-panic:{b['source'][:120]}", f"#[derive(Debug)] {b['source']}: answered by a panic instead of a diagnostic",
                              {"cmd": "expand Debug", "source": b["source"], "answer": b["raw"]})
        corr_typed = [b for b in tbad] + fbad + dbad
        extra = [("correspondence: legacy attribute parser model == get_meta_info (hook)", lean_ok and not corr_bad),
                 ("correspondence: typed attribute parser model (ta) + C08/C14 models == working-tree verdict, diagnostic kind and expansion; fmt container attribute model (fc) normal forms == working-tree expansions", lean_ok and not corr_typed)]
        corr_bad = corr_bad + corr_typed
        cov = {
            "evaluations": n + 2 * n_syn + len(CORRUPTIONS) + len(tcases) + 2 * len(tsyn) + 2 * len(fcases),
            "distinct_nontrivial": len({c[1] + "|" + ",".join(c[0]) for c in cases}) + n_syn + len(CORRUPTIONS),
            "rule": "distinct (allow-list, attribute list) inputs of the legacy parser + synonym pairs + corrupted items expanded by the working-tree code",
            "traces_validated_against_impl": n + len(tcases) + len(fcases) + len(dcases),
            "model_vs_impl_disagreements": len(corr_bad),
            "distribution": {"legacy_parser_cases": n, "legacy_outcomes": kinds, "synonym_pairs": n_syn, "corruptions": len(CORRUPTIONS), "corruption_outcomes": ckinds,
                             "typed_attribute_cases": len(tcases), "typed_outcomes": tdist, "typed_synonym_rewrites": syn_kinds,
                             "fmt_container_cases": len(fcases), "fmt_container_outcomes": fdist,
                             "debug_field_attribute_cases": len(dcases), "debug_field_outcomes": ddist},
            "samples": [{"allowed": c[0], "attrs": c[1]} for c in cases[:3]],
        }
    except C.BuildError as e:
        res.violation("build", e.what, {"output": e.output[-3000:]}, found_input=False)
        cov = {"build_error": e.what}
    failed = C.proof_obligations(res, "C17", ["C17", "C17Typed", "C17Fmt"], extra)
    if failed and not res.violations:
        res.violation("obligations:" + ";".join(failed)[:200], "proof obligation / correspondence no longer checks: " + "; ".join(failed)[:400],
                      {"failed_obligations": failed, "correspondence_disagreements": corr_bad[:8]}, found_input=False)
    elif corr_bad:
        res.coverage["correspondence_disagreements"] = corr_bad[:8]
    res.coverage.update(cov)
    res.coverage["impl_vs_oracle_failures"] = len(res.violations)
    res.coverage["trusted_base"] += [
        "model of get_meta_info / parse_punctuated_nested_meta written by hand and compared with the real functions through the guarded hook; the `types(..)` arm is unreachable (no allow-list contains `types`) and not modelled",
        "model of the typed attribute parsers of utils.rs `mod attr` (Empty, Forward, Skip, Types, Either, Conversion, FieldConversion, ReprConversion, parse_attrs_with / merge_attrs), of into.rs (ConversionsAttribute, FieldAttribute, StructAttribute, check_legacy_syntax) and of from.rs's ConsiderLegacySyntax, written by hand over classified argument items (identifier / path type / other type / literal / nested list) and compared with the working tree on generated argument lists: verdict, legacy-or-other diagnostic, and expansion (through the C08 / C14 models)",
        "the classification of an argument by `syn` (what parses as a type / path / meta) is an assumption of that model, validated by the same comparison",
        "model of the container attributes of the formatting derives (fmt/mod.rs ContainerAttributes / BoundsAttribute, display.rs ContainerAttributes / RenameAllAttribute, debug.rs's variant-level FmtAttribute and its no-format-on-enum rule) over attributes classified by what leads them (format literal, bound / bounds list, rename_all, legacy forms, anything else); tied to the working tree by expanding the model's answer in normal-form spelling and comparing with the expansion of the attributes as written",
        "the field attributes of Debug are modelled as kinds (skip / format / unreadable) with the one-attribute-per-field and no-field-format-under-a-container-format rules; ReprInt and Error's attributes (Error goes through the legacy parser) are not modelled separately in Lean: their synonym / rejection behaviour is decided on the hand-written tables of spellings and single-step corruptions run against the working-tree expansions",
        "syn's parsing of attribute token trees (commas, parentheses) is trusted",
    ]
    return res.finish()

"""C02 — derived formatting prints exactly what format! prints for the same literal."""
from . import common as C
from . import fmtgen as G
from . import fmtx

TYCH = {"Display": "", "Debug": "?", "LowerHex": "x", "UpperHex": "X", "Octal": "o", "Binary": "b",
        "LowerExp": "e", "UpperExp": "E", "Pointer": "p"}

# type -> (constructor expression, placeholder type chars it supports, expression forms over a reference `n`)
FIELD_TYPES = {
    "u8": ("201u8", ["", "?", "x", "X", "o", "b", "e", "E"], ["*{n} as u16 + 1", "{n}.count_ones()", "{n}"]),
    "i32": ("-42i32", ["", "?", "x", "X", "o", "b", "e", "E"], ["{n}.abs()", "-*{n}"]),
    "String": ('String::from("s\\"t r")', ["", "?"], ["{n}.len()", "{n}.to_uppercase()", "&{n}[1..]"]),
    "&'static str": ('"héllo"', ["", "?"], ["{n}.chars().count()", "{n}"]),
    "f64": ("1234.5678f64", ["", "?", "e", "E"], ["{n}.floor()", "*{n} * 2.0"]),
    "bool": ("true", ["", "?"], ["!*{n}"]),
    "char": ("'ß'", ["", "?"], ["{n}.len_utf8()"]),
    "&'static u8": ("&PTR_TARGET", ["", "?", "x", "p", "p", "p"], ["**{n} + 1"]),
    "Option<u8>": ("Some(3u8)", ["?"], ["{n}.is_some()", "{n}.unwrap_or(0)"]),
    "(u8, char)": ("(7u8, 'q')", ["?"], ["{n}.0"]),
}

PRELUDE = r'''
#![allow(dead_code, unused_variables, non_camel_case_types, unused_imports, non_snake_case, unused_parens)]
pub static PTR_TARGET: u8 = 9;
pub static mut FAILS: u32 = 0;
pub static mut CHECKS: u32 = 0;
pub fn check(id: &str, what: &str, got: String, want: String) {
    unsafe { CHECKS += 1; }
    if got != want { unsafe { FAILS += 1; } println!("FAIL|{}|{}|{}|{}", id, what, got, want); }
}
'''

MODS = ["", "", "", ">8", "<6", "^9", "+", "#", "08", ".2", "*>7.1", " ", ">w$", ".p$", ".*", "1$"]


def gen_container(rng, derive, vi=""):
    """One struct body / enum variant: fields + optional attribute + the documented reference."""
    named = rng.chance(1, 2)
    k = rng.below(4)
    tys = [rng.choice(list(FIELD_TYPES)) for _ in range(k)]
    pool = ["a", "b", "c", "r#type", "self_", "source"]
    names = rng.sample(pool, k) if named else [f"_{i}" for i in range(k)]
    unraw = lambda n: n[2:] if n.startswith("r#") else n
    pieces, args, named_args = [], [], []
    lit_named = []          # fields named inside the literal
    mode = rng.below(6)
    if k == 0:
        mode = rng.choice([0, 1, 1])
    elif k == 1 and rng.chance(1, 3):
        mode = 0
    elif k > 1 and mode == 0:
        mode = 1
    attr = None
    if mode != 0:
        pos = 0
        nph = rng.below(5)
        if rng.chance(1, 3):
            pieces.append(rng.choice(["val: ", "{{", "é}} ", "[", "a=b "]))
        for _ in range(nph):
            if not k or rng.chance(1, 6):
                # an argument that is not a field
                e = rng.choice(["1 + 2", '"lit"', "self.to_string_len()", "u8::MAX", "::core::primitive::u8::MIN"])
                if e == "self.to_string_len()":
                    e = "7usize"
                args.append(e)
                pieces.append("{" + str(len(args) - 1) + "}")
                continue
            fi = rng.below(k)
            n, t = names[fi], tys[fi]
            ctor, chs, exprs = FIELD_TYPES[t]
            ch = rng.choice(chs)
            mod = rng.choice(MODS) if ch != "p" else rng.choice(["", "", ">20"])
            form = rng.below(6)
            raw = n.startswith("r#")
            strlike = t in ("f64", "String", "&'static str")
            if mod == ".*":
                if strlike and len(args) == pos and ch in ("", "?", "e", "E"):
                    args.append("2usize")
                    args.append(n)
                    pieces.append("{:.*" + ch + "}")
                    pos += 2
                    if rng.chance(1, 3):
                        pieces.append(rng.choice([" ", ", ", "}}", "{{", "-"]))
                    continue
                mod = ""
            if mod == "1$":
                if len(args) <= 1 or args[1] == "11usize":
                    while len(args) < 2:
                        args.append("11usize")
                else:
                    mod = ""
            if mod == ".p$" and not (strlike and ch in ("", "?", "e", "E")):
                mod = ""
            uses_spec = not (form == 3 and not raw and ch in ("", "?"))
            if uses_spec and mod == ">w$" and "w = 9" not in named_args:
                named_args.append("w = 9")
            if uses_spec and mod == ".p$" and "p = 2" not in named_args:
                named_args.append("p = 2")
            spec = (":" + mod.strip() + ch) if (mod.strip() or ch) else ""
            if mod == " ":
                spec += " "
            if form == 1 and not raw:
                args.append(n)
                pieces.append("{" + str(len(args) - 1) + spec + "}")
            elif form == 2 and not raw:
                al = f"al{len(named_args)}"
                named_args.append(f"{al} = {n}")
                pieces.append("{" + al + spec + "}")
            elif form == 3 and not raw and ch in ("", "?"):
                e = rng.choice(exprs).replace("{n}", n)
                args.append(e)
                pieces.append("{" + str(len(args) - 1) + (":?" if ch == "?" else "") + "}")
            else:
                pieces.append("{" + unraw(n) + spec + "}")
                lit_named.append(fi)
            if rng.chance(1, 3):
                pieces.append(rng.choice([" ", ", ", "}}", "{{", "-"]))
        lit = "".join(pieces)
        # every positional argument must be used
        import re
        used = {int(m.group(1)) for m in re.finditer(r"\{(\d+)", lit)} | {int(m.group(1)) for m in re.finditer(r"(\d+)\$", lit)}
        implicit = len(re.findall(r"\{:|\{\}", lit)) + lit.count(".*")
        for i in range(implicit):
            used.add(i)
        for i in range(len(args)):
            if i not in used:
                lit += "{" + str(i) + ("}" if args[i] not in ("2usize", "11usize") else ":?}")
        attr = '"' + lit + '"' + "".join(", " + a for a in args + named_args)
    return {"named": named, "names": names, "tys": tys, "attr": attr, "lit_named": sorted(set(lit_named)), "mode": mode}


def decl(c, attr_name):
    a = f"#[{attr_name}({c['attr']})] " if c["attr"] is not None else ""
    if not c["names"]:
        body = "" if not c["named"] else " {}"
        return a, body
    if c["named"]:
        return a, " { " + ", ".join(f"{n}: {t}" for n, t in zip(c["names"], c["tys"])) + " }"
    return a, "(" + ", ".join(c["tys"]) + ")"


def reference_expr(c, derive, type_name, conv):
    """The documented text as a plain format! call (fields are bound as references by the caller;
    fields named inside the literal are passed by value)."""
    ch = TYCH[derive]
    if c["attr"] is not None:
        extra = "".join(f", {c['names'][fi]} = {c['names'][fi]}.clone()" for fi in c["lit_named"])
        return f"format!({c['attr']}{extra})"
    if len(c["names"]) == 1:
        # the field is bound by reference; `&T` formats like `T` under every trait except Pointer
        star = "*" if derive == "Pointer" else ""
        return f'format!("{{:{ch}}}", {star}{c["names"][0]})'
    return f'String::from("{conv(type_name)}")'


def value_expr(c, path):
    if not c["names"]:
        return path + (" {}" if c["named"] else "")
    vals = [FIELD_TYPES[t][0] for t in c["tys"]]
    if c["named"]:
        return path + " { " + ", ".join(f"{n}: {v}" for n, v in zip(c["names"], vals)) + " }"
    return path + "(" + ", ".join(vals) + ")"


def pattern(c, path):
    if not c["names"]:
        return path + (" {}" if c["named"] else "")
    if c["named"]:
        return path + " { " + ", ".join(c["names"]) + " }"
    return path + "(" + ", ".join(c["names"]) + ")"


def gen_type(rng, idx, convtab):
    derive = rng.choice(["Display", "Display", "Display", "Debug", "LowerHex", "UpperHex", "Octal", "Binary",
                         "LowerExp", "UpperExp", "Pointer"])
    an = G.ATTR_NAME[derive]
    ch = TYCH[derive]
    is_enum = rng.chance(1, 3)
    case = rng.choice([None, None, None] + G.CASES) if derive != "Debug" else None
    conv = lambda nm: convtab[(case[0], nm)] if case else nm
    if not is_enum:
        tname = rng.choice(["Point", "HTTPStatus", "r#type", "snake_name"])
        for _ in range(50):
            c = gen_container(rng, derive)
            ok_implicit = c["attr"] is not None or (len(c["names"]) == 1 and ch in FIELD_TYPES[c["tys"][0]][1]) or (
                not c["names"] and derive != "Debug")
            if derive == "Debug" and c["attr"] is None:
                ok_implicit = False
            if ok_implicit:
                break
        a, body = decl(c, an)
        rn = f'#[{an}(rename_all = "{case[1]}")] ' if case else ""
        semi = "" if c["named"] and (c["names"] or True) and body.startswith(" {") else ";"
        unraw = tname[2:] if tname.startswith("r#") else tname
        src = (f"#[derive(derive_more::{derive})] {rn}{a}pub struct {tname}{body}{semi}\n"
               f"pub fn reference(v: &{tname}) -> String {{ let {pattern(c, tname)} = v; {reference_expr(c, derive, unraw, conv)} }}\n"
               f'pub fn run() {{ let v = {value_expr(c, tname)}; check("{idx}", "value", format!("{{:{ch}}}", v), reference(&v)); }}')
        desc = f"#[derive({derive})] {rn}{a}struct {tname}{body}{semi}"
        return src, desc
    nv = 1 + rng.below(3)
    vnames = rng.sample(["Alpha", "BetaGamma", "r#fn", "HTTPError"], nv)
    decls, arms, vals = [], [], []
    for vn in vnames:
        for _ in range(50):
            c = gen_container(rng, derive)
            ok = c["attr"] is not None or (len(c["names"]) == 1 and ch in FIELD_TYPES[c["tys"][0]][1]) or (
                not c["names"] and derive == "Display")
            if derive == "Debug" and c["attr"] is None:
                ok = False
            if ok:
                break
        a, body = decl(c, an)
        decls.append(f"{a}{vn}{body}")
        unraw = vn[2:] if vn.startswith("r#") else vn
        arms.append(f"        {pattern(c, 'E::' + vn)} => {reference_expr(c, derive, unraw, conv)},")
        vals.append(value_expr(c, "E::" + vn))
    rn = f'#[{an}(rename_all = "{case[1]}")] ' if case else ""
    src = (f"#[derive(derive_more::{derive})] {rn}pub enum E {{ " + ", ".join(decls) + " }\n"
           "pub fn reference(v: &E) -> String {\n    match v {\n" + "\n".join(arms) + "\n    }\n}\n"
           f"pub fn run() {{ for (i, v) in [{', '.join(vals)}].iter().enumerate() {{ "
           f'check("{idx}", &i.to_string(), format!("{{:{ch}}}", *v), reference(v)); }} }}')
    desc = f"#[derive({derive})] {rn}enum E {{ " + ", ".join(decls) + " }"
    return src, desc


def behaviour(res, inproc, rng, tier):
    n = 260 if tier == "quick" else 3000
    names = ["Point", "HTTPStatus", "type", "snake_name", "Alpha", "BetaGamma", "fn", "HTTPError"]
    keys = [(c[0], nm) for c in G.CASES for nm in names]
    ans = C.drive(inproc, [f"case {c} {C.hexs(nm)}" for c, nm in keys])
    convtab = {k: C.unhex(a) for k, a in zip(keys, ans)}
    cf = C.CaseFile(PRELUDE)
    descs = {}
    for i in range(n):
        src, desc = gen_type(rng, i, convtab)
        cf.add(i, src, main_call=f"c{i}::run();")
        descs[str(i)] = desc
    # systematic part: every (field-name kind, type, placeholder trait) once bare and once inside text
    i = n
    for fname, named in (("a", True), ("r#type", True), ("_0", False)):
        for t, (ctor, chs, _) in FIELD_TYPES.items():
            for ch in sorted(set(chs)):
                for ctx in ("{}", "at {} ok"):
                    u = fname[2:] if fname.startswith("r#") else fname
                    lit = ctx.replace("{}", "{" + u + (":" + ch if ch else "") + "}")
                    body = f" {{ {fname}: {t} }}" if named else f"({t});"
                    val = f"T {{ {fname}: {ctor} }}" if named else f"T({ctor})"
                    pat = f"T {{ {fname} }}" if named else f"T({fname})"
                    src = (f'#[derive(derive_more::Display)] #[display("{lit}")] pub struct T{body}\n'
                           f'pub fn reference(v: &T) -> String {{ let {pat} = v; format!("{lit}", {fname} = {fname}.clone()) }}\n'
                           f'pub fn run() {{ let v = {val}; check("{i}", "value", format!("{{}}", v), reference(&v)); }}')
                    cf.add(i, src, main_call=f"c{i}::run();")
                    descs[str(i)] = f'#[derive(Display)] #[display("{lit}")] struct T{body}'
                    i += 1
    n = i
    d = C.scratch_crate("c02-fmt", cf.source('unsafe { println!("DONE checks={} fails={}", CHECKS, FAILS); }'))
    try:
        rc, out, err = C.scratch_run(d)
        if "DONE" not in out:
            # attribute failing cases: compile errors are failures of "format! accepts it, the derive does not"
            rc2, diags, err2 = C.scratch_check(d)
            by, stray = cf.errors_by_case(diags)
            if by:
                for cid, errs in list(by.items())[:10]:
                    res.violation("compile:" + C.hexs(descs[str(cid)]),
                                  f"{descs[str(cid)]} does not compile although the reference format! call is the same literal: {errs[0][:200]}",
                                  {"cmd": "compile", "type": descs[str(cid)], "errors": errs[:3]})
                return 0, n, []
            raise C.BuildError("C02 behaviour crate (real proc-macro) did not build/run", (err or out)[-3000:])
        checks = int(out.split("DONE checks=")[1].split()[0])
        seen = set()
        for l in out.splitlines():
            if not l.startswith("FAIL|"):
                continue
            _, cid, what, got, want = l.split("|", 4)
            if cid in seen:
                continue
            seen.add(cid)
            res.violation("fmt:" + C.hexs(descs[cid]),
                          f"{descs[cid]}: {what} prints {got!r}; format! with the same literal and the documented bindings prints {want!r}",
                          {"cmd": "behaviour", "type": descs[cid], "which": what, "got": got, "want": want})
        return checks, n, [descs["0"], descs["1"], descs["2"]]
    finally:
        C.scratch_cleanup(d)


def run(tier):
    res = C.Result("C02", tier)
    rng = C.Rng(C.seed())
    extra, bad, cov = [], [], {}
    try:
        inproc = C.cargo_build_inproc()
        lean_ok, _ = C.lake_build(["Dm.Props.C02", "dmdriver"])
        n = 150 if tier == "quick" else 3000
        cases, bad = fmtx.correspond(inproc, rng, G.TRAITS + ["Debug"], n) if lean_ok else ([], [])
        with_write = sum(1 for c in cases if c["impl"] and "core::write!" in c["impl"][0])
        checks, ntypes, samples = behaviour(res, inproc, rng, tier)
        extra = [("correspondence: Display-like/Debug expander model == working-tree expanders (fmt body token text)", lean_ok and not bad)]
        cov = {
            "evaluations": len(cases) + checks,
            "distinct_nontrivial": len({c["src"] for c in cases if c["impl"] and "core::write!" in c["impl"][0]}) + ntypes,
            "rule": "in-process: generated items whose body passes an attribute to write!; behaviour: generated types printed with the real macro next to a format! of the same literal",
            "traces_validated_against_impl": len(cases),
            "model_vs_impl_disagreements": len(bad),
            "distribution": {"items": len(cases), "items_with_write_body": with_write, "behaviour_types": ntypes,
                             "behaviour_value_checks": checks},
            "samples": [{"type": s} for s in samples],
        }
    except C.BuildError as e:
        res.violation("build", e.what, {"output": e.output[-3000:]}, found_input=False)
        cov = {"build_error": e.what}
    failed = C.proof_obligations(res, "C02", ["C02"], extra)
    if failed and not res.violations:
        res.violation("obligations:" + ";".join(failed)[:200], "proof obligation / correspondence no longer checks: " + "; ".join(failed)[:400],
                      {"failed_obligations": failed,
                       "correspondence_disagreements": [{"trait": b["trait"], "item": b["src"], "impl": b["impl"], "model": b["model"]} for b in bad[:8]]},
                      found_input=False)
    res.coverage.update(cov)
    res.coverage["impl_vs_oracle_failures"] = len(res.violations)
    res.coverage["trusted_base"] += [
        "model of the generated fmt bodies compared token-for-token with the working-tree expanders",
        "format_args! itself (the same macro on both sides of the behavioural comparison); `&T` formats like `T` except under Pointer",
    ]
    return res.finish()

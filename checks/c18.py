"""C18 — derive expansion is total: a result or a diagnostic, never an internal failure."""
import itertools
import os
import re
import subprocess
import sys

from . import common as C
from . import typedattr as TA
from . import fmtgen as G
from . import c08, c10, c11, c14, c19

sys.path.insert(0, os.path.join(C.VERIF, "tools"))
import gen_tables  # noqa: E402

COMBINATORS = ["char_brace", "char_wide", "any_char", "check_ws", "str_dollar", "one_of", "tw0_ws", "tw0_any", "tw1_digit", "tw1_ws",
               "tu1_any_brace", "tu1_ws_wide"]
# 1-, 2-, 3- and 4-byte characters; the only whitespace characters are U+0020, U+00A0, U+3000
COMB_ALPHABET = [" ", " ", "　", "a", "é", "€", "\U0001d11e", "{", "}", "0", "9", "$", "_"]
FMT_ALPHABET = ["{", "}", ":", "a", "0", "1", ".", "*", "$", "<", "^", "#", "?", "x", " ", "　", "é", "€", "\U0001d11e", "_", "+", "e"]

DERIVE_ATTR = {"Debug": "debug", "Display": "display", "Binary": "binary", "Octal": "octal", "LowerHex": "lower_hex", "UpperHex": "upper_hex",
               "LowerExp": "lower_exp", "UpperExp": "upper_exp", "Pointer": "pointer"}


def drive_robust(exe, lines, timeout_per=0.05):
    """drive() that survives a hang or an abort of the harness: bisects to the offending request.
    Returns (answers with None for the culprit(s), [(index, 'timeout'|'abort')])."""
    culprits = []

    def go(lo, hi):
        chunk = lines[lo:hi]
        try:
            return C.drive(exe, chunk, timeout=max(30, int(len(chunk) * timeout_per) + 30))
        except subprocess.TimeoutExpired:
            kind = "timeout"
        except C.BuildError:
            kind = "abort"
        if hi - lo == 1:
            culprits.append((lo, kind))
            return [None]
        mid = (lo + hi) // 2
        return go(lo, mid) + go(mid, hi)
    out = []
    step = 20000
    for lo in range(0, len(lines), step):
        out += go(lo, min(len(lines), lo + step))
    return out, culprits


def mutate_attr(rng, src):
    """One token-level mutation inside an attribute of `src` (delete / duplicate / swap / insert / drop a comma)."""
    spans = [m.span() for m in re.finditer(r"#\[[^\]]*\]", src)]
    if not spans:
        return None
    a, b = rng.choice(spans)
    body = src[a:b]
    toks = re.findall(r'"(?:[^"\\]|\\.)*"|\w+|[^\w\s]', body)
    if len(toks) < 4:
        return None
    inner = toks[2:-1]            # after `#` `[` ... before `]`
    if not inner:
        return None
    k = rng.below(len(inner))
    op = rng.below(8)
    junk = ["forward", "skip", "ignore", "owned", "ref", "ref_mut", "bound", "bounds", "source", "backtrace", "not", "repr", "types", "rename_all",
            "=", ",", "(", ")", "\"{}\"", "\"{0:?}\"", "\"{x}\"", "1", "u8", "T", "::", "<", ">", "'a", "!", "#", "r#type", "i32 i64", "()", "(,)", "[u8]"]
    if op == 0:
        inner = inner[:k] + inner[k + 1:]
    elif op == 1:
        inner = inner[:k] + [inner[k]] + inner[k:]
    elif op == 2 and len(inner) > 1:
        j = rng.below(len(inner))
        inner[k], inner[j] = inner[j], inner[k]
    elif op == 3:
        inner = inner[:k] + [rng.choice(junk)] + inner[k:]
    elif op == 4:
        commas = [i for i, t in enumerate(inner) if t == ","]
        if commas:
            c = rng.choice(commas)
            inner = inner[:c] + inner[c + 1:]
        else:
            inner = inner + [","]
    elif op == 7:
        # a trailing comma inside a nested list: `ref(i32,)`
        closers = [i for i, t in enumerate(inner) if t == ")" and i > 0 and inner[i - 1] not in ("(", ",")]
        if closers:
            c = rng.choice(closers)
            inner = inner[:c] + [","] + inner[c:]
        else:
            inner = inner + [","]
    elif op == 5:
        inner[k] = rng.choice(junk)
    else:
        # another derive's attribute name
        inner[0] = rng.choice(["from", "into", "display", "debug", "error", "as_ref", "try_into", "mul", "deref", "index", "unwrap", "try_from", "from_str"])
    return src[:a] + "#[" + " ".join(inner) + "]" + src[b:]


def gen_items(rng, n, inproc):
    """(derive the item was generated for, source) from every generator of the other properties."""
    return c19.gen_inputs(rng, n, inproc)


def fmt_literals(rng, tier):
    lits = []
    k = 3 if tier == "quick" else 4
    for n in range(0, k + 1):
        if n <= 2 or tier == "thorough":
            lits += ["".join(t) for t in itertools.product(FMT_ALPHABET, repeat=n)]
        else:
            for _ in range(6000):
                lits.append("".join(rng.choice(FMT_ALPHABET) for _ in range(n)))
    for _ in range(1500 if tier == "quick" else 20000):
        n = 4 + rng.below(30)
        lits.append("".join(rng.choice(FMT_ALPHABET) for _ in range(n)))
    lits += ["{" * 50, "}" * 50, "{" * 30 + "}" * 30, "{:" + "9" * 30 + "}", "{" + "9" * 30 + "}", "{:." + "9" * 40 + "$}", "{:" + "9" * 25 + "$}",
             "{0:" + "1" * 20 + "." + "1" * 20 + "}", "{:　}", "{:?　　}", "{a　}", "{:> }", "{\U0001d11e}", "{:\U0001d11e<5}",
             "{:€^#010.3?}", "{:.*}", "{:.*}{:.*}", "{:1$.2$}", "{:x$.y$?}", "é" * 300, "{}" * 200, "{{" * 100 + "{}" + "}}" * 100]
    seen, out = set(), []
    for l in lits:
        if l not in seen:
            seen.add(l); out.append(l)
    return out


def rust_str(s):
    return '"' + s.replace("\\", "\\\\").replace('"', '\\"') + '"'


def classify(ans, panic_lines):
    """ok | diag | deliberate | internal:<where> | unparsable"""
    if ans is None:
        return "internal:crash-or-hang"
    if ans.startswith("ok"):
        return "ok"
    if ans.startswith("err"):
        return "diag"
    if ans.startswith("panic"):
        m = re.match(r"panic (\S+):(\d+) (.*)", ans)
        if m:
            f, line, msg = m.group(1), int(m.group(2)), m.group(3)
            if f.startswith(C.REPO + "/"):
                rel = os.path.relpath(f, C.REPO)
                kind = panic_lines.get((rel, line))
                # a `panic!` / `assert!` with a message spans several lines: look a few lines up
                if kind is None:
                    for d in range(1, 6):
                        kind = panic_lines.get((rel, line - d))
                        if kind in ("panic!", "assert!"):
                            break
                        kind = None
                if kind in ("panic!", "assert!") and len(msg) > 8:
                    return "deliberate"
                return f"internal:{rel}:{line} {msg[:120]}"
            return f"internal:{f.split('/src/')[-1] if '/src/' in f else f}:{line} {msg[:120]}"
        return "internal:" + ans[:160]
    return "unparsable"


def run(tier):
    res = C.Result("C18", tier)
    rng = C.Rng(C.seed())
    extra, cov, corr_bad = [], {}, []
    pn = None
    try:
        exe = gen_tables.build_translate()
        os.makedirs(gen_tables.GEN, exist_ok=True)
        pn = gen_tables.gen_panics(exe)
        inproc = C.cargo_build_inproc()
        lean_ok, _ = C.lake_build(["Dm.Props.C18", "dmdriver"])
        # 1. byte-level combinator model vs the real combinators (hook), exhaustive short strings + random long ones
        strings = []
        for n in range(0, 4 if tier == "quick" else 5):
            strings += ["".join(t) for t in itertools.product(COMB_ALPHABET, repeat=n)]
        for _ in range(2000 if tier == "quick" else 40000):
            strings.append("".join(rng.choice(COMB_ALPHABET) for _ in range(4 + rng.below(40))))
        reqs = [(name, s) for name in COMBINATORS for s in strings]
        impl, crashed = drive_robust(inproc, [f"comb {n} {C.hexs(s)}" for n, s in reqs])
        model = C.drive_lean([f"bc {n} {C.hexs(s)}" for n, s in reqs]) if lean_ok else [None] * len(reqs)
        comb_panics = 0
        for (n, s), ia, ma in zip(reqs, impl, model):
            if ia is None or ia.startswith("panic"):
                comb_panics += 1
                if comb_panics <= 3:
                    res.violation(f"combinator:{n}:{s[:40]}", f"fmt::parsing combinator instance `{n}` on {s!r}: {ia}",
                                  {"cmd": f"comb {n}", "input": s, "impl": ia, "model": ma})
            elif ma is not None and ia != ma:
                corr_bad.append({"combinator": n, "input": s, "impl": ia, "model": ma})
        # 2. every derive on every generated item (matching and non-matching derives), mutated attributes, fmt literals
        derives = C.drive(inproc, ["derives"])[0].split()
        items = gen_items(rng, 300 if tier == "quick" else 3000, inproc)
        lines, meta = [], []
        for d0, src in items:
            for d in ([d0] + rng.sample(derives, 4 if tier == "quick" else 12)):
                lines.append(f"expand {d} {C.hexs(src)}"); meta.append((d, src, "shape"))
        # the same items as `macro_rules!` hands them over: every field type inside an invisible group (`$t:ty`)
        for d0, src in items:
            lines.append(f"expandg {d0} {C.hexs(src)}"); meta.append((d0, src, "macro-fragment-types"))
        shapes = ["union U { a: u8, b: u16 }", "struct Unit;", "enum Empty {}", "struct Tup();", "struct Named {}", "enum E { A = 1, B(u8) = 2 }",
                  "struct G<'a, T: ?Sized, const N: usize>(&'a T, [u8; N]);", "enum Never { A(core::convert::Infallible) }",
                  "struct R { r#type: u8, r#fn: u8 }", "enum R2 { r#type, r#fn(u8), r#match { r#type: u8 } }", "struct W where u8: Copy;",
                  "#[repr(u8)] enum D { A = 255, B }", "#[repr(i8)] enum D2 { A = -128, B = 127 }", "enum Big { A = 18446744073709551615 }",
                  "struct Deep(((((((((u8,),),),),),),),),));", "struct Fnp(fn(u8) -> u8, *const u8, &'static dyn Fn(u8), !);"]
        for src in ["#[into(owned(u16, u32), ref(u8), ref_mut)] struct S(u8);", "#[into(ref(i32), ref, owned)] struct S(i32);",
                    "struct S { #[into(owned(u64), ref)] a: u8, #[into(skip)] b: u8 }", "#[from(u8, u16)] #[from(forward)] struct S(u32);",
                    "#[as_ref(u8, [u8])] struct S(Vec<u8>);", "#[try_into(owned, ref(x))] enum E { A(u8) }"]:
            for _ in range(40 if tier == "quick" else 400):
                m = mutate_attr(rng, src)
                if m and m != src:
                    d = "Into" if "into" in src else ("From" if "from" in src else ("AsRef" if "as_ref" in src else "TryInto"))
                    lines.append(f"expand {d} {C.hexs(m)}"); meta.append((d, m, "mutated-attr"))
        # a separator comma left out at every position of the typed attribute lists: a diagnostic, never a `Punctuated` assertion
        # (deterministic since the statement-deletion batch of session 3: the random comma deletions hit these only at times)
        for d, src in (("Into", "#[into(owned(i64) i32)] struct S(i32);"), ("Into", "#[into(owned(i64) ref(i32))] struct S(i32);"),
                       ("Into", "#[into(i64 i32)] struct S(i32);"), ("Into", "#[into(ref(i32) ref_mut)] struct S(i32);"),
                       ("Into", "#[into(ref ref_mut(i32))] struct S(i32);"), ("Into", "struct S { #[into(owned(i64) i32)] a: i32, b: u8 }"),
                       ("Into", "#[into(owned(i64, i128) owned)] struct S(i32);"), ("Into", "#[into(owned(i64,) i32)] struct S(i32);"),
                       ("From", "#[from(u8 u16)] struct S(u32);"), ("From", "enum E { #[from(u8 u16)] A(u32), B }"),
                       ("AsRef", "#[as_ref(str String)] struct S(String);"), ("AsMut", "struct S { #[as_mut(str [u8])] a: String }"),
                       ("TryInto", "#[try_into(owned ref)] enum E { A(u8) }"), ("Display", '#[display("x" 1)] struct S;'),
                       ("Display", '#[display("{} {}", 1 2)] struct S;'), ("Debug", '#[debug("{}" a)] struct S { a: u8 }')):
            lines.append(f"expand {d} {C.hexs(src)}"); meta.append((d, src, "missing-comma"))
        for src in shapes:
            for d in derives:
                lines.append(f"expand {d} {C.hexs(src)}"); meta.append((d, src, "kind"))
        # argument lists over the whole vocabulary of the typed attributes (nested lists, literals, legacy `types(..)`,
        # keywords), at struct, variant and field level, for every attribute-taking derive
        n_typed = 0
        for d in derives:
            a = re.sub(r"(?<!^)(?=[A-Z])", "_", d).lower()
            for g in ("into-struct", "from-variant"):
                pool = TA.templates("into-struct")
                for k in range(len(pool) + (60 if tier == "quick" else 600)):
                    attr = ("l", rng.chance(1, 5), list(pool[k])) if k < len(pool) else TA.gen_attr(rng, g)
                    asrc = TA.attr_src(a, attr)
                    for src in (f"{asrc}struct S(u8);", f"struct S({asrc}u8, i16);", f"enum E {{ {asrc}A(u8), B }}",
                                f"{asrc}enum E {{ A(u8), B }}", f"struct S {{ {asrc}a: u8 }}")[(k % 5):(k % 5) + 2]:
                        n_typed += 1
                        lines.append(f"expand {d} {C.hexs(src)}"); meta.append((d, src, "typed-attr-args"))
        n_mut = 0
        for d0, src in items:
            for _ in range(3 if tier == "quick" else 10):
                m = mutate_attr(rng, src)
                if m and m != src:
                    n_mut += 1
                    lines.append(f"expand {d0} {C.hexs(m)}"); meta.append((d0, m, "mutated-attr"))
        lits = fmt_literals(rng, tier)
        for i, lit in enumerate(lits):
            d = "Display" if i % 3 else "Debug"
            a = DERIVE_ATTR[d]
            src = f"#[{a}({rust_str(lit)}, a = self.x)] struct S {{ x: u8, y: u8 }}" if i % 2 else f"#[{a}({rust_str(lit)})] struct S(u8, u8);"
            lines.append(f"expand {d} {C.hexs(src)}"); meta.append((d, src, "literal"))
            if i % 7 == 0:
                src2 = f"enum E {{ #[{a}({rust_str(lit)})] A(u8), B {{ #[{a}({rust_str(lit)})] x: u8 }} }}"
                lines.append(f"expand {d} {C.hexs(src2)}"); meta.append((d, src2, "literal"))
        answers, crashed2 = drive_robust(inproc, lines)
        cls_count = {}
        internal = {}
        for (d, src, origin), ans in zip(meta, answers):
            c = classify(ans, pn["panic_lines"])
            key = c.split(":")[0] + ("" if not c.startswith("internal") else "")
            cls_count[origin + "/" + key] = cls_count.get(origin + "/" + key, 0) + 1
            if c.startswith("internal"):
                where = c[len("internal:"):]
                loc = where.split(" ")[0]
                if loc not in internal or len(src) < len(internal[loc][1]):
                    internal[loc] = (d, src, where, origin)
        for loc, (d, src, where, origin) in sorted(internal.items())[:12]:
            res.violation(f"panic:{loc}", f"#[derive({d})] on `{src[:200]}` aborts with an internal failure at {where[:200]}",
                          {"cmd": f"expand {d}", "derive": d, "source": src, "panic": where, "origin": origin})
        extra = [("correspondence: byte-level combinator model == fmt::parsing combinators (hook) on every string", lean_ok and not corr_bad),
                 ("regenerated inventory: no potentially aborting expression beyond the accounted-for ones (model evaluation)", not pn["unaccounted"])]
        cov = {
            "evaluations": len(reqs) + len(lines),
            "distinct_nontrivial": len(set(lines)) + len(reqs),
            "rule": "distinct (combinator instance, string) pairs + distinct (derive, item source) expansions run under catch_unwind with a watchdog",
            "traces_validated_against_impl": len(reqs),
            "model_vs_impl_disagreements": len(corr_bad),
            "distribution": {"combinator_cases": len(reqs), "combinator_strings": len(strings), "expansions": len(lines), "items": len(items),
                             "derives": len(derives), "mutated_attributes": n_mut, "fmt_literals": len(lits), "outcomes": cls_count,
                             "crashes_or_hangs": len(crashed) + len(crashed2), "internal_failure_sites": sorted(internal),
                             "inventory": {"sites": pn["total"], **pn["classes"]}, "unaccounted_sites": pn["unaccounted"][:10]},
            "samples": [{"derive": m[0], "item": m[1][:100], "origin": m[2]} for m in meta[:3]],
        }
    except (C.BuildError, RuntimeError, subprocess.CalledProcessError) as e:
        what = getattr(e, "what", str(e))
        res.violation("build", what, {"output": getattr(e, "output", "")[-3000:]}, found_input=False)
        cov = {"build_error": what}
    failed = C.proof_obligations(res, "C18", ["C18"], extra)
    if failed and not res.violations:
        res.violation("obligations:" + ";".join(failed)[:200], "proof obligation / correspondence no longer checks: " + "; ".join(failed)[:300] +
                      (f"; unaccounted sites: {'; '.join(pn['unaccounted'][:4])}" if pn and pn["unaccounted"] else ""),
                      {"failed_obligations": failed, "unaccounted_sites": (pn or {}).get("unaccounted"), "correspondence_disagreements": corr_bad[:8],
                       "note": "no expansion explored aborted with an internal failure"}, found_input=False)
    elif corr_bad:
        res.coverage["correspondence_disagreements"] = corr_bad[:8]
    res.coverage.update(cov)
    res.coverage["impl_vs_oracle_failures"] = len(res.violations)
    res.coverage["trusted_base"] += [
        "byte-level model of the seven slicing / looping combinators of fmt/parsing.rs written by hand, compared with the real ones through the guarded hook on exhaustive short and random long strings over 1-4 byte characters; that the grammar functions are compositions of them that neither slice nor loop is read off the source and guarded by the regenerated inventory (a new index / arithmetic / unwrap site is unaccounted)",
        "the inventory's `observed` class (format_ident!, parse_quote!, unwrap, unreachable!, index sites outside the literal parser) is covered by fuzzing under catch_unwind only, not by a theorem; `deliberate` = panic!/assert! with a message describing the unsupported input",
        "syn's own parsing and stack depth are observed (watchdog, abort detection), not modelled",
    ]
    return res.finish()

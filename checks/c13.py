"""C13 — FromStr: newtypes delegate to the field, enums match variant names."""
import re

from . import common as C
from . import fmtgen as G

NAME_POOLS = [
    ["Foo", "Bar", "Baz"], ["Aa", "aA", "B"], ["foo", "FOO", "Foo", "other"], ["r#type", "Other"],
    ["r#fn", "r#Fn", "Plain"], ["snake_case", "Snake_Case", "CamelCase"], ["X"], ["Ärger", "ärger", "Öl"],
    ["A1", "a1", "A2"], ["r#match", "Match", "r#MATCH"], ["straße", "STRASSE", "Z"], ["ǅ", "ǆ", "Ǆ"],
]


def unraw(n):
    return n[2:] if n.startswith("r#") else n


def impl_arms(ans):
    if not ans.startswith("ok "):
        return None
    s = G.strip_ws(ans[3:])
    arms = []
    for m in re.finditer(r'"((?:[^"\\]|\\.)*)"(?:if\(src=="((?:[^"\\]|\\.)*)"\))?=>E::(r#\w+|\w+),', s):
        arms.append((m.group(1), m.group(2), unraw(m.group(3))))
    return sorted(arms, key=lambda a: (a[0], a[1] or "", a[2]))


PRELUDE = r'''
#![allow(dead_code, unused_variables, non_camel_case_types, unused_imports, non_snake_case, uncommon_codepoints, mixed_script_confusables, confusable_idents)]
use core::str::FromStr;
pub static mut FAILS: u32 = 0;
pub static mut CHECKS: u64 = 0;
pub fn fail(id: &str, s: &str, got: String, want: String) {
    unsafe { FAILS += 1; if FAILS < 300 { println!("FAIL|{}|{:?}|{}|{}", id, s, got, want); } }
}
/// The documented rule, written independently of the derive.
pub fn reference(names: &[&'static str], enum_name: &str, s: &str) -> String {
    let l = s.to_lowercase();
    for n in names {
        if n.to_lowercase() == l {
            let same = names.iter().filter(|m| m.to_lowercase() == l).count();
            if same == 1 || *n == s { return format!("Ok({})", n); }
        }
    }
    format!("Err(Invalid `{}` string representation)", enum_name)
}
/// All strings up to `max` characters over `alphabet`.
pub fn strings(alphabet: &[char], max: usize) -> Vec<String> {
    let mut out = vec![String::new()];
    let mut layer = vec![String::new()];
    for _ in 0..max {
        let mut next = Vec::new();
        for p in &layer { for c in alphabet { let mut q = p.clone(); q.push(*c); next.push(q); } }
        out.extend(next.iter().cloned());
        layer = next;
    }
    out
}
'''


def behaviour(res, rng, tier):
    cf = C.CaseFile(PRELUDE)
    descs = {}
    pools = NAME_POOLS * (1 if tier == "quick" else 4)
    i = 0
    for names in pools:
        names = rng.shuffle(names)[: 1 + rng.below(len(names))] if i >= len(NAME_POOLS) else names
        un = [unraw(n) for n in names]
        alphabet = sorted({c for n in un for ch in n for c in (ch.lower(), ch.upper()) if len(c) == 1} | set("_- #r"))
        maxlen = 3 if len(alphabet) <= 14 else 2
        if tier == "thorough" and len(alphabet) <= 10:
            maxlen = 4
        alpha_src = ", ".join("'" + (c if c != "'" else "\\'") + "'" for c in alphabet)
        names_src = ", ".join(f'"{n}"' for n in un)
        arms = " ".join(f'Ok(E::{n}) => String::from("Ok({unraw(n)})"),' for n in names)
        extra = ", ".join(f'String::from("{n}")' for n in un + [n.upper() for n in un] + [n.lower() for n in un] + ["r#" + n for n in un])
        src = (f"#[derive(derive_more::FromStr, Debug)] pub enum E {{ {', '.join(names)} }}\n"
               f"pub fn run() {{ let names: &[&'static str] = &[{names_src}]; let mut ss = strings(&[{alpha_src}], {maxlen}); ss.extend([{extra}]);\n"
               f"    for s in ss {{ unsafe {{ CHECKS += 1; }} let got = match E::from_str(&s) {{ {arms} Err(e) => format!(\"Err({{}})\", e) }};\n"
               f'        let want = reference(names, "E", &s); if got != want {{ fail("{i}", &s, got, want); }} }} }}')
        cf.add(i, src, main_call=f"c{i}::run();")
        descs[str(i)] = f"#[derive(FromStr)] enum E {{ {', '.join(names)} }}"
        i += 1
    # newtypes: parse exactly as the field type does
    for ty, samples in (("i32", ["0", "-7", "+5", " 1", "2147483648", "", "abc", "१२"]), ("u8", ["255", "256", "-1", "0x1"]),
                        ("f64", ["1e3", "inf", "NaN", ".5", "1.", "e"]), ("bool", ["true", "True", "false", ""]),
                        ("char", ["a", "ab", "", "ß"]), ("String", ["", "x y"]), ("std::net::Ipv4Addr", ["1.2.3.4", "256.1.1.1", "a"])):
        lits = ", ".join('"' + s + '"' for s in samples)
        for shape, ctor in (("(pub FIELD)", "N"), (" { pub inner: FIELD }", "N")):
            body = shape.replace("FIELD", ty)
            semi = ";" if shape.startswith("(") else ""
            get = "v.0" if shape.startswith("(") else "v.inner"
            src = (f"#[derive(derive_more::FromStr, Debug)] pub struct N{body}{semi}\n"
                   f"pub fn run() {{ for s in [{lits}] {{ unsafe {{ CHECKS += 1; }} let got = match N::from_str(s) {{ Ok(v) => format!(\"Ok({{:?}})\", {get}), Err(e) => format!(\"Err({{:?}})\", e) }};\n"
                   f'    let want = match <{ty} as FromStr>::from_str(s) {{ Ok(v) => format!("Ok({{:?}})", v), Err(e) => format!("Err({{:?}})", e) }}; if got != want {{ fail("{i}", s, got, want); }} }} }}')
            cf.add(i, src, main_call=f"c{i}::run();")
            descs[str(i)] = f"#[derive(FromStr)] struct N{body}{semi}"
            i += 1
    d = C.scratch_crate("c13-fromstr", cf.source('unsafe { println!("DONE checks={} fails={}", CHECKS, FAILS); }'))
    try:
        rc, out, err = C.scratch_run(d)
        if "DONE" not in out:
            rc2, diags, err2 = C.scratch_check(d)
            by, stray = cf.errors_by_case(diags)
            for cid, errs in list(by.items())[:10]:
                res.violation("compile:" + descs[str(cid)], f"{descs[str(cid)]} does not compile: {errs[0][:240]}",
                              {"cmd": "compile", "source": descs[str(cid)], "errors": errs[:3]})
            if not by:
                raise C.BuildError("C13 behaviour crate (real proc-macro) did not build/run", (err or out)[-3000:])
            return 0, i, []
        checks = int(out.split("DONE checks=")[1].split()[0])
        seen = set()
        for l in out.splitlines():
            if l.startswith("FAIL|"):
                _, cid, s, got, want = l.split("|", 4)
                if cid in seen:
                    continue
                seen.add(cid)
                res.violation("parse:" + descs[cid], f"{descs[cid]}: {s}.parse() = {got}, the documented rule gives {want}",
                              {"cmd": "behaviour", "source": descs[cid], "string": s, "got": got, "want": want})
        return checks, i, [descs["1"], descs["3"]]
    finally:
        C.scratch_cleanup(d)


def run(tier):
    res = C.Result("C13", tier)
    rng = C.Rng(C.seed())
    extra, cov, corr_bad = [], {}, []
    try:
        inproc = C.cargo_build_inproc()
        lean_ok, _ = C.lake_build(["Dm.Props.C13", "dmdriver"])
        # in-process: arm set of the real expansion vs the model (lower-casing is a parameter: taken
        # from Rust's own to_lowercase through the harness)
        cases = []
        n = 400 if tier == "quick" else 6000
        allnames = sorted({n_ for p in NAME_POOLS for n_ in p} | {"Q", "q", "Qq", "qQ", "QQ", "r#Qq"})
        for _ in range(n):
            k = 1 + rng.below(6)
            names = rng.sample(allnames, k)
            # variant identifiers must be distinct
            if len({unraw(x) for x in names}) != len(names):
                continue
            cases.append(names)
        lowers = {}
        uniq = sorted({unraw(x) for names in cases for x in names})
        ans = C.drive(inproc, ["lower " + C.hexs(u) for u in uniq])
        for u, a in zip(uniq, ans):
            lowers[u] = a
        impl = C.drive(inproc, [f"expand FromStr {C.hexs('enum E { ' + ', '.join(names) + ' }')}" for names in cases])
        model = C.drive_lean(["fs " + " ".join(f"{C.hexs(unraw(x))}:{lowers[unraw(x)]}" for x in names) for names in cases]) if lean_ok else [None] * len(cases)
        groups = 0
        for names, ia, ma in zip(cases, impl, model):
            got = impl_arms(ia)
            if ma is not None:
                want = []
                for ent in ma[3:].split(";"):
                    k_, g_, v_ = ent.split("|")
                    want.append((C.unhex(k_), None if g_ == "-" else C.unhex(g_), C.unhex(v_)))
                want = sorted(want, key=lambda a: (a[0], a[1] or "", a[2]))
                if any(a[1] for a in want):
                    groups += 1
                if got != want:
                    corr_bad.append((names, got, want))
        checks, ntypes, samples = behaviour(res, rng, tier)
        extra = [("correspondence: arm set of the model == arms of the working-tree expansion", lean_ok and not corr_bad)]
        cov = {
            "evaluations": len(cases) + checks,
            "distinct_nontrivial": len({tuple(c) for c in cases}) + ntypes,
            "rule": "distinct generated enums (in-process arm sets) + types whose parse results are compared string by string with the documented rule / the field's own parse",
            "traces_validated_against_impl": len(cases),
            "model_vs_impl_disagreements": len(corr_bad),
            "distribution": {"enums_in_process": len(cases), "with_case_colliding_groups": groups, "behaviour_types": ntypes, "strings_parsed": checks},
            "samples": [{"type": s} for s in samples] + [{"enum": cases[0], "impl_arms": impl_arms(impl[0])}],
        }
    except C.BuildError as e:
        res.violation("build", e.what, {"output": e.output[-3000:]}, found_input=False)
        cov = {"build_error": e.what}
    failed = C.proof_obligations(res, "C13", ["C13"], extra)
    if failed and not res.violations:
        res.violation("obligations:" + ";".join(failed)[:200], "proof obligation / correspondence no longer checks: " + "; ".join(failed)[:400],
                      {"failed_obligations": failed,
                       "correspondence_disagreements": [{"enum": n_, "impl": g, "model": w} for n_, g, w in corr_bad[:8]]},
                      found_input=False)
    res.coverage.update(cov)
    res.coverage["impl_vs_oracle_failures"] = len(res.violations)
    res.coverage["trusted_base"] += [
        "model of the generated arms (one per variant, guarded iff its lower-cased name is shared) compared with the working-tree expansion; the theorem covers every emission order",
        "`str::to_lowercase` is a parameter of the theorems; first-match semantics of `match` with guards is the modelled fragment of Rust",
    ]
    return res.finish()

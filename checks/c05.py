"""C05 — caller's formatting flags pass through exactly for bare-placeholder formats.

Proof: Dm/Props/C05.lean (transparency decision == the property's wording; the two bodies).
Tie: model vs working-tree expanders (bodies of generated items), decision vs an oracle built on
rustc's parser, and a behaviour grid compiled with the real proc-macro.
"""
from . import common as C
from . import fmtgen as G
from . import fmtx

TRAITS = G.TRAITS + ["Debug"]
TYCH = {"Display": "", "Debug": "?", "LowerHex": "x", "UpperHex": "X", "Octal": "o", "Binary": "b",
        "LowerExp": "e", "UpperExp": "E", "Pointer": "p"}
TRIVIAL_TY = {"Display", "Debug", "Octal", "LowerHex", "UpperHex", "Pointer", "Binary", "LowerExp", "UpperExp"}
DEFAULT_SPEC = "al=-,sg=-,alt=0,zp=0,w=-,p=-,ty="


def oracle_decision(rpf_ans, args):
    """The property's wording evaluated with rustc's parser: returns None (no delegation) or
    (trait, 'arg0' | 'name:<n>')."""
    if not rpf_ans.startswith("ok"):
        return None
    parts = dict(p.split("=", 1) for p in rpf_ans.split(" | ")[1:] if "=" in p)
    tail = rpf_ans.split(" | ")[-1]
    if "pieces=1 lits=0" not in tail:
        return None
    fs = rpf_ans.split(" | ")[0][2:].split()
    if len(fs) != 1:
        return None
    f = fs[0]
    arg, spec = f[2:-1].split(";", 1)
    if not spec.startswith(DEFAULT_SPEC):
        return None
    ty = spec[len(DEFAULT_SPEC):]
    if ty not in TRIVIAL_TY:
        return None
    if arg in ("-", "i0"):
        return (ty, "arg0") if len(args) == 1 else None
    if arg.startswith("n"):
        name = C.unhex(arg[1:])
        if not args:
            return (ty, "name:" + name)
        if len(args) == 1 and args[0][0] == name:
            return (ty, "arg0")
    return None


def decision_check(res, inproc, rng, n):
    """impl-vs-oracle on the transparency decision, through the add-only hook."""
    cases = []
    for _ in range(n):
        names = rng.choice([["_0"], ["_0", "_1"], ["a", "b"], ["r#type", "x1"], []])
        a = G.gen_fmt_attr(rng, names, bare_bias=True)
        if names and names[0].startswith("_"):
            fsrc = "(" + ", ".join("u8" for _ in names) + ");"
        elif names:
            fsrc = "{ " + ", ".join(f"{n_}: u8" for n_ in names) + " }"
        else:
            fsrc = ";"
        cases.append((a, names, fsrc))
    # systematic: a sole placeholder with every single modifier (and none), every way of naming its argument
    mods = ["", ":<", ":^", ":>", ":*<", ":é^", ":+", ":-", ":#", ":0", ":5", ":05", ":.2", ":.0", ":1$", ":w$", ":.1$", ":.p$", ":.*", ":x?", ":X?",
            ":?", ":x", ":X", ":o", ":b", ":e", ":E", ":p", ":-?", ":-x", ":+e", ":#?", ":#x", ":<p", ":0p", " ", ":? "]
    forms = [("{%s}", [(None, "_0", "_0")]), ("{0%s}", [(None, "_0", "_0")]), ("{_0%s}", []), ("{a%s}", [("a", "_0", "_0")]),
             ("{%s}", [(None, None, "_0.clone()")]), ("{%s}", [("a", "_0", "_0")])]
    for m in mods:
        for tmpl, args in forms:
            lit = tmpl % m
            arg_srcs = [(f"{al} = {src}" if al else src) for al, _, src in args]
            extra = []
            if "1$" in m:
                extra = ["3"]
            elif "w$" in m or "p$" in m:
                extra = [f"{m.strip(':.')[0]} = 3"]
            elif ".*" in m:
                arg_srcs = ["2"] + arg_srcs if args and args[0][0] is None else arg_srcs + ["2"]
            src_ = '"' + lit + '"' + "".join(", " + x for x in arg_srcs + extra)
            all_args = list(args) if not extra and ".*" not in m else None
            a = {"lit": lit, "src": src_, "args": all_args if all_args is not None else [(None, None, "x")] * (len(arg_srcs) + len(extra) + (1 if ".*" in m else 0))}
            cases.append((a, ["_0"], "(u8);"))
    impl = C.drive(inproc, [f"attr {C.hexs(a['src'])} {C.hexs(f)}" for a, _, f in cases])
    rpf = C.drive_rpf(["fmt " + C.hexs(a["lit"]) for a, _, _ in cases])
    n_deleg = n_write = 0
    for (a, names, fsrc), ia, ra in zip(cases, impl, rpf):
        if not ia.startswith("ok "):
            continue
        tc = C.hook_fields(ia)["tc"]
        want = oracle_decision(ra, a["args"])
        got = None
        if tc != "-":
            tr, _, expr = tc.partition("\x1f")
            got = (tr, G.strip_ws(expr))
        if want is None:
            n_write += 1
            ok = got is None
        else:
            n_deleg += 1
            exp_expr = G.strip_ws(a["args"][0][2]) if want[1] == "arg0" else want[1][5:]
            ok = got is not None and got[0] == want[0] and got[1] == exp_expr
        if not ok:
            res.violation("attr=" + C.hexs(a["src"]),
                          f"#[display({a['src']})]: derive_more decides {tc!r}, the property (literal read by rustc_parse_format: {ra.split(' | ')[0]!r}) requires {want!r}",
                          {"cmd": "attr", "attribute": a["src"], "fields": fsrc, "impl": ia, "rustc_parse_format": ra, "expected": want})
    return len(cases), n_deleg, n_write


PROBE = r'''
#![allow(dead_code, unused_variables, non_camel_case_types)]
use std::fmt;
#[derive(Clone, Copy)]
pub struct Probe(pub u8);
fn show(name: &str, p: &Probe, f: &mut fmt::Formatter<'_>) -> fmt::Result {
    let al = match f.align() { None => "-", Some(fmt::Alignment::Left) => "<", Some(fmt::Alignment::Right) => ">", Some(fmt::Alignment::Center) => "^" };
    write!(f, "[{}#{} fill={:?} al={} plus={} minus={} alt={} zero={} w={:?} p={:?}]", name, p.0, f.fill(), al,
        f.sign_plus(), f.sign_minus(), f.alternate(), f.sign_aware_zero_pad(), f.width(), f.precision())
}
macro_rules! probe_impl { ($($t:ident),*) => { $( impl fmt::$t for Probe { fn fmt(&self, f: &mut fmt::Formatter<'_>) -> fmt::Result { show(stringify!($t), self, f) } } )* } }
probe_impl!(Display, Debug, LowerHex, UpperHex, Octal, Binary, LowerExp, UpperExp, Pointer);
pub static mut FAILS: u32 = 0;
pub static mut CHECKS: u32 = 0;
pub fn check(id: &str, spec: &str, got: String, want: String) {
    unsafe { CHECKS += 1; }
    if got != want { unsafe { FAILS += 1; } println!("FAIL|{}|{}|{}|{}", id, spec, got, want); }
}
'''


def outer_specs(rng, n):
    fills = ["", "<", "^", ">", "*<", "0>", "#^"]
    signs = ["", "+", "-"]
    widths = ["", "8", "1", "40"]
    precs = ["", ".3", ".0"]
    specs = {">8", "+.3", "#", "08", "*^40.0", "-#010.3", "<1"}
    while len(specs) < n:
        specs.add(rng.choice(fills) + rng.choice(signs) + rng.choice(["", "#"]) + rng.choice(["", "0"]) + rng.choice(widths) + rng.choice(precs))
    specs.discard("")
    return sorted(specs)


def templates():
    """(attribute body with <Y> = `:<type char>` or empty and <y> = type char only, struct body, value, bare?)"""
    one = ("(pub Probe)", "T(Probe(7))")
    named = ("{ pub f: Probe }", "T { f: Probe(7) }")
    two = ("(pub u8, pub Probe)", "T(1, Probe(7))")
    pair = ("(pub Probe, pub Probe)", "T(Probe(7), Probe(7))")
    bare = [
        ('"{_0<Y>}"', one), ('"{0<Y>}", _0', one), ('"{<Y>}", _0', one), ('"{a<Y>}", a = _0', one),
        ('"{<Y>}", a = _0', one), ('"{f<Y>}"', named), ('"{<Y>}", f', named), ('"{<Y>}", _0.clone()', one),
        ('"{_1<Y>}"', two), ('"{0<Y>}", self.0', one), ('"{_0<Y> }"', one),
    ]
    inert = [
        ('"{_0:>5<y>}"', one), ('"{_0:+<y>}"', one), ('"{_0:-<y>}"', one), ('"{:-<y>}", _0', one), ('"{_0:^<y>}"', one), ('"{_0:#<y>}"', one), ('"{_0:07<y>}"', one),
        ('"{_0:.2<y>}"', one), ('"{_0:x?}"', one), ('"v={_0<Y>}"', one), ('"{_0<Y>}{_0<Y>}"', one),
        ('"{{{_0<Y>}"', one), ('"{_0<Y>} "', one), ('"{0<Y>}{1}", _0, _1', pair),
        ('"{_0:0$<y>}", 9', one), ('"{:w$<y>}", _0, w = 3', one),
    ]
    return [(t, b, v, True) for t, (b, v) in bare] + [(t, b, v, False) for t, (b, v) in inert]


# bare templates whose argument *expression* is a field name: there the name is a reference to the field, so under
# `{:p}` the thing formatted directly is `&field` (its address), not the field (documented in impl/doc/display.md)
REF_ARG_MEMBER = {'"{0<Y>}", _0': "0", '"{<Y>}", _0': "0", '"{a<Y>}", a = _0': "0", '"{<Y>}", a = _0': "0", '"{<Y>}", f': "f"}


def behaviour(res, rng, tier):
    """Real proc-macro, grid of outer specs, expected text computed from the property's wording:
    bare -> the outer spec applied to the argument under the placeholder's trait;
    otherwise -> the flag-free text."""
    specs = outer_specs(rng, 24 if tier == "quick" else 60)
    combos = [(X, t, body, val, bare, Y) for X in TRAITS for (t, body, val, bare) in templates() for Y in TRAITS]
    pick = rng.sample(combos, 170 if tier == "quick" else 600)
    macros = ""
    for X in TRAITS:
        xch = TYCH[X]
        macros += (f"macro_rules! grid_{X} {{ ($id:expr, $v:expr, $w:expr, $y:tt) => {{ " +
                   " ".join(f'check($id, "{s}", format!(concat!("{{:", "{s}", "{xch}", "}}"), $v), '
                            f'if $w {{ format!(concat!("{{:", "{s}", $y, "}}"), Probe(7)) }} else {{ format!(concat!("{{:", "{xch}", "}}"), $v) }});'
                            for s in specs)
                   + " } }\n")
        macros += (f"macro_rules! gridref_{X} {{ ($id:expr, $v:expr, $m:tt) => {{ let v = $v; " +
                   " ".join(f'check($id, "{s}", format!(concat!("{{:", "{s}", "{xch}", "}}"), v), format!(concat!("{{:", "{s}", "p}}"), &v.$m));'
                            for s in specs)
                   + " } }\n")
    cf = C.CaseFile(PROBE + macros)
    meta = {}
    n = 0
    for X in G.TRAITS:          # no attribute, single field: pass-through under the derived trait
        n += 1
        cf.add(n, f'#[derive(derive_more::{X})] pub struct T(pub Probe);\npub fn run() {{ grid_{X}!("{n}", T(Probe(7)), true, "{TYCH[X]}"); }}',
               main_call=f"c{n}::run();")
        meta[str(n)] = f"#[derive({X})] struct T(Probe);  expected=pass-through under {X} (no attribute)"
    # an enum-level bare `{_variant}` is a Display placeholder: under the Display derive it is the variant's own output
    # (pass-through), under every other derive it wraps the variant's text and the caller's flags are inert (deterministic
    # since round 7; seed C05-h was caught by a random item only for some generator seeds)
    for X in G.TRAITS:
        for lit in ('"{_variant}"', '"{}", _variant', '"{0}", _variant', '"{v}", v = _variant'):
            n += 1
            an = G.ATTR_NAME[X]
            passthrough = X == "Display"
            cf.add(n, f'#[derive(derive_more::{X})] #[{an}({lit})] pub enum T {{ A(Probe), B {{ f: Probe }} }}\n'
                      f'pub fn run() {{ grid_{X}!("{n}", T::A(Probe(7)), {"true" if passthrough else "false"}, "{TYCH[X] if passthrough else ""}"); '
                      f'grid_{X}!("{n}", T::B {{ f: Probe(7) }}, {"true" if passthrough else "false"}, "{TYCH[X] if passthrough else ""}"); }}',
                   main_call=f"c{n}::run();")
            meta[str(n)] = f"#[derive({X})] #[{an}({lit})] enum T {{ A(Probe), B {{ f: Probe }} }}  expected={'pass-through under Display' if passthrough else 'inert'}"
    for (X, t, body, val, bare, Y) in pick:
        n += 1
        ych = TYCH[Y]
        attr = t.replace("<Y>", (":" + ych) if ych else "").replace("<y>", ych)
        an = G.ATTR_NAME[X]
        semi = "" if body.startswith("{") else ";"
        if bare and Y == "Pointer" and t in REF_ARG_MEMBER:
            cf.add(n, f'#[derive(derive_more::{X})] #[{an}({attr})] pub struct T{body}{semi}\n'
                      f'pub fn run() {{ gridref_{X}!("{n}", {val}, {REF_ARG_MEMBER[t]}); }}', main_call=f"c{n}::run();")
            meta[str(n)] = f"#[derive({X})] #[{an}({attr})] struct T{body}  expected=pass-through under Pointer of the reference the argument expression is"
            continue
        cf.add(n, f'#[derive(derive_more::{X})] #[{an}({attr})] pub struct T{body}{semi}\n'
                  f'pub fn run() {{ grid_{X}!("{n}", {val}, {"true" if bare else "false"}, "{ych if bare else ""}"); }}',
               main_call=f"c{n}::run();")
        meta[str(n)] = f"#[derive({X})] #[{an}({attr})] struct T{body}  expected={'pass-through under ' + Y if bare else 'inert'}"
    src = cf.source('unsafe { println!("DONE checks={} fails={}", CHECKS, FAILS); }')
    d = C.scratch_crate("c05-grid", src)
    try:
        rc, out, err = C.scratch_run(d)
        if "DONE" not in out:
            # a case that does not compile is a finding about that case (a flag-free placeholder format! accepts)
            rc2, diags, err2 = C.scratch_check(d)
            by, stray = cf.errors_by_case(diags)
            for cid, errs in list(by.items())[:8]:
                res.violation("compile:" + meta[str(cid)], f"{meta[str(cid)]}: does not compile: {errs[0][:240]}",
                              {"cmd": "compile", "case": meta[str(cid)], "errors": errs[:3]})
            if not by:
                raise C.BuildError("behaviour grid crate (real proc-macro) did not build/run", (err or out)[-3000:])
            return 0, len(meta), specs, meta
        fails = [l for l in out.splitlines() if l.startswith("FAIL|")]
        done = [l for l in out.splitlines() if l.startswith("DONE")][0]
        checks = int(done.split("checks=")[1].split()[0])
        seen = set()
        for l in fails:
            _, cid, spec, got, want = l.split("|", 4)
            if cid in seen:
                continue
            seen.add(cid)
            res.violation("grid:" + meta[cid].split("  ")[0],
                          f"{meta[cid]}: formatting the value with outer spec {{:{spec}}} gives {got!r}, the property requires {want!r}",
                          {"cmd": "behaviour-grid", "type": meta[cid], "outer_spec": spec, "got": got, "want": want})
        return checks, len(meta), specs, meta
    finally:
        C.scratch_cleanup(d)


def compile_errors(res):
    """A placeholder whose index denotes no argument must be a compile error, not a delegation."""
    cases = [
        ('#[derive(derive_more::Display)] #[display("{1}", _0)] pub struct T(pub Probe);', True),
        ('#[derive(derive_more::Display)] #[display("{2}", _0, _0)] pub struct T(pub Probe);', True),
        ('#[derive(derive_more::Display)] #[display("{0}")] pub struct T(pub Probe);', True),
        ('#[derive(derive_more::LowerHex)] #[lower_hex("{1:x}", _0)] pub struct T(pub Probe);', True),
        ('#[derive(derive_more::Debug)] #[debug("{3:?}", _0)] pub struct T(pub Probe);', True),
        ('#[derive(derive_more::Display)] pub enum E { #[display("{1}", _0)] A(Probe) }', True),
        ('#[derive(derive_more::Display)] #[display("{0}", _0)] pub struct T(pub Probe);', False),
        ('#[derive(derive_more::Display)] #[display("{}", _0)] pub struct T(pub Probe);', False),
    ]
    cf = C.CaseFile(PROBE)
    for i, (src, _) in enumerate(cases):
        cf.add(i, src)
    d = C.scratch_crate("c05-cf", cf.source())
    try:
        rc, diags, err = C.scratch_check(d)
        by, stray = cf.errors_by_case(diags)
        for i, (src, must_fail) in enumerate(cases):
            if must_fail and i not in by:
                res.violation("cf:" + src, f"{src} compiles, but its placeholder index denotes no argument (format_args! rejects the same literal)",
                              {"cmd": "compile", "source": src, "expected": "compile error"})
            if not must_fail and i in by:
                res.violation("cf-ok:" + src, f"{src} must compile: {by[i][:2]}", {"cmd": "compile", "source": src, "errors": by[i][:3]})
        return len(cases)
    finally:
        C.scratch_cleanup(d)


def run(tier):
    res = C.Result("C05", tier)
    rng = C.Rng(C.seed())
    extra = []
    bad = []
    cov = {}
    try:
        inproc = C.cargo_build_inproc()
        lean_ok, _ = C.lake_build(["Dm.Props.C05", "dmdriver"])
        n = 150 if tier == "quick" else 2500
        cases, bad = fmtx.correspond(inproc, rng, TRAITS, n, bare_bias=True) if lean_ok else ([], [])
        # defects in the Debug expander that belong to C06/C04 do not concern the delegation decision:
        # compare only the decision class for Debug items whose body differs by a name string
        nd, ndeleg, nwrite = decision_check(res, inproc, rng, 4000 if tier == "quick" else 60000)
        checks, ntypes, specs, meta = behaviour(res, rng, tier)
        ncf = compile_errors(res)
        n_deleg_bodies = sum(1 for c in cases if c["impl"] and "::fmt(" in c["impl"][0])
        extra = [("correspondence: Display-like/Debug expander model == working-tree expanders (fmt body and where-clause)", lean_ok and not bad)]
        cov = {
            "evaluations": len(cases) + nd + checks + ncf,
            "distinct_nontrivial": len({c["src"] for c in cases if c["impl"] and "::fmt(" in c["impl"][0]}) + ndeleg,
            "rule": "in-process: generated items whose expansion delegates + attribute cases the oracle classifies as bare; behaviour: (type, outer spec) pairs",
            "traces_validated_against_impl": len(cases),
            "model_vs_impl_disagreements": len(bad),
            "distribution": {"items": len(cases), "items_with_delegating_body": n_deleg_bodies,
                             "decision_cases": nd, "oracle_bare": ndeleg, "oracle_not_bare": nwrite,
                             "behaviour_types": ntypes, "outer_specs": len(specs), "behaviour_checks": checks,
                             "compile_error_cases": ncf},
            "samples": [{"item": c["src"], "impl_body": c["impl"][0] if c["impl"] else "err"} for c in cases[:3]]
                       + [{"behaviour_type": meta[k]} for k in list(meta)[8:11]] + [{"outer_specs": specs[:8]}],
        }
    except C.BuildError as e:
        res.violation("build", e.what, {"output": e.output[-3000:]}, found_input=False)
        cov = {"build_error": e.what}
    failed = C.proof_obligations(res, "C05", ["C05"], extra)
    if failed and not res.violations:
        res.violation("obligations:" + ";".join(failed)[:200], "proof obligation / correspondence no longer checks: " + "; ".join(failed)[:400],
                      {"failed_obligations": failed,
                       "correspondence_disagreements": [{"trait": b["trait"], "item": b["src"], "impl": b["impl"], "model": b["model"]} for b in bad[:8]]},
                      found_input=False)
    res.coverage.update(cov)
    res.coverage["impl_vs_oracle_failures"] = len(res.violations)
    res.coverage["trusted_base"] += [
        "model of transparent_call / generate_body (Dm/Model/FmtAttr.lean, FmtExpand.lean) compared with the working-tree expanders on every generated item",
        "std facts used by `passthrough`/`inert` (Trait::fmt sees the caller's options, write! ignores them): validated by the behaviour grid with the real proc-macro on this run",
        "oracle of the decision: the property's wording evaluated on rustc_parse_format's reading of the literal",
    ]
    res.assumptions += ["syn's tokenisation of attribute arguments; convert_case is a parameter"]
    return res.finish()

import Dm.Model.Determinism
import Dm.Gen.HashSites

/-
C19 — expansion is a deterministic pure function of the derive input.

`seed_and_history_free` is the statement over every pair of worlds (hash seeds, histories of earlier
expansions), every expander and every iteration-order function; `all_sites_fixed` and
`no_global_state` are the decidable facts about the tables regenerated from the working tree.
Honest label: *partial* — a theorem about the model cannot exhibit a nondeterministic run; the
multi-process / multi-order byte comparison of the check does that.
-/
namespace Dm.Props.C19
open Dm.Det

/-- **For all worlds**: when every hashed collection of the source uses the fixed hasher and the
source has no global state, the emitted tokens depend on the item only. -/
theorem seed_and_history_free {Item Key Tok G : Type} (E : Expander Item Key Tok G) (f : Facts)
    (hs : allSitesFixed f = true) (hg : noGlobalState f = true) (w₁ w₂ : World Item) (it : Item) :
    E.run f w₁ it = E.run f w₂ it := by
  unfold Expander.run
  rw [hg]
  simp only [if_true]
  congr 1
  funext k
  have hk : (f.mentions[k]?.map (siteFixed f)).getD true = true := by
    cases h : f.mentions[k]? with
    | none => rfl
    | some m =>
      simp only [Option.map_some, Option.getD_some]
      unfold allSitesFixed at hs
      rw [List.all_eq_true] at hs
      exact hs m (List.mem_of_getElem? h)
  simp [hk]

/-- Conversely a site that is not fixed is a real dependency: some expander emits different tokens
in two worlds that differ in the seed only. -/
theorem unfixed_site_depends (f : Facts) (k : Nat) (m : Mention) (hm : f.mentions[k]? = some m)
    (hu : siteFixed f m = false) :
    ∃ (E : Expander Unit Nat Nat Unit) (w₁ w₂ : World Unit), E.run f w₁ () ≠ E.run f w₂ () := by
  refine ⟨⟨fun s ks => match s with | none => ks | some s => s :: ks, fun _ => (), fun _ _ => [],
          fun _ it _ => it k⟩, ⟨1, []⟩, ⟨2, []⟩, ?_⟩
  simp [Expander.run, hm, hu]

/-- Same for global state: with an impure mention the history can leak into the tokens. -/
theorem global_state_depends (f : Facts) (hg : noGlobalState f = false) :
    ∃ (E : Expander Nat Nat Nat Nat) (w₁ w₂ : World Nat), E.run f w₁ 0 ≠ E.run f w₂ 0 := by
  refine ⟨⟨fun _ ks => ks, fun h => h.length, fun _ _ => [], fun _ _ g => [g.getD 0]⟩, ⟨0, []⟩, ⟨0, [7]⟩, ?_⟩
  simp [Expander.run, hg]

/-- The regenerated table: every mention of a hashed collection in `impl/src` is the crate's alias,
the aliases use `DeterministicState`, and that builds `DefaultHasher::default()`. -/
theorem all_sites_fixed : allSitesFixed Dm.Gen.facts = true := by decide +kernel

/-- The regenerated table: no static, thread-local, clock, random source, environment, file or
process/thread id is mentioned anywhere in `impl/src`. -/
theorem no_global_state : noGlobalState Dm.Gen.facts = true := by decide +kernel

/-- C19 for the modelled fragment and the current source. -/
theorem expansion_deterministic {Item Key Tok G : Type} (E : Expander Item Key Tok G) (w₁ w₂ : World Item) (it : Item) :
    E.run Dm.Gen.facts w₁ it = E.run Dm.Gen.facts w₂ it :=
  seed_and_history_free E Dm.Gen.facts all_sites_fixed no_global_state w₁ w₂ it

/-! Non-vacuity. -/
example : 10 < Dm.Gen.facts.mentions.length := by decide +kernel
def exStd : Facts := ⟨[⟨0, 1, .utilsAlias⟩, ⟨0, 2, .std⟩], true, true, []⟩
def exHasher : Facts := ⟨[⟨0, 1, .utilsAlias⟩], true, false, []⟩
example : allSitesFixed exStd = false := by decide
example : allSitesFixed exHasher = false := by decide

end Dm.Props.C19

/-
C07 — enum-level format: wraps via `_variant`, otherwise is only a default.
-/
import Dm.Model.FmtExpand
import Dm.Gen.FmtTables

namespace Dm.Props.C07
open Dm.Fmt Dm.FmtX

/-- The text a variant prints by itself: its own attribute, else its single field under the
derived trait, else its name (through `rename_all`); more than one field without an attribute is
an error. -/
def ownText (c : Ctx) (va : Container) (ident : Name) (fields : FieldsD) : R Inner :=
  match va.fmt with
  | some a => pure (.fmtArgs a (additionalDerefArgs c.cc a fields.idents))
  | none =>
    match fields.list with
    | [] => pure (.name (match va.rename with
        | some cs => c.conv cs (unraw ident)
        | none => String.ofList (unraw ident)))
    | [f] => pure (.field c.tr (f.name.getD "_0".toList))
    | _ => throw .diag

/-- The enum-level attribute is exactly the bare `{_variant}` of the derived trait. -/
def IsBareVariant (c : Ctx) (sh : FmtAttr) : Prop :=
  ∃ e, transparentCall c.cc sh = some (e, c.tr)

instance (c : Ctx) (sh : FmtAttr) : Decidable (IsBareVariant c sh) := by
  unfold IsBareVariant
  cases h : transparentCall c.cc sh with
  | none => exact isFalse (by simp)
  | some p =>
    by_cases ht : p.2 = c.tr
    · exact isTrue ⟨p.1, by rw [← ht]⟩
    · exact isFalse (by rintro ⟨e, he⟩; cases he; exact ht rfl)

theorem sharedInfo_wrapping (c : Ctx) (sh : FmtAttr) (va : Container) (ident : Name)
    (fields : FieldsD) (hm : containsArg c.cc sh variantName = true) (hb : ¬ IsBareVariant c sh) :
    sharedAttrInfo c { shared := some sh, attrs := va, ident := ident, fields := fields } = (true, true) := by
  unfold sharedAttrInfo
  simp only [hm]
  cases ht : transparentCall c.cc sh with
  | none => simp
  | some p =>
    have : p.2 ≠ c.tr := fun h => hb ⟨p.1, by rw [ht, ← h]⟩
    simp [this]

/-- Wrapping: an enum-level attribute that mentions `_variant` is applied to every variant, with
`_variant` bound to the text the variant prints by itself. -/
theorem wraps_every_variant (c : Ctx) (sh : FmtAttr) (va : Container) (ident : Name)
    (fields : FieldsD) (hm : containsArg c.cc sh variantName = true) (hb : ¬ IsBareVariant c sh) :
    displayBody c { shared := some sh, attrs := va, ident := ident, fields := fields } =
      (ownText c va ident fields).map fun i => .wrapped i (fmtBody c sh fields) := by
  unfold displayBody
  rw [sharedInfo_wrapping c sh va ident fields hm hb]
  unfold ownText
  cases hf : va.fmt with
  | some a => simp [Except.map, pure, Except.pure, bind, Except.bind]
  | none =>
    cases hl : fields.list with
    | nil =>
      simp only [Except.map, pure, Except.pure, bind, Except.bind]
      cases va.rename <;> rfl
    | cons f rest =>
      cases rest with
      | nil => simp [Except.map, pure, Except.pure, bind, Except.bind]
      | cons g r => simp [Except.map, bind, Except.bind, throw, throwThe, MonadExceptOf.throw]

/-- The bare `{_variant}` of the derived trait prints exactly what the variant prints by itself:
the expansion is the one without any enum-level attribute. -/
theorem bare_variant_is_identity (c : Ctx) (sh : FmtAttr) (va : Container) (ident : Name)
    (fields : FieldsD) (hm : containsArg c.cc sh variantName = true) (hb : IsBareVariant c sh) :
    displayBody c { shared := some sh, attrs := va, ident := ident, fields := fields } =
      displayBody c { shared := none, attrs := va, ident := ident, fields := fields } := by
  obtain ⟨e, he⟩ := hb
  unfold displayBody sharedAttrInfo
  simp only [hm, he]
  cases va.fmt with
  | some a => simp [pure, Except.pure, bind, Except.bind]
  | none =>
    rcases fields.list with _ | ⟨f, _ | ⟨g, r⟩⟩ <;>
      simp [pure, Except.pure, bind, Except.bind, throw, throwThe, MonadExceptOf.throw]

/-- Default: an enum-level attribute that does not mention `_variant` is used for, and only for,
variants without an attribute of their own. -/
theorem default_only_for_unattributed (c : Ctx) (sh : FmtAttr) (va : Container) (ident : Name)
    (fields : FieldsD) (hm : containsArg c.cc sh variantName = false) :
    displayBody c { shared := some sh, attrs := va, ident := ident, fields := fields } =
      match va.fmt with
      | some a => .ok (fmtBody c a fields)
      | none => .ok (fmtBody c sh fields) := by
  have hinfo : sharedAttrInfo c { shared := some sh, attrs := va, ident := ident, fields := fields }
      = (true, false) := by
    unfold sharedAttrInfo
    simp only [hm]
    cases transparentCall c.cc sh <;> simp
  unfold displayBody
  rw [hinfo]
  cases hf : va.fmt <;> simp [pure, Except.pure, bind, Except.bind]

/-! ### What the wrapped single field prints under `Pointer`

A variant binds `_0 : &Field` (the address of the field's slot); the field holds a pointer.
`Pointer::fmt(_0, f)` — the variant by itself — takes `&self` and prints the pointer held by the
field; `format_args!("{:p}", e)` prints the pointer that `e` evaluates to. -/

inductive PArg where
  | binding        -- `_0`
  | derefBinding   -- `*_0`
  deriving DecidableEq

/-- The address printed by `format_args!("{:p}", e)`. -/
def pointerPrinted (slot held : Nat) : PArg → Nat
  | .binding => slot
  | .derefBinding => held

def wrappedArg (tr : Trait) : PArg := if wrappedFieldDeref tr then .derefBinding else .binding

/-- Under a wrapping enum-level format an attribute-less single-field variant of a `Pointer`
derive prints, as `_variant`, the pointer the field holds — what the variant prints by itself —
and not the address of the field. (On the pinned tree it printed the slot: fixed.) -/
theorem wrapped_pointer_field_prints_held_pointer (slot held : Nat) :
    pointerPrinted slot held (wrappedArg .pointer) = held := rfl

/-- Only `Pointer` dereferences: the other traits receive the binding itself. -/
theorem wrapped_field_deref_iff_pointer (tr : Trait) :
    wrappedArg tr = .derefBinding ↔ tr = .pointer := by
  cases tr <;> simp [wrappedArg, wrappedFieldDeref]

/-- The literal through which the wrapped single field is formatted denotes exactly one placeholder:
the first positional argument (the field), no modifiers, **the derived trait** — for each of the nine
formatting traits, read by the crate's own literal parser (model `parseFmtString`). -/
theorem default_placeholder_is_the_derived_trait (tr : Trait) :
    parseFmtString { isStart := fun c => c.isAlpha, isCont := fun c => c.isAlphanum || c == '_', isWs := fun c => c == ' ' }
        (defaultPlaceholder tr)
      = [{ arg := .pos 0, mods := false, trait := tr }] := by
  cases tr <;> decide

/-! #### The same about the table read from the source on this run

`Dm.Gen.defaultPlaceholderTable` is `trait_name_to_default_placeholder_literal` of the working tree,
arm by arm, regenerated by the translator on every run. -/

def allTraits : List Trait :=
  [.binary, .debug, .display, .lowerExp, .lowerHex, .octal, .pointer, .upperExp, .upperHex]

/-- The source's table is the model's function, on all nine traits (and nothing was left unread). -/
theorem source_default_placeholders_are_the_model :
    Dm.Gen.defaultPlaceholderTable = allTraits.map (fun tr => (tr, defaultPlaceholder tr))
    ∧ Dm.Gen.defaultPlaceholderTableUnread = 0 := by
  decide +kernel

/-- Every literal of the source's table, read by the literal parser, is one modifier-free
placeholder for the first argument **under the trait of its own row**. -/
theorem source_default_placeholders_denote_their_trait :
    Dm.Gen.defaultPlaceholderTable.all (fun (tr, lit) =>
      parseFmtString { isStart := fun c => c.isAlpha, isCont := fun c => c.isAlphanum || c == '_', isWs := fun c => c == ' ' } lit
        == [{ arg := .pos 0, mods := false, trait := tr }]) = true := by
  decide +kernel

/-- The helper-attribute names of the nine formatting derives are pairwise distinct (an attribute
is never read by two derives), and all nine rows were read. -/
theorem source_attribute_names_distinct :
    (Dm.Gen.attributeNameTable.map (·.2)).Nodup ∧ Dm.Gen.attributeNameTable.map (·.1) = allTraits
    ∧ Dm.Gen.attributeNameTableUnread = 0 := by
  decide +kernel

/-- A `_variant` placeholder with any format specifier or a non-`Display` trait is rejected. -/
theorem variant_spec_rejected (c : Ctx) (attrs : List CAttr) (cont : Container) (vs : List VariantD)
    (hc : mergeAttrs attrs = .ok cont) (hbad : badVariantPlaceholder c cont = true) :
    displayEnum c attrs vs = .error .diag := by
  unfold displayEnum
  simp [hc, hbad, bind, Except.bind, throw, throwThe, MonadExceptOf.throw]

/-- An enum-level format attribute on `Debug` is rejected. -/
theorem debug_enum_attr_rejected (cc : CharClasses) (attrs : List CAttr) (cont : Container)
    (vs : List VariantD) (hc : dbgMerge attrs = .ok cont) (hf : cont.fmt.isSome = true) :
    debugEnum cc attrs vs = .error .diag := by
  unfold debugEnum
  simp [hc, hf, bind, Except.bind, throw, throwThe, MonadExceptOf.throw]

end Dm.Props.C07

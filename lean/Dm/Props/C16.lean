/-
C16 — format arguments are split where Rust's expression grammar splits them.
Theorems about the scanner model (`Dm/Model/ExprSplit.lean`).
-/
import Dm.Lemmas.ExprSplit

namespace Dm.Props.C16
open Dm.Split

def StartsWithComma : List Tok → Prop
  | [] => True
  | t :: _ => t.isComma = true

/-- An expression is handed on token for token: what the scanner returns, followed by what it
left, is the input; and it stops only at the end or in front of a comma. -/
theorem expr_reemitted_verbatim (ts r : List Tok) (e : Expr) (h : parseExpr ts = some (e, r)) :
    e.toks ++ r = ts ∧ StartsWithComma r := by
  unfold parseExpr at h
  split at h
  · cases h; exact ⟨rfl, trivial⟩
  · cases h; exact ⟨rfl, rfl⟩
  · split at h
    · rename_i out r' hh
      cases h
      obtain ⟨consumed, h1, h2, h3⟩ := takeUntilComma_prefix _ _ _ _ _ _ hh
      simp at h1
      subst h1
      refine ⟨h2, ?_⟩
      rcases h3 with rfl | ⟨t, r'', rfl, hc⟩
      · trivial
      · exact hc
    · cases h

/-- An argument counts as a plain field reference only if it is a single identifier (directly
followed by a comma or the end). -/
theorem ident_iff_single_identifier (ts r : List Tok) (s : String) :
    parseExpr ts = some (.ident s, r) ↔ ts = .ident s :: r ∧ (r = [] ∨ ∃ j r', r = .punct ',' j :: r') := by
  constructor
  · intro h
    unfold parseExpr at h
    split at h
    · cases h; exact ⟨rfl, Or.inl rfl⟩
    · cases h; exact ⟨rfl, Or.inr ⟨_, _, rfl⟩⟩
    · split at h <;> cases h
  · rintro ⟨rfl, rfl | ⟨j, r', rfl⟩⟩
    · simp [parseExpr]
    · simp [parseExpr]

/-- An argument (with its optional `name =`) is handed on token for token; only the spacing bit
of the alias' `=` is not kept. -/
theorem arg_reemitted_verbatim (ts r : List Tok) (a : Arg) (h : parseArg ts = some (a, r)) :
    (∃ j, (match a.alias with
            | some n => [Tok.ident n, Tok.punct '=' j]
            | none => []) ++ a.expr.toks ++ r = ts) ∧ StartsWithComma r := by
  unfold parseArg at h
  split at h
  · rename_i n r0 hal
    split at h
    · rename_i e r' he
      cases h
      obtain ⟨h1, h2⟩ := expr_reemitted_verbatim _ _ _ he
      refine ⟨?_, h2⟩
      unfold startsWithAlias at hal
      split at hal
      · rename_i a' j rr
        split at hal
        · cases hal
        · split at hal
          · cases hal
          · cases hal
            exact ⟨j, by simp [h1]⟩
      · cases hal
    · cases h
  · split at h
    · rename_i e r' he
      cases h
      obtain ⟨h1, h2⟩ := expr_reemitted_verbatim _ _ _ he
      exact ⟨⟨false, by simpa using h1⟩, h2⟩
    · cases h

/-! ### The whole argument list -/

/-- The tokens an argument was read from: its alias with the `=` as it was spelled, then the
expression. -/
def argOrig (a : Arg) (j : Bool) : List Tok :=
  (match a.alias with
   | some n => [Tok.ident n, Tok.punct '=' j]
   | none => []) ++ a.expr.toks

/-- `SplitOf as ts`: the token list `ts` is the arguments `as`, each token for token, in order,
with exactly one comma between neighbours and at most one after the last. -/
inductive SplitOf : List Arg → List Tok → Prop where
  | nil : SplitOf [] []
  | one (a : Arg) (j : Bool) : SplitOf [a] (argOrig a j)
  | cons (a : Arg) (j : Bool) (c : Tok) (as : List Arg) (rest : List Tok) :
      c.isComma = true → SplitOf as rest → SplitOf (a :: as) (argOrig a j ++ c :: rest)

theorem args_loop_reemitted : ∀ (fuel : Nat) (ts : List Tok) (as : List Arg),
    parseArgsLoop fuel ts = some as → SplitOf as ts
  | 0, _, _, h => by simp [parseArgsLoop] at h
  | _ + 1, [], as, h => by
    simp [parseArgsLoop] at h
    subst h; exact .nil
  | fuel + 1, t :: ts', as, h => by
    simp only [parseArgsLoop] at h
    cases ha : parseArg (t :: ts') with
    | none => simp [ha] at h
    | some p =>
      obtain ⟨a, r⟩ := p
      obtain ⟨⟨j, hj⟩, _⟩ := arg_reemitted_verbatim _ _ _ ha
      simp only [ha] at h
      cases r with
      | nil =>
        simp at h
        subst h
        have : argOrig a j = t :: ts' := by simpa [argOrig] using hj
        rw [← this]; exact .one a j
      | cons c r' =>
        simp only at h
        by_cases hc : c.isComma = true
        · simp only [hc, if_true] at h
          cases hrec : parseArgsLoop fuel r' with
          | none => simp [hrec] at h
          | some as' =>
            simp [hrec] at h
            subst h
            have ih := args_loop_reemitted fuel r' as' hrec
            have : argOrig a j ++ c :: r' = t :: ts' := by simpa [argOrig] using hj
            rw [← this]; exact .cons a j c as' r' hc ih
        · simp [hc] at h

/-- **Every argument is handed on token for token, unchanged and in order.** Whatever list the
derive accepts, the arguments it found are the input cut at commas: nothing dropped, duplicated
or reordered; the only tokens not inside an argument are the separating commas (an optional one
in front, after the literal, and an optional trailing one). -/
theorem args_reemitted_verbatim (ts : List Tok) (as : List Arg) (h : parseArgs ts = some as) :
    SplitOf as ts ∨ ∃ c rest, ts = c :: rest ∧ c.isComma = true ∧ SplitOf as rest := by
  unfold parseArgs at h
  cases ts with
  | nil => simp at h; subst h; exact Or.inl .nil
  | cons t r =>
    simp only at h
    by_cases hc : t.isComma = true
    · simp only [hc, if_true] at h
      exact Or.inr ⟨t, r, rfl, hc, args_loop_reemitted _ _ _ h⟩
    · simp only [hc] at h
      exact Or.inl (args_loop_reemitted _ _ _ h)

/-- Non-vacuity: `, a + 1, n = f(x, y),` is the two arguments `a + 1` and `n = f(x, y)`. -/
example : (parseArgs [.punct ',' false, .ident "a", .punct '+' false, .lit "1", .punct ',' false, .ident "n",
    .punct '=' false, .ident "f", .group .paren [.ident "x", .punct ',' false, .ident "y"], .punct ',' false]).map
      (fun as => as.map fun a => (a.alias, a.expr.toks.length)) = some [(none, 3), (some "n", 2)] := by decide

/-! ### Where the scanner does not split -/

/-- Tokens that trigger none of the special rules: anything but `<`, `|`, `:` and `,` - in
particular every delimited group, whatever it contains. -/
def Plain (t : Tok) : Prop :=
  t.isPunct '<' = false ∧ t.isPunct '|' = false ∧ t.isPunct ':' = false ∧ t.isComma = false

theorem exprStep_plain (t : Tok) (r : List Tok) (h : Plain t) : exprStep (t :: r) = some ([t], r) := by
  obtain ⟨h1, h2, h3, _⟩ := h
  have hps : ∀ r, pathSep (t :: r) = none := by
    intro r
    cases t with
    | punct c j =>
      have : c ≠ ':' := by simpa [Tok.isPunct] using h3
      cases r with
      | nil => simp [pathSep]
      | cons u r' => unfold pathSep; split <;> simp_all
    | _ => cases r <;> simp [pathSep]
  unfold exprStep
  cases r with
  | nil => simp [balancedPair, h1, h2]
  | cons u r' => simp [hps, balancedPair, h1, h2]

/-- Commas inside parentheses, brackets and braces never split: an expression made of plain
tokens (groups included) is consumed as a whole, up to the next top-level comma. -/
theorem plain_tokens_taken_whole : ∀ (e rest acc : List Tok) (fuel : Nat),
    (∀ t ∈ e, Plain t) → StartsWithComma rest → e.length < fuel → (e ≠ [] ∨ True) →
    takeUntilComma fuel (e ++ rest) true acc = some (acc ++ e, rest)
  | [], rest, acc, fuel, _, hr, hf, _ => by
    cases fuel with
    | zero => omega
    | succ f =>
      cases rest with
      | nil => simp [takeUntilComma]
      | cons t r => simp [takeUntilComma, StartsWithComma] at hr ⊢; simp [hr]
  | t :: e, rest, acc, fuel, hp, hr, hf, _ => by
    cases fuel with
    | zero => simp at hf
    | succ f =>
      have ht : Plain t := hp t (by simp)
      have hnc : t.isComma = false := ht.2.2.2
      simp only [List.cons_append, takeUntilComma, hnc, exprStep_plain t (e ++ rest) ht]
      have := plain_tokens_taken_whole e rest (acc ++ [t]) f (fun u hu => hp u (by simp [hu])) hr
        (by simp at hf; omega) (Or.inr trivial)
      simpa using this

/-! #### The whole list, for arguments made of plain tokens and groups -/

/-- `es` joined by the separator `c`. -/
def joinC (c : Tok) : List (List Tok) → List Tok
  | [] => []
  | [e] => e
  | e :: es => e ++ c :: joinC c es

/-- What `Expr::parse` makes of a complete argument: a lone identifier, or a token sequence. -/
def mkExpr (e : List Tok) : Expr :=
  match e with
  | [.ident s] => .ident s
  | _ => .other e

/-- The argument does not begin with `ident =` (which would be read as an alias). -/
def NotAliasStart (e : List Tok) : Prop := ∀ a j r, e ≠ .ident a :: .punct '=' j :: r

theorem startsWithAlias_none (e rest : List Tok) (hne : e ≠ []) (hp : ∀ t ∈ e, Plain t)
    (hna : NotAliasStart e) (hr : StartsWithComma rest) : startsWithAlias (e ++ rest) = none := by
  cases e with
  | nil => exact absurd rfl hne
  | cons t e' =>
    cases t with
    | ident a =>
      cases e' with
      | nil =>
        cases rest with
        | nil => simp [startsWithAlias]
        | cons c r =>
          have hc : c.isComma = true := hr
          cases c <;> simp_all [startsWithAlias, Tok.isComma, Tok.isPunct]
      | cons u e'' =>
        cases u with
        | punct ch j =>
          by_cases hch : ch = '='
          · subst hch; exact absurd rfl (hna a j e'')
          · simp [startsWithAlias, hch]
        | _ => simp [startsWithAlias]
    | _ => simp [startsWithAlias]

theorem comma_is_punct (c : Tok) (hc : c.isComma = true) : ∃ j, c = .punct ',' j := by
  cases c <;> simp_all [Tok.isComma, Tok.isPunct]

theorem parseExpr_plain (e rest : List Tok) (hne : e ≠ []) (hp : ∀ t ∈ e, Plain t)
    (hr : StartsWithComma rest) : parseExpr (e ++ rest) = some (mkExpr e, rest) := by
  have whole : takeUntilComma ((e ++ rest).length + 1) (e ++ rest) false [] = some (e, rest) := by
    cases e with
    | nil => exact absurd rfl hne
    | cons t e' =>
      have ht : Plain t := hp t (by simp)
      simp only [List.cons_append, takeUntilComma, ht.2.2.2, exprStep_plain t (e' ++ rest) ht]
      have := plain_tokens_taken_whole e' rest [t] ((t :: e' ++ rest).length)
        (fun u hu => hp u (by simp [hu])) hr (by simp; omega) (Or.inr trivial)
      simpa using this
  cases e with
  | nil => exact absurd rfl hne
  | cons t e' =>
    cases t with
    | ident s =>
      cases e' with
      | nil =>
        cases rest with
        | nil => simp [parseExpr, mkExpr]
        | cons c r =>
          obtain ⟨j, rfl⟩ := comma_is_punct c hr
          simp [parseExpr, mkExpr]
      | cons u e'' =>
        have hu : Plain u := hp u (by simp)
        have hnc : ∀ j, u ≠ .punct ',' j := by
          intro j h; subst h; simp [Plain, Tok.isComma, Tok.isPunct] at hu
        have hm : mkExpr (.ident s :: u :: e'') = .other (.ident s :: u :: e'') := by simp [mkExpr]
        rw [hm]
        unfold parseExpr
        split
        · rename_i heq; simp at heq
        · rename_i heq
          simp only [List.cons_append, List.cons.injEq] at heq
          exact absurd heq.2.1 (hnc _)
        · rw [whole]
    | punct ch j =>
      have hm : mkExpr (.punct ch j :: e') = .other (.punct ch j :: e') := by simp [mkExpr]
      rw [hm]; unfold parseExpr
      split
      · rename_i heq; simp at heq
      · rename_i heq; simp at heq
      · rw [whole]
    | lit l =>
      have hm : mkExpr (.lit l :: e') = .other (.lit l :: e') := by simp [mkExpr]
      rw [hm]; unfold parseExpr
      split
      · rename_i heq; simp at heq
      · rename_i heq; simp at heq
      · rw [whole]
    | group d g =>
      have hm : mkExpr (.group d g :: e') = .other (.group d g :: e') := by simp [mkExpr]
      rw [hm]; unfold parseExpr
      split
      · rename_i heq; simp at heq
      · rename_i heq; simp at heq
      · rw [whole]

/-- **Commas inside parentheses, brackets and braces never split, and every top-level comma
does**: a list of arguments, each a non-empty sequence of plain tokens and delimited groups
(whatever the groups contain), joined by commas, is read back as exactly those arguments — for
any number of arguments of any length. -/
theorem plain_list_split_at_commas (c : Tok) (hc : c.isComma = true) :
    ∀ (es : List (List Tok)) (fuel : Nat),
      (∀ e ∈ es, e ≠ []) → (∀ e ∈ es, ∀ t ∈ e, Plain t) → (∀ e ∈ es, NotAliasStart e) →
      es.length < fuel →
      parseArgsLoop fuel (joinC c es) = some (es.map fun e => { alias := none, expr := mkExpr e })
  | [], fuel, _, _, _, hf => by
    cases fuel with
    | zero => omega
    | succ f => simp [joinC, parseArgsLoop]
  | [e], fuel, hne, hp, hna, hf => by
    cases fuel with
    | zero => omega
    | succ f =>
      have he : e ≠ [] := hne e (by simp)
      have hpe := hp e (by simp)
      have h1 : parseArg (e ++ []) = some ({ alias := none, expr := mkExpr e }, []) := by
        unfold parseArg
        rw [startsWithAlias_none e [] he hpe (hna e (by simp)) trivial, parseExpr_plain e [] he hpe trivial]
      simp only [List.append_nil] at h1
      cases e with
      | nil => exact absurd rfl he
      | cons t e' => simp [joinC, parseArgsLoop, h1]
  | e :: e2 :: es, fuel, hne, hp, hna, hf => by
    cases fuel with
    | zero => omega
    | succ f =>
      have he : e ≠ [] := hne e (by simp)
      have hpe := hp e (by simp)
      have hr : StartsWithComma (c :: joinC c (e2 :: es)) := hc
      have h1 : parseArg (e ++ c :: joinC c (e2 :: es))
          = some ({ alias := none, expr := mkExpr e }, c :: joinC c (e2 :: es)) := by
        unfold parseArg
        rw [startsWithAlias_none e _ he hpe (hna e (by simp)) hr, parseExpr_plain e _ he hpe hr]
      have ih := plain_list_split_at_commas c hc (e2 :: es) f
        (fun x hx => hne x (by simp [hx])) (fun x hx => hp x (by simp [hx]))
        (fun x hx => hna x (by simp [hx])) (by simp at hf ⊢; omega)
      cases e with
      | nil => exact absurd rfl he
      | cons t e' =>
        simp only [joinC, List.cons_append] at h1 ⊢
        simp only [parseArgsLoop, h1, hc, if_true, ih, List.map_cons]

/-- Non-vacuity: `f(a, b), [x, y], {p, q} + 1` — three arguments although there are six commas. -/
example : (parseArgsLoop 9 (joinC (.punct ',' false)
    [[.ident "f", .group .paren [.ident "a", .punct ',' false, .ident "b"]],
     [.group .bracket [.ident "x", .punct ',' false, .ident "y"]],
     [.group .brace [.ident "p", .punct ',' false, .ident "q"], .punct '+' false, .lit "1"]])).map List.length
    = some 3 := by decide

/-! #### Generic argument lists -/

/-- Sequences balanced with respect to `<` / `>`. -/
inductive Bal : List Tok → Prop where
  | nil : Bal []
  | other (t : Tok) (r : List Tok) : t.isPunct '<' = false → t.isPunct '>' = false → Bal r → Bal (t :: r)
  | nest (o c : Tok) (inner r : List Tok) : o.isPunct '<' = true → c.isPunct '>' = true →
      Bal inner → Bal r → Bal (o :: (inner ++ c :: r))

theorem isPunct_lt_not_gt (t : Tok) (h : t.isPunct '<' = true) : t.isPunct '>' = false := by
  cases t <;> simp_all [Tok.isPunct]

theorem balancedLoop_bal : ∀ (inner : List Tok), Bal inner → ∀ (c : Tok) (r : List Tok) (n : Nat),
    c.isPunct '>' = true →
    balancedLoop '<' '>' (inner ++ c :: r) (n + 1) =
      (balancedLoop '<' '>' r n).map fun (out, r') => (inner ++ c :: out, r') := by
  intro inner hb
  induction hb with
  | nil =>
    intro c r n hc
    simp only [List.nil_append, balancedLoop, hc, if_true]
    cases balancedLoop '<' '>' r n <;> rfl
  | other t rest h1 h2 _ ih =>
    intro c r n hc
    simp only [List.cons_append, balancedLoop, h1, h2, Bool.false_eq_true, if_false]
    rw [ih c r n hc]
    cases balancedLoop '<' '>' r n <;> simp [Option.map]
  | nest o cl inner rest ho hcl _ _ ih1 ih2 =>
    intro c r n hc
    have hog : o.isPunct '>' = false := isPunct_lt_not_gt o ho
    simp only [List.cons_append, balancedLoop, ho, hog, Bool.false_eq_true, if_false, if_true,
      List.append_assoc]
    rw [ih1 cl (rest ++ c :: r) (n + 1) hcl, ih2 c r n hc]
    cases balancedLoop '<' '>' r n <;> simp [Option.map]

/-- `<` balanced-inner `>` is consumed as one unit by `balanced_pair`. -/
theorem balancedPair_bal (o c : Tok) (inner r : List Tok) (ho : o.isPunct '<' = true)
    (hc : c.isPunct '>' = true) (hb : Bal inner) :
    balancedPair '<' '>' (o :: (inner ++ c :: r)) = some (o :: (inner ++ [c]), r) := by
  simp only [balancedPair, ho, if_true]
  rw [balancedLoop_bal inner hb c r 0 hc]
  simp [balancedLoop, Option.map]

/-- Turbofish: the commas of `::<A, B>` do not split. -/
theorem turbofish_taken_whole (j : Bool) (o c : Tok) (inner r : List Tok)
    (ho : o.isPunct '<' = true) (hc : c.isPunct '>' = true) (hb : Bal inner) :
    exprStep (.punct ':' true :: .punct ':' j :: o :: (inner ++ c :: r)) =
      some (.punct ':' true :: .punct ':' j :: o :: (inner ++ [c]), r) := by
  unfold exprStep
  simp [pathSep, balancedPair_bal o c inner r ho hc hb]

/-- Qualified paths: the commas of `<A as T<B, C>>::X` do not split. -/
theorem qualified_path_taken_whole (j : Bool) (o c : Tok) (inner r : List Tok)
    (ho : o.isPunct '<' = true) (hc : c.isPunct '>' = true) (hb : Bal inner) :
    exprStep (o :: (inner ++ c :: .punct ':' true :: .punct ':' j :: r)) =
      some (o :: (inner ++ [c, .punct ':' true, .punct ':' j]), r) := by
  have hnc : ∀ x y, pathSep (o :: x :: y) = none := by
    intro x y
    cases o <;> simp_all [Tok.isPunct, pathSep]
  unfold exprStep
  have hcons : inner ++ c :: .punct ':' true :: .punct ':' j :: r ≠ [] := by simp
  cases hi : inner ++ c :: .punct ':' true :: .punct ':' j :: r with
  | nil => exact absurd hi hcons
  | cons x y =>
    simp only [hnc x y]
    rw [← hi, balancedPair_bal o c inner _ ho hc hb]
    simp [pathSep]

/-- Closure parameter lists: the commas of `|a, b|` do not split. -/
theorem closure_params_taken_whole (o c : Tok) (params r : List Tok)
    (ho : o.isPunct '|' = true) (hc : c.isPunct '|' = true)
    (hp : ∀ t ∈ params, t.isPunct '|' = false)
    :
    balancedPair '|' '|' (o :: (params ++ c :: r)) = some (o :: (params ++ [c]), r) := by
  simp only [balancedPair, ho, if_true]
  have : ∀ (ps : List Tok), (∀ t ∈ ps, t.isPunct '|' = false) →
      balancedLoop '|' '|' (ps ++ c :: r) 1 = some (ps ++ [c], r) := by
    intro ps
    induction ps with
    | nil => intro _; simp [balancedLoop, hc]
    | cons p ps ih =>
      intro h
      have hp1 : p.isPunct '|' = false := h p (by simp)
      simp only [List.cons_append, balancedLoop, hp1, Bool.false_eq_true, if_false, Nat.zero_add]
      rw [ih (fun t ht => h t (by simp [ht]))]
  rw [this params hp]

/-! #### Whole expressions and whole lists with generic arguments and closures -/

theorem exprStep_closure (o c : Tok) (params r : List Tok)
    (ho : o.isPunct '|' = true) (hc : c.isPunct '|' = true)
    (hp : ∀ t ∈ params, t.isPunct '|' = false) :
    exprStep (o :: (params ++ c :: r)) = some (o :: (params ++ [c]), r) := by
  have hlt : o.isPunct '<' = false := by cases o <;> simp_all [Tok.isPunct]
  have hps : ∀ y, pathSep (o :: y) = none := by
    intro y
    cases o with
    | punct ch j =>
      have : ch = '|' := by simpa [Tok.isPunct] using ho
      subst this
      cases y with
      | nil => simp [pathSep]
      | cons u y' => unfold pathSep; split <;> simp_all
    | _ => simp [Tok.isPunct] at ho
  unfold exprStep
  have hcons : params ++ c :: r ≠ [] := by simp
  cases hi : params ++ c :: r with
  | nil => exact absurd hi hcons
  | cons x y =>
    simp only [hps]
    rw [← hi]
    simp only [balancedPair, hlt, Bool.false_eq_true, if_false]
    have := closure_params_taken_whole o c params r ho hc hp
    simp only [balancedPair, ho, if_true] at this
    simp only [ho, if_true]
    cases hb : balancedLoop '|' '|' (params ++ c :: r) 1 with
    | none => simp [hb] at this
    | some pr => simp only [hb] at this ⊢; exact this

/-- An expression as a sequence of chunks the scanner takes one at a time: a plain token (any
delimited group included), a turbofish `::<..>`, a qualified-path head `<..>::`, a closure
parameter list `|..|`. The angle brackets are balanced inside, to any nesting depth. -/
inductive Chunked : List Tok → Prop where
  | nil : Chunked []
  | plain (t : Tok) (r : List Tok) : Plain t → Chunked r → Chunked (t :: r)
  | turbofish (j : Bool) (o c : Tok) (inner r : List Tok) :
      o.isPunct '<' = true → c.isPunct '>' = true → Bal inner → Chunked r →
      Chunked (.punct ':' true :: .punct ':' j :: o :: (inner ++ c :: r))
  | qpath (j : Bool) (o c : Tok) (inner r : List Tok) :
      o.isPunct '<' = true → c.isPunct '>' = true → Bal inner → Chunked r →
      Chunked (o :: (inner ++ c :: .punct ':' true :: .punct ':' j :: r))
  | closure (o c : Tok) (params r : List Tok) :
      o.isPunct '|' = true → c.isPunct '|' = true → (∀ t ∈ params, t.isPunct '|' = false) →
      Chunked r → Chunked (o :: (params ++ c :: r))

theorem not_comma_of_isPunct (t : Tok) (ch : Char) (hne : ch ≠ ',') (h : t.isPunct ch = true) :
    t.isComma = false := by
  cases t <;> simp_all [Tok.isComma, Tok.isPunct]

/-- **Commas inside generic argument lists and closure parameter lists never split** (nor those
inside groups): a chunked expression is consumed as a whole, up to the next top-level comma. -/
theorem chunked_taken_whole : ∀ (e : List Tok), Chunked e → ∀ (rest acc : List Tok) (fuel : Nat) (parsed : Bool),
    StartsWithComma rest → e.length < fuel → (e ≠ [] ∨ parsed = true) →
    takeUntilComma fuel (e ++ rest) parsed acc = some (acc ++ e, rest) := by
  intro e he
  induction he with
  | nil =>
    intro rest acc fuel parsed hr hf hp
    have hpt : parsed = true := by rcases hp with h | h; exact absurd rfl h; exact h
    subst hpt
    cases fuel with
    | zero => omega
    | succ f =>
      cases rest with
      | nil => simp [takeUntilComma]
      | cons t r => simp [takeUntilComma, StartsWithComma] at hr ⊢; simp [hr]
  | plain t r ht _ ih =>
    intro rest acc fuel parsed hr hf _
    cases fuel with
    | zero => simp at hf
    | succ f =>
      simp only [List.cons_append, takeUntilComma, ht.2.2.2, exprStep_plain t (r ++ rest) ht]
      have := ih rest (acc ++ [t]) f true hr (by simp at hf; omega) (Or.inr rfl)
      simpa using this
  | turbofish j o c inner r ho hc hb _ ih =>
    intro rest acc fuel parsed hr hf _
    cases fuel with
    | zero => simp at hf
    | succ f =>
      have hstep := turbofish_taken_whole j o c inner (r ++ rest) ho hc hb
      have hnc : (Tok.punct ':' true).isComma = false := by simp [Tok.isComma, Tok.isPunct]
      have heq : (Tok.punct ':' true :: Tok.punct ':' j :: o :: (inner ++ c :: r)) ++ rest
          = Tok.punct ':' true :: Tok.punct ':' j :: o :: (inner ++ c :: (r ++ rest)) := by simp
      rw [heq]
      simp only [takeUntilComma, hnc, hstep]
      have := ih rest (acc ++ (Tok.punct ':' true :: Tok.punct ':' j :: o :: (inner ++ [c]))) f true hr
        (by simp at hf ⊢; omega) (Or.inr rfl)
      simpa using this
  | qpath j o c inner r ho hc hb _ ih =>
    intro rest acc fuel parsed hr hf _
    cases fuel with
    | zero => simp at hf
    | succ f =>
      have hstep := qualified_path_taken_whole j o c inner (r ++ rest) ho hc hb
      have hnc : o.isComma = false := not_comma_of_isPunct o '<' (by decide) ho
      have heq : (o :: (inner ++ c :: Tok.punct ':' true :: Tok.punct ':' j :: r)) ++ rest
          = o :: (inner ++ c :: Tok.punct ':' true :: Tok.punct ':' j :: (r ++ rest)) := by simp
      rw [heq]
      simp only [takeUntilComma, hnc, hstep]
      have := ih rest (acc ++ (o :: (inner ++ [c, Tok.punct ':' true, Tok.punct ':' j]))) f true hr
        (by simp at hf ⊢; omega) (Or.inr rfl)
      simpa using this
  | closure o c params r ho hc hp _ ih =>
    intro rest acc fuel parsed hr hf _
    cases fuel with
    | zero => simp at hf
    | succ f =>
      have hstep := exprStep_closure o c params (r ++ rest) ho hc hp
      have hnc : o.isComma = false := not_comma_of_isPunct o '|' (by decide) ho
      have heq : (o :: (params ++ c :: r)) ++ rest = o :: (params ++ c :: (r ++ rest)) := by simp
      rw [heq]
      simp only [takeUntilComma, hnc, hstep]
      have := ih rest (acc ++ (o :: (params ++ [c]))) f true hr (by simp at hf ⊢; omega) (Or.inr rfl)
      simpa using this

theorem chunked_head_not_comma (t : Tok) (r : List Tok) (h : Chunked (t :: r)) : t.isComma = false := by
  cases h with
  | plain _ _ ht _ => exact ht.2.2.2
  | turbofish j o c inner r' ho hc hb hr => simp [Tok.isComma, Tok.isPunct]
  | qpath j o c inner r' ho hc hb hr => exact not_comma_of_isPunct _ '<' (by decide) ho
  | closure o c params r' ho hc hp hr => exact not_comma_of_isPunct _ '|' (by decide) ho

theorem chunked_tail (t : Tok) (r : List Tok) (ht : Plain t) (h : Chunked (t :: r)) : Chunked r := by
  cases h with
  | plain _ _ _ hr => exact hr
  | turbofish j o c inner r' ho hc hb hr => simp [Plain, Tok.isPunct] at ht
  | qpath j o c inner r' ho hc hb hr => exact absurd ho (by simp [ht.1])
  | closure o c params r' ho hc hp hr => exact absurd ho (by simp [ht.2.1])

theorem startsWithAlias_none_any (e rest : List Tok) (hne : e ≠ []) (hna : NotAliasStart e)
    (hr : StartsWithComma rest) : startsWithAlias (e ++ rest) = none := by
  cases e with
  | nil => exact absurd rfl hne
  | cons t e' =>
    cases t with
    | ident a =>
      cases e' with
      | nil =>
        cases rest with
        | nil => simp [startsWithAlias]
        | cons c r =>
          have hc : c.isComma = true := hr
          cases c <;> simp_all [startsWithAlias, Tok.isComma, Tok.isPunct]
      | cons u e'' =>
        cases u with
        | punct ch j =>
          by_cases hch : ch = '='
          · subst hch; exact absurd rfl (hna a j e'')
          · simp [startsWithAlias, hch]
        | _ => simp [startsWithAlias]
    | _ => simp [startsWithAlias]

theorem parseExpr_chunked (e rest : List Tok) (hne : e ≠ []) (hch : Chunked e)
    (hr : StartsWithComma rest) : parseExpr (e ++ rest) = some (mkExpr e, rest) := by
  have whole : takeUntilComma ((e ++ rest).length + 1) (e ++ rest) false [] = some (e, rest) := by
    have := chunked_taken_whole e hch rest [] ((e ++ rest).length + 1) false hr (by simp; omega) (Or.inl hne)
    simpa using this
  cases e with
  | nil => exact absurd rfl hne
  | cons t e' =>
    cases t with
    | ident s =>
      cases e' with
      | nil =>
        cases rest with
        | nil => simp [parseExpr, mkExpr]
        | cons c r =>
          obtain ⟨j, rfl⟩ := comma_is_punct c hr
          simp [parseExpr, mkExpr]
      | cons u e'' =>
        have hpl : Plain (Tok.ident s) := by simp [Plain, Tok.isPunct, Tok.isComma]
        have hu : u.isComma = false := chunked_head_not_comma u e'' (chunked_tail _ _ hpl hch)
        have hnc : ∀ j, u ≠ .punct ',' j := by
          intro j h; subst h; simp [Tok.isComma, Tok.isPunct] at hu
        have hm : mkExpr (.ident s :: u :: e'') = .other (.ident s :: u :: e'') := by simp [mkExpr]
        rw [hm]
        unfold parseExpr
        split
        · rename_i heq; simp at heq
        · rename_i heq
          simp only [List.cons_append, List.cons.injEq] at heq
          exact absurd heq.2.1 (hnc _)
        · rw [whole]
    | punct ch j =>
      have hm : mkExpr (.punct ch j :: e') = .other (.punct ch j :: e') := by simp [mkExpr]
      rw [hm]; unfold parseExpr
      split
      · rename_i heq; simp at heq
      · rename_i heq; simp at heq
      · rw [whole]
    | lit l =>
      have hm : mkExpr (.lit l :: e') = .other (.lit l :: e') := by simp [mkExpr]
      rw [hm]; unfold parseExpr
      split
      · rename_i heq; simp at heq
      · rename_i heq; simp at heq
      · rw [whole]
    | group d g =>
      have hm : mkExpr (.group d g :: e') = .other (.group d g :: e') := by simp [mkExpr]
      rw [hm]; unfold parseExpr
      split
      · rename_i heq; simp at heq
      · rename_i heq; simp at heq
      · rw [whole]

/-- **The whole list, with generic arguments and closures**: any number of chunked arguments
(plain tokens, groups, turbofish, qualified paths, closure parameter lists — balanced to any depth)
joined by commas is read back as exactly those arguments. Together with the known findings below
(a binary `|`, a cast to a generic type, `->` inside generic arguments, `a < b, c > ::d`) this is
where the scanner agrees with Rust's grammar and where it does not. -/
theorem chunked_list_split_at_commas (c : Tok) (hc : c.isComma = true) :
    ∀ (es : List (List Tok)) (fuel : Nat),
      (∀ e ∈ es, e ≠ []) → (∀ e ∈ es, Chunked e) → (∀ e ∈ es, NotAliasStart e) →
      es.length < fuel →
      parseArgsLoop fuel (joinC c es) = some (es.map fun e => { alias := none, expr := mkExpr e })
  | [], fuel, _, _, _, hf => by
    cases fuel with
    | zero => omega
    | succ f => simp [joinC, parseArgsLoop]
  | [e], fuel, hne, hp, hna, hf => by
    cases fuel with
    | zero => omega
    | succ f =>
      have he : e ≠ [] := hne e (by simp)
      have hpe := hp e (by simp)
      have h1 : parseArg (e ++ []) = some ({ alias := none, expr := mkExpr e }, []) := by
        unfold parseArg
        rw [startsWithAlias_none_any e [] he (hna e (by simp)) trivial, parseExpr_chunked e [] he hpe trivial]
      simp only [List.append_nil] at h1
      cases e with
      | nil => exact absurd rfl he
      | cons t e' => simp [joinC, parseArgsLoop, h1]
  | e :: e2 :: es, fuel, hne, hp, hna, hf => by
    cases fuel with
    | zero => omega
    | succ f =>
      have he : e ≠ [] := hne e (by simp)
      have hpe := hp e (by simp)
      have hr : StartsWithComma (c :: joinC c (e2 :: es)) := hc
      have h1 : parseArg (e ++ c :: joinC c (e2 :: es))
          = some ({ alias := none, expr := mkExpr e }, c :: joinC c (e2 :: es)) := by
        unfold parseArg
        rw [startsWithAlias_none_any e _ he (hna e (by simp)) hr, parseExpr_chunked e _ he hpe hr]
      have ih := chunked_list_split_at_commas c hc (e2 :: es) f
        (fun x hx => hne x (by simp [hx])) (fun x hx => hp x (by simp [hx]))
        (fun x hx => hna x (by simp [hx])) (by simp at hf ⊢; omega)
      cases e with
      | nil => exact absurd rfl he
      | cons t e' =>
        simp only [joinC, List.cons_append] at h1 ⊢
        simp only [parseArgsLoop, h1, hc, if_true, ih, List.map_cons]

/-- Non-vacuity: `f::<A, B>(x)`, `<A as T<B, C>>::X` and `|p, q| p` are chunked. -/
example : Chunked [.ident "f", .punct ':' true, .punct ':' false, .punct '<' false, .ident "A", .punct ',' false,
    .ident "B", .punct '>' false, .group .paren [.ident "x"]] :=
  .plain _ _ (by simp [Plain, Tok.isPunct, Tok.isComma])
    (.turbofish false (.punct '<' false) (.punct '>' false) [.ident "A", .punct ',' false, .ident "B"] _ rfl rfl
      (.other _ _ rfl rfl (.other _ _ rfl rfl (.other _ _ rfl rfl .nil)))
      (.plain _ _ (by simp [Plain, Tok.isPunct, Tok.isComma]) .nil))

/-! ### Known deviations from Rust's grammar (kernel-checked witnesses of the findings) -/

/-- `a | b, c | d`: a binary `|` is taken for the start of a closure parameter list and the
comma is swallowed - one argument instead of two. -/
theorem binary_or_swallows_comma :
    (parseArgs [.punct ',' false, .ident "a", .punct '|' false, .ident "b", .punct ',' false,
      .ident "c", .punct '|' false, .ident "d"]).map List.length = some 1 := by decide

/-- `x as M<K, V>`: without a `::` next to it the generic argument list of a cast is split. -/
theorem cast_to_generic_type_is_split :
    (parseArgs [.punct ',' false, .ident "x", .ident "as", .ident "M", .punct '<' false, .ident "K",
      .punct ',' false, .ident "V", .punct '>' false]).map List.length = some 2 := by decide

/-- `a < b, c > ::d`: the `<` of one argument and the `> ::` of a later one are paired as `<..>::`;
one argument instead of two comparisons. -/
theorem lt_and_gt_global_path_is_one_argument :
    (parseArgs [.punct ',' false, .ident "a", .punct '<' false, .ident "b", .punct ',' false,
      .ident "c", .punct '>' false, .punct ':' true, .punct ':' false, .ident "d"]).map List.length = some 1 := by decide

/-- Non-vacuity: `f::<A, B>(1), y` is two arguments. -/
example : (parseArgs [.punct ',' false, .ident "f", .punct ':' true, .punct ':' true, .punct '<' false,
    .ident "A", .punct ',' false, .ident "B", .punct '>' false, .group .paren [.lit "1"],
    .punct ',' false, .ident "y"]).map List.length = some 2 := by decide

end Dm.Props.C16

/-
C12 — `TryFrom<repr>` is the exact inverse of the enum-to-integer cast.
-/
import Dm.Gen.ReprInts
import Dm.Model.TryFromRepr

namespace Dm.Props.C12
open Dm.TF

/-- Invariant linking the code's `(last, inc)` bookkeeping to Rust's "previous discriminant". -/
theorem constsFrom_eq (vs : List Variant) : ∀ (last : Int) (inc : Nat) (prev : Option Int),
    (match prev with | some p => last + inc = p + 1 | none => last + (inc : Int) = 0) →
    constsFrom last inc vs = discrsFrom prev vs := by
  induction vs with
  | nil => intros; rfl
  | cons v vs ih =>
    intro last inc prev h
    cases hd : v.discr with
    | some d =>
      simp only [constsFrom, discrsFrom, hd]
      have := ih d 1 (some d) (by simp)
      simpa using this
    | none =>
      simp only [constsFrom, discrsFrom, hd]
      cases prev with
      | none =>
        simp only at h
        have := ih last (inc + 1) (some 0) (by simp only; omega)
        simp only [h]
        exact congrArg _ this
      | some p =>
        simp only at h
        have := ih last (inc + 1) (some (p + 1)) (by simp only; omega)
        simp only [h]
        exact congrArg _ this

/-- Every generated constant is the variant's discriminant as Rust defines it: explicit, or the
previous one plus one, counting variants with fields too - for every layout. -/
theorem const_is_discriminant (vs : List Variant) : consts vs = discrs vs :=
  constsFrom_eq vs 0 0 none (by simp)

theorem tryFromAux_spec : ∀ (l : List (Variant × Int)) (i : Nat) (n : Int) (k : Nat),
    tryFromAux l i n = some k ↔
      ∃ j, k = i + j ∧ (∃ x, l[j]? = some x ∧ x.1.fieldless = true ∧ x.2 = n)
        ∧ ∀ j' < j, ∀ y, l[j']? = some y → ¬ (y.1.fieldless = true ∧ y.2 = n) := by
  intro l
  induction l with
  | nil => intro i n k; simp [tryFromAux]
  | cons a rest ih =>
    intro i n k
    obtain ⟨v, c⟩ := a
    by_cases h : (v.fieldless && decide (c = n)) = true
    · simp only [tryFromAux, h, if_true]
      have h' : v.fieldless = true ∧ c = n := by simpa using h
      constructor
      · intro hk
        cases hk
        exact ⟨0, by simp, ⟨(v, c), by simp, h'.1, h'.2⟩, by intro j' hj'; omega⟩
      · rintro ⟨j, rfl, ⟨x, hx, hf, hn⟩, hmin⟩
        cases j with
        | zero => simp
        | succ j => exact absurd h' (hmin 0 (by omega) (v, c) (by simp))
    · simp only [tryFromAux, h, Bool.false_eq_true, if_false]
      have h' : ¬ (v.fieldless = true ∧ c = n) := by simpa using h
      rw [ih (i + 1) n k]
      constructor
      · rintro ⟨j, rfl, ⟨x, hx, hf, hn⟩, hmin⟩
        refine ⟨j + 1, by omega, ⟨x, by simpa using hx, hf, hn⟩, ?_⟩
        intro j' hj' y hy
        cases j' with
        | zero => simp at hy; subst hy; exact h'
        | succ j' => exact hmin j' (by omega) y (by simpa using hy)
      · rintro ⟨j, rfl, ⟨x, hx, hf, hn⟩, hmin⟩
        cases j with
        | zero => simp at hx; subst hx; exact absurd ⟨hf, hn⟩ h'
        | succ j =>
          refine ⟨j, by omega, ⟨x, by simpa using hx, hf, hn⟩, ?_⟩
          intro j' hj' y hy
          exact hmin (j' + 1) (by omega) y (by simpa using hy)

/-- `try_from(n)` is `Ok(v)` iff `v` is a field-less variant whose discriminant is `n` (the first
such one; Rust rejects enums with duplicate discriminants), otherwise `Err`. -/
theorem try_from_iff (vs : List Variant) (n : Int) (k : Nat) :
    tryFrom vs n = some k ↔
      (∃ v, vs[k]? = some v ∧ v.fieldless = true ∧ (discrs vs)[k]? = some n)
      ∧ ∀ k' < k, ∀ v', vs[k']? = some v' → ¬ (v'.fieldless = true ∧ (discrs vs)[k']? = some n) := by
  unfold tryFrom
  rw [tryFromAux_spec, const_is_discriminant]
  have hlen : (discrs vs).length = vs.length := by
    unfold discrs
    generalize (none : Option Int) = p
    induction vs generalizing p with
    | nil => rfl
    | cons v vs ih => simp [discrsFrom, ih]
  constructor
  · rintro ⟨j, hk, ⟨x, hx, hf, hn⟩, hmin⟩
    have hkj : k = j := by omega
    subst hkj
    rw [List.getElem?_zip_eq_some] at hx
    refine ⟨⟨x.1, hx.1, hf, by rw [hx.2, hn]⟩, ?_⟩
    intro k' hk' v' hv' ⟨hf', hd'⟩
    exact hmin k' hk' (v', n) (by rw [List.getElem?_zip_eq_some]; exact ⟨hv', hd'⟩) ⟨hf', rfl⟩
  · rintro ⟨⟨v, hv, hf, hd⟩, hmin⟩
    refine ⟨k, by omega, ⟨(v, n), by rw [List.getElem?_zip_eq_some]; exact ⟨hv, hd⟩, hf, rfl⟩, ?_⟩
    intro j' hj' y hy ⟨hf', hn'⟩
    rw [List.getElem?_zip_eq_some] at hy
    exact hmin j' hj' y.1 hy.1 ⟨hf', by rw [hy.2, hn']⟩

/-- Round trip: what `try_from` accepts casts back to the same integer. -/
theorem cast_roundtrip (vs : List Variant) (n : Int) (k : Nat) (h : tryFrom vs n = some k) :
    (discrs vs)[k]? = some n := by
  obtain ⟨⟨v, _, _, hd⟩, _⟩ := (try_from_iff vs n k).1 h
  exact hd

/-- Values that are no field-less variant's discriminant are rejected. -/
theorem no_variant_is_err (vs : List Variant) (n : Int)
    (h : ∀ (k : Nat) (v : Variant), vs[k]? = some v → v.fieldless = true → (discrs vs)[k]? ≠ some n) :
    tryFrom vs n = none := by
  cases ht : tryFrom vs n with
  | none => rfl
  | some k =>
    obtain ⟨⟨v, hv, hf, hd⟩, _⟩ := (try_from_iff vs n k).1 ht
    exact absurd hd (h k v hv hf)

/-! ### In the representation type -/

theorem wrap_of_fits (r : Range) (x : Int) (h : r.fits x = true) : r.wrap x = x := by
  simp only [Range.fits, Bool.and_eq_true, decide_eq_true_eq] at h
  unfold Range.wrap Range.size
  rw [Int.emod_eq_of_lt (by omega) (by omega)]
  omega

theorem wrap_add_wrap (r : Range) (a b : Int) : r.wrap (a + r.wrap b) = r.wrap (a + b) := by
  unfold Range.wrap
  have : a + ((b - r.lo) % r.size + r.lo) - r.lo = a + (b - r.lo) % r.size := by omega
  rw [this, Int.add_emod_emod]
  have : a + (b - r.lo) = a + b - r.lo := by omega
  rw [this]

/-- A discriminant that fits the representation type is computed exactly, however large the
distance from the last explicit discriminant is (it may exceed the type's positive range). -/
theorem constW_exact (r : Range) (last : Int) (inc : Nat) (h : r.fits (last + inc) = true) :
    constW r last inc = last + inc := by
  unfold constW
  rw [wrap_add_wrap, wrap_of_fits r _ h]

theorem constsFromW_eq (r : Range) (vs : List Variant) : ∀ (last : Int) (inc : Nat),
    (∀ x ∈ constsFrom last inc vs, r.fits x = true) →
    constsFromW r last inc vs = constsFrom last inc vs := by
  induction vs with
  | nil => intros; rfl
  | cons v vs ih =>
    intro last inc h
    cases hd : v.discr with
    | none =>
      simp only [constsFrom, constsFromW, hd] at h ⊢
      rw [constW_exact r last inc (h _ (by simp)), ih last (inc + 1) (fun x hx => h x (by simp [hx]))]
    | some d =>
      simp only [constsFrom, constsFromW, hd] at h ⊢
      have h0 := h (d + ((0 : Nat) : Int)) (by simp)
      rw [constW_exact r d 0 h0, ih d (0 + 1) (fun x hx => h x (by simp [hx]))]

/-- **Whenever rustc accepts the enum** (every discriminant is a value of the representation
type), the generated constants, computed in that type, are the discriminants — for every number
of variants and every integer width. -/
theorem consts_in_repr_are_discriminants (r : Range) (vs : List Variant)
    (h : ∀ x ∈ discrs vs, r.fits x = true) : constsW r vs = discrs vs := by
  unfold constsW
  rw [constsFromW_eq r vs 0 0 (by rw [show constsFrom 0 0 vs = consts vs from rfl, const_is_discriminant]; exact h)]
  exact const_is_discriminant vs

/-- The defect of the pinned tree (fixed): `#[repr(i8)] enum E { A0 = -1, A1, .., A128 }` is a
valid enum (`A128 = 127`), but `(-1) + 128` with `128` read as an `i8` literal is `-1 + -128`,
which overflows: the derive did not compile. The wrapping form gives 127. -/
theorem i8_far_variant_witness :
    constChecked i8 (-1) 128 = none ∧ constW i8 (-1) 128 = 127 ∧ i8.fits (-1 + 128) = true := by decide

/-- The integer names the working tree's `attr::ReprInt` recognises (table regenerated from
impl/src/utils.rs on every run) are exactly the twelve integer types of the model, each once, and
its default is the model's (`isize`): a hint the code does not know would be skipped silently. -/
theorem source_repr_ints_are_the_model :
    Dm.Gen.reprIntNames = allIntTys.map IntTy.name ∧ Dm.Gen.reprDefaultName = IntTy.isize.name
    ∧ Dm.Gen.reprIntUnread = 0 ∧ (allIntTys.map IntTy.name).Nodup := by
  decide +kernel

/-- The representation type: a single integer hint among any other hints, else `isize`. -/
theorem repr_single_attr (hs : List Hint) :
    reprOf [hs] = .ok ((attrRepr hs).getD .isize) := by
  simp only [reprOf, mergeRepr, List.map, List.foldlM, pure, Except.pure]
  cases attrRepr hs <;> rfl

theorem repr_none : reprOf [] = .ok .isize := rfl

/-- Inside one `#[repr(..)]` the integer hint is found wherever it stands: other hints before it
(`C`, `align(8)`, ..) and after it do not matter (`#[repr(u16, align(8))]`, `#[repr(C, u8)]`). -/
theorem int_hint_found_anywhere (pre post : List Hint) (t : IntTy) (h : ∀ x ∈ post, x = Hint.other) :
    attrRepr (pre ++ Hint.int t :: post) = some t := by
  unfold attrRepr
  rw [List.foldl_append, List.foldl_cons]
  generalize (List.foldl (fun acc h => match h with | .int t => some t | .other => acc) none pre) = a
  simp only
  induction post generalizing a with
  | nil => rfl
  | cons x r ih =>
    have hx : x = Hint.other := h x (by simp)
    subst hx
    simp only [List.foldl_cons]
    exact ih (fun y hy => h y (by simp [hy])) a

/-- Non-vacuity: `enum { A = 1 << 3, B, C(u8), D = 2 | 1, E }` (values 8, 9, 10, 3, 4). -/
example : consts [⟨"A", true, some 8⟩, ⟨"B", true, none⟩, ⟨"C", false, none⟩, ⟨"D", true, some 3⟩,
    ⟨"E", true, none⟩] = [8, 9, 10, 3, 4] := by decide
example : tryFrom [⟨"A", true, some 8⟩, ⟨"B", true, none⟩, ⟨"C", false, none⟩] 10 = none := by decide

end Dm.Props.C12

/-
C10 — derived operators act field-wise with operand order preserved.
-/
import Dm.Model.Ops

set_option linter.unusedSimpArgs false

namespace Dm.Props.C10
open Dm.Ops

variable {α β : Type}

theorem map_range_getD (n : Nat) (l r : List α) (d : α) (f : α → α → α)
    (hl : l.length = n) (hr : r.length = n) :
    (List.range n).map (fun i => f (l.getD i d) (r.getD i d)) = List.zipWith f l r := by
  apply List.ext_getElem
  · simp [hl, hr]
  · intro i h1 h2
    simp at h1
    simp [List.getD, List.getElem?_eq_getElem, hl ▸ h1, hr ▸ h1]

/-- Binary derives on structs: the i-th field of the result is `lhs.i op rhs.i` - operands in
this order, for any (non-commutative) `op`, any number of fields. -/
theorem add_struct (op : α → α → α) (sop : α → β → α) (u : α → α) (e : Nat → α) (sc : β) (d : α)
    (n : Nat) (l r : List α) (hl : l.length = n) (hr : r.length = n) :
    (fieldwiseBin n).map (eval op sop u e l r sc d) = List.zipWith op l r := by
  unfold fieldwiseBin
  rw [List.map_map]
  have : (eval op sop u e l r sc d ∘ fun i => X.bin (X.fld Side.lhs i) (X.fld Side.rhs i))
      = fun i => op (l.getD i d) (r.getD i d) := by
    funext i; simp [eval]
  rw [this]
  exact map_range_getD n l r d op hl hr

/-- Scalar `Mul`-like derives: every field is `field_i op rhs`. -/
theorem mul_scalar (op : α → α → α) (sop : α → β → α) (u : α → α) (e : Nat → α) (sc : β) (d : α)
    (n : Nat) (l r : List α) (hl : l.length = n) :
    (fieldwiseScalar n).map (eval op sop u e l r sc d) = l.map fun x => sop x sc := by
  unfold fieldwiseScalar
  rw [List.map_map]
  apply List.ext_getElem
  · simp [hl]
  · intro i h1 h2
    simp at h1
    simp [eval, List.getD, List.getElem?_eq_getElem, hl ▸ h1]

/-- `Not` / `Neg`: every field is mapped. -/
theorem unary_struct (op : α → α → α) (sop : α → β → α) (u : α → α) (e : Nat → α) (sc : β) (d : α)
    (n : Nat) (l r : List α) (hl : l.length = n) :
    (fieldwiseUn n).map (eval op sop u e l r sc d) = l.map u := by
  unfold fieldwiseUn
  rw [List.map_map]
  apply List.ext_getElem
  · simp [hl]
  · intro i h1 h2
    simp at h1
    simp [eval, List.getD, List.getElem?_eq_getElem, hl ▸ h1]

/-- `*Assign`: the statements `self.i.m_assign(rhs.i)` leave `a` equal to what `a op b` returns,
whenever the field type's assigning operator agrees with its binary one. -/
theorem assign_matches_binary (op opAssign : α → α → α) (h : ∀ x y, opAssign x y = op x y)
    (l r : List α) : List.zipWith opAssign l r = List.zipWith op l r := by
  congr 1; funext x y; exact h x y

/-- `Sum` / `Product`: folding the iterator with the derived field-wise operator from the
field-wise empty sum gives, in every field, the fold of that field's values. -/
theorem sum_is_fieldwise_fold (op : α → α → α) (d : α) (xs : List (List α)) (ident : List α)
    (n : Nat) (hid : ident.length = n) (hx : ∀ x ∈ xs, x.length = n) (i : Nat) (hi : i < n) :
    (xs.foldl (List.zipWith op) ident).getD i d
      = (xs.map fun x => x.getD i d).foldl op (ident.getD i d) := by
  induction xs generalizing ident with
  | nil => rfl
  | cons x xs ih =>
    have hxl : x.length = n := hx x (by simp)
    simp only [List.foldl, List.map]
    rw [ih (List.zipWith op ident x) (by simp [hid, hxl]) (fun y hy => hx y (by simp [hy]))]
    congr 1
    simp [List.getD, List.getElem?_zipWith, List.getElem?_eq_getElem, hid ▸ hi, hxl ▸ hi]

/-! ### Enums -/

theorem eval_variant_arms_same (op : α → α → α) (d : α) (tail : List Arm) :
    ∀ (ks : List VKind) (i v n : Nat) (l r : List α), i ≤ v → ks[v - i]? = some (.fields n) →
      l.length = n → r.length = n →
      evalEnum op d (variantArms i ks ++ tail) (v, l) (v, r) = some (.ok (v, List.zipWith op l r)) := by
  intro ks
  induction ks with
  | nil => intro i v n l r _ h; simp at h
  | cons k ks ih =>
    intro i v n l r hiv hk hl hr
    by_cases hvi : v = i
    · subst hvi
      simp at hk
      subst hk
      simp only [variantArms, List.cons_append, evalEnum, and_self, if_true]
      congr 3
      exact add_struct op (fun x (_ : Unit) => x) id (fun _ => d) () d n l r hl hr
    · have hlt : i < v := by omega
      have hk' : ks[v - (i + 1)]? = some (.fields n) := by
        have : v - i = (v - (i + 1)) + 1 := by omega
        rw [this] at hk
        simpa using hk
      have hne : ¬ (v = i ∧ v = i) := by omega
      cases k with
      | unit =>
        simp only [variantArms, List.cons_append, evalEnum, hne, if_false]
        exact ih (i + 1) v n l r (by omega) hk' hl hr
      | fields m =>
        simp only [variantArms, List.cons_append, evalEnum, hne, if_false]
        exact ih (i + 1) v n l r (by omega) hk' hl hr

theorem eval_variant_arms_unit (op : α → α → α) (d : α) (tail : List Arm) :
    ∀ (ks : List VKind) (i v : Nat), i ≤ v → ks[v - i]? = some .unit →
      evalEnum op d (variantArms i ks ++ tail) (v, ([] : List α)) (v, []) = some (.error .unit) := by
  intro ks
  induction ks with
  | nil => intro i v _ h; simp at h
  | cons k ks ih =>
    intro i v hiv hk
    by_cases hvi : v = i
    · subst hvi
      simp at hk
      subst hk
      simp [variantArms, evalEnum]
    · have hk' : ks[v - (i + 1)]? = some .unit := by
        have : v - i = (v - (i + 1)) + 1 := by omega
        rw [this] at hk
        simpa using hk
      have hne : ¬ (v = i ∧ v = i) := by omega
      cases k with
      | unit =>
        simp only [variantArms, List.cons_append, evalEnum, hne, if_false]
        exact ih (i + 1) v (by omega) hk'
      | fields m =>
        simp only [variantArms, List.cons_append, evalEnum, hne, if_false]
        exact ih (i + 1) v (by omega) hk'

theorem eval_variant_arms_diff (op : α → α → α) (d : α) (tail : List Arm) (a b : Nat × List α)
    (hne : a.1 ≠ b.1) :
    ∀ (ks : List VKind) (i : Nat),
      evalEnum op d (variantArms i ks ++ tail) a b = evalEnum op d tail a b := by
  intro ks
  induction ks with
  | nil => intro i; rfl
  | cons k ks ih =>
    intro i
    have hno : ¬ (a.1 = i ∧ b.1 = i) := by omega
    cases k with
    | unit => simp only [variantArms, List.cons_append, evalEnum, hno, if_false]; exact ih (i + 1)
    | fields m => simp only [variantArms, List.cons_append, evalEnum, hno, if_false]; exact ih (i + 1)

/-- Enums: two values of the same variant with fields give `Ok` of the field-wise result. -/
theorem add_enum_same_variant (op : α → α → α) (d : α) (vs : List VKind) (v n : Nat)
    (hv : vs[v]? = some (.fields n)) (l r : List α) (hl : l.length = n) (hr : r.length = n) :
    evalEnum op d (enumArms vs) (v, l) (v, r) = some (.ok (v, List.zipWith op l r)) :=
  eval_variant_arms_same op d _ vs 0 v n l r (by omega) (by simpa using hv) hl hr

/-- Two equal unit variants give the unit error. -/
theorem add_enum_unit_variant (op : α → α → α) (d : α) (vs : List VKind) (v : Nat)
    (hv : vs[v]? = some .unit) :
    evalEnum op d (enumArms vs) (v, ([] : List α)) (v, []) = some (.error .unit) :=
  eval_variant_arms_unit op d _ vs 0 v (by omega) (by simpa using hv)

/-- Operands of different variants give the mismatch error. -/
theorem add_enum_different_variants (op : α → α → α) (d : α) (vs : List VKind) (a b : Nat × List α)
    (hne : a.1 ≠ b.1) (ha : a.1 < vs.length) (hb : b.1 < vs.length) :
    evalEnum op d (enumArms vs) a b = some (.error .mismatch) := by
  unfold enumArms
  rw [eval_variant_arms_diff op d _ a b hne vs 0]
  have hlen : vs.length > 1 := by omega
  simp [hlen, evalEnum]

/-! ### `Not` / `Neg` on enums -/

/-- Inside a variant with fields `Not` / `Neg` map every field and keep the variant; the result is
the enum itself when the enum has no unit variant, `Ok(enum)` when it has one. -/
theorem not_enum_maps_fields (u : α → α) (d : α) (vs : List VKind) (v n : Nat)
    (hv : vs[v]? = some (.fields n)) (l : List α) (hl : l.length = n) :
    evalNot u d (notArms vs) (v, l)
      = some (if notHasUnit vs then .ok (v, l.map u) else .plain (v, l.map u)) := by
  have ha : (notArms vs)[v]? = some (.map n (notHasUnit vs)) := by
    simp [notArms, List.getElem?_map, hv]
  have hm := unary_struct (fun x _ => x) (fun x (_ : Unit) => x) u (fun _ => d) () d n l l hl
  simp only [evalNot, ha]
  rw [hm]

/-- A unit variant gives the unit error. -/
theorem not_enum_unit_variant (u : α → α) (d : α) (vs : List VKind) (v : Nat)
    (hv : vs[v]? = some .unit) (l : List α) :
    evalNot u d (notArms vs) (v, l) = some .err := by
  have ha : (notArms vs)[v]? = some .unitErr := by simp [notArms, List.getElem?_map, hv]
  simp [evalNot, ha]

/-- The output type is `Result` exactly when a *unit* variant exists: field-less tuple / struct
variants (`Empty()`, `Empty {}`) are variants with zero fields and are mapped like the others. -/
theorem not_enum_result_iff_unit_variant (vs : List VKind) :
    notHasUnit vs = true ↔ ∃ v : Nat, vs[v]? = some VKind.unit := by
  simp only [notHasUnit, List.any_eq_true, decide_eq_true_eq]
  constructor
  · rintro ⟨k, hk, rfl⟩
    obtain ⟨i, hi, h⟩ := List.getElem_of_mem hk
    exact ⟨i, by simp [List.getElem?_eq_getElem hi, h]⟩
  · rintro ⟨v, hv⟩
    exact ⟨VKind.unit, List.mem_of_getElem? hv, rfl⟩

/-- Non-vacuity: `enum E { Two(a, b), Empty(), Braces {} }` has no unit variant: `!E::Empty()` is
`E::Empty()` itself; with a unit variant added the same value comes back as `Ok(..)`. -/
example : evalNot (fun x : Nat => x + 1) 0 (notArms [.fields 2, .fields 0, .fields 0]) (1, []) = some (.plain (1, [])) := by decide
example : evalNot (fun x : Nat => x + 1) 0 (notArms [.fields 2, .fields 0, .unit]) (0, [5, 6]) = some (.ok (0, [6, 7])) := by decide

end Dm.Props.C10

/-
C02 — derived formatting prints exactly what `format!` prints for the same literal.
-/
import Dm.Model.FmtExpand

namespace Dm.Props.C02
open Dm.Fmt Dm.FmtX

/-- A non-transparent attribute reaches `write!` unchanged: the very same attribute (literal and
argument tokens, `emit`) plus only the pointer re-bindings. -/
theorem write_passes_attribute_verbatim (c : Ctx) (a : FmtAttr) (fields : FieldsD)
    (h : transparentCall c.cc a = none) :
    fmtBody c a fields = .write a (additionalDerefArgs c.cc a fields.idents) := by
  unfold fmtBody transparentCallOnFields
  simp [h]

/-- An attribute's literal is never written raw: the body is either `write!` with the very literal
(so `{{` / `}}` are un-escaped by `format_args!`, also when the literal has no placeholder at all) or
the transparent delegation — nothing else, in particular no `write_str` of the literal's text. -/
theorem attribute_body_is_write_or_delegate (c : Ctx) (a : FmtAttr) (fields : FieldsD) :
    (∃ ds, fmtBody c a fields = .write a ds) ∨ (∃ tr e, fmtBody c a fields = .delegate tr e) := by
  unfold fmtBody
  cases transparentCallOnFields c.cc a fields.idents with
  | none => exact Or.inl ⟨_, rfl⟩
  | some p => exact Or.inr ⟨p.2, p.1, rfl⟩

/-- The only extra arguments are `f = *f` for exactly the fields that the literal names under
`Pointer` and that the user did not alias. -/
theorem deref_args_iff (cc : CharClasses) (a : FmtAttr) (fields : List (Option Name)) (f : Name) :
    f ∈ additionalDerefArgs cc a fields ↔
      f ∈ fmtArgsIdents fields
      ∧ (∃ p ∈ parseFmtString cc a.lit, p.arg = .named (unraw f) ∧ p.trait = .pointer)
      ∧ ¬ ∃ x ∈ a.args, x.alias = some f := by
  unfold additionalDerefArgs
  simp only [List.mem_filter, Bool.and_eq_true, List.any_eq_true, List.mem_filterMap,
    Bool.not_eq_true', decide_eq_true_eq]
  constructor
  · rintro ⟨hf, ⟨u, ⟨p, hp, hu⟩, hfu⟩, hna⟩
    refine ⟨hf, ?_, ?_⟩
    · cases hpa : p.arg with
      | pos i => simp [hpa] at hu
      | named n =>
        by_cases hpt : p.trait = .pointer
        · simp [hpa, hpt] at hu
          subst hu
          exact ⟨p, hp, by rw [hpa, hfu], hpt⟩
        · simp [hpa, hpt] at hu
    · rintro ⟨x, hx, hxa⟩
      have : (a.args.any fun x => decide (x.alias = some f)) = true :=
        List.any_eq_true.2 ⟨x, hx, by simp [hxa]⟩
      simp [this] at hna
  · rintro ⟨hf, ⟨p, hp, hpa, hpt⟩, hna⟩
    refine ⟨hf, ⟨unraw f, ⟨p, hp, by simp [hpa, hpt]⟩, rfl⟩, ?_⟩
    cases hany : (a.args.any fun x => decide (x.alias = some f)) with
    | false => rfl
    | true =>
      obtain ⟨x, hx, hxa⟩ := List.any_eq_true.1 hany
      exact absurd ⟨x, hx, by simpa using hxa⟩ hna

/-- Without an attribute a unit struct / unit variant prints its (unraw) name, converted by
`rename_all` when given. -/
theorem unit_prints_name (c : Ctx) (cont : Container) (ident : Name) (fields : FieldsD)
    (hf : cont.fmt = none) (hu : fields.list = []) :
    displayBody c { shared := none, attrs := cont, ident := ident, fields := fields } =
      .ok (.writeStr (match cont.rename with
        | some cs => c.conv cs (unraw ident)
        | none => String.ofList (unraw ident))) := by
  simp only [displayBody, sharedAttrInfo, hf, hu]
  cases cont.rename <;> rfl

/-- Without an attribute a single-field struct / variant prints as its field does under the
derived trait. -/
theorem single_field_prints_field (c : Ctx) (cont : Container) (ident : Name) (fields : FieldsD)
    (f : FieldD) (hf : cont.fmt = none) (h1 : fields.list = [f]) :
    displayBody c { shared := none, attrs := cont, ident := ident, fields := fields } =
      .ok (.delegate c.tr (String.ofList (f.name.getD "_0".toList))) := by
  simp only [displayBody, sharedAttrInfo, hf, h1]
  rfl

/-! ### Why `f = *f` is needed, and only under `Pointer`

Fragment of std (trusted, validated by the behaviour run): a reference formats like its referent
under every trait except `Pointer`, which prints the reference itself. -/

inductive Val (α : Type) where
  | own (a : α)
  | ref (v : Val α)

def fmtVal {α : Type} (fmtA : Trait → α → String) (addr : Val α → String) : Trait → Val α → String
  | t, .own a => fmtA t a
  | t, .ref v => if t = .pointer then addr v else fmtVal fmtA addr t v

/-- What the generated body binds a field name to inside the literal: a reference to the field
(`let f = &self.f`), re-bound to the field itself when `f = *f` is passed. -/
def bodyBinding {α : Type} (derefd : Bool) (field : α) : Val α :=
  if derefd then .own field else .ref (.own field)

/-- A placeholder naming a field prints the field itself (the documented binding), provided the
`Pointer` ones are re-bound - which `deref_args_iff` says happens exactly for them. -/
theorem named_placeholder_prints_field_itself {α : Type} (fmtA : Trait → α → String)
    (addr : Val α → String) (t : Trait) (derefd : Bool) (field : α)
    (h : t = .pointer → derefd = true) :
    fmtVal fmtA addr t (bodyBinding derefd field) = fmtVal fmtA addr t (.own field) := by
  unfold bodyBinding
  cases derefd with
  | true => rfl
  | false =>
    have ht : t ≠ .pointer := fun hp => by simpa using h hp
    simp [fmtVal, ht]

/-- Non-vacuity of `deref_args_iff`: `#[display("at {type:p} {n}")]` over `{ r#type, n }`. -/
example : additionalDerefArgs ⟨Char.isAlpha, fun c => c.isAlphanum || c = '_', fun c => c = ' '⟩
    { lit := "at {type:p} {n}".toList, emit := "", args := [] }
    [some "r#type".toList, some "n".toList] = ["r#type".toList] := by decide

end Dm.Props.C02

import Dm.Lemmas.TypedAttr
import Dm.Lemmas.TypedInto

/-
C17 — synonymous attribute spellings are equivalent; contradictory ones rejected: the *typed* attribute
parsers of `utils.rs` (`mod attr`) used by From, AsRef / AsMut and TryFrom, and the Into derive's own parser.
`p` ranges over the two `Either` chains `attr::Conversion` (struct level) and `attr::FieldConversion`
(variant / field level), with or without from.rs's legacy-syntax guard. All statements are about every
attribute list.
-/
namespace Dm.Props.C17
open Dm.TypedAttr

/-! ### From / AsRef / AsMut -/

/-- Several attributes, each accepted as a type list, mean the concatenation of their lists. -/
theorem many_type_lists {p : Attr → Option Conv} (c : Args) (cs : List Args)
    (hc : ∀ a ∈ c :: cs, p (.list a) = some (.types a.items)) :
    parseAttrs p ((c :: cs).map .list) = some (some (.types ((c :: cs).map (·.items)).flatten)) := by
  have hchunks : ∀ l : List Args, (∀ a ∈ l, p (.list a) = some (.types a.items)) →
      typeChunks p (l.map .list) = some (l.map (·.items)) := by
    intro l hl
    induction l with
    | nil => rfl
    | cons a rest ih =>
      have h1 : typesOf p (.list a) = some a.items := typesOf_some.mpr (hl a (by simp))
      have h2 := ih (fun b hb => hl b (by simp [hb]))
      simp only [List.map, typeChunks, h1, h2]
  cases cs with
  | nil =>
    have := hc c (by simp)
    simp [parseAttrs_single, this]
  | cons d ds =>
    have := hchunks (c :: d :: ds) hc
    simp only [List.map] at this ⊢
    rw [parseAttrs_many, this]; rfl

/-- **One attribute listing several types ≡ several attributes listing some each**: whenever the single
attribute `one` and the attributes `c :: cs` are type lists with the same types in the same order, they mean
the same. -/
theorem types_one_attribute_or_many {p : Attr → Option Conv} (one c : Args) (cs : List Args)
    (hone : p (.list one) = some (.types one.items))
    (hc : ∀ a ∈ c :: cs, p (.list a) = some (.types a.items))
    (heq : one.items = ((c :: cs).map (·.items)).flatten) :
    parseAttrs p [.list one] = parseAttrs p ((c :: cs).map .list) := by
  rw [many_type_lists c cs hc, parseAttrs_single, hone, heq]; rfl

/-- **Trailing comma** after a non-empty argument list changes nothing, unless it turns the lone word
`forward` / `skip` / `ignore` into a one-element type list (`#[from(forward,)]` is the type `forward`). -/
theorem trailing_comma {p : Attr → Option Conv} (hp : IsConvParser p) (items : List Item) (hne : items ≠ [])
    (hw : items ≠ [.word .forward] ∧ items ≠ [.word .skip] ∧ items ≠ [.word .ignore]) :
    p (.list ⟨items, true⟩) = p (.list ⟨items, false⟩) := by
  obtain ⟨h1, h2, h3⟩ := hw
  have hF : ∀ t, pForward (.list ⟨items, t⟩) = none := by
    intro t; unfold pForward; split
    · rename_i h; simp at h; exact absurd h.1 h1
    · rfl
  have hS : ∀ t, pSkip (.list ⟨items, t⟩) = none := by
    intro t; unfold pSkip; split
    · rename_i h; simp at h; exact absurd h.1 h2
    · rename_i h; simp at h; exact absurd h.1 h3
    · rfl
  have hT : ∀ l, pTypes l (.list ⟨items, true⟩) = pTypes l (.list ⟨items, false⟩) := by
    intro l
    have : items.isEmpty = false := by cases items <;> simp at hne ⊢
    simp [pTypes, this]
  cases hp with
  | conversion l => simp [pConversion, orElse, hF, hT]
  | field l => simp [pFieldConversion, orElse, pEmpty, hF, hS, hT]

/-- **`skip` ≡ `ignore`** where skipping is an option (variant / field level). -/
theorem skip_ignore_synonyms (l : Bool) :
    pFieldConversion l (.list ⟨[.word .skip], false⟩) = some .skip ∧
    pFieldConversion l (.list ⟨[.word .ignore], false⟩) = some .skip := by
  cases l <;> exact ⟨rfl, rfl⟩

/-- **Any order of the attributes**: a permutation of an accepted attribute list is accepted, with the same
meaning — for type lists, the same types up to their order. -/
theorem attribute_order_free {p : Attr → Option Conv} {attrs attrs' : List Attr} (h : attrs.Perm attrs') {r : Option Conv}
    (hr : parseAttrs p attrs = some r) :
    ∃ r', parseAttrs p attrs' = some r' ∧
      (r' = r ∨ ∃ xs ys, r = some (.types xs) ∧ r' = some (.types ys) ∧ xs.Perm ys) := by
  match attrs, attrs', h with
  | [], l', h => rw [List.nil_perm.mp h]; exact ⟨r, hr, Or.inl rfl⟩
  | [a], l', h => have := List.singleton_perm.mp h; subst this; exact ⟨r, hr, Or.inl rfl⟩
  | a :: b :: rest, l', h =>
    rw [parseAttrs_many] at hr
    cases hcs : typeChunks p (a :: b :: rest) with
    | none => simp [hcs] at hr
    | some cs =>
      simp [hcs] at hr
      obtain ⟨cs', h1, h2⟩ := typeChunks_perm p h hcs
      have hlen : 2 ≤ l'.length := by rw [← h.length_eq]; simp
      match l', hlen, h1 with
      | a' :: b' :: rest', _, h1 =>
        refine ⟨some (.types cs'.flatten), ?_, Or.inr ⟨cs.flatten, cs'.flatten, hr.symm, rfl, h2.flatten⟩⟩
        rw [parseAttrs_many, h1]; rfl

/-- **Duplicated or contradicting attributes are rejected**: two attributes of the derive's name on one item
are accepted only when both are type lists. A second `#[from]`, `#[from(forward)]`, `#[from(skip)]`, and
any pair of different kinds (`skip` with `forward`, `forward` with types, `#[as_ref]` with `#[as_ref(skip)]`, …)
make the derive fail. -/
theorem two_attributes_only_type_lists {p : Attr → Option Conv} (a b : Attr) (rest : List Attr) {r : Option Conv}
    (hr : parseAttrs p (a :: b :: rest) = some r) :
    ∀ x ∈ a :: b :: rest, ∃ xs, p x = some (.types xs) := by
  rw [parseAttrs_many] at hr
  cases hcs : typeChunks p (a :: b :: rest) with
  | none => simp [hcs] at hr
  | some cs =>
    have : ∀ (l : List Attr) (cs : List (List Item)), typeChunks p l = some cs → ∀ x ∈ l, ∃ xs, p x = some (.types xs) := by
      intro l
      induction l with
      | nil => intro _ _ x hx; cases hx
      | cons y ys ih =>
        intro cs h x hx
        unfold typeChunks at h
        cases hy : typesOf p y with
        | none => simp [hy] at h
        | some zs =>
          cases hys : typeChunks p ys with
          | none => simp [hy, hys] at h
          | some cs2 =>
            rcases List.mem_cons.mp hx with rfl | hx
            · exact ⟨zs, typesOf_some.mp hy⟩
            · exact ih cs2 hys x hx
    exact this _ cs hcs

/-- **Unknown or malformed arguments are rejected**: every argument of an accepted attribute is something
`syn` reads as a type. A literal, a nested list (`bogus(u8)`, `owned(u8)`, the legacy `types(u8)`), the keyword
`ref`, or `name = value` anywhere in the list makes the derive fail. -/
theorem accepted_arguments_are_types {p : Attr → Option Conv} (hp : IsConvParser p) (args : Args) {c : Conv}
    (h : p (.list args) = some c) : ∀ x ∈ args.items, isType x = true := by
  intro x hx
  rcases conv_cases hp h with ⟨h, _⟩ | ⟨h | h, _⟩ | ⟨h, _⟩ | ⟨args', h1, _, h3⟩
  · cases h
  · cases h; simp at hx; subst hx; rfl
  · cases h; simp at hx; subst hx; rfl
  · cases h; simp at hx; subst hx; rfl
  · cases h1
    simp only [allTypes, List.all_eq_true] at h3
    exact h3 x hx

/-- **Legacy syntax is rejected** by the From derive: an argument list led by `types` / `types(...)`. -/
theorem from_legacy_rejected (items : List Item) (t : Bool) (h : startsWithTypes items = true) :
    pConversion true (.list ⟨items, t⟩) = none ∧ pFieldConversion true (.list ⟨items, t⟩) = none := by
  have hF : pForward (.list ⟨items, t⟩) = none := by
    unfold pForward; split
    · rename_i h'; simp at h'; rw [h'.1] at h; simp [startsWithTypes] at h
    · rfl
  have hS : pSkip (.list ⟨items, t⟩) = none := by
    unfold pSkip; split
    · rename_i h'; simp at h'; rw [h'.1] at h; simp [startsWithTypes] at h
    · rename_i h'; simp at h'; rw [h'.1] at h; simp [startsWithTypes] at h
    · rfl
  have hT : pTypes true (.list ⟨items, t⟩) = none := by simp [pTypes, h]
  exact ⟨by simp [pConversion, orElse, hF, hT], by simp [pFieldConversion, orElse, pEmpty, hF, hS, hT]⟩

/-! ### TryFrom -/

/-- The TryFrom derive generates its conversion for exactly one attribute set: a single `#[try_from(repr)]`.
A repeated `repr`, `repr(<types>)` ("not supported yet"), anything else inside, or a trailing comma fail; no
attribute at all generates nothing. -/
theorem try_from_accepts_exactly (attrs : List Attr) :
    (tryFromItem attrs = some true ↔ attrs = [.list ⟨[.word .repr], false⟩]) ∧
    (tryFromItem attrs = some false ↔ attrs = []) := by
  match attrs with
  | [] => simp [tryFromItem, parseRepr, parseReprFrom]
  | [a] =>
    have h1 : parseRepr [a] = (pRepr a).map some := by
      unfold parseRepr parseReprFrom; cases pRepr a <;> simp [parseReprFrom]
    constructor
    · constructor
      · intro h
        unfold tryFromItem at h
        rw [h1] at h
        cases ha : pRepr a with
        | none => simp [ha] at h
        | some c =>
          cases c with
          | discriminant => rw [pRepr_discriminant ha]
          | types xs => simp [ha] at h
      · intro h
        cases (List.cons.inj h).1
        rfl
    · constructor
      · intro h
        unfold tryFromItem at h
        rw [h1] at h
        cases ha : pRepr a with
        | none => simp [ha] at h
        | some c => cases c <;> simp [ha] at h
      · intro h; cases h
  | a :: b :: rest =>
    have hnone : tryFromItem (a :: b :: rest) = none := by
      unfold tryFromItem parseRepr
      rw [parseReprFrom]
      cases ha : pRepr a with
      | none => rfl
      | some c =>
        simp only []
        cases hr : parseReprFrom (some c) (b :: rest) with
        | none => rfl
        | some r =>
          obtain ⟨xs, rfl⟩ := parseReprFrom_cons_some hr
          rfl
    rw [hnone]
    simp

/-! ### Into -/

/-- **`#[into(a, b)]` ≡ `#[into(a)] #[into(b)]`** (also with `owned(..)`, `ref(..)`, `ref_mut(..)`): when the one
attribute is accepted, so are the two, and they mean the same. -/
theorem into_one_attribute_or_many (xs ys : List Item) (hx : xs ≠ []) (hy : ys ≠ []) (t t1 t2 : Bool) {r : Option IntoStruct}
    (h : parseIntoStruct [.list ⟨xs ++ ys, t⟩] = some r) :
    parseIntoStruct [.list ⟨xs, t1⟩, .list ⟨ys, t2⟩] = some r := by
  have hex : xs.isEmpty = false := by cases xs <;> simp at hx ⊢
  have hey : ys.isEmpty = false := by cases ys <;> simp at hy ⊢
  have hexy : (xs ++ ys).isEmpty = false := by cases xs <;> simp at hx ⊢
  rw [parseIntoStruct_single] at h
  simp only [pIntoStruct, pConvs_eq, pConvsArgs_eq, hexy, Bool.false_and] at h
  rw [loopFrom_append_comb] at h
  cases ha : loopFrom {} xs with
  | none => simp [ha] at h
  | some a =>
    cases hb : loopFrom {} ys with
    | none => simp [ha, hb] at h
    | some b =>
      simp [ha, hb] at h
      by_cases hm : mixing (xs ++ ys) = true
      · simp [hm] at h
      · have hmx : mixing xs = false := by
          simp only [mixing, List.any_append, Bool.and_eq_true, Bool.or_eq_true, not_and, not_or] at hm ⊢
          apply Bool.eq_false_iff.mpr
          intro hh; simp only [Bool.and_eq_true] at hh
          exact (hm (Or.inl hh.1)).1 hh.2
        have hmy : mixing ys = false := by
          simp only [mixing, List.any_append, Bool.and_eq_true, Bool.or_eq_true, not_and, not_or] at hm ⊢
          apply Bool.eq_false_iff.mpr
          intro hh; simp only [Bool.and_eq_true] at hh
          exact (hm (Or.inr hh.1)).2 hh.2
        simp [hm] at h
        have h1 : pIntoStruct (.list ⟨xs, t1⟩) = some (.convs a.out) := by
          simp [pIntoStruct, pConvs_eq, pConvsArgs_eq, hex, ha, hmx]
        have h2 : pIntoStruct (.list ⟨ys, t2⟩) = some (.convs b.out) := by
          simp [pIntoStruct, pConvs_eq, pConvsArgs_eq, hey, hb, hmy]
        rw [parseIntoStruct_many]
        simp [convChunks, convsOf, h1, h2, ← h, Loop.comb]

/-- The converse: two attributes that do not, taken together, mix plain types with `owned`/`ref`/`ref_mut`
mean what the one attribute listing everything means. (`#[into(u8)] #[into(ref)]` is accepted although
`#[into(u8, ref)]` is refused as "mixing": the refusal is about the spelling, the meaning is `owned(u8), ref`.) -/
theorem into_many_attributes_or_one (xs ys : List Item) (hx : xs ≠ []) (hy : ys ≠ []) (t t1 t2 : Bool) {r : Option IntoStruct}
    (h : parseIntoStruct [.list ⟨xs, t1⟩, .list ⟨ys, t2⟩] = some r) (hm : mixing (xs ++ ys) = false) :
    parseIntoStruct [.list ⟨xs ++ ys, t⟩] = some r := by
  have hex : xs.isEmpty = false := by cases xs <;> simp at hx ⊢
  have hey : ys.isEmpty = false := by cases ys <;> simp at hy ⊢
  have hexy : (xs ++ ys).isEmpty = false := by cases xs <;> simp at hx ⊢
  rw [parseIntoStruct_many] at h
  cases hc : convChunks [.list ⟨xs, t1⟩, .list ⟨ys, t2⟩] with
  | none => simp [hc] at h
  | some cs =>
    have hc0 := hc
    simp only [convChunks, convsOf, pIntoStruct, pConvs_eq, pConvsArgs_eq, hex, hey, Bool.false_and] at hc
    cases ha : loopFrom {} xs with
    | none => simp [ha] at hc
    | some a =>
      cases hb : loopFrom {} ys with
      | none => simp [ha, hb] at hc
      | some b =>
        by_cases hmx : mixing xs = true
        · simp [ha, hb, hmx] at hc
        · by_cases hmy : mixing ys = true
          · simp [ha, hb, hmx, hmy] at hc
          · simp [ha, hb, hmx, hmy] at hc
            rw [hc0] at h; simp at h
            rw [parseIntoStruct_single]
            simp [pIntoStruct, pConvs_eq, pConvsArgs_eq, hexy, loopFrom_append_comb, ha, hb, hm, ← h, ← hc, Loop.comb]

/-- **Trailing commas** of `#[into(...)]`: after a non-empty list, and inside `owned(..)` / `ref(..)` / `ref_mut(..)`. -/
theorem into_trailing_comma (items : List Item) (hne : items ≠ []) :
    pIntoStruct (.list ⟨items, true⟩) = pIntoStruct (.list ⟨items, false⟩) ∧
    ∀ (s : Loop) (w : W) (args : List Item), args ≠ [] → loopStep s (.call w args true) = loopStep s (.call w args false) := by
  have he : items.isEmpty = false := by cases items <;> simp at hne ⊢
  refine ⟨by simp [pIntoStruct, pConvs_eq, pConvsArgs_eq, he], ?_⟩
  intro s w args ha
  have hea : args.isEmpty = false := by cases args <;> simp at ha ⊢
  cases w <;> simp [loopStep, inner, isType, hea]

/-- **Any order of the `#[into(...)]` attributes of the struct**: accepted in one order, accepted in every order,
with the same conversions (the listed types up to their order). -/
theorem into_attribute_order_free {attrs attrs' : List Attr} (h : attrs.Perm attrs') {r : Option IntoStruct}
    (hr : parseIntoStruct attrs = some r) :
    ∃ r', parseIntoStruct attrs' = some r' ∧
      (r' = r ∨ ∃ c c', r = some (.convs c) ∧ r' = some (.convs c') ∧ c.Equiv c') := by
  match attrs, attrs', h with
  | [], l', h => rw [List.nil_perm.mp h]; exact ⟨r, hr, Or.inl rfl⟩
  | [a], l', h => have := List.singleton_perm.mp h; subst this; exact ⟨r, hr, Or.inl rfl⟩
  | a :: b :: rest, l', h =>
    rw [parseIntoStruct_many] at hr
    cases hcs : convChunks (a :: b :: rest) with
    | none => simp [hcs] at hr
    | some cs =>
      simp [hcs] at hr
      obtain ⟨cs', h1, h2⟩ := convChunks_perm h hcs
      have hlen : 2 ≤ l'.length := by rw [← h.length_eq]; simp
      match l', hlen, h1 with
      | a' :: b' :: rest', _, h1 =>
        refine ⟨some (.convs (cs'.foldl ConvsAttr.merge {})), ?_,
          Or.inr ⟨_, _, hr.symm, rfl, foldl_merge_perm h2 {}⟩⟩
        rw [parseIntoStruct_many, h1]; rfl

/-- **Duplicated / contradicting struct attributes**: `#[into]` cannot be repeated nor combined with
`#[into(...)]`; with two or more attributes every one of them is a conversion list. -/
theorem into_struct_two_attributes (a b : Attr) (rest : List Attr) {r : Option IntoStruct}
    (hr : parseIntoStruct (a :: b :: rest) = some r) :
    ∀ x ∈ a :: b :: rest, ∃ c, pIntoStruct x = some (.convs c) := by
  rw [parseIntoStruct_many] at hr
  cases hcs : convChunks (a :: b :: rest) with
  | none => simp [hcs] at hr
  | some cs =>
    have : ∀ (l : List Attr) (cs : List ConvsAttr), convChunks l = some cs → ∀ x ∈ l, ∃ c, pIntoStruct x = some (.convs c) := by
      intro l
      induction l with
      | nil => intro _ _ x hx; cases hx
      | cons y ys ih =>
        intro cs h x hx
        unfold convChunks at h
        cases hy : convsOf y with
        | none => simp [hy] at h
        | some z =>
          cases hys : convChunks ys with
          | none => simp [hy, hys] at h
          | some cs2 =>
            rcases List.mem_cons.mp hx with rfl | hx
            · exact ⟨z, convsOf_some.mp hy⟩
            · exact ih cs2 hys x hx
    exact this _ cs hcs

/-- **Unknown, malformed, mixed or legacy arguments of `#[into(...)]` are rejected**: in an accepted list every
argument is a type, or `owned` / `ref` / `ref_mut` alone or with a parenthesised list of types; plain types and
wrapped ones are not mixed; and nothing `check_legacy_syntax` recognises is accepted (what it refuses the
parser proper refuses as well, so the check chooses the diagnostic only). -/
theorem into_accepted_arguments (a : Args) {c : ConvsAttr} (h : pConvs (.list a) = some c) :
    (∀ x ∈ a.items, isType x = true ∨ ∃ w, isWrapWord w = true ∧ (x = .word w ∨ ∃ args tr, x = .call w args tr ∧ allTypes args = true))
    ∧ mixing a.items = false ∧ isLegacy a = false := by
  have hleg : isLegacy a = false := by
    apply Bool.eq_false_iff.mpr; intro hl; simp [pConvs, hl] at h
  rw [pConvs_eq, pConvsArgs_eq] at h
  split at h
  · simp at h
  · cases hl : loopFrom {} a.items with
    | none => simp [hl] at h
    | some s =>
      simp only [hl] at h
      by_cases hm : mixing a.items = true
      · simp [hm] at h
      · refine ⟨?_, by simpa using hm, hleg⟩
        intro x hx
        -- every item is accepted by some loop state
        have hstep : ∃ s d, loopStep s x = some d := by
          apply Classical.byContradiction
          intro hno
          have : ∀ s, loopStep s x = none := by
            intro s
            cases hs : loopStep s x with
            | none => rfl
            | some d => exact absurd ⟨s, d, hs⟩ hno
          rw [loopFrom_none_of_mem this hx] at hl; cases hl
        obtain ⟨s0, d, hs⟩ := hstep
        cases x with
        | word w =>
          by_cases hw : isWrapWord w = true
          · exact Or.inr ⟨w, hw, Or.inl rfl⟩
          · left; cases w <;> simp [isWrapWord] at hw <;> rfl
        | call w args tr =>
          right
          have hin : ∀ c0 e, inner c0 (.call w args tr) = some e → allTypes args = true := by
            intro c0 e he
            simp only [inner] at he
            split at he
            · simp at he
            · split at he
              · assumption
              · simp at he
          by_cases hw : isWrapWord w = true
          · cases w <;> simp [isWrapWord] at hw <;> simp [loopStep] at hs <;>
              (obtain ⟨e, he, _⟩ := hs; exact ⟨_, rfl, Or.inr ⟨args, tr, rfl, hin _ _ he⟩⟩)
          · cases w <;> simp [isWrapWord] at hw <;> simp [loopStep, isType] at hs
        | pathTy k => left; rfl
        | otherTy k => left; rfl
        | strLit => simp [loopStep, isType] at hs
        | intLit => simp [loopStep, isType] at hs

/-- **A field may be skipped once**: a second `#[into(skip)]` / `#[into(ignore)]` on the same field is refused;
`skip` and `ignore` are the same. -/
theorem into_field_skip (a b : Attr) (ha : (pSkip a).isSome) (hb : (pSkip b).isSome) :
    parseIntoField [a, b] = none ∧
    pIntoField (.list ⟨[.word .skip], false⟩) = pIntoField (.list ⟨[.word .ignore], false⟩) := by
  refine ⟨?_, rfl⟩
  cases hsa : pSkip a with
  | none => simp [hsa] at ha
  | some x =>
    cases hsb : pSkip b with
    | none => simp [hsb] at hb
    | some y => simp [parseIntoField, parseIntoFieldFrom, pIntoField, hsa, hsb, IntoField.merge]

/-! Non-vacuity: the hypotheses above are met by ordinary attributes, and the rejections are not vacuous. -/
section
private def u8 : Item := .word (.other 0)
private def vec : Item := .pathTy 1
private def str : Item := .otherTy 2
-- `#[from(u8, Vec<u8>)] #[from(&str,)]` are type lists; together they mean `#[from(u8, Vec<u8>, &str)]`
example : ∀ a ∈ [(⟨[u8, vec], false⟩ : Args), ⟨[str], true⟩], pConversion true (.list a) = some (.types a.items) := by
  intro a ha; simp at ha; rcases ha with rfl | rfl <;> rfl
example : parseAttrs (pConversion true) [.list ⟨[u8, vec], false⟩, .list ⟨[str], true⟩] = some (some (.types [u8, vec, str])) := rfl
example : parseAttrs (pConversion true) [.list ⟨[u8, vec, str], false⟩] = some (some (.types [u8, vec, str])) := rfl
example : parseAttrs (pFieldConversion false) [.list ⟨[str], false⟩, .list ⟨[u8], false⟩] = some (some (.types [str, u8])) := rfl
-- duplicates, contradictions, unknown / legacy arguments
example : parseAttrs (pFieldConversion true) [.bare, .bare] = none := rfl
example : parseAttrs (pFieldConversion true) [.list ⟨[.word .skip], false⟩, .list ⟨[.word .forward], false⟩] = none := rfl
example : parseAttrs (pConversion true) [.list ⟨[.word .forward], false⟩, .list ⟨[u8], false⟩] = none := rfl
example : pConversion true (.list ⟨[u8, .intLit], false⟩) = none := rfl
example : pConversion true (.list ⟨[.call (.other 7) [u8] false], false⟩) = none := rfl
example : pFieldConversion true (.list ⟨[.call .types [u8] false], false⟩) = none := rfl
example : tryFromItem [.list ⟨[.word .repr], false⟩] = some true := rfl
example : tryFromItem [.list ⟨[.word .repr], false⟩, .list ⟨[.word .repr], false⟩] = none := rfl
-- Into: `#[into(owned(u8), ref)]`, its two-attribute spelling, mixing, legacy
example : (parseIntoStruct [.list ⟨[.call .owned [u8] false, .word .ref], false⟩]).isSome = true := rfl
example : parseIntoStruct [.list ⟨[.call .owned [u8] false, .word .ref], false⟩]
    = parseIntoStruct [.list ⟨[.call .owned [u8] true], true⟩, .list ⟨[.word .ref], false⟩] := rfl
example : pConvs (.list ⟨[u8, .word .ref], false⟩) = none := rfl
example : mixing [u8, .word .ref] = true := rfl
example : (parseIntoStruct [.list ⟨[u8], false⟩, .list ⟨[.word .ref], false⟩]).isSome = true := rfl
example : isLegacy ⟨[.call .owned [.call .types [u8, .strLit] false] false], false⟩ = true := rfl
example : parseIntoStruct [.bare, .bare] = none := rfl
example : parseIntoStruct [.bare, .list ⟨[.word .ref], false⟩] = none := rfl
example : (parseIntoField [.list ⟨[.word .skip], false⟩, .list ⟨[.word .ref], false⟩]).isSome = true := rfl
end

end Dm.Props.C17

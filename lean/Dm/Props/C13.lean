/-
C13 — FromStr: newtypes delegate to the field, enums match variant names.
-/
import Dm.Model.FromStr

namespace Dm.Props.C13
open Dm.FS

variable {σ : Type} [DecidableEq σ]

/-- The documented rule: `v` is a variant, the string equals its name ignoring case, and either no
other variant has the same lower-cased name or the string is the name exactly. -/
def Accepts (lower : σ → σ) (names : List σ) (s v : σ) : Prop :=
  v ∈ names ∧ lower s = lower v ∧ (groupSize lower names (lower v) = 1 ∨ s = v)

theorem arm_matches_iff (lower : σ → σ) (names : List σ) (s v : σ) :
    (Arm.matches lower s
      (if groupSize lower names (lower v) = 1 then { key := lower v, guard := none, variant := v }
       else { key := lower v, guard := some v, variant := v })) = true
      ↔ lower s = lower v ∧ (groupSize lower names (lower v) = 1 ∨ s = v) := by
  by_cases h : groupSize lower names (lower v) = 1
  · simp [Arm.matches, h]
  · simp [Arm.matches, h]

/-- At most one variant accepts a given string. -/
theorem accepts_unique (lower : σ → σ) (names : List σ)
    (s v w : σ) (hv : Accepts lower names s v) (hw : Accepts lower names s w) : v = w := by
  obtain ⟨hvm, hvl, hvu⟩ := hv
  obtain ⟨hwm, hwl, hwu⟩ := hw
  have hl : lower v = lower w := by rw [← hvl, ← hwl]
  rcases hvu with hv1 | rfl
  · -- the group of `lower v` has exactly one member; both v and w are in it
    unfold groupSize at hv1
    have hvin : v ∈ names.filter (fun n => lower n = lower v) := by simp [hvm]
    have hwin : w ∈ names.filter (fun n => lower n = lower v) := by simp [hwm, hl]
    match hf : names.filter (fun n => lower n = lower v), hv1 with
    | [x], _ =>
      rw [hf] at hvin hwin
      simp at hvin hwin
      rw [hvin, hwin]
  · rcases hwu with hw1 | rfl
    · unfold groupSize at hw1
      have hvin : s ∈ names.filter (fun n => lower n = lower w) := by simp [hvm, hl]
      have hwin : w ∈ names.filter (fun n => lower n = lower w) := by simp [hwm]
      match hf : names.filter (fun n => lower n = lower w), hw1 with
      | [x], _ =>
        rw [hf] at hvin hwin
        simp at hvin hwin
        rw [hvin, hwin]
    · rfl

theorem find_unique {α : Type} (p : α → Bool) (l : List α) (x : α) (hx : x ∈ l) (hp : p x = true)
    (hu : ∀ y ∈ l, p y = true → y = x) : l.find? p = some x := by
  induction l with
  | nil => cases hx
  | cons a t ih =>
    by_cases ha : p a = true
    · have := hu a (by simp) ha
      subst this
      simp [List.find?, ha]
    · have hxt : x ∈ t := by
        rcases List.mem_cons.1 hx with rfl | h
        · exact absurd hp ha
        · exact h
      simp only [List.find?, ha]
      exact ih hxt (fun y hy => hu y (by simp [hy]))

/-- For every order in which the arms are emitted (any permutation - in particular the hash-map
iteration order), a string parses to `v` iff the documented rule accepts it for `v`. -/
theorem enum_parse_iff (lower : σ → σ) (names : List σ)
    (as : List (Arm σ)) (hperm : as.Perm (arms lower names)) (s v : σ) :
    parse lower as s = some v ↔ Accepts lower names s v := by
  have mem_arms : ∀ a, a ∈ as ↔ ∃ w ∈ names, a =
      (if groupSize lower names (lower w) = 1 then { key := lower w, guard := none, variant := w }
       else { key := lower w, guard := some w, variant := w }) := by
    intro a
    rw [hperm.mem_iff]
    unfold arms
    simp only [List.mem_map]
    constructor
    · rintro ⟨w, hw, rfl⟩; exact ⟨w, hw, rfl⟩
    · rintro ⟨w, hw, rfl⟩; exact ⟨w, hw, rfl⟩
  have variant_of : ∀ w, (if groupSize lower names (lower w) = 1 then
        ({ key := lower w, guard := none, variant := w } : Arm σ)
       else { key := lower w, guard := some w, variant := w }).variant = w := by
    intro w; split <;> rfl
  constructor
  · intro h
    unfold parse at h
    cases hf : as.find? (Arm.matches lower s) with
    | none => simp [hf] at h
    | some a =>
      simp [hf] at h
      have ham := List.mem_of_find?_eq_some hf
      have hap := List.find?_some hf
      obtain ⟨w, hw, rfl⟩ := (mem_arms a).1 ham
      rw [variant_of] at h
      subst h
      exact ⟨hw, (arm_matches_iff lower names s w).1 hap⟩
  · rintro ⟨hv, hrest⟩
    unfold parse
    let a : Arm σ := if groupSize lower names (lower v) = 1 then
        { key := lower v, guard := none, variant := v }
      else { key := lower v, guard := some v, variant := v }
    have ha : a ∈ as := (mem_arms a).2 ⟨v, hv, rfl⟩
    have hp : Arm.matches lower s a = true := (arm_matches_iff lower names s v).2 hrest
    have hu : ∀ y ∈ as, Arm.matches lower s y = true → y = a := by
      intro y hy hyp
      obtain ⟨w, hw, rfl⟩ := (mem_arms y).1 hy
      have hwacc : Accepts lower names s w := ⟨hw, (arm_matches_iff lower names s w).1 hyp⟩
      have := accepts_unique lower names s w v hwacc ⟨hv, hrest⟩
      subst this
      rfl
    rw [find_unique _ as a ha hp hu]
    simp [a, variant_of]

/-- Consequently every variant's own name parses back to that variant. -/
theorem own_name_roundtrip (lower : σ → σ) (names : List σ)
    (as : List (Arm σ)) (hperm : as.Perm (arms lower names)) (v : σ) (hv : v ∈ names) :
    parse lower as v = some v :=
  (enum_parse_iff lower names as hperm v v).2 ⟨hv, rfl, Or.inr rfl⟩

/-- Every other string is rejected. -/
theorem rejected_otherwise (lower : σ → σ) (names : List σ)
    (as : List (Arm σ)) (hperm : as.Perm (arms lower names)) (s : σ)
    (h : ∀ v, ¬ Accepts lower names s v) : parse lower as s = none := by
  cases hp : parse lower as s with
  | none => rfl
  | some v => exact absurd ((enum_parse_iff lower names as hperm s v).1 hp) (h v)

/-! ### One lower-casing on both sides

The keys of the arms are lower-cased by the macro, the scrutinee by the generated code at run time.
All the theorems above are about the case where both use the same function (std's
`str::to_lowercase`); the two statements below say that this is all that is needed, and that it
cannot be dropped. -/

/-- If the run-time lower-casing agrees with the one the keys were built with, the generated match
behaves as analysed. -/
theorem same_lowering_suffices (lowerRt lowerCt : σ → σ) (h : ∀ x, lowerRt x = lowerCt x)
    (as : List (Arm σ)) (s : σ) : parse lowerRt as s = parse lowerCt as s := by
  have : lowerRt = lowerCt := funext h
  rw [this]

/-- A run-time shortcut that differs from the macro's lower-casing on some name breaks the round
trip of that name (numbers stand for strings: 7 is a name whose lower-case form is 3; the shortcut
leaves it alone). -/
theorem different_lowering_breaks_roundtrip :
    ∃ (lowerRt lowerCt : Nat → Nat) (names : List Nat) (v : Nat), v ∈ names ∧
      parse lowerCt (arms lowerCt names) v = some v ∧ parse lowerRt (arms lowerCt names) v = none := by
  refine ⟨id, fun x => if x = 7 then 3 else x, [7, 20], 7, by simp, ?_, ?_⟩ <;> decide

/-- A single-field struct parses exactly as its field does: success wrapped, error unchanged. -/
theorem newtype_delegates {ε α β : Type} (p : String → Except ε α) (wrap : α → β) (s : String) :
    parseNewtype p wrap s = (p s).map wrap := by
  unfold parseNewtype
  cases p s <;> rfl

/-- Non-vacuity with numbers standing for strings: names 10 ("Aa"), 11 ("aA"), 20 ("B");
`lower` maps 10, 11, 12 ("aa") to 12 and 20, 21 ("b") to 21. -/
def toyLower (n : Nat) : Nat := if n = 10 ∨ n = 11 ∨ n = 12 then 12 else if n = 20 ∨ n = 21 then 21 else n
example : parse toyLower (arms toyLower [10, 11, 20]) 11 = some 11 := by decide
example : parse toyLower (arms toyLower [10, 11, 20]) 12 = none := by decide
example : parse toyLower (arms toyLower [10, 11, 20]) 21 = some 20 := by decide

end Dm.Props.C13

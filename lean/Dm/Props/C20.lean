import Dm.Lemmas.Cfg
import Dm.Gen.Cfg

/-
C20 — every feature works on its own, with and without std.

`gating_closed` quantifies over ALL feature sets (2^27 of them, not just singles and pairs): in every
configuration, whenever the using side of a reference is compiled / reachable, the item it names exists.
The reference table is regenerated from both crates and both Cargo.toml on every run; the syntactic
implication check is proved sound in `Dm/Lemmas/Cfg.lean`. Honest label: *partial* — the extraction of
references is name-based and syn API families / the test programs are outside the model; the check
builds and tests the configurations with cargo.
-/
namespace Dm.Props.C20
open Dm.Cfg

/-- Soundness of the decision procedure, for every feature set. -/
theorem implies_sound (switches : List Nat) (a b : Cfg) (h : impliesSplit switches a b = true)
    (fs : Nat → Bool) : eval fs a = true → eval fs b = true :=
  impliesSplit_sound switches a b h fs

/-- The regenerated table: every reference is closed under the decision procedure (`std` is the only
atom split on). -/
theorem all_refs_hold :
    Dm.Gen.refs.all (fun r => impliesSplit [Dm.Gen.stdId] r.user r.target) = true := by
  decide +kernel

/-- **For every feature set** and every reference of the current source (module → gated helper item,
expansion template → facade export, module → optional dependency, export → the features needing it,
named derive re-export ↔ its feature): if the user side is enabled, so is the target. -/
theorem gating_closed (fs : Nat → Bool) (r : Ref) (hr : r ∈ Dm.Gen.refs) :
    eval fs r.user = true → eval fs r.target = true := by
  have h := all_refs_hold
  rw [List.all_eq_true] at h
  exact implies_sound [Dm.Gen.stdId] r.user r.target (h r hr) fs

/-- The feature tables of the two Cargo.toml files: each facade derive feature enables exactly the
same-named feature of the proc-macro crate, `full` is all 24 of them in both crates, `default = ["std"]`. -/
theorem cargo_tables : Dm.Gen.cargoIdentity = true ∧ Dm.Gen.fullIsAll = true ∧ Dm.Gen.defaultIsStd = true := by
  decide +kernel

/-! Non-vacuity and sanity of the decision procedure. -/
example : 50 < Dm.Gen.refs.length := by decide +kernel
example : Dm.Gen.nDeriveFeatures = 24 := by decide +kernel
-- `not` does not imply `add`; `not` implies `any(add, not)`
example : impliesSplit [24] (.feat 18) (.feat 0) = false := by decide
example : impliesSplit [24] (.feat 18) (.any [.feat 0, .feat 18]) = true := by decide
-- both arms of a std split are needed
example : impliesSplit [24] (.feat 8) (.any [.all [.feat 8, .not (.feat 24)], .all [.feat 8, .feat 24]]) = true := by decide
example : impliesSplit [24] (.feat 8) (.all [.feat 8, .feat 24]) = false := by decide
-- the implication is really about all sets: a witness set for a failing one
example : eval (fun n => n == 18) (.feat 18) = true ∧ eval (fun n => n == 18) (.feat 0) = false := by decide

end Dm.Props.C20

import Dm.Model.Hygiene
import Dm.Gen.Templates

/-
C15 — expansions depend on no name from the caller's scope.

`resolve_independent` is the statement over ALL scopes; `all_templates_closed` is the decidable fact
about the table regenerated from /repo's current `quote!` bodies. Their conjunction
(`expansions_scope_independent`) is the property for the modelled fragment of name resolution.
-/
namespace Dm.Props.C15
open Dm.Hyg

/-- If a head does not escape, its resolution does not look at the scope, except for `derive_more`. -/
theorem resolveHead_independent {Item : Type} (B : List Nat) (fx : Fixed Item) (σ σ' : Scope Item) (file : Nat)
    (hdm : σ.name idDeriveMore = σ'.name idDeriveMore) (h : Head)
    (hc : h.escapesIn B file = false) :
    resolveHead B fx σ file h = resolveHead B fx σ' file h := by
  cases h with
  | path n =>
    simp only [Head.escapesIn, Head.escapes, Bool.not_eq_false', Bool.or_eq_true, beq_iff_eq] at hc
    simp only [resolveHead]
    rcases hc with (hp | hd) | hb
    · simp [hp]
    · subst hd; split <;> simp_all
    · have hb' : n ∈ B := by simpa using hb
      simp [hb']
  | ext n =>
    simp only [Head.escapesIn, Head.escapes, Bool.not_eq_false', beq_iff_eq] at hc
    simp [resolveHead, hc]
  | mac n => simp [Head.escapesIn, Head.escapes] at hc
  | method n =>
    simp only [Head.escapesIn, Head.escapes, Bool.not_eq_false'] at hc
    simp [resolveHead, hc]
  | methodVar =>
    simp [Head.escapesIn] at hc
    simp [resolveHead, hc]
  | assoc y n =>
    simp only [Head.escapesIn, Head.escapes, Bool.not_eq_false'] at hc
    simp [resolveHead, hc]
  | binder n => rfl

/-- **For every pair of caller scopes** that agree on what `derive_more` names: a closed template
resolves all its names identically in both. No prelude, shadowed prelude, anything. -/
theorem resolve_independent {Item : Type} (B : List Nat) (fx : Fixed Item) (σ σ' : Scope Item) (t : Template)
    (hdm : σ.name idDeriveMore = σ'.name idDeriveMore) (hc : closed B t = true) :
    resolution B fx σ t = resolution B fx σ' t := by
  unfold resolution
  apply List.map_congr_left
  intro h hh
  apply resolveHead_independent B fx σ σ' t.file hdm
  unfold closed escapingT at hc
  rw [List.isEmpty_iff] at hc
  have : h ∉ (heads t.toks).filter (Head.escapesIn B t.file) := by rw [hc]; simp
  simp only [List.mem_filter, not_and, Bool.not_eq_true] at this
  exact this hh

/-- Conversely an escaping head is a real dependency: two scopes that differ on it (and only on it)
resolve the template differently — the analysis does not flag harmless names only. -/
theorem escaping_path_depends {Item : Type} (B : List Nat) (fx : Fixed Item) (n : Nat) (a b : Item) (hab : a ≠ b)
    (hn : (Head.path n).escapes B = true) :
    ∃ σ σ' : Scope Item, σ.name idDeriveMore = σ'.name idDeriveMore ∧
      resolveHead B fx σ 0 (.path n) ≠ resolveHead B fx σ' 0 (.path n) := by
  simp only [Head.escapes, Bool.not_eq_true', Bool.or_eq_false_iff, beq_eq_false_iff_ne] at hn
  obtain ⟨⟨hp, hd⟩, hb⟩ := hn
  refine ⟨⟨fun k => if k = n then some a else none, fun _ => none, fun _ => none, fun _ => none⟩,
          ⟨fun k => if k = n then some b else none, fun _ => none, fun _ => none, fun _ => none⟩, ?_, ?_⟩
  · have : idDeriveMore ≠ n := fun h => hd h.symm
    simp [this]
  · have hb' : n ∉ B := by simpa using hb
    simp [resolveHead, hb', hp, hab]

/-- A crate named through a leading `::` other than the accepted `::std` is a dependency on the
caller's crate too: two callers whose extern preludes bind the name differently (`extern crate alloc
as core;`) resolve `::core::marker::Copy` differently. -/
theorem escaping_extern_depends {Item : Type} (B : List Nat) (fx : Fixed Item) (n : Nat) (a b : Item) (hab : a ≠ b)
    (hn : (Head.ext n).escapes B = true) :
    ∃ σ σ' : Scope Item, σ.name idDeriveMore = σ'.name idDeriveMore ∧
      resolveHead B fx σ 0 (.ext n) ≠ resolveHead B fx σ' 0 (.ext n) := by
  simp only [Head.escapes, Bool.not_eq_true', beq_eq_false_iff_ne] at hn
  refine ⟨⟨fun _ => none, fun _ => none, fun _ => none, fun _ => some a⟩,
          ⟨fun _ => none, fun _ => none, fun _ => none, fun _ => some b⟩, rfl, ?_⟩
  simp [resolveHead, hn, hab]

/-- The table regenerated from the working tree: every template is closed with respect to the
binders the templates themselves introduce. -/
theorem all_templates_closed :
    Dm.Gen.templates.all (fun t => closed (bindersOf Dm.Gen.templates) t) = true := by
  decide +kernel

/-- C15 for the modelled fragment: every template of the current source resolves identically in
every two scopes that agree on `derive_more`. -/
theorem expansions_scope_independent {Item : Type} (fx : Fixed Item) (σ σ' : Scope Item)
    (hdm : σ.name idDeriveMore = σ'.name idDeriveMore) (t : Template) (ht : t ∈ Dm.Gen.templates) :
    resolution (bindersOf Dm.Gen.templates) fx σ t = resolution (bindersOf Dm.Gen.templates) fx σ' t := by
  apply resolve_independent _ fx σ σ' _ hdm
  have := all_templates_closed
  rw [List.all_eq_true] at this
  exact this t ht

/-! Non-vacuity: the analysis on concrete token trees. `Ok(x)` escapes; the qualified form is closed;
the table is not empty. -/
-- `Ok ( #x )` with `Ok` interned as 1001 (class 1: upper-case)
example : escaping [] [.i 1001, .g .paren [.v]] = [.path 1001] := by decide
-- a lower-case function called by its bare name (`drop ( #x )`) escapes too
example : escaping [] [.i 1000, .g .paren [.v]] = [.path 1000] := by decide
-- `derive_more :: core :: result :: Result :: Ok ( #x )`
example : closed [] ⟨9, 0, [.i idDeriveMore, .p 58 true, .p 58 false, .i idCore, .p 58 true, .p 58 false, .i 1000,
    .p 58 true, .p 58 false, .i 1005, .p 58 true, .p 58 false, .i 1001, .g .paren [.v]]⟩ = true := by decide
-- `panic ! ( .. )` escapes through the macro scope; `# [ doc = stringify ! ( #x ) ]` too
example : escaping [] [.i 1003, .p 33 false, .g .paren [.l]] = [.mac 1003] := by decide
example : escaping [] [.p 35 false, .g .bracket [.i 1004, .p 61 false, .i 1005, .p 33 false, .g .paren [.v]]] = [.mac 1005] := by decide
-- `fn f ( value : #t ) { value }`: bound by the template
example : closed [] ⟨9, 0, [.i kwFn, .i 1004, .g .paren [.i 1008, .p 58 false, .v], .g .brace [.i 1008]]⟩ = true := by decide
-- `( #x ) . #m ( )` is a method looked up through the traits in scope, except in the operator bodies
example : escaping [] [.g .paren [.v], .p 46 true, .v, .g .paren []] = [.methodVar] := by decide
example : closed [] ⟨0, 0, [.i 23, .p 46 true, .v, .p 46 true, .v, .g .paren [.i 1008, .p 46 true, .v]]⟩ = true := by decide
-- `. clone ( )` is a trait method that needs `Clone` in scope
example : escaping [] [.v, .p 46 false, .i 1012, .g .paren []] = [.method 1012] := by decide
-- `derive_more :: __private :: Conv :: < .. > :: default ( )`: not an inherent function of `Conv` - escapes;
-- `.. TryUnwrapError :: < _ > :: new ( .. )` does not
example : escaping [] [.i idDeriveMore, .p 58 true, .p 58 false, .i 1005, .p 58 true, .p 58 false, .p 60 false, .v, .p 62 true,
    .p 58 true, .p 58 false, .i 1000, .g .paren []] = [.assoc 1005 1000] := by decide
example : escaping [] [.i idDeriveMore, .p 58 true, .p 58 false, .i 1005, .p 58 true, .p 58 false, .p 60 false, .v, .p 62 true,
    .p 58 true, .p 58 false, .i idNew, .g .paren []] = [] := by decide
-- `< #t as derive_more :: core :: default :: Default > :: default ( )` is a qualified path: fine
example : escaping [] [.p 60 false, .v, .i 0, .i idDeriveMore, .p 58 true, .p 58 false, .i 1005, .p 62 true, .p 58 true, .p 58 false,
    .i 1000, .g .paren []] = [] := by decide
-- `:: core :: marker :: Copy` names the caller's `core`; `derive_more :: core :: marker :: Copy` does not
example : escaping [] [.p 58 true, .p 58 false, .i idCore, .p 58 true, .p 58 false, .i 1000, .p 58 true, .p 58 false, .i 1001] = [.ext idCore] := by decide
example : escaping [] [.i idDeriveMore, .p 58 true, .p 58 false, .i idCore, .p 58 true, .p 58 false, .i 1000, .p 58 true, .p 58 false, .i 1001] = [] := by decide
example : 200 < Dm.Gen.templates.length := by decide +kernel

end Dm.Props.C15

/-
C05 — caller's formatting flags pass through exactly for bare-placeholder formats.
Property theorems about the transparency decision (`transparent_call`, `impl/src/fmt/mod.rs`) and
about the two bodies it selects between.
-/
import Dm.Model.FmtExpand

namespace Dm.Props.C05
open Dm.Fmt Dm.FmtX

/-- The property's wording: what the single placeholder refers to. -/
inductive Refers : Option Arg → List FArg → ExprR → Prop where
  /-- `{}` with exactly one argument. -/
  | implicit (x : FArg) : Refers none [x] (.arg x)
  /-- `{0}` with exactly one argument. -/
  | index0 (x : FArg) : Refers (some (.int 0)) [x] (.arg x)
  /-- `{name}` without arguments: a field (or other outer binding) by name. -/
  | binding (n : Name) : Refers (some (.ident n)) [] (.ident n)
  /-- `{name}` with exactly one argument `name = expr`. -/
  | alias (n : Name) (x : FArg) (h : x.alias = some n) : Refers (some (.ident n)) [x] (.arg x)

/-- The attribute delegates to `Trait::fmt(expr, f)` exactly when its literal is one placeholder
without fill, alignment, sign, `#`, `0`, width, precision or `x?`/`X?` that refers to its only
argument or to a binding by name; the trait is the placeholder's. -/
theorem referTo_iff (arg : Option Arg) (args : List FArg) (e : ExprR) :
    referTo arg args = some e ↔ Refers arg args e := by
  constructor
  · intro h
    unfold referTo at h
    split at h
    · cases h; exact .implicit _
    · cases h; exact .index0 _
    · cases h; exact .binding _
    · split at h
      · cases h; rename_i hal; exact .alias _ _ hal
      · cases h
    · cases h
  · intro h
    cases h with
    | implicit x => rfl
    | index0 x => rfl
    | binding n => rfl
    | alias n x h => simp [referTo, h]

theorem transparent_iff_bare (cc : CharClasses) (a : FmtAttr) (e : ExprR) (t : Trait) :
    transparentCall cc a = some (e, t) ↔
      ∃ f, format cc a.lit = some ([], f) ∧ f.hasModifiers = false ∧ t = f.ty.trait
        ∧ Refers f.arg a.args e := by
  constructor
  · intro h
    unfold transparentCall at h
    split at h
    · rename_i f hf
      refine ⟨f, hf, ?_⟩
      split at h
      · cases h
      · rename_i hm
        have hm' : f.hasModifiers = false := by simpa using hm
        split at h
        · rename_i e' he
          cases h
          exact ⟨hm', rfl, (referTo_iff _ _ _).1 he⟩
        · cases h
    · cases h
  · rintro ⟨f, hf, hm, rfl, hr⟩
    unfold transparentCall
    rw [hf]
    simp [hm, (referTo_iff _ _ _).2 hr]

/-- A positional index other than 0 never delegates (it reaches `write!`, where an index that
denotes no argument is rustc's compile error). -/
theorem nonzero_index_never_transparent (cc : CharClasses) (a : FmtAttr) (f : Format) (i : Nat)
    (hf : format cc a.lit = some ([], f)) (hi : f.arg = some (.int (i + 1))) :
    transparentCall cc a = none := by
  unfold transparentCall
  rw [hf]
  have : referTo f.arg a.args = none := by
    rw [hi]; unfold referTo; split <;> simp_all
  simp [this]

/-- Any modifier on the placeholder prevents delegation. -/
theorem modifiers_never_transparent (cc : CharClasses) (a : FmtAttr) (f : Format)
    (hf : format cc a.lit = some ([], f)) (hm : f.hasModifiers = true) :
    transparentCall cc a = none := by
  unfold transparentCall
  rw [hf]
  simp [hm]

/-- A literal that is not exactly one placeholder (text around it, several placeholders, escapes,
unparsable) never delegates. -/
theorem not_single_placeholder_never_transparent (cc : CharClasses) (a : FmtAttr)
    (h : ∀ f, format cc a.lit ≠ some ([], f)) : transparentCall cc a = none := by
  unfold transparentCall
  split
  · rename_i f hf; exact absurd hf (h f)
  · rfl

/-! ### The two bodies under a caller's formatter options

Modelled fragment of std (trusted, validated by the behaviour grid on every run):
`Trait::fmt(x, f)` formats `x` under the caller's options; `write!(f, lit, args..)` formats every
placeholder under the options written in the literal and never consults the caller's. -/

structure Opts where
  fill : Char := ' '
  align : Option Align := none
  sign : Option Sign := none
  alt : Bool := false
  zero : Bool := false
  width : Option Nat := none
  prec : Option Nat := none
  deriving DecidableEq

/-- Semantics of a generated body: `fmtArg` is the (arbitrary) formatting behaviour of the
delegated expression, `writeText` the text `write!` produces for an attribute. -/
def evalBody (fmtArg : Trait → String → Opts → String) (writeText : FmtAttr → String)
    (wstr : String → Opts → String) : BodyD → Opts → String
  | .delegate tr e, o => fmtArg tr e o
  | .write a _, _ => writeText a
  | .writeStr s, o => wstr s o
  | .wrapped _ sh, o => evalBody fmtArg writeText wstr sh o
  | .empty, _ => ""

/-- Pass-through: a delegating body applies the caller's options to the argument under the
placeholder's trait, exactly as formatting the argument directly does. -/
theorem passthrough (fmtArg) (writeText) (wstr) (tr : Trait) (e : String) (o : Opts) :
    evalBody fmtArg writeText wstr (.delegate tr e) o = fmtArg tr e o := rfl

/-- Inert: a `write!` body yields the same text whatever options the caller supplies. -/
theorem inert (fmtArg) (writeText) (wstr) (a : FmtAttr) (ds : List Name) (o o' : Opts) :
    evalBody fmtArg writeText wstr (.write a ds) o = evalBody fmtArg writeText wstr (.write a ds) o' := rfl

/-- The body chosen for a struct/variant attribute is a delegation iff the attribute is
transparent, and a `write!` of the attribute otherwise. -/
theorem attr_body_cases (c : Ctx) (a : FmtAttr) (fields : FieldsD) :
    (∃ e t, transparentCall c.cc a = some (e, t) ∧
        fmtBody c a fields = .delegate t (onFields a.args.isEmpty fields.idents e))
    ∨ (transparentCall c.cc a = none ∧ ∃ ds, fmtBody c a fields = .write a ds) := by
  unfold fmtBody transparentCallOnFields
  cases h : transparentCall c.cc a with
  | none => right; exact ⟨rfl, _, rfl⟩
  | some p => left; exact ⟨p.1, p.2, rfl, rfl⟩

/-- The delegated expression is the field itself only when the placeholder names the field inside
the literal; a field's name inside an argument expression is a reference to it and is passed as
`&(expr)` like any other expression (the difference is visible under `{:p}`). -/
theorem argument_expression_is_referenced (fields : List (Option Name)) (e : ExprR) :
    onFields false fields e = "&(" ++ e.toks ++ ")" := rfl

/-- Without an attribute a single-field struct delegates to its field under the derived trait. -/
theorem no_attr_single_field (c : Ctx) (ident : Name) (f : FieldD) (fs : FieldsD)
    (hfs : fs.list = [f]) :
    displayBody c { shared := none, attrs := {}, ident := ident, fields := fs } =
      .ok (.delegate c.tr (String.ofList (f.name.getD "_0".toList))) := by
  simp [displayBody, sharedAttrInfo, hfs]
  rfl

/-- Non-vacuity: `#[display("{_0:x}")]` on `struct S(u8)` delegates to `LowerHex` of `_0`. -/
example : ∃ e, transparentCall ⟨Char.isAlpha, fun c => c.isAlphanum || c = '_', fun c => c = ' '⟩
    { lit := "{_0:x}".toList, emit := "", args := [] } = some (e, .lowerHex) := by
  refine ⟨.ident "_0".toList, ?_⟩
  decide

end Dm.Props.C05

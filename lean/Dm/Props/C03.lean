/-
C03 — format literals are interpreted exactly as std::fmt interprets them.
Property theorems only; helper lemmas live in Dm/Lemmas.
-/
import Dm.Lemmas.FmtParse
import Dm.Lemmas.FmtRoundTrip
import Dm.Lemmas.FmtSpecRoundTrip
import Dm.Lemmas.FmtInvert

namespace Dm.Props.C03
open Dm.Fmt

/-- Text without braces yields no placeholders. -/
theorem text_yields_no_placeholders (cc : CharClasses) (s : List Char)
    (h : ∀ c ∈ s, isBrace c = false) : parseFmtString cc s = [] :=
  Dm.Fmt.parseFmtString_text cc s h

/-- The implicit positional counter follows std's rule on every derivation: explicit indices and
names do not advance it and `.*` advances it once more (before the value's own position). -/
theorem implicit_counter_is_std (n : Nat) (ps : List Piece) :
    placeholdersFrom n (formatsOf ps) = meaningFrom n ps :=
  placeholdersFrom_formatsOf n ps

/-- **Round trip, spec-less fragment** (kept as the special case that needs neither `Sane2` nor `SpecCanonical`; the
full statement is `formats_agree` below): for every canonical
derivation of the std grammar whose placeholders are `{}`, `{N}`, `{name}` (with optional trailing
whitespace), of any length, derive_more's parser accepts the printed literal and reads exactly the
derivation's formats. -/
theorem formats_agree_nospec_partial (cc : CharClasses) (hs : Sane cc) (ps : List Piece) (hcan : Canonical ps)
    (hwf : ∀ p ∈ ps, p.WF cc ∧ NoSpec p) :
    formatString cc (renderAll ps) = some (formatsOf ps) := by
  unfold formatString
  cases ps with
  | nil => simp [renderAll, text_nil, formatLoop, maybeFormat_nil, formatsOf]
  | cons p rest =>
    have hrest : ∀ q ∈ rest, q.WF cc ∧ NoSpec q := fun q hq => hwf q (by simp [hq])
    cases p with
    | text cs =>
      have hcs : cs ≠ [] ∧ ∀ c ∈ cs, isBrace c = false := (hwf (Piece.text cs) (by simp)).1
      have hnext : ∀ h t, renderAll rest = h :: t → isBrace h = true := by
        intro h t e
        cases rest with
        | nil => simp [renderAll] at e
        | cons q qs =>
          have hled : q.isBraceLed = true := by
            cases q with
            | text ds => simp [Canonical] at hcan
            | _ => rfl
          obtain ⟨b, t', hb, hbr⟩ := render_head_brace qs q hled
          rw [hb] at e; cases e; exact hbr
      have hr : renderAll (Piece.text cs :: rest) = cs ++ renderAll rest := by simp [renderAll, Piece.render]
      rw [hr, text_stops cs (renderAll rest) hcs.1 hcs.2 hnext]
      simp only
      rw [formatLoop_render cc hs rest _ (by omega) hcan.tail hrest]
      simp [formatsOf]
    | lbrace =>
      have hled : (Piece.lbrace).isBraceLed = true := rfl
      obtain ⟨b, t, hb, hbr⟩ := render_head_brace rest Piece.lbrace hled
      have ht : text (renderAll (Piece.lbrace :: rest)) = none := by
        rw [hb]; simp [text, List.takeWhile, hbr]
      rw [ht]
      simp only
      rw [formatLoop_render cc hs _ _ (by omega) hcan hwf]
    | rbrace =>
      have hled : (Piece.rbrace).isBraceLed = true := rfl
      obtain ⟨b, t, hb, hbr⟩ := render_head_brace rest Piece.rbrace hled
      have ht : text (renderAll (Piece.rbrace :: rest)) = none := by
        rw [hb]; simp [text, List.takeWhile, hbr]
      rw [ht]
      simp only
      rw [formatLoop_render cc hs _ _ (by omega) hcan hwf]
    | ph q =>
      have hled : (Piece.ph q).isBraceLed = true := rfl
      obtain ⟨b, t, hb, hbr⟩ := render_head_brace rest (Piece.ph q) hled
      have ht : text (renderAll (Piece.ph q :: rest)) = none := by
        rw [hb]; simp [text, List.takeWhile, hbr]
      rw [ht]
      simp only
      rw [formatLoop_render cc hs _ _ (by omega) hcan hwf]

/-- **Round trip** (the whole grammar): for every canonical derivation of the std grammar — text, `{{`, `}}` and
placeholders `{[argument][:[[fill]align][sign]['#']['0'][width]['.' precision][type]][ws]}` of any length — derive_more's
parser accepts the printed literal and reads exactly the derivation's formats. "Canonical" is std's resolution of the
grammar's three ambiguities: adjacent texts are one text (`Canonical`), a leading `0` of a width is the zero flag unless
`$` follows (`SpecA.ZeroCanonical`, part of `WF`), and an empty spec `{:}` directly followed by an alignment character
reads the `}` as a fill (`SpecCanonical`). -/
theorem formats_agree (cc : CharClasses) (hs : Sane cc) (h2 : Sane2 cc) (ps : List Piece) (hcan : Canonical ps)
    (hwf : ∀ p ∈ ps, p.WF cc) (hsc : SpecCanonical ps) :
    formatString cc (renderAll ps) = some (formatsOf ps) := by
  unfold formatString
  cases ps with
  | nil => simp [renderAll, text_nil, formatLoop, maybeFormat_nil, formatsOf]
  | cons p rest =>
    have hrest : ∀ q ∈ rest, q.WF cc := fun q hq => hwf q (by simp [hq])
    cases p with
    | text cs =>
      have hcs : cs ≠ [] ∧ ∀ c ∈ cs, isBrace c = false := hwf (Piece.text cs) (by simp)
      have hnext : ∀ h t, renderAll rest = h :: t → isBrace h = true := by
        intro h t e
        cases rest with
        | nil => simp [renderAll] at e
        | cons q qs =>
          have hled : q.isBraceLed = true := by
            cases q with
            | text ds => simp [Canonical] at hcan
            | _ => rfl
          obtain ⟨b, t', hb, hbr⟩ := render_head_brace qs q hled
          rw [hb] at e; cases e; exact hbr
      have hr : renderAll (Piece.text cs :: rest) = cs ++ renderAll rest := by simp [renderAll, Piece.render]
      rw [hr, text_stops cs (renderAll rest) hcs.1 hcs.2 hnext]
      simp only
      rw [formatLoop_render' cc hs h2 rest _ (by omega) hcan.tail hrest hsc.tail]
      simp [formatsOf]
    | lbrace =>
      have hled : (Piece.lbrace).isBraceLed = true := rfl
      obtain ⟨b, t, hb, hbr⟩ := render_head_brace rest Piece.lbrace hled
      have ht : text (renderAll (Piece.lbrace :: rest)) = none := by
        rw [hb]; simp [text, List.takeWhile, hbr]
      rw [ht]
      simp only
      rw [formatLoop_render' cc hs h2 _ _ (by omega) hcan hwf hsc]
    | rbrace =>
      have hled : (Piece.rbrace).isBraceLed = true := rfl
      obtain ⟨b, t, hb, hbr⟩ := render_head_brace rest Piece.rbrace hled
      have ht : text (renderAll (Piece.rbrace :: rest)) = none := by
        rw [hb]; simp [text, List.takeWhile, hbr]
      rw [ht]
      simp only
      rw [formatLoop_render' cc hs h2 _ _ (by omega) hcan hwf hsc]
    | ph q =>
      have hled : (Piece.ph q).isBraceLed = true := rfl
      obtain ⟨b, t, hb, hbr⟩ := render_head_brace rest (Piece.ph q) hled
      have ht : text (renderAll (Piece.ph q :: rest)) = none := by
        rw [hb]; simp [text, List.takeWhile, hbr]
      rw [ht]
      simp only
      rw [formatLoop_render' cc hs h2 _ _ (by omega) hcan hwf hsc]


/-- … and therefore the placeholders derive_more sees (argument, trait, modifiers) are std's reading of the derivation,
for the whole grammar. -/
theorem placeholders_agree (cc : CharClasses) (hs : Sane cc) (h2 : Sane2 cc) (ps : List Piece) (hcan : Canonical ps)
    (hwf : ∀ p ∈ ps, p.WF cc) (hsc : SpecCanonical ps) :
    parseFmtString cc (renderAll ps) = meaning ps := by
  unfold parseFmtString meaning
  rw [formats_agree cc hs h2 ps hcan hwf hsc]
  exact placeholdersFrom_formatsOf 0 ps

/-- … and therefore the placeholders derive_more sees (argument, trait, modifiers) are std's reading
of the derivation. -/
theorem placeholders_agree_nospec_partial (cc : CharClasses) (hs : Sane cc) (ps : List Piece) (hcan : Canonical ps)
    (hwf : ∀ p ∈ ps, p.WF cc ∧ NoSpec p) :
    parseFmtString cc (renderAll ps) = meaning ps := by
  unfold parseFmtString meaning
  rw [formats_agree_nospec_partial cc hs ps hcan hwf]
  exact placeholdersFrom_formatsOf 0 ps

/-- **The converse: the parser accepts nothing outside the grammar.** Every literal derive_more's parser accepts is the
print of a derivation of the std grammar (lexically well-formed: identifiers, indices that fit `usize`, a fill only
with an alignment, whitespace only before `}`), and the placeholders it reports are std's reading of that
derivation. No hypothesis on the character tables is needed. -/
theorem accepted_literals_are_derivations (cc : CharClasses) (s : List Char) (fs : List Format)
    (h : formatString cc s = some fs) :
    ∃ ps : List Piece, s = renderAll ps ∧ (∀ p ∈ ps, p.Lex cc) ∧ formatsOf ps = fs ∧ parseFmtString cc s = meaning ps := by
  obtain ⟨ps, e, hf, hlx⟩ := formatString_inv cc h
  refine ⟨ps, e, hlx, hf, ?_⟩
  unfold parseFmtString meaning
  rw [h, ← hf]
  exact placeholdersFrom_formatsOf 0 ps

/-! Non-vacuity: the hypotheses are satisfiable — ASCII character classes are `Sane`, and a concrete
derivation `a{x }{{{1}` meets the premises. -/
def asciiCC : CharClasses := { isStart := fun c => c.isAlpha, isCont := fun c => c.isAlphanum || c == '_', isWs := fun c => c == ' ' }

theorem asciiSane : Sane asciiCC := by
  refine ⟨?_, ?_, ?_, ?_, ?_⟩
  · intro c hc
    simp only [isDigit, Char.isDigit, Bool.and_eq_true, decide_eq_true_eq] at hc
    refine ⟨?_, ?_, ?_⟩
    · simp only [asciiCC, Char.isAlpha, Char.isUpper, Char.isLower, Bool.or_eq_false_iff, Bool.and_eq_false_iff, decide_eq_false_iff_not]
      have h1 := hc.1; have h2 := hc.2
      constructor
      · rintro ⟨h, _⟩; have := UInt32.le_trans h h2; revert this; decide
      · left; intro h; have := UInt32.le_trans h h2; revert this; decide
    · intro e; subst e; revert hc; decide
    · simp only [asciiCC, beq_eq_false_iff_ne]; intro e; subst e; revert hc; decide
  · intro c hc
    have : c = ' ' := by simpa [asciiCC] using hc
    subst this
    decide
  · decide
  · decide
  · intro c hc
    constructor <;> (intro e; subst e; revert hc; decide)

def exPieces : List Piece :=
  [.text ['a'], .ph ⟨some (.name ['x']), none, [' ']⟩, .lbrace, .ph ⟨some (.idx ['1']), none, []⟩]

example : formatString asciiCC (renderAll exPieces) = some (formatsOf exPieces) := by
  apply formats_agree_nospec_partial asciiCC asciiSane
  · simp [exPieces, Canonical]
  · intro p hp
    simp only [exPieces, List.mem_cons, List.mem_nil_iff, or_false] at hp
    rcases hp with rfl | rfl | rfl | rfl
    · exact ⟨⟨by simp, by intro c hc; simp at hc; subst hc; decide⟩, trivial⟩
    · refine ⟨⟨?_, ?_, ?_⟩, rfl⟩
      · intro a ha; cases ha; exact Or.inl ⟨by decide, by simp⟩
      · intro s hs; cases hs
      · intro c hc; simp at hc; subst hc; decide
    · exact ⟨trivial, trivial⟩
    · refine ⟨⟨?_, ?_, ?_⟩, rfl⟩
      · intro a ha; cases ha; exact ⟨by simp, by intro d hd; simp at hd; subst hd; decide, by decide⟩
      · intro s hs; cases hs
      · intro c hc; simp at hc

theorem asciiSane2 : Sane2 asciiCC := by
  refine ⟨?_, ?_⟩
  · intro c hc
    simp only [specials, List.mem_cons, List.mem_nil_iff, or_false] at hc
    rcases hc with rfl | rfl | rfl | rfl | rfl | rfl | rfl | rfl | rfl | rfl | rfl <;> decide
  · intro c hc
    simp only [tyLetters, List.mem_cons, List.mem_nil_iff, or_false] at hc
    rcases hc with rfl | rfl | rfl | rfl | rfl | rfl | rfl <;> decide

/-- `v={x:*>+#08.p$x}{:.*X? }{:}a{0:<}` as a derivation. -/
def exSpec1 : SpecA :=
  { fill := some '*', align := some .right, sign := some .plus, alt := true, zero := true, width := some (.lit ['8']),
    prec := some (.count (.param (.name ['p']))), ty := .lowerHex }
def exSpec2 : SpecA :=
  { fill := none, align := none, sign := none, alt := false, zero := false, width := none, prec := some .star, ty := .upperDebug }
def exSpec3 : SpecA :=
  { fill := none, align := none, sign := none, alt := false, zero := false, width := none, prec := none, ty := .display }
def exSpec4 : SpecA :=
  { fill := none, align := some .left, sign := none, alt := false, zero := false, width := none, prec := none, ty := .display }
def exPieces2 : List Piece :=
  [.text ['v', '='], .ph ⟨some (.name ['x']), some exSpec1, []⟩, .ph ⟨none, some exSpec2, [' ']⟩, .ph ⟨none, some exSpec3, []⟩,
   .text ['a'], .ph ⟨some (.idx ['0']), some exSpec4, []⟩]

example : String.ofList (renderAll exPieces2) = "v={x:*>+#08.p$x}{:.*X? }{:}a{0:<}" := by decide

example : formatString asciiCC (renderAll exPieces2) = some (formatsOf exPieces2) := by
  apply formats_agree asciiCC asciiSane asciiSane2
  · simp [exPieces2, Canonical]
  · intro p hp
    simp only [exPieces2, List.mem_cons, List.mem_nil_iff, or_false] at hp
    rcases hp with rfl | rfl | rfl | rfl | rfl | rfl
    · exact ⟨by simp, by intro c hc; simp at hc; rcases hc with rfl | rfl <;> decide⟩
    · refine ⟨?_, ?_, ?_⟩
      · intro a ha; cases ha; exact Or.inl ⟨by decide, by simp⟩
      · intro s hs; cases hs
        refine ⟨(by intro _; rfl), ?_, ?_, ?_⟩
        · intro w hw; cases hw; exact ⟨by simp, by intro d hd; simp at hd; subst hd; decide, by decide⟩
        · intro q hq; cases hq; exact Or.inl ⟨by decide, by simp⟩
        · intro h; cases h
      · intro c hc; simp at hc
    · refine ⟨?_, ?_, ?_⟩
      · intro a ha; cases ha
      · intro s hs; cases hs
        refine ⟨(by intro h; cases h), ?_, ?_, ?_⟩
        · intro w hw; cases hw
        · intro q hq; cases hq; trivial
        · intro _; trivial
      · intro c hc; simp at hc; subst hc; decide
    · refine ⟨?_, ?_, ?_⟩
      · intro a ha; cases ha
      · intro s hs; cases hs
        refine ⟨(by intro h; cases h), ?_, ?_, ?_⟩
        · intro w hw; cases hw
        · intro q hq; cases hq
        · intro _; trivial
      · intro c hc; simp at hc
    · exact ⟨by simp, by intro c hc; simp at hc; subst hc; decide⟩
    · refine ⟨?_, ?_, ?_⟩
      · intro a ha; cases ha; exact ⟨by simp, by intro d hd; simp at hd; subst hd; decide, by decide⟩
      · intro s hs; cases hs
        refine ⟨(by intro h; cases h), ?_, ?_, ?_⟩
        · intro w hw; cases hw
        · intro q hq; cases hq
        · intro _; trivial
      · intro c hc; simp at hc
  · simp only [exPieces2, SpecCanonical, PhA.AlignOk]
    refine ⟨?_, ?_, ?_, ?_, trivial⟩
    · intro s hs ha; cases hs; cases ha
    · intro s hs _ _ hw; cases hw
    · intro s hs _ _ _ c t e
      simp [renderAll, Piece.render, PhA.render] at e
      rw [← e.1]; decide
    · intro s hs ha; cases hs; cases ha

/-- The excluded derivation really is ambiguous: `{:}<}`-style text reads as fill `}` — the parser (and std) take
the `}` before `<` as a fill character. -/
example : (formatString asciiCC "{:}<}".toList).map (fun fs => fs.map (fun f => f.spec.map (·.align)))
    = some [some (some (some '}', .left))] := by decide

end Dm.Props.C03

/-
C03 — format literals are interpreted exactly as std::fmt interprets them.
Property theorems only; helper lemmas live in Dm/Lemmas.
-/
import Dm.Lemmas.FmtParse

namespace Dm.Props.C03
open Dm.Fmt

/-- Text without braces yields no placeholders. -/
theorem text_yields_no_placeholders (cc : CharClasses) (s : List Char)
    (h : ∀ c ∈ s, isBrace c = false) : parseFmtString cc s = [] :=
  Dm.Fmt.parseFmtString_text cc s h

/-- The implicit positional counter follows std's rule on every derivation: explicit indices and
names do not advance it and `.*` advances it once more (before the value's own position). -/
theorem implicit_counter_is_std (n : Nat) (ps : List Piece) :
    placeholdersFrom n (formatsOf ps) = meaningFrom n ps :=
  placeholdersFrom_formatsOf n ps

end Dm.Props.C03

/-
C04 — inferred formatting bounds on generics are sufficient and not excessive.
Theorems about `bounded_types` / `generate_bounds` (model: Dm/Model/FmtAttr.lean, FmtExpand.lean)
and about `contains_generics` (model: Dm/Model/TyGen.lean).
-/
import Dm.Model.FmtExpand
import Dm.Model.TyGen
import Dm.Lemmas.TyGen

namespace Dm.Props.C04
open Dm.Fmt Dm.FmtX

/-- A placeholder of attribute `a` denotes field `i` of `fk` (by name, by position through a
bare-identifier argument, or through an alias of a bare identifier). -/
def Denotes (a : FmtAttr) (fk : FieldsK) (p : Placeholder) (i : Nat) : Prop :=
  ∃ name, placeholderName a p = some name ∧ fieldIndex fk name = some i

/-- `bounded_types` is exactly: one (field, trait) pair per placeholder that denotes a field, with
the placeholder's own trait, in literal order. -/
theorem boundedTypes_iff (cc : CharClasses) (a : FmtAttr) (fk : FieldsK) (i : Nat) (tr : Trait) :
    (i, tr) ∈ boundedTypes cc a fk ↔
      ∃ p ∈ parseFmtString cc a.lit, Denotes a fk p i ∧ p.trait = tr := by
  unfold boundedTypes Denotes
  simp only [List.mem_filterMap]
  constructor
  · rintro ⟨p, hp, h⟩
    refine ⟨p, hp, ?_⟩
    cases hn : placeholderName a p with
    | none => simp [hn] at h
    | some name =>
      cases hi : fieldIndex fk name with
      | none => simp [hn, hi] at h
      | some j =>
        simp [hn, hi] at h
        obtain ⟨rfl, rfl⟩ := h
        exact ⟨⟨name, rfl, hi⟩, rfl⟩
  · rintro ⟨p, hp, ⟨name, hn, hi⟩, rfl⟩
    exact ⟨p, hp, by simp [hn, hi]⟩

/-- Sufficient (struct / variant with its own attribute, no enum-level attribute): every
placeholder that denotes a field whose type mentions a type parameter yields the bound
`FieldTy: PlaceholderTrait`. -/
theorem own_attr_bounds_sufficient (c : Ctx) (a : FmtAttr) (cont : Container) (ident : Name)
    (fields : FieldsD) (hc : cont.fmt = some a) (p : Placeholder) (i : Nat) (f : FieldD)
    (hp : p ∈ parseFmtString c.cc a.lit) (hd : Denotes a fields.kind p i)
    (hf : fields.list[i]? = some f) (hg : f.generic = true) :
    Bound.field i p.trait ∈
      displayBounds c { shared := none, attrs := cont, ident := ident, fields := fields } := by
  have hb : (i, p.trait) ∈ boundedTypes c.cc a fields.kind :=
    (boundedTypes_iff _ _ _ _ _).2 ⟨p, hp, hd, rfl⟩
  have : Bound.field i p.trait ∈ attrBounds c a fields := by
    unfold attrBounds
    simp only [List.mem_filterMap]
    exact ⟨(i, p.trait), hb, by simp [hf, hg]⟩
  simp [displayBounds, sharedAttrInfo, hc, this]

/-- Not excessive: every inferred (non-user) bound is on a field whose type mentions a type
parameter - fields that are not generic, and hence parameters that occur in no formatted field,
are never bounded. -/
theorem inferred_bounds_only_on_generic_fields (c : Ctx) (e : Expansion) (i : Nat) (tr : Trait)
    (h : Bound.field i tr ∈ displayBounds c e) :
    ∃ f, e.fields.list[i]? = some f ∧ f.generic = true := by
  have key : ∀ a : FmtAttr, Bound.field i tr ∈ attrBounds c a e.fields →
      ∃ f, e.fields.list[i]? = some f ∧ f.generic = true := by
    intro a ha
    unfold attrBounds at ha
    simp only [List.mem_filterMap] at ha
    obtain ⟨⟨j, t⟩, _, hj⟩ := ha
    cases hf : e.fields.list[j]? with
    | none => simp [hf] at hj
    | some f =>
      by_cases hg : f.generic = true
      · simp [hf, hg] at hj
        obtain ⟨rfl, rfl⟩ := hj
        exact ⟨f, hf, hg⟩
      · simp [hf, hg] at hj
  have first : Bound.field i tr ∈ (match e.fields.list with
        | f :: _ => if f.generic then [Bound.field 0 c.tr] else []
        | [] => []) → ∃ f, e.fields.list[i]? = some f ∧ f.generic = true := by
    intro hm
    cases hfl : e.fields.list with
    | nil => simp [hfl] at hm
    | cons f rest =>
      simp only [hfl] at hm
      by_cases hg : f.generic = true
      · simp [hg] at hm
        obtain ⟨rfl, _⟩ := hm
        exact ⟨f, by simp, hg⟩
      · simp [hg] at hm
  have user : ¬ Bound.field i tr ∈ e.attrs.bounds.map Bound.user := by simp
  unfold displayBounds at h
  generalize sharedAttrInfo c e = info at h
  obtain ⟨hasShared, wrapping⟩ := info
  cases hfmt : e.attrs.fmt <;> cases hs : e.shared <;> cases hasShared <;> cases wrapping <;>
    simp only [hfmt, hs, Bool.or_true, Bool.or_false, Bool.not_true, Bool.not_false, if_true,
      if_false, List.mem_append, Bool.false_eq_true, List.not_mem_nil, false_or] at h <;>
    first
      | exact first h
      | exact key _ h
      | (rcases h with h | h <;> first | exact first h | exact key _ h | exact absurd h user)
      | (rcases h with (h | h) | h <;> first | exact first h | exact key _ h | exact absurd h user)
      | exact absurd h (by simp)

/-- `bound(...)` predicates given next to a struct's or variant's own format always reach the
where-clause — whatever the shape: also for unit variants and the field-less `V()` / `V {}`, whose
format can still use a type parameter statically (`T::NAME`). -/
theorem user_bounds_always_kept (c : Ctx) (e : Expansion) (a : FmtAttr) (h : e.attrs.fmt = some a)
    (b : String) (hb : b ∈ e.attrs.bounds) : Bound.user b ∈ displayBounds c e := by
  unfold displayBounds
  simp only [h]
  have hm : Bound.user b ∈ attrBounds c a e.fields ++ e.attrs.bounds.map Bound.user :=
    List.mem_append.2 (Or.inr (List.mem_map.2 ⟨b, hb, rfl⟩))
  cases (sharedAttrInfo c e).2 with
  | false => simpa using hm
  | true =>
    cases e.shared with
    | none => simpa using hm
    | some sh => simp only [if_true]; exact List.mem_append.2 (Or.inl hm)

/-- Implicit delegation (no attribute, no enum-level attribute): exactly the first field is
bounded, by the derived trait, and only when its type mentions a type parameter. -/
theorem implicit_bounds (c : Ctx) (ident : Name) (fields : FieldsD) :
    displayBounds c { shared := none, attrs := {}, ident := ident, fields := fields } =
      match fields.list with
      | f :: _ => if f.generic then [Bound.field 0 c.tr] else []
      | [] => [] := by
  simp only [displayBounds, sharedAttrInfo]
  cases fields.list <;> simp

/-- `contains_generics` decides exactly "the type mentions a type parameter": one of the
identifiers standing in type position (a bare-identifier path, or the argument-less first segment
of a longer path such as `T::Item`), anywhere inside references, arrays, tuples, generic
arguments, associated-type bindings, fn pointers, `Fn(..)` sugar, qualified paths and trait
objects, is one of the parameters. -/
theorem containsGenerics_iff_mentions (ps : List Dm.TyGen.Name) (t : Dm.TyGen.Ty) :
    Dm.TyGen.containsGenerics ps t = (Dm.TyGen.tyIdents t).any ps.contains := by
  unfold Dm.TyGen.containsGenerics
  cases ps with
  | nil => simp
  | cons p ps => simpa using Dm.TyGen.ty_spec (p :: ps) t

/-- `contains_generics` is `false` without type parameters, whatever the type. -/
theorem no_params_no_generics (t : Dm.TyGen.Ty) : Dm.TyGen.containsGenerics [] t = false := rfl

/-- Non-vacuity: `#[display("{b:?} {0}", a)] struct S<T>{ a: T, b: Vec<T> }` bounds `a` by
Display and `b` by Debug. -/
example :
    boundedTypes ⟨Char.isAlpha, fun c => c.isAlphanum || c = '_', fun c => c = ' '⟩
      { lit := "{b:?} {0}".toList, emit := "",
        args := [{ alias := none, ident := some "a".toList, toks := "a" }] }
      (.named ["a".toList, "b".toList]) = [(1, .debug), (0, .display)] := by decide

end Dm.Props.C04

/-
C11 — variant accessors agree with the value's variant and never lose data.
-/
import Dm.Model.Variants

set_option linter.unusedSimpArgs false

namespace Dm.Props.C11
open Dm.Var

variable {α : Type}

/-- `is_x()` is true iff the value is of variant `x`. -/
theorem is_iff (x : Nat) (v : Val α) : isX x v = true ↔ v.idx = x := by
  simp [isX]

/-- Exactly one `is_*` accessor is true for every value (among the variants `0..n`). -/
theorem is_partition (n : Nat) (v : Val α) (h : v.idx < n) :
    ((List.range n).filter fun x => isX x v) = [v.idx] := by
  have : ∀ x, isX x v = decide (x = v.idx) := by
    intro x; simp [isX, eq_comm]
  simp only [this]
  induction n with
  | zero => omega
  | succ k ih =>
    rw [List.range_succ, List.filter_append]
    by_cases hk : v.idx = k
    · have hnone : (List.range k).filter (fun x => decide (x = v.idx)) = [] := by
        apply List.filter_eq_nil_iff.2
        intro a ha; simp at ha; simp; omega
      rw [hnone]
      simp [hk]
    · have := ih (by omega)
      rw [this]
      simp [Ne.symm hk]

/-- `unwrap_x*` returns the payload (fields in declaration order - the very same objects for the
reference forms, since the pattern binds them) iff the value is `x`, otherwise panics. -/
theorem unwrap_iff (n x : Nat) (v : Val α) (hv : v.idx < n) :
    unwrapX n x v = some (if v.idx = x then .ok v.payload else .panic v.idx) := by
  unfold unwrapX
  by_cases h : v.idx = x <;> simp [h, hv]

/-- `try_unwrap_x*` returns the same on success and otherwise an error whose `input` is the
unchanged original value. -/
theorem try_unwrap_err_returns_input (n x : Nat) (v : Val α) (hv : v.idx < n) (hne : v.idx ≠ x) :
    tryUnwrapX n x v = some (.error (v, v.idx)) := by
  simp [tryUnwrapX, hne, hv]

theorem try_unwrap_ok (n x : Nat) (v : Val α) (h : v.idx = x) :
    tryUnwrapX n x v = some (.ok v.payload) := by
  simp [tryUnwrapX, h]

/-- `TryFrom<Enum> for (tys)` succeeds, with the non-ignored fields in order, exactly for the
variants whose non-ignored field types equal `tys`; otherwise the original value comes back. -/
theorem try_into_exact (vs : List VarT) (hidx : ∀ a ∈ vs, ∀ b ∈ vs, a.idx = b.idx → a = b)
    (tys : List String) (v : Val α) (d : α) (g : VarT) (hg : g ∈ vs) (hgi : g.idx = v.idx) :
    tryInto vs tys v d =
      if g.enabledTys = tys then .ok (g.enabledIdx.map fun i => v.payload.getD i d) else .error v := by
  unfold tryInto groupOf
  by_cases ht : g.enabledTys = tys
  · have hmem : g ∈ vs.filter (fun v => v.enabledTys = tys) := by simp [hg, ht]
    have hfind : (vs.filter fun v => decide (v.enabledTys = tys)).find? (fun x => decide (x.idx = v.idx)) = some g := by
      generalize hl : (vs.filter fun v => decide (v.enabledTys = tys)) = l at hmem
      have hsub : ∀ a ∈ l, a ∈ vs := by
        intro a ha; rw [← hl] at ha; exact (List.mem_filter.1 ha).1
      clear hl
      induction l with
      | nil => cases hmem
      | cons a t ih =>
        by_cases ha : a.idx = v.idx
        · have : a = g := hidx a (hsub a (by simp)) g hg (by rw [ha, hgi])
          subst this
          simp [List.find?, ha]
        · have hgt : g ∈ t := by
            rcases List.mem_cons.1 hmem with rfl | h
            · exact absurd hgi ha
            · exact h
          simp only [List.find?, ha, decide_false]
          exact ih hgt (fun b hb => hsub b (by simp [hb]))
    simp [hfind, ht]
  · have hnone : (vs.filter fun v => decide (v.enabledTys = tys)).find? (fun x => decide (x.idx = v.idx)) = none := by
      apply List.find?_eq_none.2
      intro a ha
      have ham := (List.mem_filter.1 ha)
      intro hai
      have : a = g := hidx a ham.1 g hg (by simpa [hgi] using hai)
      subst this
      simp at ham
      exact ht ham.2
    simp [hnone, ht]

/-- Grouping is a partition that does not depend on the order of the variants: a variant belongs
to the group of exactly its own type tuple. -/
theorem groups_partition (vs : List VarT) (g : VarT) (hg : g ∈ vs) (tys : List String) :
    g ∈ groupOf vs tys ↔ g.enabledTys = tys := by
  simp [groupOf, hg]

theorem groups_order_independent (vs ws : List VarT) (h : vs.Perm ws) (tys : List String) :
    (groupOf vs tys).Perm (groupOf ws tys) := h.filter _

/-- The reference-kind defaults as the code computes them (`a && b || c` as written): with no
attribute at all only the owned accessors exist; non-vacuity of the model. -/
example : defaults none [none, none] = { enabled := true, owned := true, ref := false, refMut := false } := by
  decide
example : variantInfos (some [.ref, .refMut]) [none, some [.ignore]] =
    [{ enabled := true, owned := true, ref := true, refMut := true },
     { enabled := false, owned := true, ref := true, refMut := true }] := by decide

/-! ### Which variants take part (`State::new_impl`) -/

/-- Without an enum-level attribute a variant without an attribute of its own is enabled iff the
**first attributed** variant (whatever its attribute says, `ignore` included) does not enable
itself: opt-out enums (`ignore` first) keep the rest, opt-in enums (an enabling attribute first)
drop it. -/
theorem unattributed_variant_enabled (vas : List (Option (List Param))) (i : Nat)
    (h : vas[i]? = some none) :
    (variantInfos none vas)[i]?.map (·.enabled)
      = some (match (vas.map metaOf).find? (fun m => m.enabled.isSome) with
              | some m => !(m.enabled.getD true)
              | none => true) := by
  simp only [variantInfos, defaults, List.getElem?_map, h, Option.map_some, metaOf, Meta.intoFull, Option.getD_none]
  cases (List.map metaOf vas).find? (fun m => m.enabled.isSome) <;> rfl

/-- `#[x(ignore)] A, B, #[x(owned)] C, D`: the first attribute is an `ignore`, so `B` and `D` stay
enabled although a later variant carries an enabling attribute (the defaults come from the first
attribute of any kind, not from the first enabling one). -/
theorem ignore_first_keeps_unattributed (rest : List (Option (List Param))) (i : Nat)
    (h : (some [Param.ignore] :: rest)[i]? = some none) :
    (variantInfos none (some [Param.ignore] :: rest))[i]?.map (·.enabled) = some true := by
  rw [unattributed_variant_enabled _ i h]
  simp [metaOf]

end Dm.Props.C11

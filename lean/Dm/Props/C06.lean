/-
C06 — derive_more::Debug without attributes is indistinguishable from std Debug.
-/
import Dm.Model.DebugTuple
import Dm.Model.FmtExpand

namespace Dm.Props.C06
open Dm.Dbg

/-- Padding is insensitive to how the text is cut into `write_str` calls. -/
theorem pad_append (st : Bool) (a b : List Char) :
    pad st (a ++ b) = ((pad st a).1 ++ (pad (pad st a).2 b).1, (pad (pad st a).2 b).2) := by
  induction a generalizing st with
  | nil => simp [pad]
  | cons c cs ih =>
    simp only [List.cons_append, pad]
    rw [ih]
    cases st <;> simp

/-- Flat (`{:?}` and every non-alternate configuration): the crate's tuple builder writes exactly
what core's does, for every name, every number of fields, every field behaviour and every width,
fill, precision and hex flag. -/
theorem tuple_eq_std_flat (name : List Char) (fs : List FieldFmt) (ex : Bool) (o : Opts)
    (h : o.alt = false) : dmTuple name fs ex o = stdTuple name fs ex o := by
  simp [dmTuple, stdTuple, h]

/-- Pretty (`{:#?}`): equal whenever every field writes the same text under the caller's options
as under plain `{:#?}` - in particular whenever the caller passes no width/fill/precision/hex. -/
theorem tuple_eq_std_pretty (name : List Char) (fs : List FieldFmt) (ex : Bool) (o : Opts)
    (h : ∀ f ∈ fs, f o = f freshAlt) : dmTuple name fs ex o = stdTuple name fs ex o := by
  by_cases ha : o.alt = true
  · have : (fs.map fun f => prettyField (f freshAlt)) = (fs.map fun f => prettyField (f o)) := by
      apply List.map_congr_left
      intro f hf
      rw [h f hf]
    simp [dmTuple, stdTuple, ha, this]
  · exact tuple_eq_std_flat name fs ex o (by simpa using ha)

theorem tuple_eq_std_plain_pretty (name : List Char) (fs : List FieldFmt) (ex : Bool) :
    dmTuple name fs ex freshAlt = stdTuple name fs ex freshAlt :=
  tuple_eq_std_pretty name fs ex freshAlt (fun _ _ => rfl)

/-- The full-strength statement (all formatter configurations) is FALSE on this tree: in pretty
mode the crate re-formats fields with fresh options, core keeps the caller's. Witness: one field
that shows the options it sees, under `{:#x?}`-like options (`rest = 1`). -/
theorem tuple_eq_std_counterexample :
    ∃ (name : List Char) (fs : List FieldFmt) (o : Opts),
      dmTuple name fs true o ≠ stdTuple name fs true o := by
  refine ⟨['T'], [fun o => if o.rest = 0 then ['a'] else ['b']], { alt := true, rest := 1 }, ?_⟩
  decide

/-! ### Which builder calls the derive makes (`debug.rs`) -/
open Dm.FmtX in
/-- Skipped fields are omitted and the output is closed by `finish_non_exhaustive` iff at least
one field is skipped; the remaining fields appear once each, in declaration order. -/
theorem calls_follow_fields (cc : Dm.Fmt.CharClasses) (fs : List FieldD) (named : Bool) :
    let fields := if named then FieldsD.named fs else FieldsD.unnamed fs
    (dbgCalls cc fields named).2 = !(fs.any fun f => f.dbg = .skip)
    ∧ (dbgCalls cc fields named).1.length = (fs.filter fun f => f.dbg ≠ .skip).length := by
  have key : ∀ (l : List FieldD) (i : Nat) (fields : FieldsD),
      (dbgCalls.go cc named fields.idents i l).2 = !(l.any fun f => f.dbg = .skip)
      ∧ (dbgCalls.go cc named fields.idents i l).1.length = (l.filter fun f => f.dbg ≠ .skip).length := by
    intro l
    induction l with
    | nil => intro i fields; simp [dbgCalls.go]
    | cons f rest ih =>
      intro i fields
      obtain ⟨h1, h2⟩ := ih (i + 1) fields
      cases hd : f.dbg with
      | skip => simp [dbgCalls.go, hd, h2]
      | none => simp [dbgCalls.go, hd, h1, h2]
      | fmt a => simp [dbgCalls.go, hd, h1, h2]
  cases named <;> simp only [dbgCalls, FieldsD.list] <;> exact key fs 0 _

end Dm.Props.C06

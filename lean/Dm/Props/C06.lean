/-
C06 — derive_more::Debug without attributes is indistinguishable from std Debug.
-/
import Dm.Model.DebugTuple
import Dm.Model.FmtExpand
import Dm.Lemmas.DebugTree

namespace Dm.Props.C06
open Dm.Dbg

/-- Padding is insensitive to how the text is cut into `write_str` calls. -/
theorem pad_append (st : Bool) (a b : List Char) :
    pad st (a ++ b) = ((pad st a).1 ++ (pad (pad st a).2 b).1, (pad (pad st a).2 b).2) := by
  induction a generalizing st with
  | nil => simp [pad]
  | cons c cs ih =>
    simp only [List.cons_append, pad]
    rw [ih]
    cases st <;> simp

/-- Flat (`{:?}` and every non-alternate configuration): the crate's tuple builder writes exactly
what core's does, for every name, every number of fields, every field behaviour and every width,
fill, precision and hex flag. -/
theorem tuple_eq_std_flat (name : List Char) (fs : List FieldFmt) (ex : Bool) (o : Opts)
    (h : o.alt = false) : dmTuple name fs ex o = stdTuple name fs ex o := by
  simp [dmTuple, stdTuple, h]

/-- Pretty (`{:#?}`): equal whenever every field writes the same text under the caller's options
as under plain `{:#?}` - in particular whenever the caller passes no width/fill/precision/hex. -/
theorem tuple_eq_std_pretty (name : List Char) (fs : List FieldFmt) (ex : Bool) (o : Opts)
    (h : ∀ f ∈ fs, f o = f freshAlt) : dmTuple name fs ex o = stdTuple name fs ex o := by
  by_cases ha : o.alt = true
  · have : (fs.map fun f => prettyField (f freshAlt)) = (fs.map fun f => prettyField (f o)) := by
      apply List.map_congr_left
      intro f hf
      rw [h f hf]
    simp [dmTuple, stdTuple, ha, this]
  · exact tuple_eq_std_flat name fs ex o (by simpa using ha)

theorem tuple_eq_std_plain_pretty (name : List Char) (fs : List FieldFmt) (ex : Bool) :
    dmTuple name fs ex freshAlt = stdTuple name fs ex freshAlt :=
  tuple_eq_std_pretty name fs ex freshAlt (fun _ _ => rfl)

/-- The full-strength statement (all formatter configurations) is FALSE on this tree: in pretty
mode the crate re-formats fields with fresh options, core keeps the caller's. Witness: one field
that shows the options it sees, under `{:#x?}`-like options (`rest = 1`). -/
theorem tuple_eq_std_counterexample :
    ∃ (name : List Char) (fs : List FieldFmt) (o : Opts),
      dmTuple name fs true o ≠ stdTuple name fs true o := by
  refine ⟨['T'], [fun o => if o.rest = 0 then ['a'] else ['b']], { alt := true, rest := 1 }, ?_⟩
  decide

/-! ### `Padded::write_str` as written, and the builder as a sequence of calls -/

/-- The `split_inclusive('\n')` loop of `Padded::write_str` writes exactly the character-level
specification: four spaces in front of every character that follows a newline (or the start). -/
theorem padded_loop_is_pad (st : Bool) (s : List Char) : paddedWrite st s = pad st s :=
  paddedWrite_eq_pad s st

/-- The indentation a wrapped value gets does not depend on how it cuts its output into
`write_str` calls (an empty call, a call ending in the middle of a line, one call per character, ...). -/
theorem padded_chunking_independent (st : Bool) (c1 c2 : List (List Char))
    (h : c1.flatten = c2.flatten) : paddedWrites st c1 = paddedWrites st c2 := by
  rw [paddedWrites_eq_pad, paddedWrites_eq_pad, h]

/-- The call-by-call model of the crate's `DebugTuple` (field counter, `empty_name`, one `Padded`
per field) writes what the text-level model `dmTuple` says, for fields given as write scripts. -/
theorem tuple_code_eq_model (name : List Char) (fs : List FieldScript) (ex : Bool) (o : Opts) :
    dmTupleCode name fs ex o
      = dmTuple name (fs.map fun (s : FieldScript) (o : Opts) => (s o).flatten) ex o := by
  have hp : (paddedWrite true ['.', '.', '\n']).1 = padStr ['.', '.', '\n'] := by
    rw [paddedWrite_eq_pad]; rfl
  cases ha : o.alt
  · simp only [dmTupleCode, dmTuple, ha, dmFieldsCode_flat o ha fs 0]
    cases fs <;> simp
  · simp only [dmTupleCode, dmTuple, ha, dmFieldsCode_pretty o ha fs 0, hp]
    cases fs <;> simp

/-! ### Nesting: values that are builder output all the way down -/

mutual
  theorem nested_plain_val : ∀ (v : Val) (o : Opts), o.rest = 0 → v.fmt true o = v.fmt false o
    | .leaf _, _, _ => rfl
    | .tuple n vs ex, o, h => by
      simp only [Val.fmt, if_true, Bool.false_eq_true, if_false, dmTuple_eq_text, stdTuple_eq_text]
      cases ha : o.alt
      · simp only [Bool.false_eq_true, if_false]
        exact congrArg (tupleText n · ex false) (nested_plain_vals vs o h)
      · simp only [if_true]
        have : o = freshAlt := opts_fresh_of o ha h
        subst this
        exact congrArg (tupleText n · ex true) (nested_plain_vals vs freshAlt h)
    | .strukt n ns vs ex, o, h => by
      simp only [Val.fmt, stdStruct_eq_text]
      rw [nested_plain_vals vs o h]
  theorem nested_plain_vals : ∀ (vs : Vals) (o : Opts), o.rest = 0 →
      ((vs.fmts true).map fun f => f o) = ((vs.fmts false).map fun f => f o)
    | .nil, _, _ => rfl
    | .cons v vs, o, h => by
      simp only [Vals.fmts, List.map_cons, nested_plain_val v o h, nested_plain_vals vs o h]
end

/-- **Nesting, any depth.** A value built from tuple structs / tuple variants (printed by the crate's
`DebugTuple` under `derive_more::Debug`, by core's under std's derive), named structs / variants
(core's `DebugStruct` under both) and arbitrary leaves prints identically under `{:?}` and `{:#?}`
— the formatter configurations without width, fill, precision, sign or hex — whatever the leaves do. -/
theorem nested_eq_std (v : Val) (o : Opts) (h : o.rest = 0) : v.fmt true o = v.fmt false o :=
  nested_plain_val v o h

mutual
  theorem nested_insens_val : ∀ (v : Val), v.Insens →
      (∀ o : Opts, v.fmt true o = v.fmt false o)
      ∧ (∀ (d : Bool) (o : Opts), o.alt = true → v.fmt d o = v.fmt d freshAlt)
    | .leaf f, h => ⟨fun _ => rfl, fun _ o ha => h o ha⟩
    | .tuple n vs ex, h => by
      obtain ⟨p, q⟩ := nested_insens_vals vs h
      refine ⟨fun o => ?_, fun d o ha => ?_⟩
      · simp only [Val.fmt, if_true, Bool.false_eq_true, if_false, dmTuple_eq_text, stdTuple_eq_text]
        cases ha : o.alt
        · simp only [Bool.false_eq_true, if_false, p o]
        · simp only [if_true, q false o ha, p freshAlt]
      · cases d
        · simp only [Val.fmt, Bool.false_eq_true, if_false, stdTuple_eq_text, ha, q false o ha]
          rfl
        · simp only [Val.fmt, if_true, dmTuple_eq_text, ha]
          rfl
    | .strukt n ns vs ex, h => by
      obtain ⟨p, q⟩ := nested_insens_vals vs h
      refine ⟨fun o => ?_, fun d o ha => ?_⟩
      · simp only [Val.fmt, stdStruct_eq_text, p o]
      · simp only [Val.fmt, stdStruct_eq_text, ha, q d o ha]
        rfl
  theorem nested_insens_vals : ∀ (vs : Vals), vs.Insens →
      (∀ o : Opts, ((vs.fmts true).map fun f => f o) = ((vs.fmts false).map fun f => f o))
      ∧ (∀ (d : Bool) (o : Opts), o.alt = true →
          ((vs.fmts d).map fun f => f o) = ((vs.fmts d).map fun f => f freshAlt))
    | .nil, _ => ⟨fun _ => rfl, fun _ _ _ => rfl⟩
    | .cons v vs, h => by
      obtain ⟨p, q⟩ := nested_insens_val v h.1
      obtain ⟨ps, qs⟩ := nested_insens_vals vs h.2
      refine ⟨fun o => ?_, fun d o ha => ?_⟩
      · simp only [Vals.fmts, List.map_cons, p o, ps o]
      · simp only [Vals.fmts, List.map_cons, q d o ha, qs d o ha]
end

/-- **Nesting under every formatter configuration** (width, fill, precision, sign, `0`, hex too):
equal whenever the leaves ignore those options in alternate mode, at any depth. The leaf condition
cannot be dropped: `tuple_eq_std_counterexample`. -/
theorem nested_eq_std_all_options (v : Val) (h : v.Insens) (o : Opts) :
    v.fmt true o = v.fmt false o :=
  (nested_insens_val v h).1 o

/-- Non-vacuity: `Outer(Inner { a: "x\ny", b: Unit }, ..)` at depth 2, multi-line leaf, printed
under `{:#?}`; and the hypotheses of the all-options form hold for it. -/
def sampleVal : Val :=
  .tuple ['O'] (.cons (.strukt ['I'] [['a'], ['b']]
      (.cons (.leaf fun _ => ['x', '\n', 'y']) (.cons (.tuple ['U'] .nil true) .nil)) true) .nil) false

example : sampleVal.fmt true freshAlt
    = "O(\n    I {\n        a: x\n        y,\n        b: U,\n    },\n    ..\n)".toList := by decide
example : sampleVal.Insens := by
  simp [sampleVal, Val.Insens, Vals.Insens]
example : paddedWrites true [['a', '\n'], [], ['\n', 'b']] = (pad true ['a', '\n', '\n', 'b']) := by decide
example : (paddedWrites true [['a', '\n'], [], ['\n', 'b']]).1 = "    a\n    \n    b".toList := by decide

/-! ### Which builder calls the derive makes (`debug.rs`) -/
open Dm.FmtX in
/-- Skipped fields are omitted and the output is closed by `finish_non_exhaustive` iff at least
one field is skipped; the remaining fields appear once each, in declaration order. -/
theorem calls_follow_fields (cc : Dm.Fmt.CharClasses) (fs : List FieldD) (named : Bool) :
    let fields := if named then FieldsD.named fs else FieldsD.unnamed fs
    (dbgCalls cc fields named).2 = !(fs.any fun f => f.dbg = .skip)
    ∧ (dbgCalls cc fields named).1.length = (fs.filter fun f => f.dbg ≠ .skip).length := by
  have key : ∀ (l : List FieldD) (i : Nat) (fields : FieldsD),
      (dbgCalls.go cc named fields.idents i l).2 = !(l.any fun f => f.dbg = .skip)
      ∧ (dbgCalls.go cc named fields.idents i l).1.length = (l.filter fun f => f.dbg ≠ .skip).length := by
    intro l
    induction l with
    | nil => intro i fields; simp [dbgCalls.go]
    | cons f rest ih =>
      intro i fields
      obtain ⟨h1, h2⟩ := ih (i + 1) fields
      cases hd : f.dbg with
      | skip => simp [dbgCalls.go, hd, h2]
      | none => simp [dbgCalls.go, hd, h1, h2]
      | fmt a => simp [dbgCalls.go, hd, h1, h2]
  cases named <;> simp only [dbgCalls, FieldsD.list] <;> exact key fs 0 _

/-! ### End to end: the derive's builder calls are std's, and so is the text -/

open Dm.FmtX in
/-- What std's `#[derive(Debug)]` expands to for the same definition: the type's (unraw) name, one
`.field(..)` per field in declaration order — labelled with the unraw field name for named fields —
and `finish()`. -/
def stdDeriveCalls (named : Bool) : Nat → List FieldD → List DbgCall
  | _, [] => []
  | i, f :: rest =>
    .value (if named then some (String.ofList (unraw (f.name.getD []))) else none)
      (f.name.getD ('_' :: (toString i).toList)) :: stdDeriveCalls named (i + 1) rest

open Dm.FmtX in
def stdDeriveBody (ident : Name) (fields : FieldsD) : DbgBody :=
  match fields with
  | .unit => .unit (String.ofList (unraw ident))
  | .unnamed fs => .tuple (String.ofList (unraw ident)) (stdDeriveCalls false 0 fs) true
  | .named fs => .struct (String.ofList (unraw ident)) (stdDeriveCalls true 0 fs) true

open Dm.FmtX in
theorem dbgCalls_go_no_attrs (cc : Dm.Fmt.CharClasses) (named : Bool) (idents : List (Option Name)) :
    ∀ (l : List FieldD) (i : Nat), (∀ f ∈ l, f.dbg = .none) →
      dbgCalls.go cc named idents i l = (stdDeriveCalls named i l, true) := by
  intro l
  induction l with
  | nil => intro i _; rfl
  | cons f rest ih =>
    intro i h
    have hf : f.dbg = .none := h f (by simp)
    simp only [dbgCalls.go, ih (i + 1) (fun g hg => h g (by simp [hg])), hf, stdDeriveCalls]

open Dm.FmtX in
/-- **Without `#[debug]` attributes the derive makes exactly the builder calls std's derive makes**:
same name (raw prefix dropped), same fields in the same order with the same labels, `finish()` —
for unit, tuple and named shapes of any size. -/
theorem no_attr_body_is_std_derive (cc : Dm.Fmt.CharClasses) (ident : Name) (fields : FieldsD)
    (h : ∀ f ∈ fields.list, f.dbg = .none) :
    debugBody cc none ident fields = stdDeriveBody ident fields := by
  cases fields with
  | unit => rfl
  | unnamed fs =>
    simp only [debugBody, stdDeriveBody, dbgCalls, FieldsD.list]
    rw [dbgCalls_go_no_attrs cc false _ fs 0 h]
  | named fs =>
    simp only [debugBody, stdDeriveBody, dbgCalls, FieldsD.list]
    rw [dbgCalls_go_no_attrs cc true _ fs 0 h]

open Dm.FmtX in
/-- The value a body prints: its calls applied to the bound fields (`env` gives each binding's
value, itself any tree of builder output). Bodies with formatted calls are not values of this kind. -/
def bodyVal (env : Name → Val) : DbgBody → Option Val
  | .unit n => some (.tuple n.toList .nil true)
  | .tuple n cs ex =>
    (cs.mapM fun (c : DbgCall) => match c with | DbgCall.value _ b => some (env b) | DbgCall.formatted .. => none).map fun (vs : List Val) =>
      Val.tuple n.toList (Vals.ofList vs) ex
  | .struct n cs ex =>
    (cs.mapM fun (c : DbgCall) => match c with
      | DbgCall.value (some l) b => some (l.toList, env b)
      | _ => none).map fun (lvs : List (List Char × Val)) =>
      Val.strukt n.toList (lvs.map Prod.fst) (Vals.ofList (lvs.map Prod.snd)) ex
  | _ => none

open Dm.FmtX in
/-- **C06 end to end (attribute-free, `{:?}` / `{:#?}`)**: the text `derive_more::Debug` writes — its
own calls, tuple shapes through the crate's `DebugTuple` — is the text std's derive writes — std's
calls, core's builders — for every shape, every number of fields and field values nested to any
depth. -/
theorem derived_debug_is_std_debug (cc : Dm.Fmt.CharClasses) (ident : Name) (fields : FieldsD)
    (h : ∀ f ∈ fields.list, f.dbg = .none) (env : Name → Val) (o : Opts) (ho : o.rest = 0) :
    (bodyVal env (debugBody cc none ident fields)).map (fun v => v.fmt true o)
      = (bodyVal env (stdDeriveBody ident fields)).map (fun v => v.fmt false o) := by
  rw [no_attr_body_is_std_derive cc ident fields h]
  cases bodyVal env (stdDeriveBody ident fields) with
  | none => rfl
  | some v => simp [nested_eq_std v o ho]

open Dm.FmtX in
/-- Non-vacuity: `struct r#type { a: _, r#fn: _ }` has a value, printed `type { a: 1, fn: 1 }`. -/
example : (bodyVal (fun _ => .leaf fun _ => ['1'])
    (debugBody { isStart := fun c => c.isAlpha, isCont := fun c => c.isAlphanum, isWs := fun c => c == ' ' } none "r#type".toList
      (.named [{ name := some "a".toList, tyToks := "u8", generic := false },
               { name := some "r#fn".toList, tyToks := "u8", generic := false }]))).map (fun v => v.fmt true ⟨false, 0⟩)
    = some "type { a: 1, fn: 1 }".toList := by decide

end Dm.Props.C06

/-
C06 — derive_more::Debug without attributes is indistinguishable from std Debug.
-/
import Dm.Model.DebugTuple
import Dm.Model.FmtExpand
import Dm.Lemmas.DebugTree

namespace Dm.Props.C06
open Dm.Dbg

/-- Padding is insensitive to how the text is cut into `write_str` calls. -/
theorem pad_append (st : Bool) (a b : List Char) :
    pad st (a ++ b) = ((pad st a).1 ++ (pad (pad st a).2 b).1, (pad (pad st a).2 b).2) := by
  induction a generalizing st with
  | nil => simp [pad]
  | cons c cs ih =>
    simp only [List.cons_append, pad]
    rw [ih]
    cases st <;> simp

/-- Flat (`{:?}` and every non-alternate configuration): the crate's tuple builder writes exactly
what core's does, for every name, every number of fields, every field behaviour and every width,
fill, precision and hex flag. -/
theorem tuple_eq_std_flat (name : List Char) (fs : List FieldFmt) (ex : Bool) (o : Opts)
    (h : o.alt = false) : dmTuple name fs ex o = stdTuple name fs ex o := by
  simp [dmTuple, stdTuple, h]

/-- Pretty (`{:#?}`): equal whenever every field writes the same text under the caller's options
as under plain `{:#?}` - in particular whenever the caller passes no width/fill/precision/hex. -/
theorem tuple_eq_std_pretty (name : List Char) (fs : List FieldFmt) (ex : Bool) (o : Opts)
    (h : ∀ f ∈ fs, f o = f freshAlt) : dmTuple name fs ex o = stdTuple name fs ex o := by
  by_cases ha : o.alt = true
  · have : (fs.map fun f => prettyField (f freshAlt)) = (fs.map fun f => prettyField (f o)) := by
      apply List.map_congr_left
      intro f hf
      rw [h f hf]
    simp [dmTuple, stdTuple, ha, this]
  · exact tuple_eq_std_flat name fs ex o (by simpa using ha)

theorem tuple_eq_std_plain_pretty (name : List Char) (fs : List FieldFmt) (ex : Bool) :
    dmTuple name fs ex freshAlt = stdTuple name fs ex freshAlt :=
  tuple_eq_std_pretty name fs ex freshAlt (fun _ _ => rfl)

/-- The full-strength statement (all formatter configurations) is FALSE on this tree: in pretty
mode the crate re-formats fields with fresh options, core keeps the caller's. Witness: one field
that shows the options it sees, under `{:#x?}`-like options (`rest = 1`). -/
theorem tuple_eq_std_counterexample :
    ∃ (name : List Char) (fs : List FieldFmt) (o : Opts),
      dmTuple name fs true o ≠ stdTuple name fs true o := by
  refine ⟨['T'], [fun o => if o.rest = 0 then ['a'] else ['b']], { alt := true, rest := 1 }, ?_⟩
  decide

/-! ### `Padded::write_str` as written, and the builder as a sequence of calls -/

/-- The `split_inclusive('\n')` loop of `Padded::write_str` writes exactly the character-level
specification: four spaces in front of every character that follows a newline (or the start). -/
theorem padded_loop_is_pad (st : Bool) (s : List Char) : paddedWrite st s = pad st s :=
  paddedWrite_eq_pad s st

/-- The indentation a wrapped value gets does not depend on how it cuts its output into
`write_str` calls (an empty call, a call ending in the middle of a line, one call per character, ...). -/
theorem padded_chunking_independent (st : Bool) (c1 c2 : List (List Char))
    (h : c1.flatten = c2.flatten) : paddedWrites st c1 = paddedWrites st c2 := by
  rw [paddedWrites_eq_pad, paddedWrites_eq_pad, h]

/-- The call-by-call model of the crate's `DebugTuple` (field counter, `empty_name`, one `Padded`
per field) writes what the text-level model `dmTuple` says, for fields given as write scripts. -/
theorem tuple_code_eq_model (name : List Char) (fs : List FieldScript) (ex : Bool) (o : Opts) :
    dmTupleCode name fs ex o
      = dmTuple name (fs.map fun (s : FieldScript) (o : Opts) => (s o).flatten) ex o := by
  have hp : (paddedWrite true ['.', '.', '\n']).1 = padStr ['.', '.', '\n'] := by
    rw [paddedWrite_eq_pad]; rfl
  cases ha : o.alt
  · simp only [dmTupleCode, dmTuple, ha, dmFieldsCode_flat o ha fs 0]
    cases fs <;> simp
  · simp only [dmTupleCode, dmTuple, ha, dmFieldsCode_pretty o ha fs 0, hp]
    cases fs <;> simp

/-! ### Nesting: values that are builder output all the way down -/

mutual
  theorem nested_plain_val : ∀ (v : Val) (o : Opts), o.rest = 0 → v.fmt true o = v.fmt false o
    | .leaf _, _, _ => rfl
    | .tuple n vs ex, o, h => by
      simp only [Val.fmt, if_true, Bool.false_eq_true, if_false, dmTuple_eq_text, stdTuple_eq_text]
      cases ha : o.alt
      · simp only [Bool.false_eq_true, if_false]
        exact congrArg (tupleText n · ex false) (nested_plain_vals vs o h)
      · simp only [if_true]
        have : o = freshAlt := opts_fresh_of o ha h
        subst this
        exact congrArg (tupleText n · ex true) (nested_plain_vals vs freshAlt h)
    | .strukt n ns vs ex, o, h => by
      simp only [Val.fmt, stdStruct_eq_text]
      rw [nested_plain_vals vs o h]
  theorem nested_plain_vals : ∀ (vs : Vals) (o : Opts), o.rest = 0 →
      ((vs.fmts true).map fun f => f o) = ((vs.fmts false).map fun f => f o)
    | .nil, _, _ => rfl
    | .cons v vs, o, h => by
      simp only [Vals.fmts, List.map_cons, nested_plain_val v o h, nested_plain_vals vs o h]
end

/-- **Nesting, any depth.** A value built from tuple structs / tuple variants (printed by the crate's
`DebugTuple` under `derive_more::Debug`, by core's under std's derive), named structs / variants
(core's `DebugStruct` under both) and arbitrary leaves prints identically under `{:?}` and `{:#?}`
— the formatter configurations without width, fill, precision, sign or hex — whatever the leaves do. -/
theorem nested_eq_std (v : Val) (o : Opts) (h : o.rest = 0) : v.fmt true o = v.fmt false o :=
  nested_plain_val v o h

mutual
  theorem nested_insens_val : ∀ (v : Val), v.Insens →
      (∀ o : Opts, v.fmt true o = v.fmt false o)
      ∧ (∀ (d : Bool) (o : Opts), o.alt = true → v.fmt d o = v.fmt d freshAlt)
    | .leaf f, h => ⟨fun _ => rfl, fun _ o ha => h o ha⟩
    | .tuple n vs ex, h => by
      obtain ⟨p, q⟩ := nested_insens_vals vs h
      refine ⟨fun o => ?_, fun d o ha => ?_⟩
      · simp only [Val.fmt, if_true, Bool.false_eq_true, if_false, dmTuple_eq_text, stdTuple_eq_text]
        cases ha : o.alt
        · simp only [Bool.false_eq_true, if_false, p o]
        · simp only [if_true, q false o ha, p freshAlt]
      · cases d
        · simp only [Val.fmt, Bool.false_eq_true, if_false, stdTuple_eq_text, ha, q false o ha]
          rfl
        · simp only [Val.fmt, if_true, dmTuple_eq_text, ha]
          rfl
    | .strukt n ns vs ex, h => by
      obtain ⟨p, q⟩ := nested_insens_vals vs h
      refine ⟨fun o => ?_, fun d o ha => ?_⟩
      · simp only [Val.fmt, stdStruct_eq_text, p o]
      · simp only [Val.fmt, stdStruct_eq_text, ha, q d o ha]
        rfl
  theorem nested_insens_vals : ∀ (vs : Vals), vs.Insens →
      (∀ o : Opts, ((vs.fmts true).map fun f => f o) = ((vs.fmts false).map fun f => f o))
      ∧ (∀ (d : Bool) (o : Opts), o.alt = true →
          ((vs.fmts d).map fun f => f o) = ((vs.fmts d).map fun f => f freshAlt))
    | .nil, _ => ⟨fun _ => rfl, fun _ _ _ => rfl⟩
    | .cons v vs, h => by
      obtain ⟨p, q⟩ := nested_insens_val v h.1
      obtain ⟨ps, qs⟩ := nested_insens_vals vs h.2
      refine ⟨fun o => ?_, fun d o ha => ?_⟩
      · simp only [Vals.fmts, List.map_cons, p o, ps o]
      · simp only [Vals.fmts, List.map_cons, q d o ha, qs d o ha]
end

/-- **Nesting under every formatter configuration** (width, fill, precision, sign, `0`, hex too):
equal whenever the leaves ignore those options in alternate mode, at any depth. The leaf condition
cannot be dropped: `tuple_eq_std_counterexample`. -/
theorem nested_eq_std_all_options (v : Val) (h : v.Insens) (o : Opts) :
    v.fmt true o = v.fmt false o :=
  (nested_insens_val v h).1 o

/-- Non-vacuity: `Outer(Inner { a: "x\ny", b: Unit }, ..)` at depth 2, multi-line leaf, printed
under `{:#?}`; and the hypotheses of the all-options form hold for it. -/
def sampleVal : Val :=
  .tuple ['O'] (.cons (.strukt ['I'] [['a'], ['b']]
      (.cons (.leaf fun _ => ['x', '\n', 'y']) (.cons (.tuple ['U'] .nil true) .nil)) true) .nil) false

example : sampleVal.fmt true freshAlt
    = "O(\n    I {\n        a: x\n        y,\n        b: U,\n    },\n    ..\n)".toList := by decide
example : sampleVal.Insens := by
  simp [sampleVal, Val.Insens, Vals.Insens]
example : paddedWrites true [['a', '\n'], [], ['\n', 'b']] = (pad true ['a', '\n', '\n', 'b']) := by decide
example : (paddedWrites true [['a', '\n'], [], ['\n', 'b']]).1 = "    a\n    \n    b".toList := by decide

/-! ### Which builder calls the derive makes (`debug.rs`) -/
open Dm.FmtX in
/-- Skipped fields are omitted and the output is closed by `finish_non_exhaustive` iff at least
one field is skipped; the remaining fields appear once each, in declaration order. -/
theorem calls_follow_fields (cc : Dm.Fmt.CharClasses) (fs : List FieldD) (named : Bool) :
    let fields := if named then FieldsD.named fs else FieldsD.unnamed fs
    (dbgCalls cc fields named).2 = !(fs.any fun f => f.dbg = .skip)
    ∧ (dbgCalls cc fields named).1.length = (fs.filter fun f => f.dbg ≠ .skip).length := by
  have key : ∀ (l : List FieldD) (i : Nat) (fields : FieldsD),
      (dbgCalls.go cc named fields.idents i l).2 = !(l.any fun f => f.dbg = .skip)
      ∧ (dbgCalls.go cc named fields.idents i l).1.length = (l.filter fun f => f.dbg ≠ .skip).length := by
    intro l
    induction l with
    | nil => intro i fields; simp [dbgCalls.go]
    | cons f rest ih =>
      intro i fields
      obtain ⟨h1, h2⟩ := ih (i + 1) fields
      cases hd : f.dbg with
      | skip => simp [dbgCalls.go, hd, h2]
      | none => simp [dbgCalls.go, hd, h1, h2]
      | fmt a => simp [dbgCalls.go, hd, h1, h2]
  cases named <;> simp only [dbgCalls, FieldsD.list] <;> exact key fs 0 _

end Dm.Props.C06

import Dm.Lemmas.LegacyAttr

/-
C17 — synonymous attribute spellings are equivalent; contradictory ones rejected (legacy attribute
parser part: the 20 derives configured through `State`). All theorems hold for every allow-list,
every parameter list and every starting `MetaInfo`.
-/
namespace Dm.Props.C17
open Dm.Legacy

/-- **Any order of the parameters** gives the same `MetaInfo` or the same rejection. -/
theorem order_independent (allowed : List Name) (w : Wrapper) {ms ms' : List Meta} (h : ms.Perm ms') (i : Info) :
    parseMetas allowed w ms i = parseMetas allowed w ms' i := by
  rw [parseMetas_eq, parseMetas_eq]
  rcases denList_perm allowed w h with ⟨h1, h2⟩ | ⟨as, bs, h1, h2, hp⟩
  · rw [h1, h2]
  · rw [h1, h2]; exact applyAtoms_perm hp i

/-- A parameter outside the allow-list of the position — unknown, another derive's, or meaningless for
this item kind — is **rejected wherever it stands**, never ignored. -/
theorem unknown_rejected (allowed : List Name) (w : Wrapper) (ms : List Meta) (m : Meta) (n : Name)
    (hm : m ∈ ms) (hn : allowed.contains n = false)
    (hshape : m = .path n ∨ ∃ args, m = .list n args) (i : Info) :
    parseMetas allowed w ms i = .error () := by
  rw [parseMetas_eq]
  have hden : den allowed w m = none := by
    rcases hshape with rfl | ⟨args, rfl⟩
    · exact (den_unknown allowed w n hn []).1
    · exact (den_unknown allowed w n hn args).2
  obtain ⟨pre, post, rfl⟩ := List.append_of_mem hm
  rw [denList_append]
  have : denList allowed w (m :: post) = none := by simp [denList, hden]
  rw [this]
  cases denList allowed w pre <;> rfl

/-- A parameter **given twice** is rejected (`#[deref(forward, forward)]`, `#[unwrap(ref, owned, ref)]`). -/
theorem repeated_rejected (allowed : List Name) (n : Name) (pre mid post : List Meta) (i : Info) :
    parseMetas allowed .none (pre ++ Meta.path n :: mid ++ Meta.path n :: post) i = .error () := by
  rw [parseMetas_eq]
  have hsplit : pre ++ Meta.path n :: mid ++ Meta.path n :: post
      = pre ++ ([Meta.path n] ++ (mid ++ ([Meta.path n] ++ post))) := by simp
  rw [hsplit, denList_append, denList_append, denList_append, denList_append]
  cases hp : denList allowed .none pre with
  | none => rfl
  | some A =>
    cases hd : denList allowed .none [Meta.path n] with
    | none => rfl
    | some a1 =>
      cases hm : denList allowed .none mid with
      | none => rfl
      | some M =>
        cases hq : denList allowed .none post with
        | none => rfl
        | some P =>
          -- the denotation of `[path n]` is a single atom
          have : ∃ a, a1 = [a] := by
            obtain ⟨a, h, _⟩ := denList_single_path_some allowed .none n a1 hd
            exact ⟨a, h⟩
          obtain ⟨a, rfl⟩ := this
          simp only [runDen]
          have := applyAtoms_two_same_slot A M P a a rfl i
          simpa [List.append_assoc] using this

/-- A parameter and its **negation** on the same item are rejected, whichever comes first
(`#[error(source, not(source))]`). -/
theorem contradiction_rejected (allowed : List Name) (n : Name) (pre mid post : List Meta) (i : Info) :
    parseMetas allowed .none (pre ++ Meta.path n :: mid ++ Meta.notList [Meta.path n] :: post) i = .error () ∧
    parseMetas allowed .none (pre ++ Meta.notList [Meta.path n] :: mid ++ Meta.path n :: post) i = .error () := by
  have key : ∀ (x y : Meta), ((x = Meta.path n ∧ y = Meta.notList [Meta.path n]) ∨ (y = Meta.path n ∧ x = Meta.notList [Meta.path n])) →
      parseMetas allowed .none (pre ++ x :: mid ++ y :: post) i = .error () := by
    intro x y hxy
    rw [parseMetas_eq]
    have hsplit : pre ++ x :: mid ++ y :: post = pre ++ ([x] ++ (mid ++ ([y] ++ post))) := by simp
    rw [hsplit, denList_append, denList_append, denList_append, denList_append]
    cases hp : denList allowed .none pre with
    | none => rfl
    | some A =>
      cases hdx : denList allowed .none [x] with
      | none => rfl
      | some ax =>
        cases hm : denList allowed .none mid with
        | none => rfl
        | some M =>
          cases hdy : denList allowed .none [y] with
          | none => cases denList allowed .none post <;> rfl
          | some ay =>
            cases hq : denList allowed .none post with
            | none => rfl
            | some P =>
              -- both denotations are single atoms on the slot of `n`
              have single : ∀ (z : Meta) (az : List Atom), (z = Meta.path n ∨ z = Meta.notList [Meta.path n]) →
                  denList allowed .none [z] = some az → ∃ a, az = [a] ∧
                    ((z = Meta.path n ∧ pathAtom .none n = some a) ∨ (z = Meta.notList [Meta.path n] ∧ pathAtom .not n = some a)) := by
                intro z az hz hd
                rcases hz with rfl | rfl
                · obtain ⟨a, h1, h2⟩ := denList_single_path_some allowed .none n az hd
                  exact ⟨a, h1, Or.inl ⟨rfl, h2⟩⟩
                · obtain ⟨a, h1, h2⟩ := denList_single_not_some allowed n az hd
                  exact ⟨a, h1, Or.inr ⟨rfl, h2⟩⟩
              have hx' : x = Meta.path n ∨ x = Meta.notList [Meta.path n] := by rcases hxy with ⟨h, _⟩ | ⟨_, h⟩ <;> simp [h]
              have hy' : y = Meta.path n ∨ y = Meta.notList [Meta.path n] := by rcases hxy with ⟨_, h⟩ | ⟨h, _⟩ <;> simp [h]
              obtain ⟨a, rfl, hax⟩ := single x ax hx' hdx
              obtain ⟨b, rfl, hby⟩ := single y ay hy' hdy
              have hslot : a.slot = b.slot := by
                -- `pathAtom .none n` and `pathAtom .not n` address the same slot
                have same : ∀ (p q : Atom), pathAtom .none n = some p → pathAtom .not n = some q → p.slot = q.slot := by
                  intro p q hp hq
                  cases n <;> simp [pathAtom] at hp hq <;> subst hp <;> subst hq <;> rfl
                rcases hxy with ⟨rfl, rfl⟩ | ⟨rfl, rfl⟩
                · rcases hax with ⟨_, h1⟩ | ⟨h0, _⟩
                  · rcases hby with ⟨h0, _⟩ | ⟨_, h2⟩
                    · cases h0
                    · exact same a b h1 h2
                  · cases h0
                · rcases hax with ⟨h0, _⟩ | ⟨_, h1⟩
                  · cases h0
                  · rcases hby with ⟨_, h2⟩ | ⟨h0, _⟩
                    · exact (same b a h2 h1).symm
                    · cases h0
              simp only [runDen]
              have := applyAtoms_two_same_slot A M P a b hslot i
              simpa [List.append_assoc] using this
  exact ⟨key _ _ (Or.inl ⟨rfl, rfl⟩), key _ _ (Or.inr ⟨rfl, rfl⟩)⟩

/-- `get_meta_info`: a second attribute of the same name, the name-value form, an attribute at a
position whose allow-list is empty, and the bare word where `ignore` is not allowed are all rejected. -/
theorem attribute_forms_rejected (allowed : List Name) (a b : AttrForm) (more : List AttrForm) :
    getMetaInfo allowed (a :: b :: more) = .error () ∧
    getMetaInfo allowed [.nameValue] = .error () ∧
    getMetaInfo [] [a] = .error () ∧
    (allowed.contains .ignore = false → getMetaInfo allowed [.word] = .error ()) := by
  refine ⟨?_, ?_, ?_, ?_⟩
  · unfold getMetaInfo; by_cases h : allowed.isEmpty <;> simp [h, throw, throwThe, MonadExceptOf.throw]
  · unfold getMetaInfo; by_cases h : allowed.isEmpty <;> simp [h, throw, throwThe, MonadExceptOf.throw]
  · simp [getMetaInfo, throw, throwThe, MonadExceptOf.throw]
  · intro h
    have hn : Name.ignore ∉ allowed := by simpa using h
    unfold getMetaInfo; by_cases h' : allowed.isEmpty <;> simp [hn, h', throw, throwThe, MonadExceptOf.throw]

/-! Non-vacuity: accepted lists exist, order really is free, and the rejections are not vacuous. -/
def allowErr : List Name := [.ignore, .source, .backtrace]
def start : Info := Info.empty.set .enabled true
example : (parseMetas allowErr .none [.path .source, .notList [.path .backtrace]] start).toOption.isSome = true := by decide
example : ((parseMetas allowErr .none [.path .source, .notList [.path .backtrace]] start).toOption.map fun i =>
    (i .source, i .backtrace)) = some (some true, some false) := by decide
example : (parseMetas allowErr .none [.notList [.path .backtrace], .path .source] start).toOption.map (fun i => (i .source, i .backtrace))
    = (parseMetas allowErr .none [.path .source, .notList [.path .backtrace]] start).toOption.map (fun i => (i .source, i .backtrace)) := by decide
example : (parseMetas allowErr .none [.path .source, .path .source] start).toOption.isSome = false := by decide
example : (parseMetas allowErr .none [.path .source, .notList [.path .source]] start).toOption.isSome = false := by decide
example : (parseMetas allowErr .none [.path (.other 3)] start).toOption.isSome = false := by decide

end Dm.Props.C17

import Dm.Lemmas.FmtBytes
import Dm.Lemmas.ErrorSrc
import Dm.Gen.PanicSites

/-
C18 (part a) — the byte-offset slices and loops of the format-literal parser never fail.

Every slice of `impl/src/fmt/parsing.rs` is inside one of the combinators below; the grammar functions
are compositions of them with `map` / `alt` / `and_then` / `try_seq` / `optional_result` / `lookahead`,
which neither slice nor loop. The theorems hold for every input string (any Unicode, any length) and
every well-behaved argument parser.
-/
namespace Dm.Props.C18
open Dm.Bytes

/-- base combinators: never panic, always return a proper suffix -/
theorem char_wb (c : Char) : WB (char' c) := WB_char c
theorem check_char_wb (f : Char → Bool) : WB (checkChar f) := WB_checkChar f
theorem any_char_wb : WB anyChar := WB_anyChar
theorem str_wb (s : List Char) (hs : s ≠ []) : WB (str' s) := WB_str s hs
theorem one_of_wb (cs : List Char) : WB (oneOf cs) := WB_oneOf cs

/-- `take_while0(p)`: for every input it terminates, does not panic, and `&input[..(input.len() -
cur.len())]` is exactly the consumed prefix. -/
theorem take_while0_total {p : P} (h : WB p) (input : List Char) :
    ∃ cur pre, takeWhile0 p input = .ok (cur, pre) ∧ input = pre ++ cur := by
  obtain ⟨r, pre, hr, heq⟩ := whileSome_spec h (input.length + 1) input (by omega)
  refine ⟨r, pre, ?_, heq⟩
  unfold takeWhile0
  rw [hr]
  simp only
  conv => lhs; rw [heq]
  exact sliceConsumed_suffix pre r

/-- `take_while1(p)`: never panics; a result is the input split into a non-empty prefix and the rest. -/
theorem take_while1_spec {p : P} (h : WB p) (input : List Char) :
    takeWhile1 p input = .none ∨
    ∃ cur pre, takeWhile1 p input = .ok (cur, pre) ∧ input = pre ++ cur ∧ pre ≠ [] := by
  have hp := h input
  unfold takeWhile1
  cases hpi : p input with
  | panic => rw [hpi] at hp; exact hp.elim
  | none => exact Or.inl rfl
  | ok first =>
    rw [hpi] at hp
    obtain ⟨pre0, hne, heq0⟩ := hp
    obtain ⟨r, pre, hr, heq⟩ := whileSome_spec h (first.length + 1) first (by omega)
    refine Or.inr ⟨r, pre0 ++ pre, ?_, by rw [heq0, heq, List.append_assoc], by simp [hne]⟩
    simp only [hr]
    have : input = (pre0 ++ pre) ++ r := by rw [heq0, heq, List.append_assoc]
    conv => lhs; rw [this]
    exact sliceConsumed_suffix (pre0 ++ pre) r

/-- `take_until1(basic, until)`. -/
theorem take_until1_spec {basic until_ : P} (hb : WB basic) (hu : NoPanic until_) (input : List Char) :
    takeUntil1 basic until_ input = .none ∨
    ∃ cur pre, takeUntil1 basic until_ input = .ok (cur, pre) ∧ input = pre ++ cur ∧ pre ≠ [] := by
  unfold takeUntil1
  cases hui : until_ input with
  | panic => exact (hu input hui).elim
  | ok _ => exact Or.inl rfl
  | none =>
    have hp := hb input
    cases hbi : basic input with
    | panic => rw [hbi] at hp; exact hp.elim
    | none => exact Or.inl rfl
    | ok first =>
      rw [hbi] at hp
      obtain ⟨pre0, hne, heq0⟩ := hp
      obtain ⟨r, pre, hr, heq⟩ := untilLoop_spec hb hu (first.length + 1) first (by omega)
      refine Or.inr ⟨r, pre0 ++ pre, ?_, by rw [heq0, heq, List.append_assoc], by simp [hne]⟩
      simp only [hr]
      have : input = (pre0 ++ pre) ++ r := by rw [heq0, heq, List.append_assoc]
      conv => lhs; rw [this]
      exact sliceConsumed_suffix (pre0 ++ pre) r

/-! ### (part b) the index expressions of `error.rs`

`ParsedFields::{source, backtrace}` are positions among the *enabled* fields; `data.members`,
`data.field_indexes`, `data.field_types` and `data.infos` have one entry per enabled field, and the
entries of `field_indexes` are positions among all fields (handed to `matcher`). Every
`data.<vec>[source]` / `[backtrace]` of `render_*`, `parse_fields` and `infer_source_field` is
therefore in bounds iff the selected position is below the number of enabled fields. -/

open Dm.Err in
theorem inferSource_in_bounds (sh : Shape) (b : Option Nat) (k : Nat) (h : inferSource sh b = some k) :
    k < (enabledFields sh).length := by
  unfold inferSource at h
  by_cases hl : sh.fields.length ≠ 2
  · simp [hl] at h
  · simp only [hl, if_false] at h
    cases b with
    | none => simp at h
    | some bk =>
      simp only at h
      cases hb : allIdx sh bk with
      | none => simp [hb] at h
      | some bAll =>
        simp only [hb] at h
        cases hf : (enabledFields sh).findIdx? (fun x => decide (x.1 = (bAll + 1) % 2)) with
        | none => simp [hf] at h
        | some k' =>
          simp only [hf] at h
          cases hg : (enabledFields sh)[k']? with
          | none => simp [hg] at h
          | some x =>
            obtain ⟨i, f⟩ := x
            simp only [hg] at h
            split at h
            · cases h; exact (List.getElem?_eq_some_iff.1 hg).1
            · cases h

open Dm.Err in
/-- Whatever `parse_fields` selects — explicitly, by name or type, or through the two-field-tuple
inference — is a position of an enabled field: no `index out of bounds` at the sites above, for
every number of fields, every attribute placement and every position of ignored fields. -/
theorem error_positions_in_bounds (sh : Shape) (s b : Option Nat) (h : parseFields sh = .ok (s, b)) :
    (∀ k, s = some k → k < (enabledFields sh).length)
    ∧ (∀ k, b = some k → k < (enabledFields sh).length) := by
  have bound : ∀ (w : Which) (k : Nat), parseField sh w = .ok (some k) → k < (enabledFields sh).length := by
    intro w k hk
    obtain ⟨x, hx⟩ := parseField_valid sh w k hk
    exact (List.getElem?_eq_some_iff.1 hx).1
  unfold parseFields at h
  cases hs : parseField sh .source with
  | error e => simp [hs, bind, Except.bind] at h
  | ok s0 =>
    cases hb : parseField sh .backtrace with
    | error e => simp [hs, hb, bind, Except.bind] at h
    | ok b0 =>
      simp only [hs, hb, bind, Except.bind, pure, Except.pure] at h
      have hbb : ∀ k, b0 = some k → k < (enabledFields sh).length := by
        intro k hk; subst hk; exact bound .backtrace k hb
      by_cases hn : sh.named = true
      · simp only [hn, if_true] at h
        cases h
        exact ⟨fun k hk => by subst hk; exact bound .source k hs, hbb⟩
      · simp only [hn] at h
        cases s0 with
        | some k0 =>
          cases h
          exact ⟨fun k hk => by cases hk; exact bound .source _ hs, hbb⟩
        | none =>
          cases h
          exact ⟨fun k hk => inferSource_in_bounds sh _ k hk, hbb⟩

open Dm.Err in
/-- The entries of `field_indexes` are positions among all fields (`matcher`, `members` of the
whole struct): in bounds too. -/
theorem error_all_index_in_bounds (sh : Shape) (k i : Nat) (h : allIdx sh k = some i) :
    i < sh.fields.length := by
  unfold allIdx at h
  cases hk : (enabledFields sh)[k]? with
  | none => simp [hk] at h
  | some x =>
    simp only [hk, Option.map_some, Option.some.injEq] at h
    have hm : x ∈ enabledFields sh := List.mem_of_getElem? hk
    unfold enabledFields at hm
    simp only [List.mem_map, List.mem_filter] at hm
    obtain ⟨y, ⟨hy, _⟩, rfl⟩ := hm
    have := zipIdx_getElem sh.fields y hy
    subst h
    exact (List.getElem?_eq_some_iff.1 this).1

/-- The inventory of potentially aborting expressions of `impl/src` (index / slice expressions,
`unwrap` / `expect`, `panic!`-family macros, `-` `/` `%`, `Punctuated::push_*`, `Ident::new`,
`format_ident!`, `parse_quote!`), regenerated from the working tree on every run, contains nothing
beyond the accounted-for inventory (`checks/data/c18_sites.json`: proved above / deliberate diagnostic
/ observed by the fuzzing of the check). -/
theorem no_unaccounted_site : Dm.Gen.unaccountedSites = [] := by decide +kernel

example : 100 < Dm.Gen.panicSitesTotal := by decide +kernel

/-! Non-vacuity, and what the theorems exclude: using a *character count* as a byte offset panics on
the first multi-byte character (U+3000 is three bytes), and a parser that does not consume makes the
loop endless. -/
example : takeWhile0 (checkChar Char.isWhitespace) [' ', ' ', '}'] = .ok (['}'], [' ', ' ']) := by decide
example : sliceFrom ['　', '}'] 1 = none := by decide
example : sliceFrom ['　', '}'] 3 = some ['}'] := by decide
example : whileSome (fun i => .ok i) 5 ['a'] = .panic := by decide

end Dm.Props.C18

import Dm.Lemmas.FmtContainer

/-
C17 — the container attributes of the formatting derives (`#[display("…", args)]`, `#[display(bound(…))]` /
`bounds(…)`, `#[display(rename_all = "…")]`, and the same for Debug and the other formatting traits), for every
attribute list at every position `g` (Display-like item or variant, Debug struct, Debug enum, Debug variant).
-/
namespace Dm.Props.C17
open Dm.FmtContainer

/-- `bound` ↔ `bounds`. -/
def respell : A → A
  | .bounds .bound ps => .bounds .bounds ps
  | .bounds .bounds ps => .bounds .bound ps
  | a => a

/-- **`bound(…)` ≡ `bounds(…)`**, in any attribute of any list. -/
theorem bound_bounds_synonyms (g : G) (attrs : List A) (which : A → Bool) :
    parseAll g (attrs.map fun a => if which a then respell a else a) = parseAll g attrs := by
  have hone : ∀ a, parseOne g (if which a then respell a else a) = parseOne g a := by
    intro a
    cases which a
    · rfl
    · cases a with
      | bounds k ps => cases k <;> rfl
      | _ => rfl
  have : ∀ acc, parseFrom g acc (attrs.map fun a => if which a then respell a else a) = parseFrom g acc attrs := by
    induction attrs with
    | nil => intro acc; rfl
    | cons a rest ih =>
      intro acc
      simp only [List.map, parseFrom, hone]
      cases parseOne g a with
      | none => rfl
      | some n =>
        simp only []
        cases merge acc n with
        | none => rfl
        | some m => exact ih m
  simp only [parseAll, this]

/-- **One `bound(…)` listing several predicates ≡ several listing some each**, wherever it stands. -/
theorem bounds_one_attribute_or_many (g : G) (pre post : List A) (k k1 k2 : BoundKw) (p q : List Nat) :
    parseAll g (pre ++ .bounds k (p ++ q) :: post) = parseAll g (pre ++ .bounds k1 p :: .bounds k2 q :: post) := by
  have hone : ∀ k k' ps ps', (parseOne g (.bounds k ps)).isSome = (parseOne g (.bounds k' ps')).isSome := by
    intro k k' ps ps'; simp only [parseOne]; split <;> rfl
  have h1 : (∀ a ∈ pre ++ A.bounds k (p ++ q) :: post, (parseOne g a).isSome = true)
      ↔ (∀ a ∈ pre ++ A.bounds k1 p :: A.bounds k2 q :: post, (parseOne g a).isSome = true) := by
    simp only [List.mem_append, List.mem_cons]
    constructor
    · intro h a ha
      rcases ha with ha | rfl | rfl | ha
      · exact h a (Or.inl ha)
      · rw [hone k1 k p (p ++ q)]; exact h _ (Or.inr (Or.inl rfl))
      · rw [hone k2 k q (p ++ q)]; exact h _ (Or.inr (Or.inl rfl))
      · exact h a (Or.inr (Or.inr ha))
    · intro h a ha
      rcases ha with ha | rfl | ha
      · exact h a (Or.inl ha)
      · rw [hone k k1 (p ++ q) p]; exact h _ (Or.inr (Or.inl rfl))
      · exact h a (Or.inr (Or.inr (Or.inr ha)))
  have h2 : fmts (pre ++ A.bounds k (p ++ q) :: post) = fmts (pre ++ A.bounds k1 p :: A.bounds k2 q :: post) := by
    simp [fmts, List.filterMap_append, List.filterMap_cons, fmtOf]
  have h3 : renames (pre ++ A.bounds k (p ++ q) :: post) = renames (pre ++ A.bounds k1 p :: A.bounds k2 q :: post) := by
    simp [renames, List.filterMap_append, List.filterMap_cons, renameOf]
  have h4 : preds (pre ++ A.bounds k (p ++ q) :: post) = preds (pre ++ A.bounds k1 p :: A.bounds k2 q :: post) := by
    simp [preds, predsOf, List.append_assoc]
  have hres : resultOf (pre ++ A.bounds k (p ++ q) :: post) = resultOf (pre ++ A.bounds k1 p :: A.bounds k2 q :: post) := by
    simp only [resultOf, h2, h3, h4]
  cases hl : parseAll g (pre ++ A.bounds k (p ++ q) :: post) with
  | some r =>
    obtain ⟨a1, a2, a3, a4, a5⟩ := (parseAll_some_iff _ _ _).mp hl
    exact ((parseAll_some_iff _ _ _).mpr ⟨h1.mp a1, h2 ▸ a2, h3 ▸ a3, fun hg => h2 ▸ a4 hg, hres ▸ a5⟩).symm
  | none =>
    cases hr : parseAll g (pre ++ A.bounds k1 p :: A.bounds k2 q :: post) with
    | none => rfl
    | some r =>
      obtain ⟨a1, a2, a3, a4, a5⟩ := (parseAll_some_iff _ _ _).mp hr
      have := (parseAll_some_iff g (pre ++ A.bounds k (p ++ q) :: post) r).mpr
        ⟨h1.mpr a1, h2.symm ▸ a2, h3.symm ▸ a3, fun hg => h2.symm ▸ a4 hg, hres.symm ▸ a5⟩
      rw [hl] at this; cases this

/-- **Any order of the attributes**: a permutation of an accepted list is accepted, with the same format, the same
casing and the same predicates up to their order. -/
theorem fmt_attribute_order_free (g : G) {attrs attrs' : List A} (h : attrs.Perm attrs') {r : Parsed}
    (hr : parseAll g attrs = some r) :
    ∃ r', parseAll g attrs' = some r' ∧ r'.fmt = r.fmt ∧ r'.renameAll = r.renameAll ∧ r.bounds.Perm r'.bounds := by
  have hle : ∀ {α : Type} {l l' : List α}, l.Perm l' → l.length ≤ 1 → l = l' := by
    intro α l l' hp hl
    match l, hl with
    | [], _ => exact (List.nil_perm.mp hp).symm
    | [x], _ => exact (List.singleton_perm.mp hp)
  obtain ⟨a1, a2, a3, a4, a5⟩ := (parseAll_some_iff _ _ _).mp hr
  have hf : (fmts attrs).Perm (fmts attrs') := h.filterMap _
  have hn : (renames attrs).Perm (renames attrs') := h.filterMap _
  have hp : (preds attrs).Perm (preds attrs') := (h.map _).flatten
  have ef := hle hf a2
  have en := hle hn a3
  refine ⟨resultOf attrs', (parseAll_some_iff _ _ _).mpr ⟨fun a ha => a1 a (h.mem_iff.mpr ha), ef ▸ a2, en ▸ a3,
    fun hg => ef ▸ a4 hg, rfl⟩, ?_, ?_, ?_⟩
  · rw [a5]; simp only [resultOf, ef]
  · rw [a5]; simp only [resultOf, en]
  · rw [a5]; exact hp

/-- **A second format literal or a second `rename_all` on one item is rejected.** -/
theorem second_format_or_rename_rejected (g : G) (attrs : List A)
    (h : 2 ≤ (fmts attrs).length ∨ 2 ≤ (renames attrs).length) : parseAll g attrs = none := by
  rw [parseAll_none_iff]
  intro hc
  rcases h with h | h
  · have := hc.2.1; omega
  · have := hc.2.2.1; omega

/-- **An attribute that cannot be read at this position makes the derive fail wherever it stands**: an unknown
argument, the pre-1.0 `fmt = "…"` / `bound = "…"`, an unknown casing, `rename_all` outside the Display-like
derives, bounds on a variant of a Debug enum. -/
theorem unreadable_attribute_rejected (g : G) (attrs : List A) (a : A) (ha : a ∈ attrs) (hn : parseOne g a = none) :
    parseAll g attrs = none := by
  rw [parseAll_none_iff]
  intro hc
  have := hc.1 a ha
  rw [hn] at this; cases this

theorem unreadable_examples (g : G) :
    parseOne g .unknown = none ∧ parseOne g .legacyFmt = none ∧ parseOne g .legacyBound = none ∧
    parseOne g (.renameAll none) = none ∧
    (∀ c, g ≠ .display → parseOne g (.renameAll (some c)) = none) ∧
    (∀ k ps, parseOne .fmtOnly (.bounds k ps) = none) := by
  refine ⟨rfl, rfl, rfl, rfl, ?_, fun _ _ => rfl⟩
  intro c hg
  simp [parseOne, hg]

/-- **Debug on an enum**: the variant takes at most one attribute, a format; the enum itself takes bounds only. -/
theorem debug_enum_positions (attrs : List A) {p : Parsed} :
    (parseAll .fmtOnly attrs = some p → attrs = [] ∨ ∃ l as, attrs = [.fmt l as]) ∧
    (parseAll .debugEnum attrs = some p → ∀ a ∈ attrs, ∃ k ps, a = .bounds k ps) := by
  constructor
  · intro h
    obtain ⟨a1, a2, _, _, _⟩ := (parseAll_some_iff _ _ _).mp h
    have hall : ∀ a ∈ attrs, ∃ l as, a = .fmt l as := by
      intro a ha
      have := a1 a ha
      cases a with
      | fmt l as => exact ⟨l, as, rfl⟩
      | bounds k ps => simp [parseOne] at this
      | renameAll c => cases c <;> simp [parseOne] at this
      | legacyFmt => simp [parseOne] at this
      | legacyBound => simp [parseOne] at this
      | unknown => simp [parseOne] at this
    match attrs, hall, a2 with
    | [], _, _ => exact Or.inl rfl
    | [a], hall, _ => obtain ⟨l, as, rfl⟩ := hall a (by simp); exact Or.inr ⟨l, as, rfl⟩
    | a :: b :: rest, hall, h2 =>
      obtain ⟨l, as, rfl⟩ := hall a (by simp)
      obtain ⟨l', as', rfl⟩ := hall b (by simp)
      simp [fmts, fmtOf] at h2
  · intro h a ha
    obtain ⟨a1, _, _, a4, _⟩ := (parseAll_some_iff _ _ _).mp h
    have hpa := a1 a ha
    cases a with
    | bounds k ps => exact ⟨k, ps, rfl⟩
    | fmt l as =>
      have : (l, as) ∈ fmts attrs := by
        simp only [fmts, List.mem_filterMap]; exact ⟨_, ha, rfl⟩
      rw [a4 rfl] at this; cases this
    | renameAll c => cases c <;> simp [parseOne] at hpa
    | legacyFmt => simp [parseOne] at hpa
    | legacyBound => simp [parseOne] at hpa
    | unknown => simp [parseOne] at hpa

/-- **Field attributes of Debug**: an unreadable attribute, a second attribute on the same field (repeated `skip`,
`skip` with `ignore`, two formats, a format with `skip`), or a field format under a struct / variant format make
the derive fail, for a struct and for every variant alike; `skip` ≡ `ignore`. -/
theorem debug_field_attributes (cf : Bool) (fields : List (List FA)) (l : List FA) (hl : l ∈ fields) :
    (FA.unreadable ∈ l → debugFieldsOk cf fields = false) ∧
    (2 ≤ l.length → debugFieldsOk cf fields = false) ∧
    (cf = true → FA.fmt ∈ l → debugFieldsOk cf fields = false) ∧
    (∀ b, parseFA (.skip b) = some .skip) := by
  have key : ∀ (bad : List FA → Prop), (∀ l, bad l → fieldOk cf l = false) → bad l → debugFieldsOk cf fields = false := by
    intro bad hb hbl
    unfold debugFieldsOk
    apply Bool.eq_false_iff.mpr
    intro h
    rw [List.all_eq_true] at h
    have := h l hl
    rw [hb l hbl] at this; cases this
  refine ⟨?_, ?_, ?_, fun _ => rfl⟩
  · apply key (fun l => FA.unreadable ∈ l)
    intro l hm
    match l, hm with
    | [a], hm => simp at hm; subst hm; rfl
    | _ :: _ :: _, _ => rfl
  · apply key (fun l => 2 ≤ l.length)
    intro l hm
    match l, hm with
    | _ :: _ :: _, _ => rfl
  · intro hc
    apply key (fun l => FA.fmt ∈ l)
    intro l hm
    match l, hm with
    | [a], hm => simp at hm; subst hm; simp [fieldOk, parseField, parseFA, hc]
    | _ :: _ :: _, _ => rfl

/-! Non-vacuity. -/
example : debugFieldsOk true [[.skip false], [], [.skip true]] = true := by decide
example : debugFieldsOk false [[.fmt], [.skip false]] = true := by decide
example : debugFieldsOk true [[.fmt]] = false := by decide
example : debugFieldsOk false [[.skip false, .skip true]] = false := by decide
example : parseAll .display [.bounds .bound [1, 2], .fmt 0 [7], .renameAll (some .snake), .bounds .bounds [3]]
    = some { fmt := some (0, [7]), bounds := [1, 2, 3], renameAll := some .snake } := by decide
example : parseAll .display [.fmt 0 [], .fmt 1 []] = none := by decide
example : parseAll .display [.renameAll (some .snake), .renameAll (some .kebab)] = none := by decide
example : parseAll .common [.renameAll (some .snake)] = none := by decide
example : parseAll .display [.bounds .bound [1], .unknown] = none := by decide
example : parseAll .fmtOnly [.fmt 0 []] = some { fmt := some (0, []) } := by decide
example : parseAll .debugEnum [.bounds .bound [1]] = some { bounds := [1] } := by decide
example : parseAll .debugEnum [.fmt 0 []] = none := by decide

end Dm.Props.C17

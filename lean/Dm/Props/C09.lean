/-
C09 — `Error::source` returns exactly the field the documented rules select.
-/
import Dm.Lemmas.ErrorSrc

namespace Dm.Props.C09
open Dm.Err

/-- The field the expansion returns (positions among the non-ignored fields, converted back to a
position among all fields for the member expression / match pattern) is the field the documented
rules select - for every number of fields, every attribute placement and every position of ignored
fields; errors coincide too. -/
theorem source_is_documented (sh : Shape) : selectSource sh = documentedSource sh := by
  unfold selectSource parseFields documentedSource
  have hs := parseField_spec sh .source
  have hb := parseField_spec sh .backtrace
  cases hps : parseField sh .source with
  | error e =>
    rw [hps] at hs
    simp only [Except.map] at hs
    cases e
    simp [← hs, bind, Except.bind]
  | ok s =>
    rw [hps] at hs
    simp only [Except.map] at hs
    cases hpb : parseField sh .backtrace with
    | error e =>
      rw [hpb] at hb
      simp only [Except.map] at hb
      cases e
      simp [← hs, ← hb, bind, Except.bind]
    | ok b =>
      rw [hpb] at hb
      simp only [Except.map] at hb
      simp only [← hs, ← hb, bind, Except.bind]
      by_cases hn : sh.named = true
      · simp [hn, pure, Except.pure]
        cases s <;> rfl
      · simp only [hn]
        cases s with
        | some k =>
          obtain ⟨x, hx⟩ := parseField_valid sh .source k hps
          simp [pure, Except.pure, allIdx, hx]
        | none =>
          simp only [pure, Except.pure]
          have := inferSource_spec sh b
          cases hi : inferSource sh b with
          | none => rw [hi] at this; exact congrArg Except.ok this
          | some k => rw [hi] at this; exact congrArg Except.ok this

/-- `None` cases: a field that is ignored, or marked `not(source)`, is never returned. -/
theorem returned_field_is_eligible (sh : Shape) (i : Nat) (h : documentedSource sh = .ok (some i)) :
    ∃ f, (i, f) ∈ enabledFields sh := by
  unfold documentedSource at h
  have pick_mem : ∀ (e inf : List Nat) (j : Nat), pick e inf = .ok (some j) → j ∈ e ∨ j ∈ inf := by
    intro e inf j hp
    unfold pick at hp
    rcases e with _ | ⟨a, _ | ⟨b, r⟩⟩
    · rcases inf with _ | ⟨c, _ | ⟨d, r'⟩⟩ <;>
        simp [pure, Except.pure, throw, throwThe, MonadExceptOf.throw] at hp
      exact Or.inr (by simp [hp])
    · simp [pure, Except.pure] at hp; exact Or.inl (by simp [hp])
    · simp [throw, throwThe, MonadExceptOf.throw] at hp
  have cand_mem : ∀ (w : Which) (j : Nat),
      (j ∈ explicitCands sh w ∨ j ∈ inferredCands sh w) → ∃ f, (j, f) ∈ enabledFields sh := by
    intro w j hj
    rcases hj with hj | hj
    · unfold explicitCands at hj
      obtain ⟨x, hx, rfl⟩ := List.mem_map.1 hj
      exact ⟨x.2, (List.mem_filter.1 hx).1⟩
    · unfold inferredCands at hj
      obtain ⟨x, hx, rfl⟩ := List.mem_map.1 hj
      exact ⟨x.2, (List.mem_filter.1 hx).1⟩
  cases hps : pick (explicitCands sh .source) (inferredCands sh .source) with
  | error e => simp [hps, bind, Except.bind] at h
  | ok s =>
    cases hpb : pick (explicitCands sh .backtrace) (inferredCands sh .backtrace) with
    | error e => simp [hps, hpb, bind, Except.bind] at h
    | ok b =>
      simp only [hps, hpb, bind, Except.bind] at h
      by_cases hn : sh.named = true
      · simp [hn, pure, Except.pure] at h
        subst h
        exact cand_mem .source i (pick_mem _ _ i hps)
      · simp only [hn] at h
        cases s with
        | some k =>
          simp [pure, Except.pure] at h
          subst h
          exact cand_mem .source k (pick_mem _ _ k hps)
        | none =>
          simp only [pure, Except.pure] at h
          have h' : otherOfTwo sh b = some i := by simpa using h
          unfold otherOfTwo at h'
          split at h'
          · cases h'
          · split at h'
            · cases h'
            · rename_i bi
              dsimp only at h'
              split at h'
              · rename_i j f hf
                split at h'
                · cases h'
                  have hm := List.mem_of_find?_eq_some hf
                  have hj := List.find?_some hf
                  simp at hj
                  subst hj
                  exact ⟨f, hm⟩
                · cases h'
              · cases h'

/-- Ambiguous selections are errors: two fields marked `#[error(source)]`. -/
theorem two_explicit_sources_is_error (sh : Shape) (a b : Nat) (r : List Nat)
    (h : explicitCands sh .source = a :: b :: r) : documentedSource sh = .error .diag := by
  unfold documentedSource pick
  simp [h, bind, Except.bind, throw, throwThe, MonadExceptOf.throw]

/-- Non-vacuity and the shape of the repaired defect: `V(#[error(ignore)] A, #[error(source)] B)`
returns field 1 (not field 0), and `(Backtrace, #[error(ignore)] i32)` is accepted. -/
example : selectSource { named := false, fields :=
    [{ attr := some [.ignore] }, { attr := some [.source] }] } = .ok (some 1) := by rfl
example : selectSource { named := false, fields :=
    [{ tyBacktrace := true }, { attr := some [.ignore] }] } = .ok none := by rfl
example : selectSource { named := false, fields :=
    [{ tyBacktrace := true }, {}] } = .ok (some 1) := by rfl

/-- An ignored variant has no source, whatever its fields are and whatever attributes they carry
(`#[error(source)]` inside an ignored variant does not bring it back), and it is never an error. -/
theorem ignored_variant_is_none (sh : Shape) : variantSource true sh = .ok none := rfl

/-- A variant that is not ignored is treated exactly like a struct of the same shape. -/
theorem enabled_variant_is_documented (sh : Shape) : variantSource false sh = documentedSource sh := by
  simp [variantSource, source_is_documented]

/-- Non-vacuity: `#[error(ignore)] V { #[error(source)] cause: E }` against the same variant not ignored. -/
example : variantSource true { named := true, fields := [{ name := .other, tyBacktrace := false, attr := some [.source] }] } = .ok none
    ∧ variantSource false { named := true, fields := [{ name := .other, tyBacktrace := false, attr := some [.source] }] } = .ok (some 0) := by
  constructor <;> rfl

/-- An ignored field does not turn its neighbour into "the sole field of a tuple": in a two-field
tuple with one field ignored, the other (unattributed, not a backtrace) is *not* inferred as the
source — the inference counts the declared fields, so ignoring a field never changes what is
returned for the remaining ones. -/
theorem ignored_sibling_makes_no_sole_field (fn gn : FName) (fb : Bool) :
    selectSource { named := false, fields := [⟨fn, fb, some [.ignore]⟩, ⟨gn, false, none⟩] } = .ok none
    ∧ selectSource { named := false, fields := [⟨gn, false, none⟩, ⟨fn, fb, some [.ignore]⟩] } = .ok none := by
  cases fn <;> cases gn <;> cases fb <;> exact ⟨rfl, rfl⟩

end Dm.Props.C09

/-
C08 — From, Into and Constructor preserve field order and invert each other.
-/
import Dm.Model.Conv

namespace Dm.Props.C08
open Dm.Conv

set_option linter.unusedSimpArgs false

/-! ### Semantics of the generated initialisers / extractions over arbitrary values -/

variable {α : Type}

/-- `from(value)`: field `i` receives what its initialiser denotes. `cv` is the (arbitrary)
`From::from` applied by typed / forwarding conversions. With a single field `value` itself is the
component (`comp = none`). -/
def evalInit (cv : α → α) (value : List α) (d : α) : Init → α
  | .direct none => value.getD 0 d
  | .direct (some k) => value.getD k d
  | .conv _ _ none => cv (value.getD 0 d)
  | .conv _ _ (some k) => cv (value.getD k d)

/-- `Into`: the tuple of the listed fields, in the listed order. -/
def evalInto (fields : List Nat) (s : List α) (d : α) : List α := fields.map fun i => s.getD i d

theorem direct_inits_eval (cv : α → α) (t : List α) (d : α) (n : Nat) (ht : t.length = n) :
    ((List.range n).map fun i => evalInit cv t d (Init.direct (comp n i))) = t := by
  apply List.ext_getElem
  · simp [ht]
  · intro i h1 h2
    simp at h1
    by_cases hn : n = 1
    · have hi : i = 0 := by omega
      subst hi
      simp [comp, hn, evalInit, List.getD, ht ▸ h1]
    · simp [comp, hn, evalInit, List.getD, ht ▸ h1]

/-- The tuple impl (`#[from]`): the i-th component goes into the i-th field. -/
theorem from_ith (isVariant hef : Bool) (fields : List Field) (impl : FromImpl)
    (h : fromExpand .empty isVariant hef fields = .ok [impl]) (cv : α → α) (t : List α) (d : α)
    (ht : t.length = fields.length) :
    impl.inits.map (evalInit cv t d) = t := by
  simp only [fromExpand, pure, Except.pure] at h
  cases h
  simp only [List.map_map]
  exact direct_inits_eval cv t d fields.length ht

/-- Typed (`#[from(Ty)]`) and forwarding impls apply exactly one `From::from` per field, to the
component of the same position. -/
theorem forward_one_from_per_field (isVariant hef : Bool) (fields : List Field) (cv : α → α)
    (t : List α) (d : α) (ht : t.length = fields.length) :
    ∃ impl, fromExpand .forward isVariant hef fields = .ok [impl]
      ∧ impl.inits.map (evalInit cv t d) = t.map cv := by
  refine ⟨_, rfl, ?_⟩
  apply List.ext_getElem
  · simp [ht]
  · intro i h1 h2
    simp at h1
    have hi : i < fields.length := by omega
    by_cases hn : fields.length = 1
    · have h0 : i = 0 := by omega
      subst h0
      simp [comp, hn, evalInit, List.getD, ht ▸ hi]
    · simp [comp, hn, evalInit, List.getD, ht ▸ hi]

theorem mapM_length {ε β γ : Type} (f : β → Except ε γ) :
    ∀ (l : List β) (r : List γ), l.mapM f = .ok r → r.length = l.length := by
  intro l
  induction l with
  | nil => intro r h; simp [List.mapM_nil, pure, Except.pure] at h; subst h; rfl
  | cons a t ih =>
    intro r h
    rw [List.mapM_cons] at h
    cases hfa : f a with
    | error e => simp [hfa, bind, Except.bind] at h
    | ok b =>
      cases ht : t.mapM f with
      | error e => simp [hfa, ht, bind, Except.bind] at h
      | ok bs =>
        simp [hfa, ht, bind, Except.bind, pure, Except.pure] at h
        subst h
        simp [ih bs ht]

/-- The set of generated `From` impls is the documented one. -/
theorem impl_count (attr : FromAttr) (isVariant hef : Bool) (fields : List Field) (impls : List FromImpl)
    (h : fromExpand attr isVariant hef fields = .ok impls) :
    impls.length = match attr with
      | .types tys => tys.length
      | .empty => 1
      | .forward => 1
      | .skip => 0
      | .none => if hef || (isVariant && fields.isEmpty) then 0 else 1 := by
  cases attr with
  | types tys =>
    simp only [fromExpand] at h
    exact mapM_length _ tys impls h
  | empty => simp only [fromExpand, pure, Except.pure] at h; cases h; rfl
  | forward => simp only [fromExpand, pure, Except.pure] at h; cases h; rfl
  | skip => simp only [fromExpand, pure, Except.pure] at h; cases h; rfl
  | none =>
    simp only [fromExpand, pure, Except.pure] at h
    split at h <;> cases h <;> simp_all

/-- Once any variant carries `#[from]`, `#[from(types)]` or `#[from(forward)]`, un-annotated
variants get no impl; unit variants never get one implicitly. -/
theorem unannotated_variant_skipped (attrs : List FromAttr) (fields : List Field)
    (h : hasExplicitFrom attrs = true) : fromExpand .none true (hasExplicitFrom attrs) fields = .ok [] := by
  simp [fromExpand, h, pure, Except.pure]

theorem unit_variant_skipped (hef : Bool) : fromExpand .none true hef [] = .ok [] := by
  simp [fromExpand, pure, Except.pure]

theorem mapM_getElem {ε β γ : Type} (f : β → Except ε γ) :
    ∀ (l : List β) (r : List γ), l.mapM f = .ok r → ∀ (i : Nat) (x : β), l[i]? = some x →
      ∃ y, r[i]? = some y ∧ f x = .ok y := by
  intro l
  induction l with
  | nil => intro r _ i x hx; simp at hx
  | cons a t ih =>
    intro r h i x hx
    rw [List.mapM_cons] at h
    cases hfa : f a with
    | error e => simp [hfa, bind, Except.bind] at h
    | ok b =>
      cases ht : t.mapM f with
      | error e => simp [hfa, ht, bind, Except.bind] at h
      | ok bs =>
        simp [hfa, ht, bind, Except.bind, pure, Except.pure] at h
        subst h
        cases i with
        | zero => simp at hx; subst hx; exact ⟨b, by simp, hfa⟩
        | succ k =>
          simp at hx
          obtain ⟨y, hy, hfy⟩ := ih bs ht k x hx
          exact ⟨y, by simpa using hy, hfy⟩

/-- **Wherever the explicit variant is declared** — before or after — an un-annotated variant of
the same enum gets no impl: the decision is taken over the whole enum, not over the variants read so
far. -/
theorem explicit_variant_anywhere_switches_off (vs : List (FromAttr × List Field)) (r : List (List FromImpl))
    (h : fromEnum vs = .ok r) (i j : Nat) (fs gs : List Field) (a : FromAttr)
    (hi : vs[i]? = some (.none, fs)) (hj : vs[j]? = some (a, gs))
    (ha : hasExplicitFrom [a] = true) : r[i]? = some [] := by
  have hmem : a ∈ vs.map (·.1) := List.mem_map.2 ⟨(a, gs), List.mem_of_getElem? hj, rfl⟩
  have hef : hasExplicitFrom (vs.map (·.1)) = true := by
    unfold hasExplicitFrom at ha ⊢
    simp only [List.any_cons, List.any_nil, Bool.or_false] at ha
    exact List.any_eq_true.2 ⟨a, hmem, ha⟩
  obtain ⟨y, hy, hfy⟩ := mapM_getElem _ vs r h i (.none, fs) hi
  simp only [hef] at hfy
  have : fromExpand .none true true fs = .ok [] := by simp [fromExpand, pure, Except.pure]
  rw [this] at hfy
  cases hfy
  exact hy

/-- Non-vacuity: `enum E { Plain(i32), #[from] Marked(i64) }` — the un-annotated variant comes first. -/
example : (fromEnum [(.none, [⟨none, "i32"⟩]), (.empty, [⟨none, "i64"⟩])]).map (fun r => r.map List.length) = .ok [0, 1] := by
  rfl

/-! ### Into -/

theorem mapM_forall {ε β γ : Type} (f : β → Except ε γ) (P : γ → Prop)
    (hf : ∀ x y, f x = .ok y → P y) :
    ∀ (l : List β) (r : List γ), l.mapM f = .ok r → ∀ y ∈ r, P y := by
  intro l
  induction l with
  | nil => intro r h; simp [List.mapM_nil, pure, Except.pure] at h; subst h; intro y hy; cases hy
  | cons a t ih =>
    intro r h
    rw [List.mapM_cons] at h
    cases hfa : f a with
    | error e => simp [hfa, bind, Except.bind] at h
    | ok b =>
      cases ht : t.mapM f with
      | error e => simp [hfa, ht, bind, Except.bind] at h
      | ok bs =>
        simp [hfa, ht, bind, Except.bind, pure, Except.pure] at h
        subst h
        intro y hy
        rcases List.mem_cons.1 hy with rfl | hm
        · exact hf a _ hfa
        · exact ih bs ht y hm

theorem intoKind_fields (fields : List (Nat × Field)) (k : RefKind) (cv : Convs) (r : List IntoImpl)
    (h : intoKind fields k cv = .ok r) : ∀ impl ∈ r, impl.fields = fields.map (·.1) ∧ impl.kind = k := by
  unfold intoKind at h
  split at h
  · refine mapM_forall _ (fun impl => impl.fields = fields.map (·.1) ∧ impl.kind = k) ?_ _ r h
    intro x y hxy
    cases hv : validateType fields.length x with
    | error e => simp [hv] at hxy
    | ok tys => simp [hv] at hxy; subst hxy; exact ⟨rfl, rfl⟩
  · simp [pure, Except.pure] at h; subst h; intro impl hm; cases hm

/-- Every generated `Into` impl of one expansion extracts exactly the given fields, in their
(declaration) order. -/
theorem into_fields_in_order (fields : List (Nat × Field)) (c : ConvsAttr) (impls : List IntoImpl)
    (h : intoExpand fields c = .ok impls) : ∀ impl ∈ impls, impl.fields = fields.map (·.1) := by
  unfold intoExpand at h
  cases ha : intoKind fields .owned c.owned with
  | error e => simp [ha] at h
  | ok a =>
    cases hb : intoKind fields .ref c.ref with
    | error e => simp [ha, hb] at h
    | ok b =>
      cases hd : intoKind fields .refMut c.refMut with
      | error e => simp [ha, hb, hd] at h
      | ok d =>
        simp [ha, hb, hd] at h
        subst h
        intro impl hm
        simp only [List.append_assoc, List.mem_append] at hm
        rcases hm with hm | hm | hm
        · exact (intoKind_fields _ _ _ _ ha impl hm).1
        · exact (intoKind_fields _ _ _ _ hb impl hm).1
        · exact (intoKind_fields _ _ _ _ hd impl hm).1

/-- One impl per listed type and reference kind (plus the fields' own tuple when considered). -/
theorem intoKind_count (fields : List (Nat × Field)) (k : RefKind) (cv : Convs) (r : List IntoImpl)
    (h : intoKind fields k cv = .ok r) :
    r.length = (if cv.consider then 1 else 0) + cv.tys.length := by
  unfold intoKind at h
  split at h
  · have := mapM_length _ _ r h
    rw [this]
    cases hc : cv.consider <;> simp [hc] <;> omega
  · rename_i hc
    simp [pure, Except.pure] at h
    subst h
    simp at hc
    simp [hc.1, hc.2]

/-- Tuple -> struct -> tuple is the identity when no field is skipped: `From` puts component i
into field i, `Into` reads the fields in declaration order. -/
theorem into_from_id (t : List α) (d : α) (cv : α → α) :
    evalInto (List.range t.length)
      ((List.range t.length).map fun i => evalInit cv t d (Init.direct (comp t.length i))) d = t := by
  rw [direct_inits_eval cv t d t.length rfl]
  unfold evalInto
  apply List.ext_getElem
  · simp
  · intro i h1 h2
    simp at h1
    simp [List.getD, h1]

/-- and struct -> tuple -> struct as well. -/
theorem from_into_id (s : List α) (d : α) (cv : α → α) :
    ((List.range s.length).map fun i =>
      evalInit cv (evalInto (List.range s.length) s d) d (Init.direct (comp s.length i))) = s := by
  have : evalInto (List.range s.length) s d = s := by
    unfold evalInto
    apply List.ext_getElem
    · simp
    · intro i h1 h2
      simp at h1
      simp [List.getD, h1]
  rw [this]
  exact direct_inits_eval cv s d s.length rfl

/-- `new(a0, a1, ..)` puts argument i into field i. -/
theorem new_ith (args : List α) (d : α) : (ctorInits args.length).map (fun i => args.getD i d) = args := by
  unfold ctorInits
  apply List.ext_getElem
  · simp
  · intro i h1 h2
    simp at h1
    simp [List.getD, h1]

end Dm.Props.C08

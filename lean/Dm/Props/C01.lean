import Dm.Model.Generics

/-
C01 (scoping core) — the type's own generic arguments are applied to the type itself and to nothing
else, every one of them is declared by the generated impl, lifetimes come first, nothing declared is
lost, added bounds stay in scope. For every generics list and every helper of `utils.rs`.
"The generated items compile" and "no warnings" are decided by rustc on the generated shape space (the check).
-/
namespace Dm.Props.C01
open Dm.Gnr

theorem lifetimesFirst_append (A B : List Param) (hA : ∀ p ∈ A, isLifetime p = true) (hB : ∀ p ∈ B, isLifetime p = false) :
    lifetimesFirst (A ++ B) = true := by
  induction A with
  | nil =>
    induction B with
    | nil => rfl
    | cons b bs ih =>
      simp only [List.nil_append, lifetimesFirst, Bool.and_eq_true, Bool.or_eq_true, List.all_eq_true, Bool.not_eq_true']
      refine ⟨Or.inr (fun q hq => hB q (by simp [hq])), ?_⟩
      simpa using ih (fun p hp => hB p (by simp [hp]))
  | cons a as ih =>
    simp only [List.cons_append, lifetimesFirst, Bool.and_eq_true, Bool.or_eq_true]
    exact ⟨Or.inl (hA a (by simp)), ih (fun p hp => hA p (by simp [hp]))⟩

/-- **Lifetimes first**: whatever the declaration order and whatever was pushed, the printed impl
parameters never have a lifetime after a type or const parameter. -/
theorem lifetimes_first_impl (g : Generics) : lifetimesFirst (implParams g) = true := by
  unfold implParams
  rw [List.map_append]
  apply lifetimesFirst_append
  · intro p hp
    simp only [List.mem_map, List.mem_filter] at hp
    obtain ⟨q, ⟨_, hq⟩, rfl⟩ := hp
    simpa [isLifetime] using hq
  · intro p hp
    simp only [List.mem_map, List.mem_filter] at hp
    obtain ⟨q, ⟨_, hq⟩, rfl⟩ := hp
    simpa [isLifetime] using hq

/-- No parameter of a generated `impl` header carries a default (rustc rejects `impl<T = i32>`, and
`impl<const N: usize = 16>` is a hard error): whatever the declaration said, and after every helper
that extends the generics. -/
theorem impl_params_have_no_defaults (g : Generics) : ∀ p ∈ implParams g, p.hasDefault = false := by
  intro p hp
  simp only [implParams, List.mem_map] at hp
  obtain ⟨q, _, rfl⟩ := hp
  rfl

/-- **Exactly the declared parameters**: the arguments applied to the type are a permutation of the
declared parameters (each one once, none else). -/
theorem self_args_exact (g : Generics) :
    (tyArgs g).Perm (g.params.map fun p => (p.kind, p.name)) := by
  unfold tyArgs
  apply List.Perm.map
  exact List.filter_append_perm isLifetime g.params

/-- membership in the printed impl parameters, by kind and name -/
theorem mem_implParams_of_mem {g : Generics} {p : Param} (h : p ∈ g.params) :
    ∃ q ∈ implParams g, q.kind = p.kind ∧ q.name = p.name := by
  refine ⟨{ p with hasDefault := false }, ?_, rfl, rfl⟩
  unfold implParams
  simp only [List.mem_map, List.mem_append, List.mem_filter]
  refine ⟨p, ?_, rfl⟩
  by_cases hl : isLifetime p = true
  · exact Or.inl ⟨h, hl⟩
  · exact Or.inr ⟨h, by simpa using hl⟩

/-- If the extension keeps every declared parameter (same kind, same name), every argument applied to
the type is declared by the impl. -/
theorem args_declared_of_kept (g g' : Generics)
    (hk : ∀ p ∈ g.params, ∃ q ∈ g'.params, q.kind = p.kind ∧ q.name = p.name) :
    (header g g').argsDeclared = true := by
  unfold Header.argsDeclared header
  simp only [List.all_eq_true, List.any_eq_true, Bool.and_eq_true, beq_iff_eq]
  intro a ha
  have hperm := (self_args_exact g).mem_iff (a := a)
  obtain ⟨p, hp, rfl⟩ := List.mem_map.mp (hperm.mp ha)
  obtain ⟨q, hq, hk1, hk2⟩ := hk p hp
  obtain ⟨r, hr, hr1, hr2⟩ := mem_implParams_of_mem hq
  exact ⟨r, hr, by simp [hr1, hk1], by simp [hr2, hk2]⟩

/-- **Every helper keeps the header well-scoped.** -/
theorem args_declared_plain (g : Generics) : (header g g).argsDeclared = true :=
  args_declared_of_kept g g (fun p hp => ⟨p, hp, rfl, rfl⟩)

theorem args_declared_bound (g : Generics) (b : List Nat) : (header g (addExtraTyParamBound g b)).argsDeclared = true := by
  apply args_declared_of_kept
  intro p hp
  refine ⟨if p.kind == .type then { p with bounds := p.bounds ++ [b] } else p, ?_, ?_, ?_⟩
  · simp only [addExtraTyParamBound, List.mem_map]; exact ⟨p, hp, rfl⟩
  · split <;> rfl
  · split <;> rfl

theorem args_declared_extra_param (g : Generics) (x : Param) : (header g (addExtraGenericParam g x)).argsDeclared = true := by
  apply args_declared_of_kept
  intro p hp
  exact ⟨p, by simp [addExtraGenericParam, hp], rfl, rfl⟩

theorem args_declared_extra_type_param (g : Generics) (x : Param) :
    (header g (addExtraGenericTypeParam g x)).argsDeclared = true := by
  apply args_declared_of_kept
  intro p hp
  refine ⟨p, ?_, rfl, rfl⟩
  simp only [addExtraGenericTypeParam, List.mem_append, List.mem_filter, beq_iff_eq, List.mem_singleton]
  cases hk : p.kind
  · exact Or.inl (Or.inl (Or.inl ⟨hp, rfl⟩))
  · exact Or.inl (Or.inl (Or.inr ⟨hp, rfl⟩))
  · exact Or.inr ⟨hp, rfl⟩

theorem args_declared_where (g : Generics) (new : List (List Nat)) : (header g (addExtraWhereClauses g new)).argsDeclared = true :=
  args_declared_of_kept g _ (fun p hp => ⟨p, hp, rfl, rfl⟩)

/-- `add_extra_generic_type_param` loses and duplicates nothing: the result is a permutation of the
declared parameters plus the new one. -/
theorem extra_type_param_perm (g : Generics) (x : Param) :
    (addExtraGenericTypeParam g x).params.Perm (g.params ++ [x]) := by
  unfold addExtraGenericTypeParam
  simp only
  have h3 : ∀ l : List Param,
      (l.filter (·.kind == .lifetime) ++ l.filter (·.kind == .type) ++ l.filter (·.kind == .const)).Perm l := by
    intro l
    induction l with
    | nil => simp
    | cons a as ih =>
      cases hk : a.kind <;> simp only [List.filter_cons, hk, beq_self_eq_true, if_true] <;>
        simp (config := { decide := true }) only [if_false, Bool.false_eq_true, reduceCtorEq]
      · simpa [List.append_assoc] using List.Perm.cons a ih
      · have : (List.filter (fun x => x.kind == PKind.lifetime) as ++ a :: List.filter (fun x => x.kind == PKind.type) as ++
            List.filter (fun x => x.kind == PKind.const) as).Perm
            (a :: (List.filter (fun x => x.kind == PKind.lifetime) as ++ List.filter (fun x => x.kind == PKind.type) as ++
            List.filter (fun x => x.kind == PKind.const) as)) := by
          simpa [List.append_assoc] using (List.perm_middle (a := a) (l₁ := List.filter (fun x => x.kind == PKind.lifetime) as)
            (l₂ := List.filter (fun x => x.kind == PKind.type) as ++ List.filter (fun x => x.kind == PKind.const) as))
        exact this.trans (List.Perm.cons a ih)
      · have : (List.filter (fun x => x.kind == PKind.lifetime) as ++ List.filter (fun x => x.kind == PKind.type) as ++
            a :: List.filter (fun x => x.kind == PKind.const) as).Perm
            (a :: (List.filter (fun x => x.kind == PKind.lifetime) as ++ List.filter (fun x => x.kind == PKind.type) as ++
            List.filter (fun x => x.kind == PKind.const) as)) := by
          simpa [List.append_assoc] using (List.perm_middle (a := a)
            (l₁ := List.filter (fun x => x.kind == PKind.lifetime) as ++ List.filter (fun x => x.kind == PKind.type) as)
            (l₂ := List.filter (fun x => x.kind == PKind.const) as))
        exact this.trans (List.Perm.cons a ih)
  have hmid : (g.params.filter (·.kind == .lifetime) ++ g.params.filter (·.kind == .type) ++ [x] ++ g.params.filter (·.kind == .const)).Perm
      ((g.params.filter (·.kind == .lifetime) ++ g.params.filter (·.kind == .type) ++ g.params.filter (·.kind == .const)) ++ [x]) := by
    simp only [List.append_assoc]
    exact List.Perm.append_left _ (List.Perm.append_left _ List.perm_append_comm)
  exact hmid.trans (List.Perm.append_right [x] (h3 g.params))

/-- a fresh name stays unique -/
theorem fresh_param_unique (g : Generics) (x : Param) (hn : (names g).Nodup) (hf : x.name ∉ names g) :
    (names (addExtraGenericParam g x)).Nodup ∧ (names (addExtraGenericTypeParam g x)).Nodup := by
  have h1 : (names (addExtraGenericParam g x)).Nodup := by
    simp only [names, addExtraGenericParam, List.map_append, List.map_cons, List.map_nil]
    rw [List.nodup_append]
    refine ⟨hn, by simp, ?_⟩
    intro a ha b hb
    simp only [List.mem_singleton] at hb
    subst hb
    intro hab; subst hab; exact hf ha
  refine ⟨h1, ?_⟩
  have hp : (names (addExtraGenericTypeParam g x)).Perm (names (addExtraGenericParam g x)) := by
    unfold names
    exact List.Perm.map _ (extra_type_param_perm g x)
  exact hp.nodup_iff.mpr h1

/-- the declared where-predicates are all kept, and only the given ones are added -/
theorem where_predicates_kept (g : Generics) (new : List (List Nat)) :
    (∀ q ∈ g.preds, q ∈ (addExtraWhereClauses g new).preds) ∧
    (∀ q ∈ (addExtraWhereClauses g new).preds, q ∈ new ∨ q ∈ g.preds) := by
  simp [addExtraWhereClauses]
  intro q hq; exact Or.inr hq

/-- an added bound that only mentions names in scope keeps every bound in scope -/
theorem added_bounds_in_scope (g : Generics) (b : List Nat) (scope : List Nat)
    (hold : ∀ p ∈ g.params, ∀ bd ∈ p.bounds, ∀ n ∈ bd, n ∈ scope) (hb : ∀ n ∈ b, n ∈ scope) :
    ∀ p ∈ (addExtraTyParamBound g b).params, ∀ bd ∈ p.bounds, ∀ n ∈ bd, n ∈ scope := by
  intro p hp bd hbd n hn
  simp only [addExtraTyParamBound, List.mem_map] at hp
  obtain ⟨q, hq, rfl⟩ := hp
  split at hbd
  · simp only [List.mem_append, List.mem_singleton] at hbd
    rcases hbd with h | rfl
    · exact hold q hq bd h n hn
    · exact hb n hn
  · exact hold q hq bd hbd n hn

/-! Non-vacuity: `struct S<const N: usize, 'a?>`-like orders really are reordered. -/
def ex : Generics := ⟨[⟨.const, 1, [], false⟩, ⟨.type, 2, [], true⟩, ⟨.lifetime, 3, [], false⟩], []⟩
example : (implParams ex).map (·.name) = [3, 1, 2] := by decide
example : (implParams (addExtraGenericParam ex ⟨.lifetime, 9, [], false⟩)).map (·.name) = [3, 9, 1, 2] := by decide
example : (addExtraGenericTypeParam ex ⟨.type, 9, [], false⟩).params.map (·.name) = [3, 2, 9, 1] := by decide
example : lifetimesFirst ex.params = false := by decide

end Dm.Props.C01

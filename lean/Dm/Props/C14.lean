/-
C14 — delegating derives expose the selected field itself.
-/
import Dm.Model.Delegate

set_option linter.unusedSimpArgs false

namespace Dm.Props.C14
open Dm.Del

variable {α : Type}

/-- The selected field is the only enabled one (and a second enabled field is an error, never an
arbitrary choice). -/
theorem single_enabled_unique (infos : List Full) (i : Nat) (f : Full)
    (h : singleEnabled infos = .ok (i, f)) :
    infos[i]? = some f ∧ f.enabled = true
      ∧ ∀ j g, infos[j]? = some g → g.enabled = true → j = i := by
  unfold singleEnabled at h
  generalize hl : (infos.zipIdx.filter fun x => x.1.enabled) = l at h
  match l, h with
  | [(f', i')], h =>
    simp [pure, Except.pure] at h
    obtain ⟨rfl, rfl⟩ := h
    have hm : (f', i') ∈ infos.zipIdx.filter (fun x => x.1.enabled) := by rw [hl]; simp
    have hm' := List.mem_filter.1 hm
    have hget : infos[i']? = some f' := List.mem_zipIdx_iff_getElem?.1 hm'.1
    refine ⟨hget, by simpa using hm'.2, ?_⟩
    intro j g hj hg
    have : (g, j) ∈ infos.zipIdx.filter (fun x => x.1.enabled) := by
      apply List.mem_filter.2
      exact ⟨List.mem_zipIdx_iff_getElem?.2 hj, by simpa using hg⟩
    rw [hl] at this
    simp at this
    exact this.2

/-- A struct with one un-annotated field selects it; `forward` is off. -/
theorem single_field_selected : singleEnabled (fieldInfos none [none]) =
    .ok (0, { enabled := true, forward := false, owned := true, ref := false, refMut := false }) := by
  rfl

/-- Without `forward`, Deref / DerefMut return a reference to the selected field's own storage. -/
theorem direct_is_same_address (infos : List Full) (i : Nat) (f : Full)
    (h : singleEnabled infos = .ok (i, f)) (hf : f.forward = false)
    (fieldRef : Nat → α) (fieldImpl : α → α) (tyEq : Bool) :
    (derefBody infos).map (evalBody fieldRef fieldImpl tyEq) = .ok (fieldRef i) := by
  simp [derefBody, h, hf, bind, Except.bind, pure, Except.pure, Except.map, evalBody]

/-- With `forward`, they return precisely what the field's own implementation returns. -/
theorem forward_is_fields (infos : List Full) (i : Nat) (f : Full)
    (h : singleEnabled infos = .ok (i, f)) (hf : f.forward = true)
    (fieldRef : Nat → α) (fieldImpl : α → α) (tyEq : Bool) :
    (derefBody infos).map (evalBody fieldRef fieldImpl tyEq) = .ok (fieldImpl (fieldRef i)) := by
  simp [derefBody, h, hf, bind, Except.bind, pure, Except.pure, Except.map, evalBody]

/-- Index / IndexMut return what the field's own `Index` returns. -/
theorem index_forwards (infos : List Full) (i : Nat) (f : Full)
    (h : singleEnabled infos = .ok (i, f)) (fieldRef : Nat → α) (fieldImpl : α → α) (tyEq : Bool) :
    (indexBody infos).map (evalBody fieldRef fieldImpl tyEq) = .ok (fieldImpl (fieldRef i)) := by
  simp [indexBody, h, bind, Except.bind, pure, Except.pure, Except.map, evalBody]

/-- The owned, shared and mutable iteration forms all iterate the same (selected) field. -/
theorem iter_forms_same_field (infos : List Full) (i : Nat) (f : Full)
    (h : singleEnabled infos = .ok (i, f)) (impls : List (RefKind × Nat))
    (hi : intoIterImpls infos = .ok impls) : ∀ p ∈ impls, p.2 = i := by
  simp [intoIterImpls, h, bind, Except.bind, pure, Except.pure] at hi
  subst hi
  intro p hp
  cases ho : f.owned <;> cases hr : f.ref <;> cases hm : f.refMut <;> simp [ho, hr, hm] at hp <;>
    (try rcases hp with hp | hp | hp) <;> (try rcases hp with hp | hp) <;> simp_all

/-- `AsRef` / `AsMut` to a listed type that *is* the field's type yields the field itself, whether
the two spellings coincide (direct body) or only rustc knows they are equal (specialised body). -/
theorem asref_listed_field_type_is_identity (i : Nat) (fieldTy t : String) (tGeneric : Bool)
    (fieldRef : Nat → α) (fieldImpl : α → α) (impl : AsImpl)
    (h : impl ∈ asImpls i fieldTy false (.types [(t, tGeneric)])) (hg : tGeneric = false) :
    evalBody fieldRef fieldImpl true impl.body = fieldRef i := by
  simp [asImpls] at h
  subst h
  by_cases heq : fieldTy = t
  · simp [heq, evalBody]
  · simp [heq, hg, evalBody, extractRef]

/-- and to a listed type that is *not* the field's type it forwards to the field's own impl. -/
theorem asref_other_type_forwards (i : Nat) (fieldTy t : String) (fg tg : Bool)
    (fieldRef : Nat → α) (fieldImpl : α → α) (impl : AsImpl)
    (h : impl ∈ asImpls i fieldTy fg (.types [(t, tg)])) (hne : fieldTy ≠ t) :
    evalBody fieldRef fieldImpl false impl.body = fieldImpl (fieldRef i) := by
  simp [asImpls] at h
  subst h
  cases fg <;> cases tg <;> simp [hne, evalBody, extractRef]

/-- Plain `AsRef` (no attribute / `#[as_ref]`) returns the field itself; `forward` the field's. -/
theorem asref_plain_and_forward (i : Nat) (fieldTy : String) (fg : Bool)
    (fieldRef : Nat → α) (fieldImpl : α → α) (tyEq : Bool) :
    (asImpls i fieldTy fg .plain).map (fun x => evalBody fieldRef fieldImpl tyEq x.body) = [fieldRef i]
    ∧ (asImpls i fieldTy fg .forward).map (fun x => evalBody fieldRef fieldImpl tyEq x.body)
        = [fieldImpl (fieldRef i)] := by
  simp [asImpls, evalBody]

/-- Non-vacuity: `struct S(A, #[deref] B, C)` selects field 1; `(#[deref(ignore)] A, B)` field 1. -/
example : (singleEnabled (fieldInfos none [none, some [], none])).map (·.1) = .ok 1 := by rfl
example : (singleEnabled (fieldInfos none [some [.ignore], none])).map (·.1) = .ok 1 := by rfl
example : singleEnabled (fieldInfos none [none, none]) = .error .panicDeliberate := by rfl

/-! ### Struct-level defaults and field-level settings (`MetaInfo::into_full`) -/

/-- What a field's own attribute says wins over what the struct-level attribute (or the derive's
default) says; in particular `not(forward)` on the field switches a struct-level `forward` off. -/
theorem field_setting_overrides_inherited (m : Meta) (d : Full) (b : Bool) (h : m.forward = some b) :
    (m.intoFull d).forward = b := by
  simp [Meta.intoFull, h]

/-- A field that says nothing inherits. -/
theorem unset_inherits (m : Meta) (d : Full) (h : m.forward = none) :
    (m.intoFull d).forward = d.forward := by
  simp [Meta.intoFull, h]

/-- `#[deref(forward)] struct S { #[deref(not(forward))] a: A, #[deref(ignore)] b: B }`: field `a` is
selected and dereferenced directly, not through its own `Deref`. -/
theorem not_forward_field_is_direct :
    derefBody (fieldInfos (some [.forward]) [some [.notForward], some [.ignore]]) = .ok (.direct 0) := by
  rfl

end Dm.Props.C14

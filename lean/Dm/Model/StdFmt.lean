/-
The specification side of C03: the grammar printed in `std::fmt`'s documentation as a datatype of
*derivations* (`Piece`), its printer `render`, and std's reading of a derivation (`meaning`):
which argument, which trait, which modifiers are present.  Written from the documentation, not
from derive_more's parser; validated on every run against `rustc_parse_format`.

```
format_string := text [ maybe_format text ] *
maybe_format  := '{' '{' | '}' '}' | format
format        := '{' [ argument ] [ ':' format_spec ] [ ws ] * '}'
argument      := integer | identifier
format_spec   := [[fill]align][sign]['#']['0'][width]['.' precision]type
fill := character   align := '<' | '^' | '>'   sign := '+' | '-'
width := count   precision := count | '*'
type := '' | '?' | 'x?' | 'X?' | identifier      count := parameter | integer
parameter := argument '$'
```
-/
import Dm.Model.FmtParse

namespace Dm.Fmt

/-- `argument`: a digit string (kept as written, leading zeros allowed) or an identifier. -/
inductive ArgA where
  | idx (ds : List Char)
  | name (cs : List Char)
  deriving Repr, DecidableEq, Inhabited

inductive CountA where
  | lit (ds : List Char)
  | param (a : ArgA)
  deriving Repr, DecidableEq, Inhabited

inductive PrecA where
  | count (c : CountA)
  | star
  deriving Repr, DecidableEq, Inhabited

structure SpecA where
  fill  : Option Char
  align : Option Align
  sign  : Option Sign
  alt   : Bool
  zero  : Bool
  width : Option CountA
  prec  : Option PrecA
  ty    : Ty
  deriving Repr, DecidableEq, Inhabited

structure PhA where
  arg  : Option ArgA
  spec : Option SpecA
  ws   : List Char
  deriving Repr, DecidableEq, Inhabited

inductive Piece where
  | text (cs : List Char)
  | lbrace
  | rbrace
  | ph (p : PhA)
  deriving Repr, DecidableEq, Inhabited

/-! ### Printer -/

def ArgA.render : ArgA → List Char
  | .idx ds => ds
  | .name cs => cs

def CountA.render : CountA → List Char
  | .lit ds => ds
  | .param a => a.render ++ ['$']

def PrecA.render : PrecA → List Char
  | .count c => c.render
  | .star => ['*']

def Align.render : Align → Char
  | .left => '<'
  | .center => '^'
  | .right => '>'

def Sign.render : Sign → Char
  | .plus => '+'
  | .minus => '-'

def Ty.render : Ty → List Char
  | .display => []
  | .debug => ['?']
  | .lowerDebug => ['x', '?']
  | .upperDebug => ['X', '?']
  | .octal => ['o']
  | .lowerHex => ['x']
  | .upperHex => ['X']
  | .pointer => ['p']
  | .binary => ['b']
  | .lowerExp => ['e']
  | .upperExp => ['E']

def optRender {α} (f : α → List Char) : Option α → List Char
  | some a => f a
  | none => []

def SpecA.renderFillAlign (s : SpecA) : List Char :=
  match s.align with
  | some a => (match s.fill with | some f => [f] | none => []) ++ [a.render]
  | none => []

def SpecA.renderWidth (s : SpecA) : List Char := optRender CountA.render s.width

def SpecA.renderPrec (s : SpecA) : List Char :=
  match s.prec with
  | some p => '.' :: p.render
  | none => []

def SpecA.render (s : SpecA) : List Char :=
  s.renderFillAlign
    ++ optRender (fun sg => [Sign.render sg]) s.sign
    ++ (if s.alt then ['#'] else [])
    ++ (if s.zero then ['0'] else [])
    ++ s.renderWidth
    ++ s.renderPrec
    ++ s.ty.render

def PhA.render (p : PhA) : List Char :=
  '{' :: (optRender ArgA.render p.arg
    ++ (match p.spec with | some s => ':' :: s.render | none => [])
    ++ p.ws ++ ['}'])

def Piece.render : Piece → List Char
  | .text cs => cs
  | .lbrace => ['{', '{']
  | .rbrace => ['}', '}']
  | .ph p => p.render

def renderAll (ps : List Piece) : List Char := (ps.map Piece.render).flatten

/-! ### Well-formed derivations -/

def IsIdent (cc : CharClasses) : List Char → Prop
  | [] => False
  | c :: cs =>
    (cc.isStart c = true ∧ ∀ d ∈ cs, cc.isCont d = true)
    ∨ (c = '_' ∧ cs ≠ [] ∧ ∀ d ∈ cs, cc.isCont d = true)

/-- A non-empty digit string whose value fits `usize`. -/
def IsIndex (ds : List Char) : Prop :=
  ds ≠ [] ∧ (∀ d ∈ ds, isDigit d = true) ∧ digitsVal ds ≤ usizeMax

def ArgA.WF (cc : CharClasses) : ArgA → Prop
  | .idx ds => IsIndex ds
  | .name cs => IsIdent cc cs

def CountA.WF (cc : CharClasses) : CountA → Prop
  | .lit ds => IsIndex ds
  | .param a => a.WF cc

def PrecA.WF (cc : CharClasses) : PrecA → Prop
  | .count c => c.WF cc
  | .star => True

/-- The grammar is ambiguous on a `0` in front of a width; std resolves it as "a leading `0` is
the zero flag unless it is immediately followed by `$`".  A derivation is canonical when it is the
one std picks: without the zero flag the width's text does not start with `0`, except for the
width `0$`; with the zero flag the width is not missing-then-`$`. -/
def SpecA.ZeroCanonical (s : SpecA) : Prop :=
  s.zero = false →
    match s.width with
    | some w => w.render.head? ≠ some '0' ∨ w = .param (.idx ['0'])
    | none => True

structure SpecA.WF (cc : CharClasses) (s : SpecA) : Prop where
  fill_needs_align : s.fill.isSome → s.align.isSome
  width : ∀ w, s.width = some w → w.WF cc
  prec : ∀ p, s.prec = some p → p.WF cc
  zero : s.ZeroCanonical

structure PhA.WF (cc : CharClasses) (p : PhA) : Prop where
  arg : ∀ a, p.arg = some a → a.WF cc
  spec : ∀ s, p.spec = some s → s.WF cc
  ws : ∀ c ∈ p.ws, cc.isWs c = true

def Piece.WF (cc : CharClasses) : Piece → Prop
  | .text cs => cs ≠ [] ∧ ∀ c ∈ cs, isBrace c = false
  | .lbrace => True
  | .rbrace => True
  | .ph p => p.WF cc

/-! ### std's reading of a derivation -/

def ArgA.toArg : ArgA → Arg
  | .idx ds => .int (digitsVal ds)
  | .name cs => .ident cs

def CountA.toCount : CountA → Count
  | .lit ds => .int (digitsVal ds)
  | .param a => .param a.toArg

def PrecA.toPrec : PrecA → Precision
  | .count c => .count c.toCount
  | .star => .star

def SpecA.toSpec (s : SpecA) : Spec :=
  { align := s.align.map fun a => (s.fill, a)
    sign := s.sign, alt := s.alt, zero := s.zero
    width := s.width.map CountA.toCount
    prec := s.prec.map PrecA.toPrec
    ty := s.ty }

def PhA.toFormat (p : PhA) : Format :=
  { arg := p.arg.map ArgA.toArg, spec := p.spec.map SpecA.toSpec }

/-- `x?` / `X?`: Debug with the hex flag set. -/
def Ty.isDebugHex : Ty → Bool
  | .lowerDebug => true
  | .upperDebug => true
  | _ => false

def SpecA.hasModifiers (s : SpecA) : Bool :=
  s.align.isSome || s.sign.isSome || s.alt || s.zero || s.width.isSome || s.prec.isSome
    || s.ty.isDebugHex

def PhA.isStar (p : PhA) : Bool :=
  match p.spec with
  | some s => s.prec == some .star
  | none => false

def PhA.trait (p : PhA) : Trait :=
  match p.spec with
  | some s => s.ty.trait
  | none => .display

def PhA.mods (p : PhA) : Bool :=
  match p.spec with
  | some s => s.hasModifiers
  | none => false

/-- std's rule for which argument every placeholder denotes.  `n` is the implicit positional
counter ("next argument"): explicit indices and names do not advance it; `.*` takes the next
implicit position for the precision first and only then is the value's own position resolved. -/
def meaningFrom : Nat → List Piece → List Placeholder
  | _, [] => []
  | n, .ph p :: ps =>
    let n1 := if p.isStar then n + 1 else n
    match p.arg with
    | some (.idx ds) =>
      { arg := .pos (digitsVal ds), mods := p.mods, trait := p.trait } :: meaningFrom n1 ps
    | some (.name cs) =>
      { arg := .named cs, mods := p.mods, trait := p.trait } :: meaningFrom n1 ps
    | none =>
      { arg := .pos n1, mods := p.mods, trait := p.trait } :: meaningFrom (n1 + 1) ps
  | n, _ :: ps => meaningFrom n ps

def meaning (ps : List Piece) : List Placeholder := meaningFrom 0 ps

end Dm.Fmt

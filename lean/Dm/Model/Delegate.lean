/-
Model of the delegating derives: `Deref`, `DerefMut`, `Index`, `IndexMut`, `IntoIterator`
(single enabled field through `State`, `impl/src/utils.rs:561-585`) and `AsRef` / `AsMut`
(`impl/src/as/mod.rs`, run-time helper `src/as.rs`).
-/
namespace Dm.Del

inductive Outcome where
  | diag
  | panicDeliberate     -- `panic!("derive(..) only works when ... one field")`
  deriving Repr, DecidableEq, Inhabited

abbrev R (α : Type) := Except Outcome α

/-- Legacy field attribute parameters used by these derives. -/
inductive Param where
  | ignore | forward | owned | ref | refMut
  /-- `not(forward)`: accepted wherever `forward` is; switches an inherited `forward` off. -/
  | notForward
  deriving Repr, DecidableEq, Inhabited

structure Meta where
  enabled : Option Bool := none
  forward : Option Bool := none
  owned : Option Bool := none
  ref : Option Bool := none
  refMut : Option Bool := none
  deriving Repr, DecidableEq, Inhabited

def metaOf : Option (List Param) → Meta
  | none => {}
  | some ps =>
    ps.foldl (fun (m : Meta) p =>
      match p with
      | .ignore => { m with enabled := some false }
      | .forward => { m with forward := some true }
      | .notForward => { m with forward := some false }
      | .owned => { m with owned := some true }
      | .ref => { m with ref := some true }
      | .refMut => { m with refMut := some true }) { enabled := some true }

structure Full where
  enabled : Bool
  forward : Bool
  owned : Bool
  ref : Bool
  refMut : Bool
  deriving Repr, DecidableEq, Inhabited

def Meta.intoFull (m : Meta) (d : Full) : Full :=
  { enabled := m.enabled.getD d.enabled, forward := m.forward.getD d.forward,
    owned := m.owned.getD d.owned, ref := m.ref.getD d.ref, refMut := m.refMut.getD d.refMut }

/-- `State::new_impl` for a struct: defaults decided by the first attributed field, overridden by
the struct-level attribute, then applied to every field. -/
def fieldInfos (structAttr : Option (List Param)) (fieldAttrs : List (Option (List Param))) : List Full :=
  let metas := fieldAttrs.map metaOf
  let first := metas.find? fun m => m.enabled.isSome
  let base : Full :=
    { enabled := match first with | some m => !(m.enabled.getD true) | none => true
      forward := false
      owned := match first with
        | some m => (m.owned.isNone && m.ref.isNone) || m.refMut.isNone
        | none => true
      ref := false, refMut := false }
  let d := (metaOf structAttr).intoFull base
  metas.map fun m => m.intoFull d

/-- `assert_single_enabled_field`: exactly one enabled field, else a deliberate panic. Returns its
position among all fields and its info. -/
def singleEnabled (infos : List Full) : R (Nat × Full) :=
  match (infos.zipIdx.filter fun x => x.1.enabled) with
  | [(f, i)] => pure (i, f)
  | _ => throw .panicDeliberate

/-! ### What the generated methods return -/

/-- Body of a delegating method over field `i`. -/
inductive Body where
  /-- `&self.i` / `&mut self.i`: a reference to the field's own storage. -/
  | direct (i : Nat)
  /-- `<FieldTy as Trait>::method(&[mut] self.i [, idx])`: what the field's own impl returns. -/
  | forwarded (i : Nat)
  /-- AsRef/AsMut autoref specialisation: `(&&conv).__extract_ref(&[mut] self.i)`. -/
  | specialized (i : Nat)
  deriving Repr, DecidableEq, Inhabited

/-- Deref / DerefMut. -/
def derefBody (infos : List Full) : R Body := do
  let (i, f) ← singleEnabled infos
  pure (if f.forward then .forwarded i else .direct i)

/-- Index / IndexMut always forward to the field's own `Index`. -/
def indexBody (infos : List Full) : R Body := do
  let (i, _) ← singleEnabled infos
  pure (.forwarded i)

inductive RefKind where
  | owned | ref | refMut
  deriving Repr, DecidableEq, Inhabited

/-- IntoIterator: one impl per selected reference kind, all over the same field. -/
def intoIterImpls (infos : List Full) : R (List (RefKind × Nat)) := do
  let (i, f) ← singleEnabled infos
  pure ((if f.owned then [(RefKind.owned, i)] else []) ++ (if f.ref then [(RefKind.ref, i)] else [])
    ++ (if f.refMut then [(RefKind.refMut, i)] else []))

/-! ### AsRef / AsMut -/

/-- Conversions of one expansion: none (plain field), `forward`, or a list of types. A type is
its token text plus whether it mentions a generic parameter of the struct. -/
inductive AsConv where
  | plain
  | forward
  | types (tys : List (String × Bool))
  deriving Repr, DecidableEq, Inhabited

structure AsImpl where
  /-- The `T` of `AsRef<T>`. -/
  ret : String
  body : Body
  deriving Repr, DecidableEq, Inhabited

/-- `Expansion::to_tokens` of as/mod.rs for field `i` of type `fieldTy`. -/
def asImpls (i : Nat) (fieldTy : String) (fieldGeneric : Bool) (c : AsConv) : List AsImpl :=
  match c with
  | .forward => [{ ret := "__AsT", body := .forwarded i }]
  | .plain => [{ ret := fieldTy, body := .direct i }]
  | .types tys =>
    tys.map fun (t, tGeneric) =>
      { ret := t
        body := if fieldTy = t then .direct i
                else if fieldGeneric || tGeneric then .forwarded i
                else .specialized i }

/-- Field-level attribute of AsRef / AsMut. -/
inductive AsFieldAttr where
  | none | skip | empty | forward
  | types (tys : List (String × Bool))
  deriving Repr, DecidableEq, Inhabited

/-- `expand` of as/mod.rs for a struct without struct-level attribute: either only `skip`s are
present (every un-skipped field gets a plain impl) or the annotated fields get theirs; mixing
`skip` with other attributes is an error. -/
def asExpansions (fields : List (String × Bool × AsFieldAttr)) : R (List (Nat × String × Bool × AsConv)) :=
  let present := fields.filter fun f => f.2.2 ≠ .none
  let allSkip := present.all fun f => f.2.2 = .skip
  if !allSkip && present.any (fun f => f.2.2 = .skip) then throw .diag
  else if allSkip then
    pure (fields.zipIdx.filterMap fun (f, i) =>
      if f.2.2 = .none then some (i, f.1, f.2.1, AsConv.plain) else none)
  else
    pure (fields.zipIdx.filterMap fun (f, i) =>
      match f.2.2 with
      | .empty => some (i, f.1, f.2.1, AsConv.plain)
      | .forward => some (i, f.1, f.2.1, AsConv.forward)
      | .types tys => some (i, f.1, f.2.1, AsConv.types tys)
      | _ => none)

/-- The run-time helper of the specialised body (`src/as.rs`): by autoref priority the identity
impl `&Conv<&T, T>` is chosen when the target type *is* the field type (rustc's type equality,
`tyEq`), the `AsRef`-forwarding impl otherwise. `α` are addresses/objects. -/
def extractRef {α : Type} (tyEq : Bool) (fieldRef : α) (fieldAsRef : α → α) : α :=
  if tyEq then fieldRef else fieldAsRef fieldRef

/-- Meaning of a body: the object the method returns. -/
def evalBody {α : Type} (fieldRef : Nat → α) (fieldImpl : α → α) (tyEq : Bool) : Body → α
  | .direct i => fieldRef i
  | .forwarded i => fieldImpl (fieldRef i)
  | .specialized i => extractRef tyEq (fieldRef i) fieldImpl

end Dm.Del

/-
Model of the container attributes of the formatting derives (`impl/src/fmt/mod.rs`: `ContainerAttributes`,
`BoundsAttribute`, `FmtAttribute::check_legacy_fmt`; `impl/src/fmt/display.rs`: `ContainerAttributes`,
`RenameAllAttribute`): what one `#[display(...)]` / `#[debug(...)]` attribute on a struct, enum or variant is
read as, and how several of them merge (`ParseMultiple::merge_attrs`).
-/
namespace Dm.FmtContainer

inductive Case where
  | lower | upper | pascal | camel | snake | screamingSnake | kebab | screamingKebab
  deriving Repr, DecidableEq, Inhabited

/-- The two spellings of the bounds list. (The lookahead of display.rs also lets `where(..)` through, but
`BoundsAttribute::parse` then asks for a path, which the keyword `where` is not: `where(..)` is refused.) -/
inductive BoundKw where
  | bound | bounds
  deriving Repr, DecidableEq, Inhabited

/-- One attribute, by what leads its argument list. -/
inductive A where
  | fmt (lit : Nat) (args : List Nat)               -- `"literal", args…`
  | bounds (kw : BoundKw) (preds : List Nat)        -- `bound(preds…)` / `bounds(…)`
  | renameAll (c : Option Case)                     -- `rename_all = "…"`; `none`: not one of the eight casings
  | legacyFmt                                       -- `fmt = "…"` (pre-1.0)
  | legacyBound                                     -- `bound = "…"` (pre-1.0)
  | unknown                                         -- another identifier, `where(..)`, a non-string literal, `#[display]`, `#[display()]`
  deriving Repr, DecidableEq, Inhabited

structure Parsed where
  fmt : Option (Nat × List Nat) := none
  bounds : List Nat := []
  renameAll : Option Case := none
  deriving Repr, DecidableEq, Inhabited

/-- Which parser reads the position. -/
inductive G where
  | display        -- display.rs `ContainerAttributes`: struct, enum and variant of the Display-like derives
  | common         -- fmt/mod.rs `ContainerAttributes`: struct of Debug
  | debugEnum      -- the same on an enum deriving Debug, where a format literal "is not allowed on enum"
  | fmtOnly        -- a variant of an enum deriving Debug: `attr.parse_args::<FmtAttribute>()`, at most one
  deriving Repr, DecidableEq, Inhabited

/-- What one attribute is read as (`ContainerAttributes::parse` / `FmtAttribute::parse`). -/
def parseOne (g : G) : A → Option Parsed
  | .fmt l as => some { fmt := some (l, as) }
  | .bounds _ ps => if g = .fmtOnly then none else some { bounds := ps }
  | .renameAll (some c) => if g = .display then some { renameAll := some c } else none
  | .renameAll none => none
  | .legacyFmt => none
  | .legacyBound => none
  | .unknown => none

/-- `merge_attrs` (display.rs's, which calls the common one): a second format literal or a second `rename_all`
is refused, bounds accumulate. -/
def merge (p n : Parsed) : Option Parsed :=
  if p.renameAll.isSome && n.renameAll.isSome then none
  else if p.fmt.isSome && n.fmt.isSome then none
  else some { fmt := if n.fmt.isSome then n.fmt else p.fmt,
              bounds := p.bounds ++ n.bounds,
              renameAll := if n.renameAll.isSome then n.renameAll else p.renameAll }

/-- `parse_attrs`: the fold over the attributes in source order (`unwrap_or_default()` when there is none). -/
def parseFrom (g : G) : Parsed → List A → Option Parsed
  | acc, [] => some acc
  | acc, a :: rest =>
    match parseOne g a with
    | none => none
    | some n =>
      match merge acc n with
      | none => none
      | some m => parseFrom g m rest

/-- The attributes of one position, with the derive's own rule for Debug on an enum. -/
def parseAll (g : G) (attrs : List A) : Option Parsed :=
  match parseFrom g {} attrs with
  | some p => if g = .debugEnum && p.fmt.isSome then none else some p
  | none => none

/-! ### Field attributes of Debug (`debug.rs`: `FieldAttribute = Either<attr::Skip, FmtAttribute>`, `validate_attrs`) -/

/-- One `#[debug(...)]` attribute on a field. -/
inductive FA where
  | skip (ignoreSpelling : Bool)     -- `skip` / `ignore`
  | fmt                              -- `"literal", args…`
  | unreadable                       -- anything else: another identifier, `bound(..)`, `fmt = ".."`, `#[debug]`, …
  deriving Repr, DecidableEq, Inhabited

inductive FieldKind where
  | skip | fmt
  deriving Repr, DecidableEq, Inhabited

def parseFA : FA → Option FieldKind
  | .skip _ => some .skip
  | .fmt => some .fmt
  | .unreadable => none

/-- `FieldAttribute::parse_attrs`: both alternatives of the `Either` refuse a second attribute ("only single …
allowed"), two different ones are "only single kind …": a field takes at most one attribute.
`none`: the derive fails; `some none`: no attribute. -/
def parseField : List FA → Option (Option FieldKind)
  | [] => some none
  | [a] => (parseFA a).map some
  | _ :: _ :: _ => none

/-- A struct or an enum variant deriving Debug is accepted as far as its field attributes go: every field's
attributes parse, and no field has a format when the struct / variant has one (`validate_attrs`).
`cf`: the struct or variant has its own format. -/
def fieldOk (cf : Bool) (l : List FA) : Bool :=
  match parseField l with
  | none => false
  | some (some .fmt) => !cf
  | some _ => true

def debugFieldsOk (cf : Bool) (fields : List (List FA)) : Bool := fields.all (fieldOk cf)

end Dm.FmtContainer

/-
Model of `ContainsGenericsExt` (`impl/src/fmt/mod.rs:585-703`): does a field type mention one of
the type parameters?  Types are a small AST mirroring the `syn::Type` variants the code
distinguishes.
-/
namespace Dm.TyGen

abbrev Name := List Char

mutual
  inductive Ty where
    /-- `syn::Type::Path`: optional qself and the path segments. -/
    | path (qself : Option Ty) (segs : List Seg)
    /-- Array / Group / Paren / Ptr / Reference / Slice: one element type. -/
    | elem (t : Ty)
    /-- `fn(inputs) -> output`. -/
    | bareFn (inputs : List Ty) (out : Option Ty)
    | tuple (elems : List Ty)
    /-- `dyn A + B + 'a`: the trait paths (lifetime bounds carry nothing). -/
    | traitObj (bounds : List (List Seg))
    /-- ImplTrait / Infer / Macro / Never / Verbatim. -/
    | opaque

  /-- A path segment: identifier and its arguments. -/
  inductive Seg where
    | mk (ident : Name) (args : SegArgs)

  inductive SegArgs where
    | none
    /-- `<..>`: type arguments and associated-type bindings carry a type; lifetimes, consts,
    associated consts and constraints do not. -/
    | angle (args : List GArg)
    /-- `(inputs) -> output` (Fn sugar). -/
    | paren (inputs : List Ty) (out : Option Ty)

  inductive GArg where
    | ty (t : Ty)
    | assocTy (t : Ty)
    | other
end

mutual
  /-- `<syn::Type as ContainsGenericsExt>::contains_generics` (for a non-empty parameter list). -/
  def tyContains (ps : List Name) : Ty → Bool
    | .path qself segs =>
      (match qself with
       | some q => tyContains ps q
       | none => false)
      || (match segs with
          | [.mk i .none] => ps.contains i          -- `path.get_ident()`
          | _ => segsContains ps true segs)
    | .elem t => tyContains ps t
    | .bareFn ins out =>
      tysContain ps ins || (match out with | some t => tyContains ps t | none => false)
    | .tuple es => tysContain ps es
    | .traitObj bs => boundsContain ps bs
    | .opaque => false

  def tysContain (ps : List Name) : List Ty → Bool
    | [] => false
    | t :: ts => tyContains ps t || tysContain ps ts

  /-- `<syn::Path as ContainsGenericsExt>::contains_generics`; `first` = "this is segment 0". -/
  def segsContains (ps : List Name) (first : Bool) : List Seg → Bool
    | [] => false
    | .mk i args :: rest =>
      (match args with
       | .none => first && ps.contains i
       | .angle as => gargsContain ps as
       | .paren ins out =>
         tysContain ps ins || (match out with | some t => tyContains ps t | none => false))
      || segsContains ps false rest

  def gargsContain (ps : List Name) : List GArg → Bool
    | [] => false
    | .ty t :: r => tyContains ps t || gargsContain ps r
    | .assocTy t :: r => tyContains ps t || gargsContain ps r
    | .other :: r => gargsContain ps r

  def boundsContain (ps : List Name) : List (List Seg) → Bool
    | [] => false
    | b :: bs => segsContains ps true b || boundsContain ps bs
end

/-- `contains_generics`: early `false` for an empty parameter list. -/
def containsGenerics (ps : List Name) (t : Ty) : Bool :=
  if ps.isEmpty then false else tyContains ps t

end Dm.TyGen

/-
Model of the `Display`-like and `Debug` expanders (`impl/src/fmt/display.rs`, `impl/src/fmt/debug.rs`)
at the level of decisions (`BodyD`) plus a renderer to the (whitespace-free) token text of the
generated `fmt` body and where-clause.
-/
import Dm.Model.FmtAttr

namespace Dm.FmtX
open Dm.Fmt

inductive Outcome where
  | diag            -- `syn::Error` -> `compile_error!`
  deriving Repr, DecidableEq, Inhabited

abbrev R (α : Type) := Except Outcome α

/-- Field-level `#[debug(..)]` attribute. -/
inductive DbgAttr where
  | none
  | skip
  | fmt (a : FmtAttr)
  deriving Repr, DecidableEq, Inhabited

structure FieldD where
  name : Option Name
  tyToks : String
  /-- `ty.contains_generics(type_params)`. -/
  generic : Bool
  dbg : DbgAttr := .none
  deriving Repr, DecidableEq, Inhabited

inductive FieldsD where
  | unit
  | unnamed (fs : List FieldD)
  | named (fs : List FieldD)
  deriving Repr, DecidableEq, Inhabited

def FieldsD.list : FieldsD → List FieldD
  | .unit => []
  | .unnamed fs => fs
  | .named fs => fs

def FieldsD.kind : FieldsD → FieldsK
  | .unit => .unit
  | .unnamed fs => .unnamed fs.length
  | .named fs => .named (fs.map fun f => f.name.getD [])

def FieldsD.idents (f : FieldsD) : List (Option Name) := f.list.map (·.name)

inductive Case where
  | lower | upper | pascal | camel | snake | screamingSnake | kebab | screamingKebab
  deriving Repr, DecidableEq, Inhabited

/-- One parsed `#[<trait>(...)]` attribute on a container. -/
inductive CAttr where
  | fmt (a : FmtAttr)
  | bound (preds : List String)
  | rename (c : Case)
  deriving Repr, DecidableEq, Inhabited

structure Container where
  fmt : Option FmtAttr := none
  bounds : List String := []
  rename : Option Case := none
  deriving Repr, DecidableEq, Inhabited

/-- `ContainerAttributes::parse_attrs`: fold with `merge_attrs`; a second literal or a second
`rename_all` is an error. -/
def mergeAttrs : List CAttr → R Container
  | [] => pure {}
  | a :: rest => do
    let init : Container := match a with
      | .fmt f => { fmt := some f }
      | .bound ps => { bounds := ps }
      | .rename c => { rename := some c }
    rest.foldlM (fun (prev : Container) (n : CAttr) =>
      match n with
      | .fmt f => if prev.fmt.isSome then throw .diag else pure { prev with fmt := some f }
      | .bound ps => pure { prev with bounds := prev.bounds ++ ps }
      | .rename c => if prev.rename.isSome then throw .diag else pure { prev with rename := some c })
      init

/-! ### Decisions -/

/-- The text bound to `_variant` when the enum-level format wraps. -/
inductive Inner where
  | fmtArgs (a : FmtAttr) (derefs : List Name)
  | name (s : String)
  | field (tr : Trait) (f : Name)
  deriving Repr, DecidableEq, Inhabited

/-- The argument handed to `format_args!` for an attribute-less single-field variant under a
wrapping enum-level format: `{:p}` formats the reference it is given, so under `Pointer` the bound
field (`_0 : &Field`) is dereferenced; every other trait formats `&T` like `T`. -/
def wrappedFieldDeref (tr : Trait) : Bool := tr = Trait.pointer

/-- `trait_name_to_default_placeholder_literal`: the literal through which an attribute-less single
field is formatted when an enum-level format wraps it. -/
def defaultPlaceholder : Trait → List Char
  | .binary => "{:b}".toList | .debug => "{:?}".toList | .display => "{}".toList
  | .lowerExp => "{:e}".toList | .lowerHex => "{:x}".toList | .octal => "{:o}".toList
  | .pointer => "{:p}".toList | .upperExp => "{:E}".toList | .upperHex => "{:X}".toList

inductive BodyD where
  | delegate (tr : Trait) (expr : String)
  | write (a : FmtAttr) (derefs : List Name)
  | writeStr (s : String)
  | wrapped (i : Inner) (shared : BodyD)
  | empty
  deriving Repr, DecidableEq, Inhabited

structure Ctx where
  cc : CharClasses
  /-- The derived trait. -/
  tr : Trait
  /-- `convert_case` (external crate): parameter. -/
  conv : Case → Name → String

structure Expansion where
  shared : Option FmtAttr
  attrs : Container
  ident : Name
  fields : FieldsD

def variantName : Name := "_variant".toList

/-- `shared_attr_info`. -/
def sharedAttrInfo (c : Ctx) (e : Expansion) : Bool × Bool :=
  let containsVariant := match e.shared with
    | none => true
    | some a => containsArg c.cc a variantName
  let hasShared := match e.shared with
    | none => false
    | some a =>
      match transparentCall c.cc a with
      | none => true
      | some (_, called) => called ≠ c.tr || !containsVariant
  (hasShared, hasShared && containsVariant)

def fmtBody (c : Ctx) (a : FmtAttr) (fields : FieldsD) : BodyD :=
  match transparentCallOnFields c.cc a fields.idents with
  | some (expr, tr) => .delegate tr expr
  | none => .write a (additionalDerefArgs c.cc a fields.idents)

/-- `Expansion::generate_body` of display.rs. -/
def displayBody (c : Ctx) (e : Expansion) : R BodyD := do
  let (hasShared, wrapping) := sharedAttrInfo c e
  let (body, wrapInto) ← (match e.attrs.fmt with
    | some fmt =>
      if wrapping then
        pure (some (Sum.inl (Inner.fmtArgs fmt (additionalDerefArgs c.cc fmt e.fields.idents))), wrapping)
      else
        pure (some (Sum.inr (fmtBody c fmt e.fields)), wrapping)
    | none =>
      if wrapping || !hasShared then
        match e.fields.list with
        | [] =>
          let s := match e.attrs.rename with
            | some cs => c.conv cs (unraw e.ident)
            | none => String.ofList (unraw e.ident)
          if wrapping then pure (some (Sum.inl (Inner.name s)), hasShared)
          else pure (some (Sum.inr (BodyD.writeStr s)), hasShared)
        | [f] =>
          let ident := f.name.getD "_0".toList
          if wrapping then pure (some (Sum.inl (Inner.field c.tr ident)), hasShared)
          else pure (some (Sum.inr (BodyD.delegate c.tr (String.ofList ident))), hasShared)
        | _ => throw Outcome.diag
      else pure (none, hasShared) : R (Option (Sum Inner BodyD) × Bool))
  if wrapInto then
    match e.shared with
    | some sh =>
      let sharedBody := fmtBody c sh e.fields
      match body with
      | none => pure sharedBody
      | some (Sum.inl i) => pure (.wrapped i sharedBody)
      | some (Sum.inr _) => pure sharedBody   -- unreachable: a non-wrapping body is never wrapped
    | none =>
      match body with
      | some (Sum.inr b) => pure b
      | _ => pure .empty
  else
    match body with
    | some (Sum.inr b) => pure b
    | some (Sum.inl _) => pure .empty
    | none => pure .empty

/-- Where-predicate as data: the type of field `i` must implement `tr`. -/
inductive Bound where
  | field (i : Nat) (tr : Trait)
  | user (toks : String)
  deriving Repr, DecidableEq, Inhabited

def attrBounds (c : Ctx) (a : FmtAttr) (fields : FieldsD) : List Bound :=
  (boundedTypes c.cc a fields.kind).filterMap fun (i, tr) =>
    match fields.list[i]? with
    | some f => if f.generic then some (.field i tr) else none
    | none => none

/-- `Expansion::generate_bounds` of display.rs. -/
def displayBounds (c : Ctx) (e : Expansion) : List Bound :=
  let (hasShared, wrapping) := sharedAttrInfo c e
  let (own, mix) : List Bound × Bool :=
    match e.attrs.fmt with
    | some a => (attrBounds c a e.fields ++ e.attrs.bounds.map Bound.user, wrapping)
    | none =>
      if wrapping || !hasShared then
        (match e.fields.list with
         | f :: _ => if f.generic then [Bound.field 0 c.tr] else []
         | [] => [], hasShared)
      else ([], hasShared)
  if mix then
    match e.shared with
    | some sh => own ++ attrBounds c sh e.fields
    | none => own
  else own

/-! ### Whole enums (`expand_enum` of display.rs) -/

structure VariantD where
  ident : Name
  attrs : List CAttr
  fields : FieldsD
  deriving Repr, DecidableEq, Inhabited

/-- The `_variant` placeholders of an enum-level literal must be bare `Display` ones. -/
def badVariantPlaceholder (c : Ctx) (cont : Container) : Bool :=
  match cont.fmt with
  | some sh => (placeholdersByArg c.cc sh variantName).any fun p => p.mods || p.trait ≠ Trait.display
  | none => false

def variantExpansion (cont : Container) (va : Container) (v : VariantD) : Expansion :=
  { shared := cont.fmt
    attrs := { va with rename := match va.rename with | some r => some r | none => cont.rename }
    ident := v.ident, fields := v.fields }

/-- One variant of `expand_enum`: its arm body and the bounds it contributes. -/
def displayVariant (c : Ctx) (cont : Container) (v : VariantD) : R (BodyD × List Bound) := do
  let va ← mergeAttrs v.attrs
  if va.fmt.isNone && v.fields.list.isEmpty && c.tr ≠ Trait.display then throw .diag
  let e := variantExpansion cont va v
  let b ← displayBody c e
  pure (b, displayBounds c e)

/-- `expand_enum` of display.rs. -/
def displayEnum (c : Ctx) (attrs : List CAttr) (vs : List VariantD) : R (List (BodyD × List Bound)) := do
  let cont ← mergeAttrs attrs
  if badVariantPlaceholder c cont then throw .diag
  vs.mapM (displayVariant c cont)

/-! ### Debug (`debug.rs`) -/

/-- One builder call of the implicit Debug body. -/
inductive DbgCall where
  | value (label : Option String) (binding : Name)
  | formatted (label : Option String) (a : FmtAttr) (derefs : List Name)
  deriving Repr, DecidableEq, Inhabited

inductive DbgBody where
  | delegate (tr : Trait) (expr : String)
  | write (a : FmtAttr) (derefs : List Name)
  | unit (name : String)
  | tuple (name : String) (calls : List DbgCall) (exhaustive : Bool)
  | struct (name : String) (calls : List DbgCall) (exhaustive : Bool)
  deriving Repr, DecidableEq, Inhabited

/-- `validate_attrs`: with a container-level literal no field may carry a literal. -/
def dbgValidate (fmt : Option FmtAttr) (fields : FieldsD) : R Unit :=
  if fmt.isSome ∧ fields.list.any (fun f => match f.dbg with | .fmt _ => true | _ => false)
  then throw .diag else pure ()

def dbgCalls (cc : CharClasses) (fields : FieldsD) (named : Bool) : List DbgCall × Bool :=
  let idents := fields.idents
  let rec go (i : Nat) : List FieldD → List DbgCall × Bool
    | [] => ([], true)
    | f :: rest =>
      let (cs, ex) := go (i + 1) rest
      let label : Option String :=
        if named then some (String.ofList (unraw (f.name.getD []))) else none
      let binding : Name := f.name.getD ('_' :: (toString i).toList)
      match f.dbg with
      | .skip => (cs, false)
      | .fmt a => (.formatted label a (additionalDerefArgs cc a idents) :: cs, ex)
      | .none => (.value label binding :: cs, ex)
  go 0 fields.list

/-- `Expansion::generate_body` of debug.rs. -/
def debugBody (cc : CharClasses) (fmt : Option FmtAttr) (ident : Name) (fields : FieldsD) : DbgBody :=
  match fmt with
  | some a =>
    match transparentCallOnFields cc a fields.idents with
    | some (expr, tr) => .delegate tr expr
    | none => .write a (additionalDerefArgs cc a fields.idents)
  | none =>
    match fields with
    | .unit => .unit (String.ofList (unraw ident))
    | .unnamed _ =>
      let (cs, ex) := dbgCalls cc fields false
      .tuple (String.ofList (unraw ident)) cs ex
    | .named _ =>
      let (cs, ex) := dbgCalls cc fields true
      .struct (String.ofList (unraw ident)) cs ex

/-- `Expansion::generate_bounds` of debug.rs. -/
def debugBounds (cc : CharClasses) (c : Container) (fields : FieldsD) : List Bound :=
  let user := c.bounds.map Bound.user
  match c.fmt with
  | some a =>
    user ++ (boundedTypes cc a fields.kind).filterMap fun (i, tr) =>
      match fields.list[i]? with
      | some f => if f.generic then some (.field i tr) else none
      | none => none
  | none =>
    user ++ (fields.list.zipIdx.flatMap fun (f, i) =>
      match f.dbg with
      | .fmt a =>
        (boundedTypes cc a fields.kind).filterMap fun (j, tr) =>
          match fields.list[j]? with
          | some g => if g.generic then some (.field j tr) else none
          | none => none
      | .skip => []
      | .none => if f.generic then [.field i .debug] else [])

end Dm.FmtX

namespace Dm.FmtX
open Dm.Fmt

/-- The container attributes of Debug are the common ones: `rename_all` does not parse. -/
def dbgMerge (attrs : List CAttr) : R Container :=
  if attrs.any (fun a => match a with | .rename _ => true | _ => false) then throw .diag
  else mergeAttrs attrs

/-- One variant of `expand_enum` of debug.rs: only literals are accepted on a variant, at most one. -/
def debugVariant (cc : CharClasses) (cont : Container) (v : VariantD) : R (DbgBody × List Bound) := do
  let fmts := v.attrs.filterMap fun a => match a with | .fmt f => some f | _ => none
  if v.attrs.any (fun a => match a with | .fmt _ => false | _ => true) then throw .diag
  if fmts.length > 1 then throw .diag
  let vc : Container := { fmt := fmts.head?, bounds := cont.bounds }
  dbgValidate vc.fmt v.fields
  pure (debugBody cc vc.fmt v.ident v.fields, debugBounds cc vc v.fields)

/-- `expand_enum` of debug.rs: an enum-level literal is rejected. -/
def debugEnum (cc : CharClasses) (attrs : List CAttr) (vs : List VariantD) : R (List (DbgBody × List Bound)) := do
  let cont ← dbgMerge attrs
  if cont.fmt.isSome then throw .diag
  vs.mapM (debugVariant cc cont)

end Dm.FmtX

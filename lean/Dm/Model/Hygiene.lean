/-
Model for C15: which names an expansion template looks up in the caller's scope.

A template is the token tree of one `quote!` / `parse_quote!` body of `impl/src` (regenerated into
`Dm/Gen/Templates.lean` on every run). Identifiers are interned: the first `fixedNames.length` ids are
the names of `fixedNames` in that order (checked by the driver's `gen-selfcheck` against the
regenerated name table), so that classification of a name is arithmetic on its id and every
statement about the table is decidable by kernel evaluation.
-/
namespace Dm.Hyg

/-! ### Names -/

/-- Keywords and other identifiers that are never looked up in a scope (`_`, `self`, `Self`, `crate`,
`super` start paths that do not depend on what the caller has imported or defined). -/
def keywords : List String :=
  ["as", "break", "const", "continue", "crate", "else", "enum", "extern", "false", "fn", "for", "if",
   "impl", "in", "let", "loop", "match", "mod", "move", "mut", "pub", "ref", "return", "self", "Self",
   "static", "struct", "super", "trait", "true", "type", "unsafe", "use", "where", "while", "async",
   "await", "dyn", "_"]

/-- Primitive types: the language prelude, which `#[no_implicit_prelude]` does not remove. (A local
item with one of these names would shadow it; the hostile scopes of C15 are "no prelude" and
"prelude names redefined", which do not include them — stated in the trusted base.) -/
def primitives : List String :=
  ["bool", "char", "str", "u8", "u16", "u32", "u64", "u128", "usize", "i8", "i16", "i32", "i64", "i128",
   "isize", "f32", "f64"]

/-- The one name an expansion may look up in the caller's scope, and the crates reachable through a
leading `::` whatever the scope is. -/
def special : List String := ["derive_more", "std", "core"]

/-- Methods called with `.name(..)` in templates on a literal name, each with the reason why the
call does not depend on a trait being in scope. -/
def methodTable : List (String × String) :=
  [("provide_ref", "inherent method of core::error::Request"),
   ("__extract_ref", "trait ExtractRef is imported by the same template: `use derive_more::__private::ExtractRef as _`"),
   ("as_dyn_error", "trait AsDynError is imported by the enclosing template: `use derive_more::__private::AsDynError`"),
   ("write_str", "inherent method of core::fmt::Formatter"),
   ("to_lowercase", "inherent method of str"),
   ("as_str", "inherent method of String"),
   ("fold", "the receiver's type is a type parameter bounded by `derive_more::core::iter::Iterator` in the same template"),
   ("wrapping_add", "inherent method of the primitive integer types; the receiver is a constant of the enum's `repr` type")]

/-- Names of the associated functions that templates call through a *type* path (`Type::f(..)`,
`Type::<..>::f(..)`) and of the types they are called on. Such a call is an inherent function of that
type (or, for `Error::provide`, a method named through its trait); any other `Type::f` would be looked
up through the traits in the caller's scope. -/
def assocNames : List String :=
  ["new", "DebugStruct", "DebugTuple", "Formatter", "Error", "field", "finish", "finish_non_exhaustive",
   "debug_struct", "provide"]

def fixedNames : List String := keywords ++ primitives ++ special ++ methodTable.map (·.1) ++ assocNames

def nKw : Nat := 39
def nPrim : Nat := 17
def idDeriveMore : Nat := 56
def idStd : Nat := 57
def idCore : Nat := 58
def methodBase : Nat := 59
def nMethods : Nat := 8

example : keywords.length = nKw := rfl
example : primitives.length = nPrim := rfl
example : methodTable.length = nMethods := rfl
def assocBase : Nat := 67
def idNew : Nat := 67
def idDebugStruct : Nat := 68
def idDebugTuple : Nat := 69
def idFormatter : Nat := 70
def idError : Nat := 71
def idField : Nat := 72
def idFinish : Nat := 73
def idFinishNonExhaustive : Nat := 74
def idDebugStructFn : Nat := 75
def idProvide : Nat := 76
def idWriteStr : Nat := 62
example : fixedNames.length = assocBase + assocNames.length := rfl
example : fixedNames[idNew]? = some "new" := rfl
example : fixedNames[idProvide]? = some "provide" := rfl
example : fixedNames[idWriteStr]? = some "write_str" := rfl

/-- `Type::f` pairs that do not depend on the traits in scope. -/
def assocOk (y n : Nat) : Bool :=
  n == idNew
    || ((y == idDebugStruct || y == idDebugTuple) && (n == idField || n == idFinish || n == idFinishNonExhaustive))
    || (y == idFormatter && (n == idDebugStructFn || n == idWriteStr))
    || (y == idError && n == idProvide)

/-- Names outside `fixedNames` are interned as `dynBase + 4 * k + class` (checked by `gen-selfcheck`):
class 0: the first letter is lower-case (or there is none): variables, functions, modules;
class 1: the first letter is upper-case: types, traits, variants, constants;
class 2: the name starts with `__`: derive_more's reserved prefix for the names an expansion
introduces itself (`__AsT`, `__derive_more_f`, `__l_0`, ...). -/
def dynBase : Nat := 100
def isUpper (n : Nat) : Bool :=
  (dynBase ≤ n && n % 4 == 1) || n == idDebugStruct || n == idDebugTuple || n == idFormatter || n == idError   -- DebugStruct, DebugTuple, Formatter, Error
def isPrivate (n : Nat) : Bool := dynBase ≤ n && n % 4 == 2

def isKeyword (n : Nat) : Bool := n < nKw
def isPrimitive (n : Nat) : Bool := nKw ≤ n && n < nKw + nPrim
def isKnownMethod (n : Nat) : Bool := methodBase ≤ n && n < methodBase + nMethods

-- ids of the keywords the analysis looks at (positions in `keywords`)
def kwConst : Nat := 2
def kwEnum : Nat := 6
def kwFn : Nat := 9
def kwLet : Nat := 14
def kwMod : Nat := 17
def kwMut : Nat := 19
def kwStatic : Nat := 25
def kwStruct : Nat := 26
def kwTrait : Nat := 28
def kwType : Nat := 30

/-! ### Token trees -/

inductive Delim where
  | paren | brace | bracket | none
  deriving Repr, DecidableEq, Inhabited

inductive TT where
  | i (n : Nat)                          -- identifier
  | p (c : Nat) (joint : Bool)           -- punctuation character (code point)
  | l                                    -- literal
  | v                                    -- interpolation `#x`: the user's tokens or another template
  | g (d : Delim) (ts : List TT)         -- delimited group
  | r (ts : List TT)                     -- repetition `#( .. )sep*`
  deriving Repr, Inhabited

/-- What the analysis remembers of a neighbouring token. -/
inductive K where
  | ident (n : Nat)
  | punct (c : Nat) (joint : Bool)
  | var
  | group (d : Delim)
  | other
  | start
  deriving Repr, DecidableEq, Inhabited

def TT.kind : TT → K
  | .i n => .ident n
  | .p c j => .punct c j
  | .l => .other
  | .v => .var
  | .g d _ => .group d
  | .r _ => .other

def kindAt (ts : List TT) (i : Nat) : K := (ts[i]?.map TT.kind).getD .start

def cColon : Nat := 58
def cDot : Nat := 46
def cQuote : Nat := 39
def cBang : Nat := 33
def cHash : Nat := 35
def cLt : Nat := 60
def cGt : Nat := 62
def cComma : Nat := 44
def cEq : Nat := 61

/-- An identifier occurrence, classified. -/
inductive Head where
  | path (n : Nat)      -- first segment of a path: looked up in the scope (types / values)
  | ext (n : Nat)       -- `::n::..`: a crate, whatever the scope
  | mac (n : Nat)       -- `n!(..)`: looked up in the macro scope
  | method (n : Nat)    -- `.n(..)`
  | methodVar           -- `.#name(..)`: a method whose name is interpolated
  | assoc (y n : Nat)   -- `Y::n(..)` / `Y::<..>::n(..)`: an associated function called through a type path
  | binder (n : Nat)    -- the template itself introduces this name
  deriving Repr, DecidableEq, Inhabited

/-- Keywords that define an associated item (`fn` / `type` / `const` in the impl blocks expansions
consist of): the name after them is a definition, reachable only as `Self::name`, so it neither is
looked up nor binds a bare name. -/
def isAssocDefKw (n : Nat) : Bool := n == kwFn || n == kwType || n == kwConst

/-- Keywords after which a name is introduced into the expansion's own scope. -/
def isDefKw (n : Nat) : Bool :=
  n == kwStruct || n == kwEnum || n == kwTrait || n == kwMod || n == kwLet || n == kwStatic

/-- Scanning backwards from a `>` (the list is the reversed prefix starting at that `>`): the name of the
type in front of the matching `::<`, if the brackets are a turbofish. `<T as X>::f` and comparisons give `none`. -/
def turbofishType : Nat → Nat → List K → Option Nat
  | 0, _, _ => none
  | _, _, [] => none
  | fuel + 1, depth, k :: rest =>
    match k with
    | .punct c _ =>
      if c = cGt then
        (match rest with
         | .punct d true :: _ => if d = 45 || d = 61 then turbofishType fuel depth rest      -- `->`, `=>`
                                 else turbofishType fuel (depth + 1) rest
         | _ => turbofishType fuel (depth + 1) rest)
      else if c = cLt then
        (if depth = 1 then
          (match rest with
           | .punct c1 _ :: .punct c2 true :: .ident y :: _ => if c1 = cColon && c2 = cColon then some y else none
           | _ => none)
         else turbofishType fuel (depth - 1) rest)
      else turbofishType fuel depth rest
    | _ => turbofishType fuel depth rest

/-- Classification of identifier `n` given the three tokens before it, the two after it, the
delimiter of the enclosing group and the reversed prefix of the current level (`rev`, nearest token first). -/
def classify (_encl : Delim) (rev : List K) (p3 p2 p1 : K) (n : Nat) (n1 n2 : K) : List Head :=
  if p1 = .punct cDot false || p1 = .punct cDot true then
    (match n1 with
     | .group .paren => [.method n]
     | .punct c true => if c = cColon then [.method n] else []     -- `.name::<T>(..)`
     | _ => [])                                                   -- field access
  else if p1 = .punct cQuote true then []                          -- lifetime
  else if (p1 = .punct cColon false || p1 = .punct cColon true) && p2 = .punct cColon true then
    (match p3 with
     | .ident y =>                                                 -- `a::n`; `Type::f(..)` is an associated call
       if isUpper y && !isUpper n && !isPrivate n && n1 = .group .paren then [.assoc y n] else []
     | .var => []                                                  -- `#a::n`
     | .punct c _ =>
       if c = cGt then                                             -- `<T as X>::n` or `Type::<..>::n`
         (match turbofishType (rev.length + 1) 0 (rev.drop 2) with
          | some y => if n1 = .group .paren then [.assoc y n] else []
          | none => [])
       else [.ext n]                                               -- a leading `::`
     | _ => [.ext n])
  else if isKeyword n then []
  else if (match p1 with | .ident k => isAssocDefKw k | _ => false) then []
  else if (match p1 with | .ident k => isDefKw k | _ => false) then [.binder n]
  else if (match n1, n2 with | .punct c _, .group _ => c == cBang | _, _ => false) then [.mac n]
  else if isPrivate n then []                                      -- the expansion's own reserved names
  else if isUpper n then
    (if n1 = .punct cColon false && p1 = .punct cLt false then [.binder n]          -- `<I: ..>` declares `I`
     else if (match n1 with | .punct c _ => c == cEq | _ => false)
        && !(match n2 with | .punct c _ => c == cEq || c == cGt | _ => false)
        && (p1 = .punct cLt false || p1 = .punct cComma false) then []          -- `<Item = ..>`
     else [.path n])
  else
    -- lower-case: a variable (use, binding or field label) unless it is called or starts a path
    (match n1 with
     | .group .paren => [.path n]
     | .punct c true => if c = cColon then [.path n] else []
     | _ => [])

/-- Inside an attribute only macro invocations matter (`#[doc = stringify!(..)]`); the attribute
names themselves are built-in attributes, outside this model. -/
def isAttrPos (p2 p1 : K) : Bool :=
  p1 = .punct cHash false || p1 = .punct cHash true ||
    ((p1 = .punct cBang false || p1 = .punct cBang true) && (p2 = .punct cHash true || p2 = .punct cHash false))

mutual
  /-- `headsFrom encl attr ts i`-style traversal written with explicit neighbours: `p3 p2 p1` are the
  kinds of the three preceding tokens on this level. `attr`: inside an attribute. -/
  def headsL (encl : Delim) (attr : Bool) (rev : List K) (p3 p2 p1 : K) : List TT → List Head
    | [] => []
    | t :: rest =>
      let n1 := (rest.head?.map TT.kind).getD .start
      let n2 := ((rest.drop 1).head?.map TT.kind).getD .start
      headsT encl attr rev p3 p2 p1 n1 n2 t ++ headsL encl attr (t.kind :: rev) p2 p1 t.kind rest
  def headsT (encl : Delim) (attr : Bool) (rev : List K) (p3 p2 p1 n1 n2 : K) : TT → List Head
    | .i n =>
      let hs := classify encl rev p3 p2 p1 n n1 n2
      if attr then hs.filter (fun h => match h with | .mac _ => true | _ => false) else hs
    | .g d ts =>
      let a := attr || (d = .bracket && isAttrPos p2 p1)
      headsL d a [] .start .start .start ts
    | .r ts => headsL encl attr [] .start .start .start ts
    | .v =>
      if !attr && (p1 = .punct cDot false || p1 = .punct cDot true) && n1 = .group .paren then [.methodVar] else []
    | _ => []
end

def heads (ts : List TT) : List Head := headsL .none false [] .start .start .start ts

structure Template where
  file : Nat
  line : Nat
  toks : List TT
  deriving Repr, Inhabited

def bindersOf (ts : List Template) : List Nat :=
  ts.flatMap fun t => (heads t.toks).filterMap fun h => match h with | .binder n => some n | _ => none

/-- A head that is looked up in the caller's scope and is not `derive_more`. -/
def Head.escapes (B : List Nat) : Head → Bool
  | .path n => !(isPrimitive n || n == idDeriveMore || B.contains n)
  -- `::name::..` goes through the extern prelude of the *caller's* crate, where `extern crate a as name;`
  -- (or a dependency called `name`) re-binds any name. The one accepted spelling is
  -- `::std::backtrace::Backtrace` of Error's nightly-only `provide` code: the facade re-exports `core`
  -- but not `std`, and a caller that can name `Backtrace` has `std` linked under that name.
  | .ext n => !(n == idStd)
  | .mac _ => true
  | .method n => !isKnownMethod n
  | .methodVar => true
  | .assoc y n => !assocOk y n
  | .binder _ => false

/-- Files whose templates are bodies of the operator method being implemented (`fn add(self, rhs)
{ self.0.add(rhs.0) }`): the interpolated method name is the method of the trait of the enclosing
impl, which rustc always considers in scope. These are the first entries of the regenerated file
table (checked by `gen-selfcheck`). -/
def currentImplMethodFiles : List String :=
  ["impl/src/add_helpers.rs", "impl/src/add_like.rs", "impl/src/not_like.rs"]
def nCurrentImplFiles : Nat := 3
example : currentImplMethodFiles.length = nCurrentImplFiles := rfl

def Head.escapesIn (B : List Nat) (file : Nat) : Head → Bool
  | .methodVar => !decide (file < nCurrentImplFiles)
  | .path n => (Head.path n).escapes B
  | .ext n => (Head.ext n).escapes B
  | .mac n => (Head.mac n).escapes B
  | .method n => (Head.method n).escapes B
  | .assoc y n => (Head.assoc y n).escapes B
  | .binder n => (Head.binder n).escapes B

def escapingT (B : List Nat) (t : Template) : List Head :=
  (heads t.toks).filter (Head.escapesIn B t.file)

def escaping (B : List Nat) (ts : List TT) : List Head := escapingT B ⟨nCurrentImplFiles, 0, ts⟩

def closed (B : List Nat) (t : Template) : Bool := (escapingT B t).isEmpty

/-! ### Scopes and resolution -/

/-- A caller's scope: what a first path segment and a macro name resolve to there. -/
structure Scope (Item : Type) where
  name : Nat → Option Item
  mac : Nat → Option Item
  /-- method lookup through the traits in scope (`none` as name: interpolated) -/
  meth : Option Nat → Option Item
  /-- the extern prelude of the caller's crate (`::name`): dependencies and `extern crate .. as name;` -/
  ext : Nat → Option Item

/-- What is fixed whatever the caller's scope: the language prelude, the crates and the template's
own bindings. -/
structure Fixed (Item : Type) where
  lang : Nat → Option Item
  crates : Nat → Option Item
  localItem : Nat → Option Item
  methodItem : Nat → Option Item

def resolveHead {Item : Type} (B : List Nat) (fx : Fixed Item) (σ : Scope Item) (file : Nat) : Head → Option Item
  | .path n =>
    if B.contains n then fx.localItem n          -- bound by the expansion itself
    else if isPrimitive n then fx.lang n
    else σ.name n
  | .ext n => if n == idStd then fx.crates n else σ.ext n
  | .mac n => σ.mac n
  | .method n => if isKnownMethod n then fx.methodItem n else σ.meth (some n)   -- unknown: needs a trait from the scope
  | .methodVar => if file < nCurrentImplFiles then fx.methodItem 0 else σ.meth none
  | .assoc y n => if assocOk y n then fx.methodItem n else σ.meth (some n)   -- not inherent: found through a trait in scope
  | .binder n => fx.localItem n

def resolution {Item : Type} (B : List Nat) (fx : Fixed Item) (σ : Scope Item) (t : Template) : List (Option Item) :=
  (heads t.toks).map (resolveHead B fx σ t.file)

end Dm.Hyg

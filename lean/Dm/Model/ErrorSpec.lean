/-
The documented rules for `Error::source` (doc/error.md, property C09), stated only in terms of
positions among **all** fields - no second index space.
-/
import Dm.Model.ErrorSrc

namespace Dm.Err

/-- Non-ignored fields that are candidates for `w`, as positions among all fields:
explicitly marked ones, and (among the unmarked) the ones the naming/typing rules infer. -/
def explicitCands (sh : Shape) (w : Which) : List Nat :=
  ((enabledFields sh).filter fun x => decide (w.value (metaOf x.2.attr) = some true)).map (·.1)

def inferredCands (sh : Shape) (w : Which) : List Nat :=
  ((enabledFields sh).filter fun x =>
    w.value (metaOf x.2.attr) = none && validDefault sh.named w x.2 sh.fields.length).map (·.1)

/-- Explicit before inferred; more than one candidate of a kind is an error. -/
def pick (explicit inferred : List Nat) : R (Option Nat) :=
  match explicit with
  | [i] => pure (some i)
  | [] =>
    (match inferred with
     | [i] => pure (some i)
     | [] => pure none
     | _ => throw .diag)
  | _ => throw .diag

/-- The two-field tuple rule: with a backtrace field at position `b`, the other field is the
source unless it is ignored or marked `not(source)`. -/
def otherOfTwo (sh : Shape) (b : Option Nat) : Option Nat :=
  if sh.fields.length ≠ 2 then none else
  match b with
  | none => none
  | some bi =>
    let other := (bi + 1) % 2
    match (enabledFields sh).find? (fun (i, _) => i = other) with
    | some (_, f) => if (metaOf f.attr).source ≠ some false then some other else none
    | none => none

/-- The field the documented rules select as `source`, as a position among all fields. -/
def documentedSource (sh : Shape) : R (Option Nat) := do
  let s ← pick (explicitCands sh .source) (inferredCands sh .source)
  let b ← pick (explicitCands sh .backtrace) (inferredCands sh .backtrace)
  if sh.named then pure s
  else
    match s with
    | some i => pure (some i)
    | none => pure (otherOfTwo sh b)

end Dm.Err

/-
Model of the crate's own `DebugTuple` / `Padded` (`src/fmt.rs`) and of core's `DebugTuple` /
`PadAdapter` (`library/core/src/fmt/builders.rs`), as functions producing the written text.
A field's `Debug` impl is an arbitrary function from formatter options to the text it writes.
-/
namespace Dm.Dbg

/-- Formatter options: the alternate flag, and everything else (width, fill, precision, sign,
zero, debug-hex) as one opaque tag; `0` is "all default". -/
structure Opts where
  alt : Bool
  rest : Nat
  deriving Repr, DecidableEq, Inhabited

/-- The options `format_args!("{value:#?}")` hands to the value: alternate, nothing else. -/
def freshAlt : Opts := { alt := true, rest := 0 }

abbrev FieldFmt := Opts → List Char

/-- `Padded::write_str` / `PadAdapter::write_str`, character by character: four spaces in front
of the first character after every newline (and at the start). Returns the new `on_newline`. -/
def pad : Bool → List Char → List Char × Bool
  | st, [] => ([], st)
  | st, c :: cs =>
    let (out, st') := pad (c = '\n') cs
    ((if st then ' ' :: ' ' :: ' ' :: ' ' :: c :: out else c :: out), st')

def padStr (s : List Char) : List Char := (pad true s).1

/-- How a builder renders one field in pretty mode, given the text the field wrote. -/
def prettyField (text : List Char) : List Char := padStr (text ++ [',', '\n'])

/-- The crate's `DebugTuple`: `debug_tuple(f, name)`, `.field(..)` per field, then `finish()` or
`finish_non_exhaustive()`. In pretty mode a field is formatted through
`format_args!("{value:#?}")`, i.e. with fresh options. -/
def dmTuple (name : List Char) (fs : List FieldFmt) (exhaustive : Bool) (o : Opts) : List Char :=
  let body : List Char :=
    if o.alt then
      (if fs.isEmpty then [] else ['(', '\n']) ++ (fs.map fun f => prettyField (f freshAlt)).flatten
    else
      (fs.zipIdx.map fun (f, i) => (if i = 0 then ['('] else [',', ' ']) ++ f o).flatten
  let close : List Char :=
    if exhaustive then
      (if fs.isEmpty then []
       else (if fs.length = 1 ∧ name.isEmpty ∧ ¬ o.alt then [','] else []) ++ [')'])
    else
      (if fs.isEmpty then ['(', '.', '.', ')']
       else if o.alt then padStr ['.', '.', '\n'] ++ [')'] else [',', ' ', '.', '.', ')'])
  name ++ body ++ close

/-- core's `DebugTuple`: identical, except that in pretty mode the value is formatted by a
formatter that wraps the output in a `PadAdapter` and **keeps the caller's options**. -/
def stdTuple (name : List Char) (fs : List FieldFmt) (exhaustive : Bool) (o : Opts) : List Char :=
  let body : List Char :=
    if o.alt then
      (if fs.isEmpty then [] else ['(', '\n']) ++ (fs.map fun f => prettyField (f o)).flatten
    else
      (fs.zipIdx.map fun (f, i) => (if i = 0 then ['('] else [',', ' ']) ++ f o).flatten
  let close : List Char :=
    if exhaustive then
      (if fs.isEmpty then []
       else (if fs.length = 1 ∧ name.isEmpty ∧ ¬ o.alt then [','] else []) ++ [')'])
    else
      (if fs.isEmpty then ['(', '.', '.', ')']
       else if o.alt then padStr ['.', '.', '\n'] ++ [')'] else [',', ' ', '.', '.', ')'])
  name ++ body ++ close

end Dm.Dbg

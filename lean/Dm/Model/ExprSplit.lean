/-
Model of the expression scanner of `impl/src/parsing.rs` and of the argument list parsing of
`FmtAttribute` (`impl/src/fmt/mod.rs:114-129, 401-420`), over token trees as proc_macro2 presents
them.
-/
namespace Dm.Split

inductive Delim where
  | paren | bracket | brace | none
  deriving Repr, DecidableEq, Inhabited

/-- `proc_macro2::TokenTree`. Literals and identifiers carry their text; a punct its character
and whether it is `Spacing::Joint`. -/
inductive Tok where
  | ident (s : String)
  | punct (c : Char) (joint : Bool)
  | lit (s : String)
  | group (d : Delim) (ts : List Tok)
  deriving Repr, Inhabited

def Tok.isPunct (c : Char) : Tok → Bool
  | .punct d _ => d = c
  | _ => false

def Tok.isComma (t : Tok) : Bool := t.isPunct ','

/-- `path_sep`: a joint `:` followed by a `:`. Returns the rest. -/
def pathSep : List Tok → Option (List Tok)
  | .punct ':' true :: .punct ':' _ :: r => some r
  | _ => none

/-- The loop of `balanced_pair(open, close)` after the opening token: `count` still to close.
`close` is tried before `open`, any other token tree is consumed; end of input fails. Returns the
consumed tokens (in order) and the rest. -/
def balancedLoop (o c : Char) : List Tok → Nat → Option (List Tok × List Tok)
  | ts, 0 => some ([], ts)
  | [], _ + 1 => none
  | t :: ts, n + 1 =>
    let n' := if t.isPunct c then n else if t.isPunct o then n + 2 else n + 1
    match balancedLoop o c ts n' with
    | some (out, r) => some (t :: out, r)
    | none => none

/-- `balanced_pair(punct(o), punct(c))`: the first token must be `o`. -/
def balancedPair (o c : Char) : List Tok → Option (List Tok × List Tok)
  | t :: ts =>
    if t.isPunct o then
      match balancedLoop o c ts 1 with
      | some (out, r) => some (t :: out, r)
      | none => none
    else none
  | [] => none

/-- One step of the scanner: the `alt([...])` inside `take_until1`. -/
def exprStep (ts : List Tok) : Option (List Tok × List Tok) :=
  -- `::` followed by a balanced `<..>`
  let a1 : Option (List Tok × List Tok) :=
    match ts with
    | p1 :: p2 :: r =>
      (match pathSep ts with
       | some _ =>
         (match balancedPair '<' '>' r with
          | some (out, r') => some (p1 :: p2 :: out, r')
          | none => none)
       | none => none)
    | _ => none
  match a1 with
  | some x => some x
  | none =>
    -- a balanced `<..>` followed by `::`
    let a2 : Option (List Tok × List Tok) :=
      match balancedPair '<' '>' ts with
      | some (out, r) =>
        (match r with
         | p1 :: p2 :: r' =>
           (match pathSep r with
            | some _ => some (out ++ [p1, p2], r')
            | none => none)
         | _ => none)
      | none => none
    match a2 with
    | some x => some x
    | none =>
      match balancedPair '|' '|' ts with
      | some x => some x
      | none =>
        match ts with
        | t :: r => some ([t], r)
        | [] => none

/-- `take_until1(step, punct(','))` with explicit fuel (every step consumes a token). -/
def takeUntilComma : Nat → List Tok → Bool → List Tok → Option (List Tok × List Tok)
  | 0, _, _, _ => none
  | fuel + 1, ts, parsed, out =>
    match ts with
    | [] => if parsed then some (out, []) else none
    | t :: _ =>
      if t.isComma then (if parsed then some (out, ts) else none)
      else
        match exprStep ts with
        | some (consumed, r) => takeUntilComma fuel r true (out ++ consumed)
        | none => none

/-- `Expr`: a lone identifier (followed by `,` or the end), or a token sequence. -/
inductive Expr where
  | ident (s : String)
  | other (ts : List Tok)
  deriving Repr, Inhabited

def Expr.toks : Expr → List Tok
  | .ident s => [.ident s]
  | .other ts => ts

/-- `<Expr as Parse>::parse`. -/
def parseExpr (ts : List Tok) : Option (Expr × List Tok) :=
  match ts with
  | .ident s :: [] => some (.ident s, [])
  | .ident s :: (.punct ',' j) :: r => some (.ident s, .punct ',' j :: r)
  | _ =>
    match takeUntilComma (ts.length + 1) ts false [] with
    | some (out, r) => some (.other out, r)
    | none => none

structure Arg where
  alias : Option String
  expr : Expr
  deriving Repr, Inhabited

/-- Words `syn::Ident` refuses (`input.peek(syn::Ident)` is false for them). -/
def keywords : List String :=
  ["_", "abstract", "as", "async", "await", "become", "box", "break", "const", "continue", "crate",
   "do", "dyn", "else", "enum", "extern", "false", "final", "fn", "for", "if", "impl", "in", "let",
   "loop", "macro", "match", "mod", "move", "mut", "override", "priv", "pub", "ref", "return",
   "Self", "self", "static", "struct", "super", "trait", "true", "try", "type", "typeof", "unsafe",
   "unsized", "use", "virtual", "where", "while", "yield"]

/-- `peek(Ident) && peek2(=) && !peek2(==)`. -/
def startsWithAlias : List Tok → Option (String × List Tok)
  | .ident a :: .punct '=' j :: r =>
    if keywords.contains a then none
    else
      match j, r with
      | true, .punct '=' _ :: _ => none
      | _, _ => some (a, r)
  | _ => none

/-- `FmtArgument::parse`: `ident =` (but not `ident ==`) introduces an alias. -/
def parseArg (ts : List Tok) : Option (Arg × List Tok) :=
  match startsWithAlias ts with
  | some (a, r) =>
    (match parseExpr r with
     | some (e, r') => some ({ alias := some a, expr := e }, r')
     | none => none)
  | none =>
    match parseExpr ts with
    | some (e, r) => some ({ alias := none, expr := e }, r)
    | none => none

/-- `parse_terminated(FmtArgument::parse, Comma)` with fuel. -/
def parseArgsLoop : Nat → List Tok → Option (List Arg)
  | 0, _ => none
  | _ + 1, [] => some []
  | fuel + 1, ts =>
    match parseArg ts with
    | none => none
    | some (a, r) =>
      match r with
      | [] => some [a]
      | t :: r' =>
        if t.isComma then
          match parseArgsLoop fuel r' with
          | some as => some (a :: as)
          | none => none
        else none

/-- The arguments after the literal: an optional comma, then the punctuated list. -/
def parseArgs (ts : List Tok) : Option (List Arg) :=
  match ts with
  | [] => some []
  | t :: r => if t.isComma then parseArgsLoop (r.length + 1) r else parseArgsLoop (ts.length + 1) ts

/-- `ToTokens`: what the arguments re-emit (commas between them, no trailing comma). -/
def Arg.toks (a : Arg) : List Tok :=
  (match a.alias with
   | some n => [Tok.ident n, Tok.punct '=' false]
   | none => []) ++ a.expr.toks

def emitArgs : List Arg → List Tok
  | [] => []
  | [a] => a.toks
  | a :: rest => a.toks ++ Tok.punct ',' false :: emitArgs rest

end Dm.Split

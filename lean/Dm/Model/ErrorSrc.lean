/-
Model of the `source` / `backtrace` field selection of `derive(Error)` (`impl/src/error.rs`:
`parse_fields`, `parse_fields_impl`, `parse_field_impl`, `infer_source_field`) together with the
part of `State` it relies on (which fields are enabled; `impl/src/utils.rs`).

The code has two index spaces: positions among the *enabled* (non-ignored) fields and positions
among *all* fields. They are kept apart here (`enabledIdx`), because confusing them was a defect.
-/
namespace Dm.Err

inductive Outcome where
  | diag
  deriving Repr, DecidableEq, Inhabited

abbrev R (α : Type) := Except Outcome α

/-- One parameter of an `#[error(...)]` attribute. -/
inductive Param where
  | ignore | source | notSource | backtrace | notBacktrace
  deriving Repr, DecidableEq, Inhabited

inductive FName where
  | source | backtrace | other
  deriving Repr, DecidableEq, Inhabited

structure FieldE where
  /-- Field name class (named structs/variants only). -/
  name : FName := .other
  /-- The type is a path whose last segment is `Backtrace` without arguments. -/
  tyBacktrace : Bool := false
  /-- `none`: no `#[error]` attribute; `some ps`: the parameters, in order. -/
  attr : Option (List Param) := none
  deriving Repr, DecidableEq, Inhabited

/-- `MetaInfo` restricted to what `derive(Error)` reads. -/
structure MetaE where
  enabled : Option Bool := none
  source : Option Bool := none
  backtrace : Option Bool := none
  deriving Repr, DecidableEq, Inhabited

/-- `get_meta_info`: an attribute enables; parameters are applied in order, the last one wins. -/
def metaOf : Option (List Param) → MetaE
  | none => {}
  | some ps =>
    ps.foldl (fun (m : MetaE) p =>
      match p with
      | .ignore => { m with enabled := some false }
      | .source => { m with source := some true }
      | .notSource => { m with source := some false }
      | .backtrace => { m with backtrace := some true }
      | .notBacktrace => { m with backtrace := some false }) { enabled := some true }

structure Shape where
  named : Bool
  fields : List FieldE
  /-- `defaults.enabled`: `false` when the struct (or, for an enum, nothing - variants are
  expanded with `enabled: true`) carries `#[error(ignore)]`. -/
  defaultEnabled : Bool := true
  deriving Repr, DecidableEq, Inhabited

def FieldE.enabled (d : Bool) (f : FieldE) : Bool := (metaOf f.attr).enabled.getD d

/-- The enabled fields with their position among all fields. -/
def enabledFields (sh : Shape) : List (Nat × FieldE) :=
  (sh.fields.zipIdx.filter fun (f, _) => f.enabled sh.defaultEnabled).map fun (f, i) => (i, f)

inductive Which where
  | source | backtrace
  deriving Repr, DecidableEq, Inhabited

def Which.value (w : Which) (m : MetaE) : Option Bool :=
  match w with
  | .source => m.source
  | .backtrace => m.backtrace

/-- `is_valid_default_field_for_attr`; `len` is the number of *all* fields. -/
def validDefault (named : Bool) (w : Which) (f : FieldE) (len : Nat) : Bool :=
  match named, w with
  | true, .source => f.name = .source
  | true, .backtrace => f.name = .backtrace || f.tyBacktrace
  | false, .source => len = 1 && !f.tyBacktrace
  | false, .backtrace => f.tyBacktrace

/-- `assert_iter_contains_zero_or_one_item`. -/
def zeroOrOne {α : Type} : List α → R (Option α)
  | [] => pure none
  | [a] => pure (some a)
  | _ => throw .diag

/-- `parse_field_impl`: explicit candidates first, then inferred ones; each at most one.
Returns the position among the enabled fields. -/
def parseField (sh : Shape) (w : Which) : R (Option Nat) := do
  let en := (enabledFields sh).zipIdx        -- ((allIdx, field), enabledIdx)
  let explicit := en.filter fun x => decide (w.value (metaOf x.1.2.attr) = some true)
  let inferred := en.filter fun x =>
    w.value (metaOf x.1.2.attr) = none && validDefault sh.named w x.1.2 sh.fields.length
  match ← zeroOrOne explicit with
  | some (_, k) => pure (some k)
  | none =>
    match ← zeroOrOne inferred with
    | some (_, k) => pure (some k)
    | none => pure none

/-- Position among all fields of the `k`-th enabled field (`field_indexes[k]`). -/
def allIdx (sh : Shape) (k : Nat) : Option Nat := ((enabledFields sh)[k]?).map (·.1)

/-- `infer_source_field`: in a two-field tuple with a backtrace field the *other* field is the
source, unless it is ignored or marked `not(source)`. Works on positions among all fields and
returns a position among the enabled ones. -/
def inferSource (sh : Shape) (backtrace : Option Nat) : Option Nat :=
  if sh.fields.length ≠ 2 then none else
  match backtrace with
  | none => none
  | some b =>
    match allIdx sh b with
    | none => none
    | some bAll =>
      let other := (bAll + 1) % 2
      match (enabledFields sh).findIdx? (fun (i, _) => i = other) with
      | none => none
      | some k =>
        match (enabledFields sh)[k]? with
        | some (_, f) => if (metaOf f.attr).source ≠ some false then some k else none
        | none => none

/-- `parse_fields`: the selected source and backtrace as positions among the enabled fields. -/
def parseFields (sh : Shape) : R (Option Nat × Option Nat) := do
  let s ← parseField sh .source
  let b ← parseField sh .backtrace
  if sh.named then pure (s, b)
  else
    match s with
    | some k => pure (some k, b)
    | none => pure (inferSource sh b, b)

/-- The field `source()` returns, as a position among **all** fields (what the member expression /
match pattern must denote), or `none`. -/
def selectSource (sh : Shape) : R (Option Nat) := do
  let (s, _) ← parseFields sh
  match s with
  | some k => pure (allIdx sh k)
  | none => pure none

/-- `render_enum`: a match arm is generated for the enabled variants only (a variant is disabled
by `#[error(ignore)]` on the variant); a disabled variant's fields and their attributes are not
looked at, and its values reach the catch-all `_ => None` arm. -/
def variantSource (variantIgnored : Bool) (sh : Shape) : R (Option Nat) :=
  if variantIgnored then pure none else selectSource sh

end Dm.Err

/-
Model of the variant accessors: `IsVariant`, `Unwrap`, `TryUnwrap`, `TryInto`
(`impl/src/is_variant.rs`, `unwrap.rs`, `try_unwrap.rs`, `try_into.rs`) and of the part of `State`
that decides which variants / reference kinds are enabled (`impl/src/utils.rs:365-503`).
-/
namespace Dm.Var

/-- Legacy attribute parameters that matter here. -/
inductive Param where
  | ignore | owned | ref | refMut
  deriving Repr, DecidableEq, Inhabited

/-- `MetaInfo` (what one attribute says). -/
structure Meta where
  enabled : Option Bool := none
  owned : Option Bool := none
  ref : Option Bool := none
  refMut : Option Bool := none
  deriving Repr, DecidableEq, Inhabited

/-- `get_meta_info`: any attribute enables; `ignore` disables; last one wins. -/
def metaOf : Option (List Param) → Meta
  | none => {}
  | some ps =>
    ps.foldl (fun (m : Meta) p =>
      match p with
      | .ignore => { m with enabled := some false }
      | .owned => { m with owned := some true }
      | .ref => { m with ref := some true }
      | .refMut => { m with refMut := some true }) { enabled := some true }

/-- `FullMetaInfo`. -/
structure Full where
  enabled : Bool
  owned : Bool
  ref : Bool
  refMut : Bool
  deriving Repr, DecidableEq, Inhabited

def Meta.intoFull (m : Meta) (d : Full) : Full :=
  { enabled := m.enabled.getD d.enabled, owned := m.owned.getD d.owned,
    ref := m.ref.getD d.ref, refMut := m.refMut.getD d.refMut }

/-- `State::new_impl`: the defaults (first attributed variant decides) and the enum-level
attribute on top of them. The `owned` default is the expression as written:
`owned.is_none() && ref_.is_none() || ref_mut.is_none()`. -/
def defaults (enumAttr : Option (List Param)) (variantAttrs : List (Option (List Param))) : Full :=
  let metas := variantAttrs.map metaOf
  let first := metas.find? fun m => m.enabled.isSome
  let base : Full :=
    { enabled := match first with | some m => !(m.enabled.getD true) | none => true
      owned := match first with
        | some m => (m.owned.isNone && m.ref.isNone) || m.refMut.isNone
        | none => true
      ref := false, refMut := false }
  (metaOf enumAttr).intoFull base

def variantInfos (enumAttr : Option (List Param)) (variantAttrs : List (Option (List Param))) : List Full :=
  let d := defaults enumAttr variantAttrs
  variantAttrs.map fun a => (metaOf a).intoFull d

/-! ### Semantics of the accessors on values -/

/-- An enum value: the index of its variant and the payload (field values). -/
structure Val (α : Type) where
  idx : Nat
  payload : List α
  deriving Repr, DecidableEq

/-- `is_x()`: `matches!(self, Enum::X ..)`. -/
def isX {α : Type} (x : Nat) (v : Val α) : Bool := v.idx = x

inductive Unwrapped (α : Type) where
  | ok (payload : List α)
  | panic (actual : Nat)
  deriving Repr, DecidableEq

/-- `unwrap_x*`: own pattern first, then the fall-through re-match over all variants (each arm
panics naming the actual variant). `n` is the number of variants. -/
def unwrapX {α : Type} (n x : Nat) (v : Val α) : Option (Unwrapped α) :=
  if v.idx = x then some (.ok v.payload)
  else if v.idx < n then some (.panic v.idx) else none

/-- `try_unwrap_x*`: the error carries the unchanged input. -/
def tryUnwrapX {α : Type} (n x : Nat) (v : Val α) : Option (Except (Val α × Nat) (List α)) :=
  if v.idx = x then some (.ok v.payload)
  else if v.idx < n then some (.error (v, v.idx)) else none

/-! ### TryInto: grouping -/

/-- A variant as TryInto sees it: its index and the (opaque) types of its non-ignored fields with
their positions among all fields. -/
structure VarT where
  idx : Nat
  arity : Nat                 -- number of all fields
  enabledTys : List String
  enabledIdx : List Nat
  deriving Repr, DecidableEq, Inhabited

/-- The group of an impl `TryFrom<Enum> for (tys)`: all enabled variants whose non-ignored field
types are exactly `tys`. -/
def groupOf (vs : List VarT) (tys : List String) : List VarT := vs.filter fun v => v.enabledTys = tys

/-- `try_from(value)` of the impl for `tys`: the or-pattern over the group's matchers (ignored
fields are `_`), else the error with the original value. -/
def tryInto {α : Type} (vs : List VarT) (tys : List String) (v : Val α) (d : α) :
    Except (Val α) (List α) :=
  match (groupOf vs tys).find? fun g => g.idx = v.idx with
  | some g => .ok (g.enabledIdx.map fun i => v.payload.getD i d)
  | none => .error v

end Dm.Var

import Dm.Model.TyGen

namespace Dm.TyGen

/-! Independent reading of "the type mentions a type parameter": the identifiers that stand in
type position - a path that is a single bare identifier, or the first segment (without arguments)
of a longer path such as `T::Item` - collected over the whole type. -/
mutual
  def tyIdents : Ty → List Name
    | .path qself segs =>
      (match qself with | some q => tyIdents q | none => []) ++ segsIdents true segs
    | .elem t => tyIdents t
    | .bareFn ins out => tysIdents ins ++ (match out with | some t => tyIdents t | none => [])
    | .tuple es => tysIdents es
    | .traitObj bs => boundsIdents bs
    | .opaque => []
  def tysIdents : List Ty → List Name
    | [] => []
    | t :: ts => tyIdents t ++ tysIdents ts
  def segsIdents (first : Bool) : List Seg → List Name
    | [] => []
    | .mk i args :: rest =>
      (match args with
       | .none => if first then [i] else []
       | .angle as => gargsIdents as
       | .paren ins out => tysIdents ins ++ (match out with | some t => tyIdents t | none => []))
      ++ segsIdents false rest
  def gargsIdents : List GArg → List Name
    | [] => []
    | .ty t :: r => tyIdents t ++ gargsIdents r
    | .assocTy t :: r => tyIdents t ++ gargsIdents r
    | .other :: r => gargsIdents r
  def boundsIdents : List (List Seg) → List Name
    | [] => []
    | b :: bs => segsIdents true b ++ boundsIdents bs
end

end Dm.TyGen

/-
Model for C19: what an expansion can observe besides the derive input.

The facts about the source (`Dm/Gen/HashSites.lean`) are regenerated on every run: every mention of
a hashed collection in `impl/src` with what it resolves to, whether the crate's `HashMap`/`HashSet`
aliases instantiate std's collections with `DeterministicState`, whether that builds
`DefaultHasher::default()`, and every mention of global state or an impure source.
-/
namespace Dm.Det

inductive Origin where
  | utilsAlias      -- `crate::utils::HashMap` / `HashSet`
  | std             -- std's own alias (third parameter defaults to `RandomState`)
  | unknown
  deriving Repr, DecidableEq, Inhabited

structure Mention where
  file : Nat
  line : Nat
  origin : Origin
  deriving Repr, DecidableEq, Inhabited

structure Facts where
  mentions : List Mention
  aliasesUseDeterministicState : Bool
  deterministicStateIsDefaultHasher : Bool
  /-- statics, thread-locals, clocks, random sources, environment, files, process/thread ids -/
  impureMentions : List (Nat × Nat)
  deriving Repr, Inhabited

def siteFixed (f : Facts) (m : Mention) : Bool :=
  m.origin == .utilsAlias && f.aliasesUseDeterministicState && f.deterministicStateIsDefaultHasher

def allSitesFixed (f : Facts) : Bool := f.mentions.all (siteFixed f)

def noGlobalState (f : Facts) : Bool := f.impureMentions.isEmpty

/-- What differs between two runs of the same expansion. -/
structure World (Item : Type) where
  /-- the keys `RandomState::new()` draws in this process / thread / at this moment -/
  seed : Nat
  /-- the items expanded before in this process -/
  history : List Item

/-- An expander, abstractly: tokens are emitted from the item, from the iteration order of each hashed
collection it fills (site `k`, keys in insertion order) and from whatever global state it reads.
`ord none` is the iteration order under the fixed hasher, `ord (some s)` under a hasher seeded with `s`;
`global` is what earlier expansions left behind. Both are arbitrary. -/
structure Expander (Item Key Tok G : Type) where
  ord : Option Nat → List Key → List Key
  global : List Item → G
  keys : Item → Nat → List Key
  emit : Item → (Nat → List Key) → Option G → List Tok

/-- Running the expander of a source described by `f` (site `k` is the `k`-th mention). -/
def Expander.run {Item Key Tok G : Type} (E : Expander Item Key Tok G) (f : Facts) (w : World Item) (it : Item) : List Tok :=
  E.emit it
    (fun k =>
      let fixed := (f.mentions[k]?.map (siteFixed f)).getD true      -- no such site: nothing is iterated
      E.ord (if fixed then none else some w.seed) (E.keys it k))
    (if noGlobalState f then none else some (E.global w.history))

end Dm.Det

/-
Model of the legacy attribute parser (`impl/src/utils.rs`: `get_meta_info`,
`parse_punctuated_nested_meta`), which reads `#[deref(forward)]`, `#[try_into(owned, ref)]`,
`#[error(not(source))]`, `#[into_iterator(ignore)]` ... for 20 of the derives.
-/
namespace Dm.Legacy

inductive Name where
  | ignore | forward | owned | ref | refMut | source | backtrace
  | other (k : Nat)          -- any other identifier (`skip`, `types`, a typo, another derive's parameter)
  deriving Repr, DecidableEq, Inhabited

/-- One element of the comma-separated list inside the attribute's parentheses. -/
inductive Meta where
  | path (n : Name)                       -- `forward`
  | list (n : Name) (args : List Meta)    -- `owned(..)`
  | notList (args : List Meta)            -- `not(..)`
  deriving Repr, Inhabited

inductive Slot where
  | enabled | forward | owned | ref | refMut | source | backtrace
  deriving Repr, DecidableEq, Inhabited

/-- `MetaInfo`: every field is `None` until a parameter sets it. -/
abbrev Info := Slot → Option Bool

def Info.empty : Info := fun _ => none
def Info.set (i : Info) (s : Slot) (v : Bool) : Info := fun t => if t = s then some v else i t

/-- `wrapper_name`. -/
inductive Wrapper where
  | none | not | named (n : Name)
  deriving Repr, DecidableEq, Inhabited

/-- The `set` helper: a parameter may be given once. -/
def setOnce (i : Info) (s : Slot) (v : Bool) : Except Unit Info :=
  if (i s).isSome then throw () else pure (i.set s v)

/-- `ignore`: `enabled` is pre-set to `true` by the presence of the attribute; a second `ignore` is a repetition. -/
def setIgnore (i : Info) : Except Unit Info :=
  if i .enabled = some false then throw () else pure (i.set .enabled false)

/-- The match on `(wrapper_name, attr_name)` of the `Meta::Path` arm. -/
def pathAction (w : Wrapper) (n : Name) (i : Info) : Except Unit Info :=
  match w, n with
  | .none, .ignore => setIgnore i
  | .none, .forward => setOnce i .forward true
  | .not, .forward => setOnce i .forward false
  | .none, .owned => setOnce i .owned true
  | .none, .ref => setOnce i .ref true
  | .none, .refMut => setOnce i .refMut true
  | .none, .source => setOnce i .source true
  | .not, .source => setOnce i .source false
  | .none, .backtrace => setOnce i .backtrace true
  | .not, .backtrace => setOnce i .backtrace false
  | _, _ => throw ()

mutual
  /-- `parse_punctuated_nested_meta` (the `types` arm is unreachable: no derive allows `types`). -/
  def parseMetas (allowed : List Name) (w : Wrapper) : List Meta → Info → Except Unit Info
    | [], i => pure i
    | m :: rest, i =>
      match parseMeta allowed w m i with
      | .ok i' => parseMetas allowed w rest i'
      | .error e => .error e
  def parseMeta (allowed : List Name) (w : Wrapper) : Meta → Info → Except Unit Info
    | .notList args, i =>
      if w ≠ .none then throw () else parseMetas allowed .not args i
    | .list n args, i =>
      if !allowed.contains n then throw () else
      match w, n with
      | .none, .owned =>
        (match setOnce i .owned true with
         | .ok i' => parseMetas allowed (.named .owned) args i'
         | .error e => .error e)
      | .none, .ref =>
        (match setOnce i .ref true with
         | .ok i' => parseMetas allowed (.named .ref) args i'
         | .error e => .error e)
      | .none, .refMut =>
        (match setOnce i .refMut true with
         | .ok i' => parseMetas allowed (.named .refMut) args i'
         | .error e => .error e)
      | _, _ => throw ()
    | .path n, i =>
      if !allowed.contains n then throw () else pathAction w n i
end

/-- The forms an attribute can have. -/
inductive AttrForm where
  | word                         -- `#[deref]`
  | list (metas : List Meta)     -- `#[deref(..)]`
  | nameValue                    -- `#[deref = ..]`
  deriving Repr, Inhabited

/-- `get_meta_info` for the attributes named after the derive at one position. -/
def getMetaInfo (allowed : List Name) (attrs : List AttrForm) : Except Unit Info :=
  match attrs with
  | [] => pure Info.empty
  | a :: more =>
    if allowed.isEmpty then throw ()                 -- "Attribute is not allowed here"
    else if !more.isEmpty then throw ()              -- "Only a single attribute is allowed"
    else
      let i := Info.empty.set .enabled true
      match a with
      | .word => if allowed.contains .ignore then pure i else throw ()
      | .nameValue => throw ()
      | .list metas => parseMetas allowed .none metas i

end Dm.Legacy

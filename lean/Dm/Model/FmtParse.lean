/-
Model of `impl/src/fmt/parsing.rs` (the hand-written std::fmt literal parser of derive_more)
and of `Placeholder::parse_fmt_string` (`impl/src/fmt/mod.rs`), combinator by combinator,
over `List Char`.  Import-free so that the driver links as a `lean_exe`.

Conventions: a parser returns `Option (rest × value)` exactly like the Rust one
(`Option<(LeftToParse, T)>`); Unicode classes are parameters (`CharClasses`).
-/
namespace Dm.Fmt

/-- `XID_Start` / `XID_Continue` / `char::is_whitespace` as parameters. -/
structure CharClasses where
  isStart : Char → Bool
  isCont  : Char → Bool
  isWs    : Char → Bool

inductive Arg where
  | int (n : Nat)
  | ident (s : List Char)
  deriving Repr, DecidableEq, Inhabited

inductive Align where
  | left | center | right
  deriving Repr, DecidableEq, Inhabited

inductive Sign where
  | plus | minus
  deriving Repr, DecidableEq, Inhabited

inductive Count where
  | int (n : Nat)
  | param (a : Arg)
  deriving Repr, DecidableEq, Inhabited

inductive Precision where
  | count (c : Count)
  | star
  deriving Repr, DecidableEq, Inhabited

inductive Ty where
  | display | debug | lowerDebug | upperDebug | octal | lowerHex | upperHex
  | pointer | binary | lowerExp | upperExp
  deriving Repr, DecidableEq, Inhabited

structure Spec where
  align : Option (Option Char × Align)
  sign  : Option Sign
  alt   : Bool
  zero  : Bool
  width : Option Count
  prec  : Option Precision
  ty    : Ty
  deriving Repr, DecidableEq, Inhabited

structure Format where
  arg  : Option Arg
  spec : Option Spec
  deriving Repr, DecidableEq, Inhabited

/-- `usize::MAX` on the 64-bit targets the proc-macro runs on. -/
def usizeMax : Nat := 18446744073709551615

def isDigit (c : Char) : Bool := c.isDigit

def digitVal (c : Char) : Nat := c.toNat - 48

/-- Value of a digit string (most significant first). -/
def digitsVal (ds : List Char) : Nat := ds.foldl (fun a c => a * 10 + digitVal c) 0

/-- `integer`: `take_while1(is_ascii_digit)` then `str::parse::<usize>()`; overflow fails. -/
def integer (s : List Char) : Option (List Char × Nat) :=
  match s.takeWhile isDigit with
  | [] => none
  | ds => if digitsVal ds ≤ usizeMax then some (s.dropWhile isDigit, digitsVal ds) else none

/-- `identifier`: `XID_Start XID_Continue* | '_' XID_Continue+`. -/
def identifier (cc : CharClasses) : List Char → Option (List Char × List Char)
  | [] => none
  | c :: cs =>
    if cc.isStart c then
      some (cs.dropWhile cc.isCont, c :: cs.takeWhile cc.isCont)
    else if c = '_' then
      match cs.takeWhile cc.isCont with
      | [] => none
      | t => some (cs.dropWhile cc.isCont, '_' :: t)
    else none

/-- `argument := identifier | integer` (identifier is tried first). -/
def argument (cc : CharClasses) (s : List Char) : Option (List Char × Arg) :=
  match identifier cc s with
  | some (r, i) => some (r, .ident i)
  | none =>
    match integer s with
    | some (r, n) => some (r, .int n)
    | none => none

/-- `parameter := argument '$'`. -/
def parameter (cc : CharClasses) (s : List Char) : Option (List Char × Arg) :=
  match argument cc s with
  | some ('$' :: r, a) => some (r, a)
  | _ => none

/-- `count := parameter | integer` (parameter is tried first). -/
def count (cc : CharClasses) (s : List Char) : Option (List Char × Count) :=
  match parameter cc s with
  | some (r, a) => some (r, .param a)
  | none =>
    match integer s with
    | some (r, n) => some (r, .int n)
    | none => none

/-- `precision := count | '*'`. -/
def precision (cc : CharClasses) (s : List Char) : Option (List Char × Precision) :=
  match count cc s with
  | some (r, c) => some (r, .count c)
  | none =>
    match s with
    | '*' :: r => some (r, .star)
    | _ => none

def alignOf (c : Char) : Option Align :=
  if c = '<' then some .left else if c = '^' then some .center
  else if c = '>' then some .right else none

/-- `[[fill] align]`: first "any char then align", then "align". -/
def fillAlign (s : List Char) : List Char × Option (Option Char × Align) :=
  match s with
  | f :: a :: r =>
    match alignOf a with
    | some al => (r, some (some f, al))
    | none =>
      match alignOf f with
      | some al => (a :: r, some (none, al))
      | none => (s, none)
  | [f] =>
    match alignOf f with
    | some al => ([], some (none, al))
    | none => (s, none)
  | [] => (s, none)

def signOf (s : List Char) : List Char × Option Sign :=
  match s with
  | '+' :: r => (r, some .plus)
  | '-' :: r => (r, some .minus)
  | _ => (s, none)

def altOf (s : List Char) : List Char × Bool :=
  match s with
  | '#' :: r => (r, true)
  | _ => (s, false)

/-- `'0'` followed by a lookahead "next character exists and is not `$`". -/
def zeroOf (s : List Char) : List Char × Bool :=
  match s with
  | '0' :: c :: r => if c = '$' then (s, false) else (c :: r, true)
  | _ => (s, false)

/-- Skips `[ws]*` (whitespace allowed by std::fmt before the closing brace). -/
def skipWs (cc : CharClasses) (s : List Char) : List Char := s.dropWhile cc.isWs

/-- `type_`; `Display` only when (after optional whitespace) the next character is `}`. -/
def type_ (cc : CharClasses) (s : List Char) : Option (List Char × Ty) :=
  match s with
  | 'x' :: '?' :: r => some (r, .lowerDebug)
  | 'X' :: '?' :: r => some (r, .upperDebug)
  | '?' :: r => some (r, .debug)
  | 'o' :: r => some (r, .octal)
  | 'x' :: r => some (r, .lowerHex)
  | 'X' :: r => some (r, .upperHex)
  | 'p' :: r => some (r, .pointer)
  | 'b' :: r => some (r, .binary)
  | 'e' :: r => some (r, .lowerExp)
  | 'E' :: r => some (r, .upperExp)
  | _ =>
    match skipWs cc s with
    | '}' :: _ => some (s, .display)
    | _ => none

def formatSpec (cc : CharClasses) (s : List Char) : Option (List Char × Spec) :=
  let (s1, al) := fillAlign s
  let (s2, sg) := signOf s1
  let (s3, alt) := altOf s2
  let (s4, zp) := zeroOf s3
  let (s5, w) : List Char × Option Count :=
    match count cc s4 with
    | some (r, c) => (r, some c)
    | none => (s4, none)
  let precRes : Option (List Char × Option Precision) :=
    match s5 with
    | '.' :: r =>
      match precision cc r with
      | some (r', p) => some (r', some p)
      | none => none
    | _ => some (s5, none)
  match precRes with
  | none => none
  | some (s6, p) =>
    match type_ cc s6 with
    | none => none
    | some (s7, ty) =>
      some (s7, { align := al, sign := sg, alt := alt, zero := zp, width := w, prec := p, ty := ty })

/-- `format := '{' [argument] [':' format_spec] [ws]* '}'`. -/
def format (cc : CharClasses) (s : List Char) : Option (List Char × Format) :=
  match s with
  | '{' :: s0 =>
    let (s1, arg) : List Char × Option Arg :=
      match argument cc s0 with
      | some (r, a) => (r, some a)
      | none => (s0, none)
    let specRes : Option (List Char × Option Spec) :=
      match s1 with
      | ':' :: r =>
        match formatSpec cc r with
        | some (r', sp) => some (r', some sp)
        | none => none
      | _ => some (s1, none)
    match specRes with
    | none => none
    | some (s2, spec) =>
      match skipWs cc s2 with
      | '}' :: r => some (r, { arg := arg, spec := spec })
      | _ => none
  | _ => none

/-- `maybe_format := '{{' | '}}' | format`. -/
def maybeFormat (cc : CharClasses) (s : List Char) : Option (List Char × Option Format) :=
  match s with
  | '{' :: '{' :: r => some (r, none)
  | '}' :: '}' :: r => some (r, none)
  | _ =>
    match format cc s with
    | some (r, f) => some (r, some f)
    | none => none

def isBrace (c : Char) : Bool := c = '{' || c = '}'

/-- `text`: one or more characters, none of them a brace. -/
def text (s : List Char) : Option (List Char × List Char) :=
  match s.takeWhile (fun c => !isBrace c) with
  | [] => none
  | t => some (s.dropWhile (fun c => !isBrace c), t)

/-- The `iter::repeat(()).scan(..)` loop of `format_string`, with explicit fuel. -/
def formatLoop (cc : CharClasses) : Nat → List Char → List Format × List Char
  | 0, s => ([], s)
  | fuel + 1, s =>
    match maybeFormat cc s with
    | some (r, f) =>
      let (fs, r') := formatLoop cc fuel r
      (match f with
       | some f => f :: fs
       | none => fs, r')
    | none =>
      match text s with
      | some (r, _) => formatLoop cc fuel r
      | none => ([], s)

/-- `format_string`: `None` unless everything is consumed. -/
def formatString (cc : CharClasses) (s : List Char) : Option (List Format) :=
  let s0 := match text s with
    | some (r, _) => r
    | none => s
  match formatLoop cc (s0.length + 1) s0 with
  | (fs, []) => some fs
  | _ => none

/-! ### Placeholders (`impl/src/fmt/mod.rs`, `Placeholder::parse_fmt_string`) -/

inductive Trait where
  | display | debug | octal | lowerHex | upperHex | pointer | binary | lowerExp | upperExp
  deriving Repr, DecidableEq, Inhabited

def Ty.trait : Ty → Trait
  | .display => .display
  | .debug | .lowerDebug | .upperDebug => .debug
  | .octal => .octal
  | .lowerHex => .lowerHex
  | .upperHex => .upperHex
  | .pointer => .pointer
  | .binary => .binary
  | .lowerExp => .lowerExp
  | .upperExp => .upperExp

def Ty.isTrivial : Ty → Bool
  | .lowerDebug | .upperDebug => false
  | _ => true

inductive Param where
  | pos (n : Nat)
  | named (s : List Char)
  deriving Repr, DecidableEq, Inhabited

structure Placeholder where
  arg : Param
  mods : Bool
  trait : Trait
  deriving Repr, DecidableEq, Inhabited

def Spec.hasModifiers (s : Spec) : Bool :=
  s.align.isSome || s.sign.isSome || s.alt || s.zero || s.width.isSome || s.prec.isSome
    || !s.ty.isTrivial

def Format.hasModifiers (f : Format) : Bool :=
  match f.spec with
  | some s => s.hasModifiers
  | none => false

def Format.ty (f : Format) : Ty :=
  match f.spec with
  | some s => s.ty
  | none => .display

def Format.isStar (f : Format) : Bool :=
  match f.spec with
  | some s => s.prec == some .star
  | none => false

/-- The placeholder list with the implicit positional counter `n`: a `.*` precision takes the
next implicit position first, an explicit argument does not advance the counter. -/
def placeholdersFrom : Nat → List Format → List Placeholder
  | _, [] => []
  | n, f :: fs =>
    let n1 := if f.isStar then n + 1 else n
    match f.arg with
    | some (.int i) =>
      { arg := .pos i, mods := f.hasModifiers, trait := f.ty.trait } :: placeholdersFrom n1 fs
    | some (.ident i) =>
      { arg := .named i, mods := f.hasModifiers, trait := f.ty.trait } :: placeholdersFrom n1 fs
    | none =>
      { arg := .pos n1, mods := f.hasModifiers, trait := f.ty.trait } :: placeholdersFrom (n1 + 1) fs

/-- `Placeholder::parse_fmt_string`: an unparsable literal yields no placeholders. -/
def parseFmtString (cc : CharClasses) (s : List Char) : List Placeholder :=
  match formatString cc s with
  | some fs => placeholdersFrom 0 fs
  | none => []

end Dm.Fmt

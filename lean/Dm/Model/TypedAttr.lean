/-
Model of the *typed* attribute parsers (`impl/src/utils.rs`, `mod attr`: `Empty`, `Forward`, `Skip`, `Types`,
`Either`, `Conversion`, `FieldConversion`, `ReprConversion`, `ParseMultiple::parse_attrs_with` /
`merge_attrs`) and of the `Into` derive's own `ConversionsAttribute` / `FieldAttribute` /
`check_legacy_syntax` (`impl/src/into.rs`), and `ConsiderLegacySyntax` of `impl/src/from.rs`.

An attribute is seen the way `syn` hands it to these parsers: `#[name]` or `#[name(items)]`, the items
being the comma-separated arguments, each classified by what `syn` can parse it as.
-/
namespace Dm.TypedAttr

/-- A single identifier. Every identifier except the keyword `ref` is also a type path. -/
inductive W where
  | forward | skip | ignore | repr | owned | ref | refMut | types
  | other (k : Nat)
  deriving Repr, DecidableEq, Inhabited

/-- One comma-separated argument. -/
inductive Item where
  | word (w : W)                                          -- `forward`, `u8`
  | pathTy (k : Nat)                                      -- a type that is a path but no identifier: `Vec<u8>`, `a::B`
  | otherTy (k : Nat)                                     -- a type that is no path: `&'static str`, `(u8, u8)`, `[u8; 2]`
  | strLit                                                -- `"u8"`
  | intLit                                                -- `1`  (neither a type nor a meta)
  | call (w : W) (args : List Item) (trailing : Bool)     -- `w(args)` / `w(args,)`
  deriving Repr, Inhabited

structure Args where
  items : List Item
  /-- a comma after the last item (only meaningful when there is an item) -/
  trailing : Bool := false
  deriving Repr, Inhabited

inductive Attr where
  | bare                  -- `#[name]`
  | list (a : Args)       -- `#[name(...)]`
  deriving Repr, Inhabited

/-- `syn::Type::parse` succeeds on the item and consumes all of it. `w(args)` is no type: this `syn` reads
parenthesised generic arguments (`Fn(A)`) in trait-bound position only, so `Type::parse` stops before the `(`. -/
def isType : Item → Bool
  | .word .ref => false
  | .word _ => true
  | .pathTy _ => true
  | .otherTy _ => true
  | _ => false

def allTypes (l : List Item) : Bool := l.all isType

/-! ### `mod attr` -/

/-- What one attribute (or several merged ones) means. `skip` and `ignore` differ in diagnostics only. -/
inductive Conv where
  | empty | skip | forward
  | types (tys : List Item)
  deriving Repr, Inhabited

/-- `Empty::parse_attr_with`: only `#[name]` (`attr.meta` is a `Meta::Path`). -/
def pEmpty : Attr → Option Conv
  | .bare => some .empty
  | _ => none

/-- `Forward::parse` under `parse_args_with`: the path `forward` and nothing after it. -/
def pForward : Attr → Option Conv
  | .list ⟨[.word .forward], false⟩ => some .forward
  | _ => none

/-- `Skip::parse` under `parse_args_with`. -/
def pSkip : Attr → Option Conv
  | .list ⟨[.word .skip], false⟩ => some .skip
  | .list ⟨[.word .ignore], false⟩ => some .skip
  | _ => none

/-- The first item starts with the path `types` (what `ConsiderLegacySyntax` of from.rs looks for; it then
always fails, with the legacy message or with the error of `parenthesized!`). -/
def startsWithTypes : List Item → Bool
  | .word .types :: _ => true
  | .call .types _ _ :: _ => true
  | _ => false

/-- `Types::parse` under `parse_args_with` (`parse_terminated(Type)`); `legacy`: through from.rs's
`ConsiderLegacySyntax`. `#[name]` has no argument list to parse. -/
def pTypes (legacy : Bool) : Attr → Option Conv
  | .bare => none
  | .list a =>
    if legacy && startsWithTypes a.items then none
    else if a.items.isEmpty && a.trailing then none        -- `#[name(,)]`
    else if allTypes a.items then some (.types a.items) else none

/-- `Either::parse_attr_with`: the left parser, or else the right one. -/
def orElse (l r : Attr → Option Conv) (a : Attr) : Option Conv :=
  match l a with
  | some c => some c
  | none => r a

/-- `attr::Conversion` = `Either<Forward, Types>`. -/
def pConversion (legacy : Bool) : Attr → Option Conv := orElse pForward (pTypes legacy)

/-- `attr::FieldConversion` = `Either<Empty, Either<Skip, Either<Forward, Types>>>`. -/
def pFieldConversion (legacy : Bool) : Attr → Option Conv :=
  orElse pEmpty (orElse pSkip (orElse pForward (pTypes legacy)))

/-- `merge_attrs` through the `Either` nesting: only two `Types` merge (by concatenation); two of the same other
kind are "only single … allowed", two different kinds "only single kind … allowed". -/
def Conv.merge : Conv → Conv → Option Conv
  | .types a, .types b => some (.types (a ++ b))
  | _, _ => none

/-- `ParseMultiple::parse_attrs_with`: the attributes of the derive's name, in source order, folded with
`merge_attrs`; `none` when one of them does not parse or a merge is refused. The result `some none`: no attribute. -/
def parseAttrsFrom (p : Attr → Option Conv) : Option Conv → List Attr → Option (Option Conv)
  | acc, [] => some acc
  | none, a :: rest =>
    match p a with
    | some c => parseAttrsFrom p (some c) rest
    | none => none
  | some prev, a :: rest =>
    match p a with
    | some c =>
      match prev.merge c with
      | some m => parseAttrsFrom p (some m) rest
      | none => none
    | none => none

def parseAttrs (p : Attr → Option Conv) (attrs : List Attr) : Option (Option Conv) := parseAttrsFrom p none attrs

/-! ### `ReprConversion` (TryFrom) -/

inductive ReprConv where
  | discriminant
  | types (tys : List Item)
  deriving Repr, Inhabited

/-- `ReprConversion::parse` under `parse_args_with`: the identifier `repr`, then either nothing or one
parenthesised terminated list of types, then nothing. -/
def pRepr : Attr → Option ReprConv
  | .list ⟨[.word .repr], false⟩ => some .discriminant
  | .list ⟨[.call .repr args tr], false⟩ =>
    if args.isEmpty && tr then none else if allTypes args then some (.types args) else none
  | _ => none

def ReprConv.merge : ReprConv → ReprConv → Option ReprConv
  | .types a, .types b => some (.types (a ++ b))
  | _, _ => none

def parseReprFrom : Option ReprConv → List Attr → Option (Option ReprConv)
  | acc, [] => some acc
  | none, a :: rest =>
    match pRepr a with
    | some c => parseReprFrom (some c) rest
    | none => none
  | some prev, a :: rest =>
    match pRepr a with
    | some c =>
      match prev.merge c with
      | some m => parseReprFrom (some m) rest
      | none => none
    | none => none

def parseRepr (attrs : List Attr) : Option (Option ReprConv) := parseReprFrom none attrs

/-- try_from.rs: `#[try_from(repr(<types>))]` parses but "is not supported yet"; without any `#[try_from]` the
derive expands to nothing (`some false`), with `#[try_from(repr)]` to the conversion (`some true`). -/
def tryFromItem (attrs : List Attr) : Option Bool :=
  match parseRepr attrs with
  | some none => some false
  | some (some .discriminant) => some true
  | _ => none

/-! ### `Into` -/

structure Convs where
  consider : Bool := false
  tys : List Item := []
  deriving Repr, Inhabited

structure ConvsAttr where
  owned : Convs := {}
  ref : Convs := {}
  refMut : Convs := {}
  deriving Repr, Inhabited

def ConvsAttr.dflt : ConvsAttr := { owned := { consider := true } }

def Convs.merge (a b : Convs) : Convs := { consider := a.consider || b.consider, tys := a.tys ++ b.tys }

def ConvsAttr.merge (a b : ConvsAttr) : ConvsAttr :=
  { owned := a.owned.merge b.owned, ref := a.ref.merge b.ref, refMut := a.refMut.merge b.refMut }

/-- State of the `while !input.is_empty()` loop of `ConversionsAttribute::parse`. -/
structure Loop where
  out : ConvsAttr := {}
  wrapped : Bool := false      -- `has_wrapped_type`
  top : Bool := false          -- `top_level_type.is_some()`
  deriving Repr, Inhabited

/-- `parse_inner`: `w` alone sets `consider_fields_ty`; `w(tys)` adds the types. -/
def inner (c : Convs) : Item → Option Convs
  | .word _ => some { c with consider := true }
  | .call _ args tr =>
    if args.isEmpty && tr then none else if allTypes args then some { c with tys := c.tys ++ args } else none
  | _ => none

/-- One iteration of the loop on one item (the comma handling never fails on a comma-separated list). -/
def loopStep (s : Loop) (it : Item) : Option Loop :=
  match it with
  | .word .owned | .call .owned _ _ =>
    (inner s.out.owned it).map fun c => { s with out := { s.out with owned := c }, wrapped := true }
  | .word .ref | .call .ref _ _ =>
    (inner s.out.ref it).map fun c => { s with out := { s.out with ref := c }, wrapped := true }
  | .word .refMut | .call .refMut _ _ =>
    (inner s.out.refMut it).map fun c => { s with out := { s.out with refMut := c }, wrapped := true }
  | _ =>
    if isType it then some { s with out := { s.out with owned := { s.out.owned with tys := s.out.owned.tys ++ [it] } }, top := true }
    else none

def loopFrom : Loop → List Item → Option Loop
  | s, [] => some s
  | s, it :: rest =>
    match loopStep s it with
    | some s' => loopFrom s' rest
    | none => none

/-- `ConversionsAttribute::parse` (without the legacy check): the loop, then the refusal to mix plain types
with `owned`/`ref`/`ref_mut`. An empty argument list `#[into()]` gives the all-empty attribute. -/
def pConvsArgs (a : Args) : Option ConvsAttr :=
  if a.items.isEmpty && a.trailing then none else
  match loopFrom {} a.items with
  | some s => if s.top && s.wrapped then none else some s.out
  | none => none

/-! `check_legacy_syntax`: an attribute is refused as legacy syntax when all its items are metas, every one
of them is `owned`/`ref`/`ref_mut` (alone, or with a parenthesised list whose *last* element is a
`types(...)` list) or a top-level `types(...)` list, the `types(...)` lists hold only paths and string
literals, and at least one of them is non-empty. -/

/-- `polyfill::Meta::parse` can read the item (a path or keyword, optionally with parentheses). -/
def isMeta : Item → Bool
  | .word _ => true
  | .pathTy _ => true
  | .call _ _ _ => true
  | _ => false

/-- An element of a `types(...)` list that `parse_list` collects: a string literal or a path. -/
def legacyElem : Item → Bool
  | .strLit => true
  | .word _ => true
  | .pathTy _ => true
  | _ => false

/-- `polyfill::NestedMeta::parse` can read the item. -/
def isNestedMeta : Item → Bool
  | .strLit => true
  | .intLit => true
  | .otherTy _ => false
  | _ => true

/-- `parse_list`: `some n`: a `types(...)` list collecting `n` elements. -/
def parseList : Item → Option Nat
  | .call .types args tr =>
    if args.isEmpty && tr then none else
    if args.all legacyElem then some args.length else none
  | _ => none

/-- `parse_inner` of the legacy check, for an `owned`/`ref`/`ref_mut` item: the number of elements collected. -/
def legacyInner : Item → Option Nat
  | .word _ => some 0
  | .call _ args tr =>
    if args.isEmpty && tr then none else
    if args.all isNestedMeta then
      match args.getLast? with
      | some l => parseList l
      | none => none
    else none
  | _ => none

def isWrapWord : W → Bool
  | .owned | .ref | .refMut => true
  | _ => false

/-- One step of the `try_fold`: `some n`: the elements this item contributes. -/
def legacyStep : Item → Option Nat
  | .word w => if isWrapWord w then some 0 else none
  | .call w args tr => if isWrapWord w then legacyInner (.call w args tr) else parseList (.call w args tr)
  | _ => none

def legacyFold : List Item → Option Nat
  | [] => some 0
  | it :: rest =>
    match legacyStep it, legacyFold rest with
    | some n, some m => some (n + m)
    | _, _ => none

/-- `check_legacy_syntax` returns an error. -/
def isLegacy (a : Args) : Bool :=
  if a.items.isEmpty && a.trailing then false else
  a.items.all isMeta &&
  match legacyFold a.items with
  | some n => n > 0
  | none => false

/-- `ConversionsAttribute` under `ConsiderLegacySyntax`. -/
def pConvs : Attr → Option ConvsAttr
  | .bare => none
  | .list a => if isLegacy a then none else pConvsArgs a

/-- `into::StructAttribute` = `Either<Empty, ConversionsAttribute>`, with its merge. -/
inductive IntoStruct where
  | empty
  | convs (c : ConvsAttr)
  deriving Repr, Inhabited

def pIntoStruct : Attr → Option IntoStruct
  | .bare => some .empty
  | a => (pConvs a).map .convs

def IntoStruct.merge : IntoStruct → IntoStruct → Option IntoStruct
  | .convs a, .convs b => some (.convs (a.merge b))
  | _, _ => none

def parseIntoStructFrom : Option IntoStruct → List Attr → Option (Option IntoStruct)
  | acc, [] => some acc
  | none, a :: rest =>
    match pIntoStruct a with
    | some c => parseIntoStructFrom (some c) rest
    | none => none
  | some prev, a :: rest =>
    match pIntoStruct a with
    | some c =>
      match prev.merge c with
      | some m => parseIntoStructFrom (some m) rest
      | none => none
    | none => none

def parseIntoStruct (attrs : List Attr) : Option (Option IntoStruct) := parseIntoStructFrom none attrs

/-- `into::FieldAttribute`: `Either<Skip, Either<Empty, ConversionsAttribute>>` turned into two options. -/
structure IntoField where
  skip : Bool := false
  convs : Option ConvsAttr := none
  deriving Repr, Inhabited

def pIntoField (a : Attr) : Option IntoField :=
  match pSkip a with
  | some _ => some { skip := true }
  | none =>
    match a with
    | .bare => some { convs := some ConvsAttr.dflt }
    | _ => (pConvs a).map fun c => { convs := some c }

/-- `FieldAttribute::merge_attrs`: `Skip::merge_opt_attrs` refuses two skips; conversions merge. -/
def IntoField.merge (p n : IntoField) : Option IntoField :=
  if p.skip && n.skip then none else
  some { skip := p.skip || n.skip,
         convs := match p.convs, n.convs with
           | some a, some b => some (a.merge b)
           | some a, none => some a
           | none, b => b }

def parseIntoFieldFrom : Option IntoField → List Attr → Option (Option IntoField)
  | acc, [] => some acc
  | none, a :: rest =>
    match pIntoField a with
    | some c => parseIntoFieldFrom (some c) rest
    | none => none
  | some prev, a :: rest =>
    match pIntoField a with
    | some c =>
      match prev.merge c with
      | some m => parseIntoFieldFrom (some m) rest
      | none => none
    | none => none

def parseIntoField (attrs : List Attr) : Option (Option IntoField) := parseIntoFieldFrom none attrs

/-! ### Which diagnostic: "legacy syntax, …" or another one

The folds above stop at the first attribute that does not parse or does not merge. When that attribute fails to
*parse*, the error is the one of the last `Either` alternative (`Types`, resp. `ConversionsAttribute`), and it is
the legacy-syntax message exactly in the cases below. -/

/-- from.rs `legacy_error` gets as far as its message: `types(<nested metas>)` leads the list. -/
def fromLegacyMsg : Attr → Bool
  | .list ⟨.call .types args tr :: _, _⟩ => !(args.isEmpty && tr) && args.all isNestedMeta
  | _ => false

def intoLegacyMsg : Attr → Bool
  | .list a => isLegacy a
  | .bare => false

/-- The first attribute at which the fold `run` over a prefix fails, if it fails by not parsing (`parses a = false`). -/
def firstParseFailure (fails : List Attr → Bool) (parses : Attr → Bool) : List Attr → List Attr → Option Attr
  | _, [] => none
  | pre, a :: rest =>
    if fails (pre ++ [a]) then (if parses a then none else some a)
    else firstParseFailure fails parses (pre ++ [a]) rest

end Dm.TypedAttr

/-
Model for C01: how the generic parameters of the input reach the generated `impl` header.
`syn::Generics::split_for_impl` printing (`ImplGenerics`, `TypeGenerics`) and the extension helpers of
`impl/src/utils.rs:138-237` (`add_extra_ty_param_bound`, `add_extra_generic_param`,
`add_extra_generic_type_param`, `add_extra_where_clauses`).
-/
namespace Dm.Gnr

inductive PKind where
  | lifetime | type | const
  deriving Repr, DecidableEq, Inhabited

/-- A generic parameter: its name and, for what the properties need, the identifiers its bounds mention. -/
structure Param where
  kind : PKind
  name : Nat
  bounds : List (List Nat)
  hasDefault : Bool
  deriving Repr, DecidableEq, Inhabited

structure Generics where
  params : List Param
  /-- where-predicates, each as the identifiers it mentions -/
  preds : List (List Nat)
  deriving Repr, DecidableEq, Inhabited

def isLifetime (p : Param) : Bool := p.kind == .lifetime

/-- `ImplGenerics::to_tokens`: lifetimes are printed first whatever their position, then the other
parameters in declaration order; defaults are dropped, bounds kept. -/
def implParams (g : Generics) : List Param :=
  ((g.params.filter isLifetime) ++ (g.params.filter fun p => !isLifetime p)).map fun p => { p with hasDefault := false }

/-- `TypeGenerics::to_tokens`: the same order, names only. -/
def tyArgs (g : Generics) : List (PKind × Nat) :=
  ((g.params.filter isLifetime) ++ (g.params.filter fun p => !isLifetime p)).map fun p => (p.kind, p.name)

def names (g : Generics) : List Nat := g.params.map (·.name)

/-- `add_extra_ty_param_bound`: the bound is pushed onto every *type* parameter. -/
def addExtraTyParamBound (g : Generics) (b : List Nat) : Generics :=
  { g with params := g.params.map fun p => if p.kind == .type then { p with bounds := p.bounds ++ [b] } else p }

/-- `add_extra_generic_param`: pushed at the end (used for the extra lifetime of the by-reference impls;
the printing puts it first). -/
def addExtraGenericParam (g : Generics) (p : Param) : Generics :=
  { g with params := g.params ++ [p] }

/-- `add_extra_generic_type_param`: lifetimes, then type parameters, then the new one, then const parameters. -/
def addExtraGenericTypeParam (g : Generics) (p : Param) : Generics :=
  { g with params := g.params.filter (·.kind == .lifetime) ++ g.params.filter (·.kind == .type) ++ [p]
      ++ g.params.filter (·.kind == .const) }

/-- `add_extra_where_clauses`: the new predicates come first, the declared ones are kept after them. -/
def addExtraWhereClauses (g : Generics) (new : List (List Nat)) : Generics :=
  { g with preds := new ++ g.preds }

/-- The header `impl<implParams g'> Trait for Name<tyArgs g> where preds g'`: `g` the declared generics,
`g'` what the derive made of them. -/
structure Header where
  implParams : List Param
  selfArgs : List (PKind × Nat)
  preds : List (List Nat)
  deriving Repr, DecidableEq

def header (declared extended : Generics) : Header :=
  { implParams := implParams extended, selfArgs := tyArgs declared, preds := extended.preds }

/-- Every argument applied to the type is a parameter of the impl, of the same kind. -/
def Header.argsDeclared (h : Header) : Bool :=
  h.selfArgs.all fun a => h.implParams.any fun p => p.kind == a.1 && p.name == a.2

/-- No lifetime parameter after a type or const parameter (rustc rejects that order). -/
def lifetimesFirst : List Param → Bool
  | [] => true
  | p :: rest => (isLifetime p || rest.all fun q => !isLifetime q) && lifetimesFirst rest

end Dm.Gnr

/-
Model of `derive(TryFrom)` with `#[try_from(repr)]` (`impl/src/try_from.rs`) and of the
`#[repr(..)]` integer detection (`attr::ReprInt`, `impl/src/utils.rs`).
-/
namespace Dm.TF

/-- A variant: its name, whether it is field-less (`fields.is_empty()`: unit, `V()` or `V{}`), and
the value of its explicit discriminant expression, if any. -/
structure Variant where
  name : String
  fieldless : Bool
  discr : Option Int
  deriving Repr, DecidableEq, Inhabited

/-- Rust's rule (reference, "Discriminants"): explicit, or the previous one plus one (variants
with fields count too), starting at 0. `prev` is the previous variant's discriminant. -/
def discrsFrom : Option Int → List Variant → List Int
  | _, [] => []
  | prev, v :: vs =>
    let d := match v.discr with
      | some d => d
      | none => match prev with | some p => p + 1 | none => 0
    d :: discrsFrom (some d) vs

def discrs (vs : List Variant) : List Int := discrsFrom none vs

/-- The generated constants: `(last explicit discriminant) + inc`, one per variant (those of
variants with fields are not emitted, but `inc` advances for them too).
State: `last` (value of the last explicit expression, initially `0`) and `inc`. -/
def constsFrom : Int → Nat → List Variant → List Int
  | _, _, [] => []
  | last, inc, v :: vs =>
    let (last', inc') := match v.discr with
      | some d => (d, 0)
      | none => (last, inc)
    (last' + inc') :: constsFrom last' (inc' + 1) vs

def consts (vs : List Variant) : List Int := constsFrom 0 0 vs

/-! ### The constants in the representation type

The values above are mathematical integers. The generated constants live in the enum's `repr`
integer type: `{ const __LAST: repr = <last explicit>; __LAST.wrapping_add(<inc>usize as repr) }`,
i.e. the cast of `inc` and the addition are both taken modulo the width of the type. -/

/-- The value range of an integer type. -/
structure Range where
  lo : Int
  hi : Int
  deriving Repr, DecidableEq, Inhabited

def Range.size (r : Range) : Int := r.hi - r.lo + 1

def Range.fits (r : Range) (x : Int) : Bool := r.lo ≤ x && x ≤ r.hi

/-- Two's-complement reduction into the range (`as` casts, `wrapping_add`). -/
def Range.wrap (r : Range) (x : Int) : Int := (x - r.lo) % r.size + r.lo

def i8 : Range := ⟨-128, 127⟩
def u8 : Range := ⟨0, 255⟩

/-- The constant as generated: `__LAST.wrapping_add(inc as repr)`. -/
def constW (r : Range) (last : Int) (inc : Nat) : Int := r.wrap (last + r.wrap inc)

/-- The constant as the pinned tree generated it: `(last) + inc` with `inc` an unsuffixed literal —
the literal is read modulo the type (no lint fires inside a macro expansion) and the addition is a
checked constant evaluation: overflow is a compile error (`none`). -/
def constChecked (r : Range) (last : Int) (inc : Nat) : Option Int :=
  if r.fits (last + r.wrap inc) then some (last + r.wrap inc) else none

def constsFromW (r : Range) : Int → Nat → List Variant → List Int
  | _, _, [] => []
  | last, inc, v :: vs =>
    let (last', inc') := match v.discr with
      | some d => (d, 0)
      | none => (last, inc)
    constW r last' inc' :: constsFromW r last' (inc' + 1) vs

/-- The generated constants, in the representation type. -/
def constsW (r : Range) (vs : List Variant) : List Int := constsFromW r 0 0 vs

/-- `match val { C_0 => Ok(V_0), .. , _ => Err(val) }` over the field-less variants, in order:
the first equal constant wins. Returns the index of the variant. -/
def tryFromAux : List (Variant × Int) → Nat → Int → Option Nat
  | [], _, _ => none
  | (v, c) :: rest, i, n =>
    if v.fieldless && c = n then some i else tryFromAux rest (i + 1) n

def tryFrom (vs : List Variant) (n : Int) : Option Nat := tryFromAux (vs.zip (consts vs)) 0 n

/-! ### `#[repr(..)]` -/

inductive IntTy where
  | u8 | u16 | u32 | u64 | u128 | usize | i8 | i16 | i32 | i64 | i128 | isize
  deriving Repr, DecidableEq, Inhabited

def IntTy.name : IntTy → List Char
  | .u8 => "u8".toList | .u16 => "u16".toList | .u32 => "u32".toList | .u64 => "u64".toList | .u128 => "u128".toList
  | .usize => "usize".toList | .i8 => "i8".toList | .i16 => "i16".toList | .i32 => "i32".toList | .i64 => "i64".toList
  | .i128 => "i128".toList | .isize => "isize".toList

def allIntTys : List IntTy := [.u8, .u16, .u32, .u64, .u128, .usize, .i8, .i16, .i32, .i64, .i128, .isize]

/-- One item of a `#[repr(...)]` list: an integer type or anything else (`C`, `align(4)`, ...). -/
inductive Hint where
  | int (t : IntTy)
  | other
  deriving Repr, DecidableEq, Inhabited

/-- Within one attribute the last integer hint is kept. -/
def attrRepr (hs : List Hint) : Option IntTy :=
  hs.foldl (fun acc h => match h with | .int t => some t | .other => acc) none

/-- Across attributes: at most one may carry an integer type. -/
def mergeRepr : List (Option IntTy) → Except Unit (Option IntTy)
  | [] => .ok none
  | a :: rest =>
    rest.foldlM (fun prev new =>
      match prev, new with
      | some _, some _ => .error ()
      | none, some t => .ok (some t)
      | p, none => .ok p) a

def reprOf (attrs : List (List Hint)) : Except Unit IntTy :=
  match mergeRepr (attrs.map attrRepr) with
  | .ok (some t) => .ok t
  | .ok none => .ok .isize
  | .error e => .error e

end Dm.TF

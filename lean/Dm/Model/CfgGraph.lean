/-
Model for C20: `cfg` predicates over cargo features and references between gated items.
The tables (`Dm/Gen/Cfg.lean`) are regenerated from /repo on every run.
-/
namespace Dm.Cfg

/-- A `cfg(..)` predicate. Atoms are feature ids. -/
inductive Cfg where
  | tt
  | ff
  | feat (n : Nat)
  | any (l : List Cfg)
  | all (l : List Cfg)
  | not (c : Cfg)
  deriving Repr, Inhabited

mutual
  def eval (fs : Nat → Bool) : Cfg → Bool
    | .tt => true
    | .ff => false
    | .feat n => fs n
    | .any l => evalAny fs l
    | .all l => evalAll fs l
    | .not c => !(eval fs c)
  def evalAny (fs : Nat → Bool) : List Cfg → Bool
    | [] => false
    | c :: rest => eval fs c || evalAny fs rest
  def evalAll (fs : Nat → Bool) : List Cfg → Bool
    | [] => true
    | c :: rest => eval fs c && evalAll fs rest
end

-- No negation anywhere.
mutual
  def positive : Cfg → Bool
    | .tt => true
    | .ff => true
    | .feat _ => true
    | .any l => positiveL l
    | .all l => positiveL l
    | .not _ => false
  def positiveL : List Cfg → Bool
    | [] => true
    | c :: rest => positive c && positiveL rest
end

-- Replace atom `a` by the constant `v`.
mutual
  def subst (a : Nat) (v : Bool) : Cfg → Cfg
    | .tt => .tt
    | .ff => .ff
    | .feat n => if n = a then (if v then .tt else .ff) else .feat n
    | .any l => .any (substL a v l)
    | .all l => .all (substL a v l)
    | .not c => .not (subst a v c)
  def substL (a : Nat) (v : Bool) : List Cfg → List Cfg
    | [] => []
    | c :: rest => subst a v c :: substL a v rest
end

-- Negations of constants folded away (after `subst`, `not(feature = "std")` is a constant).
mutual
  def simp : Cfg → Cfg
    | .tt => .tt
    | .ff => .ff
    | .feat n => .feat n
    | .any l => .any (simpL l)
    | .all l => .all (simpL l)
    | .not c =>
      match simp c with
      | .tt => .ff
      | .ff => .tt
      | c' => .not c'
  def simpL : List Cfg → List Cfg
    | [] => []
    | c :: rest => simp c :: simpL rest
end

-- Disjunctive normal form of a positive predicate: a list of conjunctions of atoms.
mutual
  def dnf : Cfg → List (List Nat)
    | .tt => [[]]
    | .ff => []
    | .feat n => [[n]]
    | .any l => dnfAny l
    | .all l => dnfAll l
    | .not _ => []
  def dnfAny : List Cfg → List (List Nat)
    | [] => []
    | c :: rest => dnf c ++ dnfAny rest
  def dnfAll : List Cfg → List (List Nat)
    | [] => [[]]
    | c :: rest => (dnf c).flatMap fun A => (dnfAll rest).map fun B => A ++ B
end

/-- `a → b` for positive predicates, decided syntactically: every conjunction of `a`'s normal form,
taken as the set of enabled features, satisfies `b`. -/
def impliesPos (a b : Cfg) : Bool :=
  positive a && positive b && (dnf a).all fun A => eval (fun n => A.contains n) b

/-- The only atoms that occur negated in the sources are `std`-like switches; they are split on. -/
def impliesSplit (switches : List Nat) (a b : Cfg) : Bool :=
  match switches with
  | [] => impliesPos (simp a) (simp b)
  | s :: rest =>
    impliesSplit rest (subst s true a) (subst s true b) && impliesSplit rest (subst s false a) (subst s false b)

/-- A reference: whenever `user` is compiled / used, `target` must exist. -/
structure Ref where
  kind : Nat
  user : Cfg
  target : Cfg
  deriving Repr, Inhabited

end Dm.Cfg

/-
Model of `derive(From)` (`impl/src/from.rs`), `derive(Into)` (`impl/src/into.rs`) and
`derive(Constructor)` (`impl/src/constructor.rs`): which impls are generated and which component
each field is initialised from / extracted into. Types are opaque token strings.
-/
namespace Dm.Conv

inductive Outcome where
  | diag
  | panic        -- internal failure (`unreachable!`, `Punctuated::push_value`)
  deriving Repr, DecidableEq, Inhabited

abbrev R (α : Type) := Except Outcome α

/-- A type as written in an attribute: its tokens and, if it is a tuple type, its elements. -/
structure TyA where
  toks : String
  tuple : Option (List String)
  deriving Repr, DecidableEq, Inhabited

/-- `#[from(..)]` on a struct / variant. -/
inductive FromAttr where
  | none | empty | skip | forward
  | types (tys : List TyA)
  deriving Repr, DecidableEq, Inhabited

inductive Kind where
  | unit | tuple | named
  deriving Repr, DecidableEq, Inhabited

structure Field where
  name : Option String
  ty : String
  deriving Repr, DecidableEq, Inhabited

/-- How field `i` is initialised in a generated `from`. `comp = none`: from `value` itself (single
field), `some k`: from `value.k`. -/
inductive Init where
  | direct (comp : Option Nat)
  | conv (fieldTy fromTy : String) (comp : Option Nat)
  deriving Repr, DecidableEq, Inhabited

structure FromImpl where
  /-- The `T` of `impl From<T>`. -/
  source : String
  /-- Fresh type parameters (`__FromT<i>`) of a forwarding impl. -/
  fresh : List String
  inits : List Init
  deriving Repr, DecidableEq, Inhabited

def tupleTy (tys : List String) : String := "(" ++ ",".intercalate tys ++ ")"

/-- Component index used for field `i` of `n`: `value` when there is exactly one field. -/
def comp (n i : Nat) : Option Nat := if n = 1 then none else some i

/-- `FieldsExt::validate_type`: the per-field source types for a listed type. With several fields
the type must be a tuple of the same arity; with exactly one field the type is taken as a whole;
without fields a tuple type contributes its elements. -/
def validateType (n : Nat) (ty : TyA) : R (List String) :=
  if n > 1 then
    match ty.tuple with
    | some elems => if elems.length = n then pure elems else throw .diag
    | none => throw .diag
  else if n = 1 then pure [ty.toks]
  else
    match ty.tuple with
    | some elems => pure elems
    | none => pure [ty.toks]

/-- `Expansion::expand` of from.rs for a struct or one enum variant. -/
def fromExpand (attr : FromAttr) (isVariant hasExplicitFrom : Bool) (fields : List Field) :
    R (List FromImpl) :=
  let n := fields.length
  let skipVariant := hasExplicitFrom || (isVariant && fields.isEmpty)
  match attr with
  | .types tys =>
    tys.mapM fun ty => do
      let fromTys ← validateType n ty
      if fromTys.length < n then throw .panic else
      pure { source := ty.toks, fresh := []
             inits := (fields.zip fromTys).zipIdx.map fun ((f, ft), i) => Init.conv f.ty ft (comp n i) }
  | .empty => pure [{ source := tupleTy (fields.map (·.ty)), fresh := []
                      inits := (List.range n).map fun i => Init.direct (comp n i) }]
  | .none =>
    if skipVariant then pure []
    else pure [{ source := tupleTy (fields.map (·.ty)), fresh := []
                 inits := (List.range n).map fun i => Init.direct (comp n i) }]
  | .forward =>
    let fresh := (List.range n).map fun i => s!"__FromT{i}"
    pure [{ source := tupleTy fresh, fresh := fresh
            inits := (fields.zip fresh).zipIdx.map fun ((f, g), i) => Init.conv f.ty g (comp n i) }]
  | .skip => pure []

/-- Enum: a variant with `#[from]`, `#[from(types)]` or `#[from(forward)]` switches every
un-annotated variant off. -/
def hasExplicitFrom (attrs : List FromAttr) : Bool :=
  attrs.any fun a => match a with
    | .empty => true | .types _ => true | .forward => true | _ => false

/-- `expand` of from.rs for an enum: the attributes of **all** variants are read first, then every
variant is expanded knowing whether *any* of them — declared before or after it — is explicit. -/
def fromEnum (vs : List (FromAttr × List Field)) : R (List (List FromImpl)) :=
  vs.mapM fun v => fromExpand v.1 true (hasExplicitFrom (vs.map (·.1))) v.2

/-! ### Into -/

structure Convs where
  consider : Bool := false
  tys : List TyA := []
  deriving Repr, DecidableEq, Inhabited

structure ConvsAttr where
  owned : Convs := {}
  ref : Convs := {}
  refMut : Convs := {}
  deriving Repr, DecidableEq, Inhabited

/-- `ConversionsAttribute::default()` (`#[into]` / no attribute at all): owned, fields type. -/
def ConvsAttr.dflt : ConvsAttr := { owned := { consider := true } }

def Convs.merge (a b : Convs) : Convs := { consider := a.consider || b.consider, tys := a.tys ++ b.tys }

/-- `ConversionsAttribute::merge_attrs`. -/
def ConvsAttr.merge (a b : ConvsAttr) : ConvsAttr :=
  { owned := a.owned.merge b.owned, ref := a.ref.merge b.ref, refMut := a.refMut.merge b.refMut }

inductive RefKind where
  | owned | ref | refMut
  deriving Repr, DecidableEq, Inhabited

structure IntoImpl where
  kind : RefKind
  /-- Positions (among all fields) of the extracted fields, in order. -/
  fields : List Nat
  /-- Target types, one per extracted field. -/
  tys : List String
  deriving Repr, DecidableEq, Inhabited

/-- The type of the fields themselves: the tuple of their types (a single field: its type). -/
def fieldsTupleOf (fields : List (Nat × Field)) : TyA :=
  match fields with
  | [f] => { toks := f.2.ty, tuple := none }
  | _ => { toks := tupleTy (fields.map (·.2.ty)), tuple := some (fields.map (·.2.ty)) }

/-- The impls of one reference kind: the fields' own tuple type (if considered) and every listed
type, validated against the number of fields. -/
def intoKind (fields : List (Nat × Field)) (k : RefKind) (cv : Convs) : R (List IntoImpl) :=
  let fieldsTuple : TyA := fieldsTupleOf fields
  if cv.consider || !cv.tys.isEmpty then
    ((if cv.consider then [fieldsTuple] else []) ++ cv.tys).mapM fun out =>
      match validateType fields.length out with
      | .ok tys => .ok { kind := k, fields := fields.map (·.1), tys := tys }
      | .error e => .error e
  else pure []

/-- `Expansion::expand` of into.rs for one set of fields and one conversions attribute. -/
def intoExpand (fields : List (Nat × Field)) (c : ConvsAttr) : R (List IntoImpl) :=
  match intoKind fields .owned c.owned with
  | .error e => .error e
  | .ok a =>
    match intoKind fields .ref c.ref with
    | .error e => .error e
    | .ok b =>
      match intoKind fields .refMut c.refMut with
      | .error e => .error e
      | .ok d => .ok (a ++ b ++ d)

/-- Field-level attribute of Into. -/
inductive IntoFieldAttr where
  | none | skip
  | convs (c : ConvsAttr)
  deriving Repr, DecidableEq, Inhabited

/-- `expand` of into.rs: one expansion per field carrying conversions, then (if a struct-level
attribute exists, or no field carries conversions) one for all non-skipped fields. A field may be
skipped *and* carry conversions of its own. -/
def intoAll (structAttr : Option ConvsAttr) (fields : List (Field × IntoFieldAttr × Bool)) : R (List IntoImpl) := do
  let idx := fields.zipIdx
  let fieldExps := idx.filterMap fun (x : (Field × IntoFieldAttr × Bool) × Nat) =>
    match x.1.2.1 with
    | .convs c => some ([(x.2, x.1.1)], c)
    | _ => none
  let structAttr := match structAttr with
    | some c => some c
    | none => if fieldExps.isEmpty then some ConvsAttr.dflt else none
  let structExp := match structAttr with
    | some c =>
      [((idx.filter fun (x : (Field × IntoFieldAttr × Bool) × Nat) => !x.1.2.2).map fun x => (x.2, x.1.1), c)]
    | none => []
  let all ← (fieldExps ++ structExp).mapM fun (fs, c) => intoExpand fs c
  pure all.flatten

/-! ### Constructor -/

/-- `new(args..)` puts argument `i` into field `i`. -/
def ctorInits (n : Nat) : List Nat := List.range n

end Dm.Conv

/-
Byte-level model of the parser combinators of `impl/src/fmt/parsing.rs` (the only places of the
format-literal parser that slice a `&str` by a byte offset or loop): `char`, `check_char`, `any_char`,
`str`, `take_while0`, `take_while1`, `take_until1`. Strings are lists of `Char`; a byte offset is valid
for slicing iff it is a char boundary, otherwise the Rust code panics (`Out.panic`). A loop that would
not terminate is also `Out.panic` (fuel exhausted): the property asks for bounded time.
-/
namespace Dm.Bytes

def utf8Len (c : Char) : Nat :=
  if c.toNat < 0x80 then 1 else if c.toNat < 0x800 then 2 else if c.toNat < 0x10000 then 3 else 4

def byteLen : List Char → Nat
  | [] => 0
  | c :: cs => utf8Len c + byteLen cs

/-- `&s[k..]`: `none` = panic (`k` beyond the end or inside a character). -/
def sliceFrom : List Char → Nat → Option (List Char)
  | s, 0 => some s
  | [], _ + 1 => none
  | c :: cs, k + 1 => if utf8Len c ≤ k + 1 then sliceFrom cs (k + 1 - utf8Len c) else none

/-- `&s[..k]`. -/
def sliceTo : List Char → Nat → Option (List Char)
  | _, 0 => some []
  | [], _ + 1 => none
  | c :: cs, k + 1 => if utf8Len c ≤ k + 1 then (sliceTo cs (k + 1 - utf8Len c)).map (c :: ·) else none

inductive Out (α : Type) where
  | ok (a : α)
  | none          -- the parser does not match (`Option::None`)
  | panic         -- index out of range / not a char boundary / endless loop
  deriving Repr, DecidableEq

def ofSlice {α : Type} (o : Option α) : Out α :=
  match o with
  | some a => .ok a
  | Option.none => .panic

/-- A parser returning what is left to parse. -/
abbrev P := List Char → Out (List Char)

/-- `char(c)`: `input.starts_with(c).then(|| &input[c.len_utf8()..])`. -/
def char' (c : Char) : P := fun i =>
  match i with
  | d :: _ => if d = c then ofSlice (sliceFrom i (utf8Len c)) else .none
  | [] => .none

/-- `check_char(f)`: `input.chars().next().and_then(|c| f(c).then(|| &input[c.len_utf8()..]))`. -/
def checkChar (f : Char → Bool) : P := fun i =>
  match i with
  | c :: _ => if f c then ofSlice (sliceFrom i (utf8Len c)) else .none
  | [] => .none

/-- `any_char`. -/
def anyChar : P := fun i =>
  match i with
  | c :: _ => ofSlice (sliceFrom i (utf8Len c))
  | [] => .none

/-- `str(s)`: `input.starts_with(s).then(|| &input[s.len()..])`. -/
def str' (s : List Char) : P := fun i =>
  if s.isPrefixOf i then ofSlice (sliceFrom i (byteLen s)) else .none

/-- `one_of(chars)`: `chars.chars().find_map(|c| char(c)(input))`. -/
def oneOf : List Char → P
  | [], _ => .none
  | c :: cs, i =>
    match char' c i with
    | .ok r => .ok r
    | .none => oneOf cs i
    | .panic => .panic

/-- `while let Some(step) = parser(cur) { cur = step; }` -/
def whileSome (p : P) : Nat → List Char → Out (List Char)
  | 0, _ => .panic
  | fuel + 1, cur =>
    match p cur with
    | .ok step => whileSome p fuel step
    | .none => .ok cur
    | .panic => .panic

/-- the tail of `take_while*` / `take_until1`: `(cur, &input[..(input.len() - cur.len())])`. -/
def sliceConsumed (input cur : List Char) : Out (List Char × List Char) :=
  match sliceTo input (byteLen input - byteLen cur) with
  | some pre => .ok (cur, pre)
  | Option.none => .panic

def takeWhile0 (p : P) (input : List Char) : Out (List Char × List Char) :=
  match whileSome p (input.length + 1) input with
  | .ok cur => sliceConsumed input cur
  | .none => .none
  | .panic => .panic

def takeWhile1 (p : P) (input : List Char) : Out (List Char × List Char) :=
  match p input with
  | .ok first =>
    (match whileSome p (first.length + 1) first with
     | .ok cur => sliceConsumed input cur
     | .none => .none
     | .panic => .panic)
  | .none => .none
  | .panic => .panic

/-- the `loop` of `take_until1`. -/
def untilLoop (basic until_ : P) : Nat → List Char → Out (List Char)
  | 0, _ => .panic
  | fuel + 1, cur =>
    match until_ cur with
    | .ok _ => .ok cur
    | .panic => .panic
    | .none =>
      match basic cur with
      | .ok b => untilLoop basic until_ fuel b
      | .none => .ok cur
      | .panic => .panic

def takeUntil1 (basic until_ : P) (input : List Char) : Out (List Char × List Char) :=
  match until_ input with
  | .ok _ => .none
  | .panic => .panic
  | .none =>
    match basic input with
    | .ok first =>
      (match untilLoop basic until_ (first.length + 1) first with
       | .ok cur => sliceConsumed input cur
       | .none => .none
       | .panic => .panic)
    | .none => .none
    | .panic => .panic

/-- A well-behaved parser: never panics, and what it returns is a proper suffix of its input. -/
def WB (p : P) : Prop :=
  ∀ i, match p i with
    | .ok r => ∃ pre, pre ≠ [] ∧ i = pre ++ r
    | .none => True
    | .panic => False

/-- A parser that at least never panics (used as the `until` of `take_until1`, whose result is discarded). -/
def NoPanic (p : P) : Prop := ∀ i, p i ≠ .panic

end Dm.Bytes

/-
Model of `FmtAttribute` decisions (`impl/src/fmt/mod.rs`): transparent call, bounded types,
`_variant` lookup, additional deref arguments.
-/
import Dm.Model.FmtParse

namespace Dm.FmtX
open Dm.Fmt

abbrev Name := List Char

/-- `IdentExt::unraw`. -/
def unraw : Name → Name
  | 'r' :: '#' :: r => r
  | n => n

/-- A format argument `[alias =] expr`. -/
structure FArg where
  /-- `alias` identifier as `Ident::to_string()` prints it. -/
  alias : Option Name
  /-- `Some` iff the expression is a single identifier (`Expr::Ident`). -/
  ident : Option Name
  /-- Token text of the expression (opaque). -/
  toks : String
  deriving Repr, DecidableEq, Inhabited

structure FmtAttr where
  /-- `LitStr::value()`. -/
  lit : List Char
  /-- Token text the attribute re-emits (literal, comma, arguments). -/
  emit : String
  args : List FArg
  deriving Repr, DecidableEq, Inhabited

/-- What a transparent call formats. -/
inductive ExprR where
  /-- The expression of the (only) argument. -/
  | arg (a : FArg)
  /-- `format_ident!("{name}")`: an outer binding named in the literal. -/
  | ident (n : Name)
  deriving Repr, DecidableEq, Inhabited

def ExprR.identName : ExprR → Option Name
  | .arg a => a.ident
  | .ident n => some n

def ExprR.toks : ExprR → String
  | .arg a => a.toks
  | .ident n => String.ofList n

/-- Which expression a single placeholder with argument `arg` denotes, given the attribute's
arguments (cases (3)-(5) of `transparent_call`). -/
def referTo (arg : Option Arg) (args : List FArg) : Option ExprR :=
  match arg, args with
  | none, [x] => some (.arg x)
  | some (.int 0), [x] => some (.arg x)
  | some (.ident name), [] => some (.ident name)
  | some (.ident name), [x] => if x.alias = some name then some (.arg x) else none
  | _, _ => none

/-- `FmtAttribute::transparent_call`. -/
def transparentCall (cc : CharClasses) (a : FmtAttr) : Option (ExprR × Trait) :=
  match format cc a.lit with
  | some ([], f) =>
    if f.hasModifiers then none else
    match referTo f.arg a.args with
    | some e => some (e, f.ty.trait)
    | none => none
  | _ => none

/-- `FieldsExt::fmt_args_idents`: the field's own identifier, or `_i`. -/
def fmtArgsIdents (fields : List (Option Name)) : List Name :=
  go 0 fields
where
  go (i : Nat) : List (Option Name) → List Name
    | [] => []
    | some n :: r => n :: go (i + 1) r
    | none :: r => ('_' :: (toString i).toList) :: go (i + 1) r

/-- The expression text of a transparent call after `transparent_call_on_fields`: a field binding
itself when the placeholder names the field inside the literal (no arguments at all; raw or unraw
spelling), else `&(expr)` - inside an argument expression a field's name is a reference to it. -/
def onFields (noArgs : Bool) (fields : List (Option Name)) (e : ExprR) : String :=
  match (if noArgs then
      (fmtArgsIdents fields).find? (fun f => e.identName = some f || e.identName = some (unraw f))
    else none) with
  | some f => String.ofList f
  | none => "&(" ++ e.toks ++ ")"

def transparentCallOnFields (cc : CharClasses) (a : FmtAttr) (fields : List (Option Name)) :
    Option (String × Trait) :=
  match transparentCall cc a with
  | some (e, t) => some (onFields a.args.isEmpty fields e, t)
  | none => none

/-- The name a placeholder is resolved to by `bounded_types` / `placeholders_by_arg`. -/
def placeholderName (a : FmtAttr) (p : Placeholder) : Option Name :=
  match p.arg with
  | .named n =>
    match a.args.find? (fun x => x.alias = some n) with
    | some x => x.ident.map unraw
    | none => some n
  | .pos i =>
    match a.args[i]? with
    | some x => if x.alias.isNone then x.ident.map unraw else none
    | none => none

/-- `_<digits>` parsed as `usize` (`strip_prefix('_')` then `str::parse`). -/
def unnamedIndex (n : Name) : Option Nat :=
  match n with
  | '_' :: ds =>
    -- `usize::from_str` accepts an optional leading `+`
    let ds' := match ds with | '+' :: r => r | _ => ds
    if ds' ≠ [] ∧ ds'.all isDigit ∧ digitsVal ds' ≤ usizeMax then some (digitsVal ds') else none
  | _ => none

/-- Field shape as `bounded_types` sees it. -/
inductive FieldsK where
  | unit
  | unnamed (n : Nat)
  | named (names : List Name)
  deriving Repr, DecidableEq, Inhabited

def FieldsK.idents : FieldsK → List (Option Name)
  | .unit => []
  | .unnamed n => List.replicate n none
  | .named ns => ns.map some

/-- Index of the field a resolved name denotes. -/
def fieldIndex (fk : FieldsK) (name : Name) : Option Nat :=
  match fk, unnamedIndex name with
  | .unnamed n, some i => if i < n then some i else none
  | .named ns, none => ns.findIdx? (fun f => unraw f = name)
  | _, _ => none

/-- `bounded_types`: (field index, trait) per placeholder that denotes a field. -/
def boundedTypes (cc : CharClasses) (a : FmtAttr) (fk : FieldsK) : List (Nat × Trait) :=
  (parseFmtString cc a.lit).filterMap fun p =>
    match placeholderName a p with
    | some name =>
      match fieldIndex fk name with
      | some i => some (i, p.trait)
      | none => none
    | none => none

/-- `placeholders_by_arg(name)`. -/
def placeholdersByArg (cc : CharClasses) (a : FmtAttr) (name : Name) : List Placeholder :=
  (parseFmtString cc a.lit).filter fun p => placeholderName a p = some name

def containsArg (cc : CharClasses) (a : FmtAttr) (name : Name) : Bool :=
  !(placeholdersByArg cc a name).isEmpty

/-- `additional_deref_args`: fields named in the literal under `Pointer` and not aliased. -/
def additionalDerefArgs (cc : CharClasses) (a : FmtAttr) (fields : List (Option Name)) : List Name :=
  let used : List Name := (parseFmtString cc a.lit).filterMap fun p =>
    match p.arg with
    | .named n => if p.trait = .pointer then some n else none
    | .pos _ => none
  (fmtArgsIdents fields).filter fun f =>
    used.any (fun u => unraw f = u) && !(a.args.any fun x => x.alias = some f)

end Dm.FmtX

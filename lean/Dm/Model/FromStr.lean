/-
Model of `derive(FromStr)` (`impl/src/from_str.rs`): arms generated for a field-less enum and
the `match src.to_lowercase().as_str()` that evaluates them; newtype delegation.
`lower` (`str::to_lowercase`) is a parameter.
-/
namespace Dm.FS

/-- Strings are abstract (`σ`): only equality and `lower` are used. -/
structure Arm (σ : Type) where
  /-- The string literal pattern: the lower-cased variant name. -/
  key : σ
  /-- `if (src == "<Name>")` guard for groups of variants differing only in case. -/
  guard : Option σ
  variant : σ
  deriving Repr, DecidableEq

variable {σ : Type} [DecidableEq σ]

/-- Number of variants whose lower-cased name is `k`. -/
def groupSize (lower : σ → σ) (names : List σ) (k : σ) : Nat :=
  (names.filter fun n => lower n = k).length

/-- One arm per variant: unguarded when its lower-cased name is unique, guarded by the exact name
otherwise. (The implementation emits these arms group by group in hash-map order: a permutation.) -/
def arms (lower : σ → σ) (names : List σ) : List (Arm σ) :=
  names.map fun v =>
    if groupSize lower names (lower v) = 1 then { key := lower v, guard := none, variant := v }
    else { key := lower v, guard := some v, variant := v }

def Arm.matches (lower : σ → σ) (src : σ) (a : Arm σ) : Bool :=
  lower src = a.key && (match a.guard with | none => true | some g => src = g)

/-- `match src.to_lowercase().as_str() { arms.., _ => Err }`: the first matching arm wins. -/
def parse (lower : σ → σ) (as : List (Arm σ)) (src : σ) : Option σ :=
  (as.find? (Arm.matches lower src)).map (·.variant)

/-- Single-field struct: `Ok(Self(<Field as FromStr>::from_str(src)?))`. -/
def parseNewtype {ε α β : Type} (fieldParse : String → Except ε α) (wrap : α → β) (src : String) :
    Except ε β :=
  match fieldParse src with
  | .ok a => .ok (wrap a)
  | .error e => .error e

end Dm.FS

import Dm.Model.DebugTuple

/-
Second layer of the C06 model.

* `Padded::write_str` of `src/fmt.rs` **as it is written**: `str::split_inclusive('\n')`, a loop over
  the pieces with the `on_newline` flag, one call per `write_str` of the wrapped value. The character
  level function `pad` of `DebugTuple.lean` is its specification (`Dm.Dbg.paddedWrite_eq_pad`).
* The crate's `DebugTuple` as a sequence of builder calls over fields that are *write scripts*
  (the list of `write_str` calls a field's `Debug` impl makes), `dmTupleCode`.
* core's `DebugStruct` (the derive uses it unchanged for named fields).
* Values as trees of tuple / struct nodes over leaves, printed by the derive's builders (`Val.fmt true`)
  or by std's (`Val.fmt false`): nesting of any depth.
-/
namespace Dm.Dbg

/-- `str::split_inclusive('\n')`: pieces end after each newline; no empty piece. -/
def splitInclusive : List Char → List (List Char)
  | [] => []
  | c :: cs =>
    if c = '\n' then [c] :: splitInclusive cs
    else
      match splitInclusive cs with
      | [] => [[c]]
      | p :: ps => (c :: p) :: ps

/-- `s.ends_with('\n')`. -/
def endsNl (p : List Char) : Bool := p.getLast? = some '\n'

def indent : List Char := [' ', ' ', ' ', ' ']

/-- The `for s in s.split_inclusive('\n')` loop of `Padded::write_str`: what is written to the
wrapped formatter and the final `on_newline`. -/
def paddedPieces : Bool → List (List Char) → List Char × Bool
  | st, [] => ([], st)
  | st, p :: ps =>
    let r := paddedPieces (endsNl p) ps
    ((if st then indent else []) ++ p ++ r.1, r.2)

/-- One `Padded::write_str(s)` call. -/
def paddedWrite (st : Bool) (s : List Char) : List Char × Bool := paddedPieces st (splitInclusive s)

/-- A sequence of `write_str` calls on the same `Padded`. -/
def paddedWrites : Bool → List (List Char) → List Char × Bool
  | st, [] => ([], st)
  | st, s :: ss =>
    let a := paddedWrite st s
    let b := paddedWrites a.2 ss
    (a.1 ++ b.1, b.2)

/-- A field's `Debug` impl as the `write_str` calls it makes under given options. -/
abbrev FieldScript := Opts → List (List Char)

/-- `DebugTuple::field`, once per field, `fields` counting up from `i`. -/
def dmFieldsCode (o : Opts) : Nat → List FieldScript → List Char
  | _, [] => []
  | i, f :: r =>
    (if o.alt then
      (if i = 0 then ['(', '\n'] else [])
        -- Padded::new; write_fmt(format_args!("{value:#?}")); write_str(",\n")
        ++ (paddedWrites true (f freshAlt ++ [[',', '\n']])).1
    else
      (if i = 0 then ['('] else [',', ' ']) ++ (f o).flatten)
    ++ dmFieldsCode o (i + 1) r

/-- `debug_tuple(f, name)`, the `field` calls, then `finish` / `finish_non_exhaustive`, with the
`fields` counter and `empty_name` of the struct. -/
def dmTupleCode (name : List Char) (fs : List FieldScript) (exhaustive : Bool) (o : Opts) : List Char :=
  let fields := fs.length
  let emptyName := name.isEmpty
  let fin : List Char :=
    if exhaustive then
      (if fields > 0 then
        (if fields = 1 ∧ emptyName ∧ ¬ o.alt then [','] else []) ++ [')']
      else [])
    else
      (if fields > 0 then
        (if o.alt then (paddedWrite true ['.', '.', '\n']).1 ++ [')'] else [',', ' ', '.', '.', ')'])
      else ['(', '.', '.', ')'])
  name ++ dmFieldsCode o 0 fs ++ fin

/-- core's `DebugStruct`: `Name { a: 1, b: 2 }`, pretty form through `PadAdapter` keeping the
caller's options; `finish_non_exhaustive` closes with `..`. -/
def stdStruct (name : List Char) (fs : List (List Char × FieldFmt)) (exhaustive : Bool) (o : Opts) :
    List Char :=
  let body : List Char :=
    if o.alt then
      (if fs.isEmpty then [] else [' ', '{', '\n'])
        ++ (fs.map fun (n, f) => padStr (n ++ [':', ' '] ++ f o ++ [',', '\n'])).flatten
    else
      (fs.zipIdx.map fun ((n, f), i) =>
        (if i = 0 then [' ', '{', ' '] else [',', ' ']) ++ n ++ [':', ' '] ++ f o).flatten
  let close : List Char :=
    if exhaustive then
      (if fs.isEmpty then [] else if o.alt then ['}'] else [' ', '}'])
    else
      (if fs.isEmpty then [' ', '{', ' ', '.', '.', ' ', '}']
       else if o.alt then padStr ['.', '.', '\n'] ++ ['}'] else [',', ' ', '.', '.', ' ', '}'])
  name ++ body ++ close

mutual
  /-- A value whose `Debug` output is produced by builders all the way down to the leaves. -/
  inductive Val where
    | leaf (f : FieldFmt)
    | tuple (name : List Char) (fields : Vals) (exhaustive : Bool)
    | strukt (name : List Char) (names : List (List Char)) (fields : Vals) (exhaustive : Bool)
  inductive Vals where
    | nil
    | cons (v : Val) (vs : Vals)
end

mutual
  /-- `dm = true`: tuple nodes are printed by the crate's `DebugTuple` (what `derive_more::Debug`
  expands to); `dm = false`: by core's (what std's derive expands to). Struct nodes use core's
  `DebugStruct` in both. -/
  def Val.fmt (dm : Bool) : Val → FieldFmt
    | .leaf f => f
    | .tuple n vs ex => fun o => if dm then dmTuple n (vs.fmts dm) ex o else stdTuple n (vs.fmts dm) ex o
    | .strukt n ns vs ex => fun o => stdStruct n (ns.zip (vs.fmts dm)) ex o
  def Vals.fmts (dm : Bool) : Vals → List FieldFmt
    | .nil => []
    | .cons v vs => v.fmt dm :: vs.fmts dm
end

mutual
  /-- Every leaf writes, under any alternate-mode options, what it writes under plain `{:#?}`
  (true of `str`, `char`, `bool`, `()`, unit types; false of integers and floats). -/
  def Val.Insens : Val → Prop
    | .leaf f => ∀ o : Opts, o.alt = true → f o = f freshAlt
    | .tuple _ vs _ => vs.Insens
    | .strukt _ _ vs _ => vs.Insens
  def Vals.Insens : Vals → Prop
    | .nil => True
    | .cons v vs => v.Insens ∧ vs.Insens
end

def Vals.ofList : List Val → Vals
  | [] => .nil
  | v :: vs => .cons v (Vals.ofList vs)

end Dm.Dbg

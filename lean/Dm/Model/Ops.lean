/-
Model of the operator derives: `add_like`, `add_assign_like`, `mul_like`, `mul_assign_like`,
`not_like`, `sum_like` (with `add_helpers`, `mul_helpers`) - the bodies they generate, as a small
IR with a semantics over an arbitrary operand type.
-/
namespace Dm.Ops

inductive Side where
  | lhs | rhs
  deriving Repr, DecidableEq, Inhabited

/-- Expressions occurring in the generated bodies. -/
inductive X where
  /-- `self.<i>` / `rhs.<i>` (struct) or the pattern variable `__l_<i>` / `__r_<i>` / `__<i>` (enum arm). -/
  | fld (s : Side) (i : Nat)
  /-- The scalar right-hand side `rhs` of the `Mul`-like derives. -/
  | scalar
  /-- `recv.m(arg)` / `<Ty as Trait>::m(recv, arg)`: a binary operator call. -/
  | bin (recv arg : X)
  /-- `recv.m()`: a unary operator call. -/
  | un (recv : X)
  /-- `Trait::sum(empty::<Ty>())`: the empty sum / product of field `i`'s type. -/
  | emptyFold (i : Nat)
  deriving Repr, DecidableEq, Inhabited

/-- `tuple_exprs` / `struct_exprs`: `self.i.m(rhs.i)` for every field, in order. -/
def fieldwiseBin (n : Nat) : List X := (List.range n).map fun i => .bin (.fld .lhs i) (.fld .rhs i)

/-- `mul_helpers::generics_and_exprs`: `<Ty_i as Tr<__RhsT>>::m(self.i, rhs)`. -/
def fieldwiseScalar (n : Nat) : List X := (List.range n).map fun i => .bin (.fld .lhs i) .scalar

/-- `not_like`: `self.i.m()`. -/
def fieldwiseUn (n : Nat) : List X := (List.range n).map fun i => .un (.fld .lhs i)

/-- `sum_like`: the identity `Name(Tr::sum(empty::<Ty_0>()), ..)`. -/
def identityInit (n : Nat) : List X := (List.range n).map .emptyFold

/-- Method name of a derived trait (`add_like.rs:11-15`, `mul_assign_like.rs:10-14`, ...). -/
def lowerAscii (s : String) : String := s.toLower

def methodName (trait : String) : String :=
  if trait.endsWith "Assign" then lowerAscii (trait.dropEnd 6).toString ++ "_assign" else lowerAscii trait

/-! ### Semantics over an arbitrary operand type -/

/-- Evaluation: `op` the binary operator of the fields' type, `sop` the scalar one, `u` the unary
one, `e` the empty fold. -/
def eval {α β : Type} (op : α → α → α) (sop : α → β → α) (u : α → α) (e : Nat → α)
    (l r : List α) (sc : β) (dflt : α) : X → α
  | .fld .lhs i => l.getD i dflt
  | .fld .rhs i => r.getD i dflt
  | .scalar => dflt
  | .bin recv .scalar => sop (eval op sop u e l r sc dflt recv) sc
  | .bin recv arg => op (eval op sop u e l r sc dflt recv) (eval op sop u e l r sc dflt arg)
  | .un recv => u (eval op sop u e l r sc dflt recv)
  | .emptyFold i => e i

/-! ### Enums (`add_like::enum_content`, `not_like::enum_output_type_and_content`) -/

inductive VKind where
  | unit
  | fields (n : Nat)
  deriving Repr, DecidableEq, Inhabited

inductive BinErr where
  | unit | mismatch
  deriving Repr, DecidableEq, Inhabited

/-- One arm of `match (self, rhs)`. -/
inductive Arm where
  /-- `(E::V(l..), E::V(r..)) => Ok(E::V(l_i.m(r_i)..))` -/
  | same (v : Nat) (inits : List X)
  /-- `(E::U, E::U) => Err(Unit)` -/
  | unitErr (v : Nat)
  /-- `_ => Err(Mismatch)` -/
  | mismatch
  deriving Repr, DecidableEq, Inhabited

/-- One arm per variant, in declaration order, numbered from `i`. -/
def variantArms : Nat → List VKind → List Arm
  | _, [] => []
  | i, k :: ks =>
    (match k with
     | .unit => Arm.unitErr i
     | .fields n => Arm.same i (fieldwiseBin n)) :: variantArms (i + 1) ks

/-- The mismatch arm exists only for enums with more than one variant. -/
def enumArms (vs : List VKind) : List Arm :=
  variantArms 0 vs ++ (if vs.length > 1 then [Arm.mismatch] else [])

/-- First-arm-wins evaluation of the generated match on a pair of values (variant index, fields). -/
def evalEnum {α : Type} (op : α → α → α) (dflt : α) (arms : List Arm) (a b : Nat × List α) :
    Option (Except BinErr (Nat × List α)) :=
  match arms with
  | [] => none     -- non-exhaustive: cannot happen for well-formed pairs
  | .same v inits :: rest =>
    if a.1 = v ∧ b.1 = v then
      some (.ok (v, inits.map (eval op (fun x (_ : Unit) => x) id (fun _ => dflt) a.2 b.2 () dflt)))
    else evalEnum op dflt rest a b
  | .unitErr v :: rest =>
    if a.1 = v ∧ b.1 = v then some (.error .unit) else evalEnum op dflt rest a b
  | .mismatch :: _ => some (.error .mismatch)

/-! #### `Not` / `Neg` on enums (`not_like::enum_output_type_and_content`) -/

/-- The output is wrapped in `Result<Self, UnitError>` iff the enum has a **unit** variant; a
field-less tuple or struct variant (`Empty()`, `Empty {}`) is `.fields 0` and does not count. -/
def notHasUnit (vs : List VKind) : Bool := vs.any fun k => k = .unit

/-- One arm of `match self` per variant. -/
inductive NotArm where
  /-- `E::U => Err(UnitError)` -/
  | unitErr
  /-- `E::V(x..) => E::V(x.not()..)`, wrapped in `Ok(..)` iff `wrap` -/
  | map (n : Nat) (wrap : Bool)
  deriving Repr, DecidableEq, Inhabited

def notArms (vs : List VKind) : List NotArm :=
  vs.map fun k => match k with
    | .unit => .unitErr
    | .fields n => .map n (notHasUnit vs)

inductive NotOut (α : Type) where
  | plain (v : Nat × List α)      -- the enum itself
  | ok (v : Nat × List α)         -- `Ok(enum)`
  | err                           -- `Err(UnitError)`
  deriving Repr, DecidableEq

/-- The generated `match self` on a value (variant index, fields): arm `a.1` fires. -/
def evalNot {α : Type} (u : α → α) (dflt : α) (arms : List NotArm) (a : Nat × List α) : Option (NotOut α) :=
  match arms[a.1]? with
  | none => none
  | some .unitErr => some .err
  | some (.map n wrap) =>
    let v := (a.1, (fieldwiseUn n).map (eval (fun x _ => x) (fun x (_ : Unit) => x) u (fun _ => dflt) a.2 a.2 () dflt))
    some (if wrap then .ok v else .plain v)

end Dm.Ops

def hello := "world"

import Dm.Model.Generics
import Dm.Driver.Sexp

/-
`gn <family> (<param>...)` ; param := (l <id>) | (t <id>) | (c <id>) ; family := plain | lifetime | typeparam | bound | where
Answer: `impl=<k><id>,...;self=<k><id>,...` with k ∈ l t c; the extra lifetime is id 900, the extra type parameter 901.
-/
namespace Dm.GnCmd
open Dm.Gnr Dm.Sexp

def kch : PKind → String
  | .lifetime => "l" | .type => "t" | .const => "c"

def cmdGn (line : String) : String :=
  match Sexp.parse ("(" ++ line ++ ")") with
  | some (Sexp.list [.atom fam, Sexp.list ps]) =>
    (do
      let params ← ps.mapM fun (p : Sexp) => match p with
        | Sexp.list [.atom k, .atom n] => do
          let n ← n.toNat?
          let k ← (match k with | "l" => some PKind.lifetime | "t" => some PKind.type | "c" => some PKind.const | _ => none)
          pure ({ kind := k, name := n, bounds := [], hasDefault := false } : Param)
        | _ => none
      let g : Generics := ⟨params, []⟩
      let g' ← (match fam with
        | "plain" => some g
        | "lifetime" => some (addExtraGenericParam g ⟨.lifetime, 900, [], false⟩)
        | "typeparam" => some (addExtraGenericTypeParam g ⟨.type, 901, [], false⟩)
        | "bound" => some (addExtraTyParamBound g [0])
        | "where" => some (addExtraWhereClauses g [[0]])
        | f =>
          if f.startsWith "pushtype" then
            ((f.drop 8).toString.toNat?).map fun k =>
              (List.range k).foldl (fun acc i => addExtraGenericParam acc ⟨.type, 901 + i, [], false⟩) g
          else none)
      let h := header g g'
      pure ("impl=" ++ ",".intercalate (h.implParams.map fun (p : Param) => kch p.kind ++ toString p.name)
        ++ ";self=" ++ ",".intercalate (h.selfArgs.map fun (a : PKind × Nat) => kch a.1 ++ toString a.2))).getD "bad-op"
  | _ => "bad-op"

end Dm.GnCmd

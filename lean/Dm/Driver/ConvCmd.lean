import Dm.Model.Conv
import Dm.Driver.Sexp
import Dm.Driver.Wire

/-
`cv (from struct <hexname> <kind> <attr> <field>...)`
`cv (from enum <hexname> (v <hexname> <kind> <attr> <field>...)...)`
`cv (into <hexname> <kind> (attrs <cattr>...) (fld <field> (attrs <fattr>...))...)`
`cv (ctor <hexname> <kind> <field>...)`
field := (f <hexname|-> <hex type tokens>)   kind := unit|tuple|named
attr  := n | e | s | fw | (t <ty>...)         ty := (ty <hex tokens> -|(el <hex>...))
cattr/fattr := e | s | (c (o <0|1> <ty>...) (r <0|1> <ty>...) (m <0|1> <ty>...))
Answer: `ok <impl>;<impl>;...` (each impl `HEADERTAIL{BODY}`) | `err` | `panic`
-/
namespace Dm.ConvCmd
open Dm.Conv Dm.Sexp Dm.Wire

def dKind : String → Option Kind
  | "unit" => some .unit | "tuple" => some .tuple | "named" => some .named | _ => none

def dField : Sexp → Option Field
  | Sexp.list [.atom "f", .atom n, .atom t] => do
    let n ← (if n == "-" then some none else (hexDecode n).map some)
    let t ← hexDecode t
    pure { name := n, ty := t }
  | _ => none

def dTy : Sexp → Option TyA
  | Sexp.list [.atom "ty", .atom t, .atom "-"] => (hexDecode t).map fun t => { toks := t, tuple := none }
  | Sexp.list [.atom "ty", .atom t, Sexp.list (.atom "el" :: els)] => do
    let t ← hexDecode t
    let els ← els.mapM fun (e : Sexp) => match e with | Sexp.atom a => hexDecode a | _ => none
    pure { toks := t, tuple := some els }
  | _ => none

def dFromAttr : Sexp → Option FromAttr
  | .atom "n" => some .none | .atom "e" => some .empty | .atom "s" => some .skip | .atom "fw" => some .forward
  | Sexp.list (.atom "t" :: tys) => (tys.mapM dTy).map FromAttr.types
  | _ => none

def dConvs : Sexp → Option Convs
  | Sexp.list (.atom _ :: .atom c :: tys) => (tys.mapM dTy).map fun tys => { consider := c == "1", tys := tys }
  | _ => none

inductive IAttr where
  | empty | skip
  | convs (c : ConvsAttr)

def dIAttr : Sexp → Option IAttr
  | .atom "e" => some .empty | .atom "s" => some .skip
  | Sexp.list [.atom "c", o, r, m] => do
    let o ← dConvs o
    let r ← dConvs r
    let m ← dConvs m
    pure (.convs { owned := o, ref := r, refMut := m })
  | _ => none

def member (f : Field) (i : Nat) : String := f.name.getD (toString i)

def P := "derive_more::core::convert::From"

def rInit (f : Field) : Init → String
  | .direct none => (match f.name with | some n => n ++ ":" | none => "") ++ "value,"
  | .direct (some k) => (match f.name with | some n => n ++ ":" | none => "") ++ s!"value.{k},"
  | .conv ft from_ none => (match f.name with | some n => n ++ ":" | none => "") ++ s!"<{ft}as{P}<{from_}>>::from(value),"
  | .conv ft from_ (some k) => (match f.name with | some n => n ++ ":" | none => "") ++ s!"<{ft}as{P}<{from_}>>::from(value.{k}),"

def rFromImpl (path : String) (kind : Kind) (fields : List Field) (self : String) (impl : FromImpl) : String :=
  let inits := String.join ((fields.zip impl.inits).map fun (f, i) => rInit f i)
  let group := match kind with
    | .unit => ""
    | .tuple => "(" ++ inits ++ ")"
    | .named => "{" ++ inits ++ "}"
  let wh := if impl.fresh.isEmpty then "" else
    "where" ++ ",".intercalate ((fields.zip impl.fresh).map fun (f, g) => s!"{f.ty}:{P}<{g}>")
  s!"{impl.source}>for{self}{wh}" ++ "{" ++ path ++ group ++ "}"

def showR (r : R (List String)) : String :=
  match r with
  | .ok l => "ok " ++ ";".intercalate l
  | .error .diag => "err"
  | .error .panic => "panic"

def cmdFrom (rest : List Sexp) : String :=
  match rest with
  | .atom "struct" :: .atom n :: .atom k :: a :: fs =>
    (do
      let n ← hexDecode n
      let k ← dKind k
      let a ← dFromAttr a
      let fs ← fs.mapM dField
      pure (showR ((fromExpand a false false fs).map fun (impls : List FromImpl) => impls.map (rFromImpl n k fs n)))).getD "bad-op"
  | .atom "enum" :: .atom n :: vs =>
    (do
      let n ← hexDecode n
      let vs ← vs.mapM fun (v : Sexp) => match v with
        | Sexp.list (.atom "v" :: .atom vn :: .atom k :: a :: fs) => do
          let vn ← hexDecode vn
          let k ← dKind k
          let a ← dFromAttr a
          let fs ← fs.mapM dField
          pure (vn, k, a, fs)
        | _ => none
      let hef := hasExplicitFrom (vs.map fun (x : String × Kind × FromAttr × List Field) => x.2.2.1)
      let r : R (List (List String)) := vs.mapM fun (x : String × Kind × FromAttr × List Field) =>
        (fromExpand x.2.2.1 true hef x.2.2.2).map fun (impls : List FromImpl) =>
          impls.map (rFromImpl s!"{n}::{x.1}" x.2.1 x.2.2.2 n)
      pure (showR (r.map List.flatten))).getD "bad-op"
  | _ => "bad-op"

def rIntoImpl (name : String) (allFields : List Field) (impl : IntoImpl) : String :=
  let (r, lf, m) := match impl.kind with
    | .owned => ("", "", "")
    | .ref => ("&", "'__derive_more_into", "")
    | .refMut => ("&", "'__derive_more_into", "mut")
  let src := s!"{r}{lf}{m}{name}"
  let target := "(" ++ ",".intercalate (impl.tys.map fun t => s!"{r}{lf}{m}{t}") ++ ")"
  let body := "(" ++ ",".intercalate ((impl.tys.zip impl.fields).map fun (t, i) =>
    s!"<{r}{m}{t}as{P}<_>>::from({r}{m}value.{(allFields[i]?.map fun f => member f i).getD "?"})") ++ ")"
  s!"{src}>for{target}" ++ "{" ++ body ++ "}"

/-- Struct level (`Either<Empty, ConversionsAttribute>`): several attributes merge only when all
of them carry conversions. `none` = error. -/
def mergeS (as : List IAttr) : Option (Option ConvsAttr) :=
  match as with
  | [] => some none
  | [.empty] => some (some ConvsAttr.dflt)
  | [.convs c] => some (some c)
  | [.skip] => none
  | _ =>
    (as.mapM fun (a : IAttr) => match a with | IAttr.convs c => some c | _ => none).bind fun cs =>
      match cs with
      | [] => none
      | c :: rest => some (some (rest.foldl ConvsAttr.merge c))

/-- Field level (`FieldAttribute { skip, convs }`): `#[into]` counts as default conversions; two
`skip`s are an error; conversions merge. `none` = error. -/
def mergeF (as : List IAttr) : Option (Option ConvsAttr × Bool) :=
  let skips := (as.filter fun a => match a with | .skip => true | _ => false).length
  if skips > 1 then none else
  let cs := as.filterMap fun a => match a with
    | .empty => some ConvsAttr.dflt
    | .convs c => some c
    | .skip => none
  match cs with
  | [] => some (none, skips = 1)
  | c :: rest => some (some (rest.foldl ConvsAttr.merge c), skips = 1)

def cmdInto (rest : List Sexp) : String :=
  match rest with
  | .atom n :: .atom _k :: Sexp.list (.atom "attrs" :: sa) :: flds =>
    (do
      let n ← hexDecode n
      let sa ← sa.mapM dIAttr
      let flds ← flds.mapM fun (x : Sexp) => match x with
        | Sexp.list [.atom "fld", f, Sexp.list (.atom "attrs" :: fa)] => do
          let f ← dField f
          let fa ← fa.mapM dIAttr
          pure (f, fa)
        | _ => none
      match mergeS sa, flds.mapM (fun (x : Field × List IAttr) => (mergeF x.2).map fun r => (x.1, r)) with
      | some sc, some fr =>
      let fields : List (Field × IntoFieldAttr × Bool) := fr.map fun (x : Field × Option ConvsAttr × Bool) =>
        (x.1, (match x.2.1 with
          | some c => IntoFieldAttr.convs c
          | none => if x.2.2 then IntoFieldAttr.skip else IntoFieldAttr.none), x.2.2)
      let all : List Field := fields.map fun (x : Field × IntoFieldAttr × Bool) => x.1
      pure (showR ((intoAll sc fields).map fun (impls : List IntoImpl) => impls.map (rIntoImpl n all)))
      | _, _ => pure "err").getD "bad-op"
  | _ => "bad-op"

def cmdCtor (rest : List Sexp) : String :=
  match rest with
  | .atom n :: .atom k :: fs =>
    (do
      let n ← hexDecode n
      let k ← dKind k
      let fs : List Field ← fs.mapM dField
      let vars : List String := fs.zipIdx.map fun (x : Field × Nat) =>
        match x.1.name with | some nm => nm | none => s!"__{x.2}"
      let params := ",".intercalate ((vars.zip fs).map fun (x : String × Field) => s!"{x.1}:{x.2.ty}")
      let body : String := match k with
        | .tuple => n ++ "(" ++ ",".intercalate ((ctorInits fs.length).map fun i => vars.getD i "?") ++ ")"
        | _ => n ++ "{" ++ ",".intercalate ((ctorInits fs.length).map fun i =>
            ((fs[i]?.bind fun (f : Field) => f.name).getD "?") ++ ":" ++ vars.getD i "?") ++ "}"
      let out : String := s!"ok new({params})->{n}" ++ "{" ++ body ++ "}"
      pure out).getD "bad-op"
  | _ => "bad-op"

def cmdCv (line : String) : String :=
  match Sexp.parse line with
  | some (Sexp.list (.atom "from" :: rest)) => cmdFrom rest
  | some (Sexp.list (.atom "into" :: rest)) => cmdInto rest
  | some (Sexp.list (.atom "ctor" :: rest)) => cmdCtor rest
  | _ => "bad-op"

end Dm.ConvCmd

import Dm.Model.StdFmt
import Dm.Driver.Wire

/-
Driver commands for the format-literal model:
  fmt <hex literal> <hex xidStart-nonascii> <hex xidContinue-nonascii> <hex whitespace-nonascii>
  std <classes x3> <piece> <piece> ...      (a derivation; answers render + meaning)
-/
namespace Dm.FmtCmd
open Dm.Fmt Dm.Wire

def asciiStart (c : Char) : Bool := c.isAlpha
def asciiCont (c : Char) : Bool := c.isAlphanum || c = '_'
def asciiWs (c : Char) : Bool := c = ' ' || (9 ≤ c.toNat && c.toNat ≤ 13)

def mkClasses (xs xc ws : List Char) : CharClasses :=
  { isStart := fun c => if c.toNat < 128 then asciiStart c else xs.contains c
    isCont := fun c => if c.toNat < 128 then asciiCont c else xc.contains c
    isWs := fun c => if c.toNat < 128 then asciiWs c else ws.contains c }

def showArg : Arg → String
  | .int n => s!"i{n}"
  | .ident s => "n" ++ hexOfChars s

def showCount : Count → String
  | .int n => s!"i{n}"
  | .param a => "p" ++ showArg a

def showTy : Ty → String
  | .display => "Display" | .debug => "Debug" | .lowerDebug => "LowerDebug"
  | .upperDebug => "UpperDebug" | .octal => "Octal" | .lowerHex => "LowerHex"
  | .upperHex => "UpperHex" | .pointer => "Pointer" | .binary => "Binary"
  | .lowerExp => "LowerExp" | .upperExp => "UpperExp"

def showTrait : Trait → String
  | .display => "Display" | .debug => "Debug" | .octal => "Octal" | .lowerHex => "LowerHex"
  | .upperHex => "UpperHex" | .pointer => "Pointer" | .binary => "Binary"
  | .lowerExp => "LowerExp" | .upperExp => "UpperExp"

def b01 (b : Bool) : String := if b then "1" else "0"

def showFormat (f : Format) : String :=
  let arg := match f.arg with | some a => showArg a | none => "-"
  let spec := match f.spec with
    | none => "nospec"
    | some s =>
      let al := match s.align with
        | none => "-"
        | some (fill, a) =>
          let a := match a with | .left => "L" | .center => "C" | .right => "R"
          match fill with
          | none => a
          | some c => a ++ "." ++ natToHex c.toNat
      let sg := match s.sign with | none => "-" | some .plus => "P" | some .minus => "M"
      let w := match s.width with | some c => showCount c | none => "-"
      let p := match s.prec with
        | none => "-" | some .star => "*" | some (.count c) => showCount c
      s!"al={al},sg={sg},alt={b01 s.alt},zp={b01 s.zero},w={w},p={p},ty={showTy s.ty}"
  s!"F({arg};{spec})"

def showPlaceholder (p : Placeholder) : String :=
  let a := match p.arg with | .pos n => s!"i{n}" | .named s => "n" ++ hexOfChars s
  s!"P({a},{b01 p.mods},{showTrait p.trait})"

def decodeChars (h : String) : Option (List Char) := (hexDecode h).map String.toList

def fmtAnswer (cc : CharClasses) (s : List Char) : String :=
  let whole := match formatString cc s with
    | none => "none"
    | some fs => "ok " ++ " ".intercalate (fs.map showFormat)
  let one := match format cc s with
    | some ([], f) => showFormat f
    | some _ => "trailing"
    | none => "none"
  let ph := " ".intercalate ((parseFmtString cc s).map showPlaceholder)
  s!"{whole} | one={one} | ph={ph}"

def cmdFmt (args : List String) : String :=
  match args with
  | [lit, xs, xc, ws] =>
    match decodeChars lit, decodeChars xs, decodeChars xc, decodeChars ws with
    | some lit, some xs, some xc, some ws => fmtAnswer (mkClasses xs xc ws) lit
    | _, _, _, _ => "bad-op"
  | _ => "bad-op"

/-! Derivation decoding: `T<hex>` | `L` | `R` |
`P<arg>;nospec;<ws>` | `P<arg>;<fill>;<align>;<sign>;<alt>;<zero>;<width>;<prec>;<ty>;<ws>`
with arg `-`|`i<digits>`|`n<hex>`, fill `-`|`<hex codepoint>`, align `-LCR`, sign `-PM`,
width `-`|`i<digits>`|`pi<digits>`|`pn<hex>`, prec the same or `*`. -/

def decArg (s : String) : Option (Option ArgA) :=
  if s == "-" then some none
  else if s.startsWith "i" then some (some (.idx (s.drop 1).toString.toList))
  else if s.startsWith "n" then (decodeChars (s.drop 1).toString).map fun cs => some (.name cs)
  else none

def decCount (s : String) : Option (Option CountA) :=
  if s == "-" then some none
  else if s.startsWith "p" then
    match decArg (s.drop 1).toString with
    | some (some a) => some (some (.param a))
    | _ => none
  else if s.startsWith "i" then some (some (.lit (s.drop 1).toString.toList))
  else none

def decTy (s : String) : Option Ty :=
  [Ty.display, .debug, .lowerDebug, .upperDebug, .octal, .lowerHex, .upperHex, .pointer, .binary,
    .lowerExp, .upperExp].find? fun t => showTy t == s

def decPiece (s : String) : Option Piece :=
  if s == "L" then some .lbrace
  else if s == "R" then some .rbrace
  else if s.startsWith "T" then (decodeChars (s.drop 1).toString).map Piece.text
  else if s.startsWith "P" then
    match (s.drop 1).toString.splitOn ";" with
    | [arg, "nospec", ws] => do
      let arg ← decArg arg
      let ws ← decodeChars ws
      pure (.ph { arg := arg, spec := none, ws := ws })
    | [arg, fill, align, sign, alt, zero, width, prec, ty, ws] => do
      let arg ← decArg arg
      let fill ← (if fill == "-" then some none else
        match (fill.toList.foldl (fun (acc : Option Nat) c => do
          let a ← acc
          let v ← hexVal c
          pure (a * 16 + v)) (some 0)) with
        | some n => some (some (Char.ofNat n))
        | none => none)
      let align ← (match align with
        | "-" => some none | "L" => some (some Align.left) | "C" => some (some Align.center)
        | "R" => some (some Align.right) | _ => none)
      let sign ← (match sign with
        | "-" => some none | "P" => some (some Sign.plus) | "M" => some (some Sign.minus)
        | _ => none)
      let width ← decCount width
      let prec ← (if prec == "*" then some (some PrecA.star) else
        (decCount prec).map fun c => c.map PrecA.count)
      let ty ← decTy ty
      let ws ← decodeChars ws
      let sp : SpecA :=
        { fill := fill, align := align, sign := sign, alt := alt == "1", zero := zero == "1",
          width := width, prec := prec, ty := ty }
      pure (.ph { arg := arg, ws := ws, spec := some sp })
    | _ => none
  else none

def cmdStd (args : List String) : String :=
  match args with
  | xs :: xc :: ws :: pieces =>
    match decodeChars xs, decodeChars xc, decodeChars ws, pieces.mapM decPiece with
    | some xs, some xc, some ws, some ps =>
      let cc := mkClasses xs xc ws
      let lit := renderAll ps
      let mean := " ".intercalate ((meaning ps).map showPlaceholder)
      let dm := " ".intercalate ((parseFmtString cc lit).map showPlaceholder)
      s!"lit={hexOfChars lit} | std={mean} | dm={dm}"
    | _, _, _, _ => "bad-op"
  | _ => "bad-op"

end Dm.FmtCmd

import Dm.Model.Variants
import Dm.Driver.Sexp
import Dm.Driver.Wire

/-
`va (<Derive> <hex enum name> <enum attr> (v <hexname> <hexsnake> <kind> <attr> (f <hexname|-> <hexty> <0|1 ignored>)...)...)`
Derive := IsVariant | Unwrap | TryUnwrap | TryInto ; attr := - | (a <param>...) ; param := i|o|r|m
Answer: `ok <entry>;<entry>...` | `panic`
-/
namespace Dm.VarCmd
open Dm.Var Dm.Sexp Dm.Wire

structure FW where
  name : String
  ty : String
  ignored : Bool

structure VW where
  name : String
  snake : String
  kind : String       -- unit | tuple | named
  attr : Option (List Param)
  fields : List FW

def dAttr : Sexp → Option (Option (List Param))
  | .atom "-" => some none
  | Sexp.list (.atom "a" :: ps) =>
    (ps.mapM fun (p : Sexp) => match p with
      | Sexp.atom "i" => some Param.ignore | Sexp.atom "o" => some Param.owned
      | Sexp.atom "r" => some Param.ref | Sexp.atom "m" => some Param.refMut | _ => none).map some
  | _ => none

def dV : Sexp → Option VW
  | Sexp.list (.atom "v" :: .atom n :: .atom sn :: .atom k :: a :: fs) => do
    let n ← hexDecode n
    let sn ← hexDecode sn
    let a ← dAttr a
    let fs ← fs.mapM fun (f : Sexp) => match f with
      | Sexp.list [.atom "f", .atom nm, .atom t, .atom ig] => do
        let nm ← hexDecode nm
        let t ← hexDecode t
        pure ({ name := nm, ty := t, ignored := ig == "1" } : FW)
      | _ => none
    pure { name := n, snake := sn, kind := k, attr := a, fields := fs }
  | _ => none

def dotPat (e : String) (v : VW) : String :=
  match v.kind with
  | "named" => s!"{e}::{v.name}" ++ "{..}"
  | "tuple" => s!"{e}::{v.name}(..)"
  | _ => s!"{e}::{v.name}"

def cmdVa (line : String) : String :=
  match Sexp.parse line with
  | some (Sexp.list (.atom derive :: .atom en :: ea :: vs)) =>
    (do
      let e ← hexDecode en
      let ea ← dAttr ea
      let vs : List VW ← vs.mapM dV
      let attrs : List (Option (List Param)) := vs.map fun (v : VW) => v.attr
      let infos := variantInfos ea attrs
      let dflt := defaults ea attrs
      let enabled := (vs.zip infos).filter fun (x : VW × Full) => x.2.enabled
      match derive with
      | "IsVariant" =>
        pure ("ok " ++ ";".intercalate (enabled.map fun (x : VW × Full) => s!"is_{x.1.snake}|{dotPat e x.1}"))
      | "Unwrap" | "TryUnwrap" =>
        if enabled.any (fun (x : VW × Full) => x.1.kind == "named") then pure "panic" else
        let pre := if derive == "Unwrap" then "unwrap_" else "try_unwrap_"
        let fail := ",".intercalate (vs.map (dotPat e))
        let fns := enabled.flatMap fun (x : VW × Full) =>
          let v := x.1
          let binds := ",".intercalate ((List.range v.fields.length).map fun i => s!"field_{i}")
          let pat := if v.kind == "tuple" then s!"{e}::{v.name}({binds})" else s!"{e}::{v.name}"
          let ret := if v.kind == "tuple" then s!"({binds})" else "()"
          let tys (r : String) := "(" ++ ",".intercalate (v.fields.map fun (f : FW) => r ++ f.ty) ++ ")"
          (if x.2.owned && dflt.owned then [s!"{pre}{v.snake}|self|{tys ""}|{pat}|{ret}|{fail}"] else [])
          ++ (if x.2.ref && dflt.ref then [s!"{pre}{v.snake}_ref|&self|{tys "&"}|{pat}|{ret}|{fail}"] else [])
          ++ (if x.2.refMut && dflt.refMut then [s!"{pre}{v.snake}_mut|&mutself|{tys "&mut"}|{pat}|{ret}|{fail}"] else [])
        pure ("ok " ++ ";".intercalate fns)
      | "TryInto" =>
        -- groups: (ref kind, types of the non-ignored fields); compared as a set (sorted)
        let items : List (String × List String × VW) := enabled.flatMap fun (x : VW × Full) =>
          let tys : List String := (x.1.fields.filter fun (f : FW) => !f.ignored).map fun (f : FW) => f.ty
          (if x.2.owned then [("owned", tys, x.1)] else [])
          ++ (if x.2.ref then [("ref", tys, x.1)] else [])
          ++ (if x.2.refMut then [("ref_mut", tys, x.1)] else [])
        let keys := (items.map fun (x : String × List String × VW) => (x.1, x.2.1)).eraseDups
        let impls := keys.map fun (k : String × List String) =>
          let group := items.filter fun (x : String × List String × VW) => x.1 == k.1 && x.2.1 == k.2
          let (r, pr) := match k.1 with
            | "ref" => ("&'__deriveMoreLifetime", "ref")
            | "ref_mut" => ("&'__deriveMoreLifetimemut", "refmut")
            | _ => ("", "")
          let target := "(" ++ ",".intercalate (k.2.map fun t => r ++ t) ++ ")"
          let matchers := "|".intercalate (group.map fun (x : String × List String × VW) =>
            let v := x.2.2
            let rec slots (fs : List FW) (next : Nat) : List String :=
              match fs with
              | [] => []
              | f :: rest => if f.ignored then "_" :: slots rest next else s!"{pr}__{next}" :: slots rest (next + 1)
            let sl := slots v.fields 0
            match v.kind with
            | "named" => s!"{e}::{v.name}" ++ "{" ++ ",".intercalate ((v.fields.zip sl).map fun (p : FW × String) => p.1.name ++ ":" ++ p.2) ++ "}"
            | "tuple" => s!"{e}::{v.name}(" ++ ",".intercalate sl ++ ")"
            | _ => s!"{e}::{v.name}" ++ "{}")
          let n := k.2.length
          let vars := if n == 1 then "__0" else "(" ++ ",".intercalate ((List.range n).map fun i => s!"__{i}") ++ ")"
          s!"{r}{e}>for{target}|{matchers}|{vars}"
        pure ("ok " ++ ";".intercalate (impls.mergeSort (fun a b => a ≤ b)))
      | _ => none).getD "bad-op"
  | _ => "bad-op"

end Dm.VarCmd

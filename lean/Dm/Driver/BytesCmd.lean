import Dm.Model.FmtBytes
import Dm.Driver.Wire

/-
`bc <name> <hex input>` → `ok <hex rest> <hex consumed>` | `none` | `panic`
The named instances are those of the hook `fmt::parsing::verif_hooks::combinator`. Whitespace is
decided on the alphabet the check uses (U+0020, U+00A0, U+3000 are its only whitespace characters).
-/
namespace Dm.BytesCmd
open Dm.Bytes Dm.Wire

def isWs (c : Char) : Bool := c == ' ' || c.toNat == 0xA0 || c.toNat == 0x3000
def wide : Char := Char.ofNat 0x3000
def euro : Char := Char.ofNat 0x20AC

def hexOut (s : List Char) : String := if s.isEmpty then "-" else hexEncode (String.ofList s)

def showRest (o : Out (List Char)) : String :=
  match o with
  | .ok r => s!"ok {hexOut r} -"
  | .none => "none"
  | .panic => "panic"

def showPair (o : Out (List Char × List Char)) : String :=
  match o with
  | .ok (r, t) => s!"ok {hexOut r} {hexOut t}"
  | .none => "none"
  | .panic => "panic"

def cmdBc (args : List String) : String :=
  match args with
  | [name, h] =>
    match hexDecode h with
    | none => "bad-op"
    | some s =>
      let i := s.toList
      match name with
      | "char_brace" => showRest (char' '}' i)
      | "char_wide" => showRest (char' wide i)
      | "any_char" => showRest (anyChar i)
      | "check_ws" => showRest (checkChar isWs i)
      | "str_dollar" => showRest (str' [euro, '$'] i)
      | "one_of" => showRest (oneOf ['{', '}', euro] i)
      | "tw0_ws" => showPair (takeWhile0 (checkChar isWs) i)
      | "tw0_any" => showPair (takeWhile0 anyChar i)
      | "tw1_digit" => showPair (takeWhile1 (checkChar fun c => c.isDigit) i)
      | "tw1_ws" => showPair (takeWhile1 (checkChar isWs) i)
      | "tu1_any_brace" => showPair (takeUntil1 anyChar (oneOf ['{', '}']) i)
      | "tu1_ws_wide" => showPair (takeUntil1 (checkChar isWs) (char' wide) i)
      | _ => "bad-op"
  | _ => "bad-op"

end Dm.BytesCmd

import Dm.Model.LegacyAttr
import Dm.Driver.Sexp

/-
`la (<allowed name>...) <attr form>...` ; attr form := w | nv | (l <meta>...)
meta := (p <name>) | (l <name> <meta>...) | (n <meta>...) ; name := ignore|forward|owned|ref|ref_mut|source|backtrace|x<k>
Answer: `ok <7 flags t|f|->` (enabled forward owned ref ref_mut source backtrace) | `err`
-/
namespace Dm.LegacyCmd
open Dm.Legacy Dm.Sexp

def dName (s : String) : Option Name :=
  match s with
  | "ignore" => some .ignore | "forward" => some .forward | "owned" => some .owned | "ref" => some .ref
  | "ref_mut" => some .refMut | "source" => some .source | "backtrace" => some .backtrace
  | _ => if s.startsWith "x" then (s.drop 1).toString.toNat?.map Name.other else none

partial def dMeta : Sexp → Option Meta
  | Sexp.list [.atom "p", .atom n] => (dName n).map Meta.path
  | Sexp.list (.atom "l" :: .atom n :: args) => do
    let n ← dName n
    let args ← args.mapM dMeta
    pure (Meta.list n args)
  | Sexp.list (.atom "n" :: args) => do
    let args ← args.mapM dMeta
    pure (Meta.notList args)
  | _ => none

def dAttr : Sexp → Option AttrForm
  | .atom "w" => some .word
  | .atom "nv" => some .nameValue
  | Sexp.list (.atom "l" :: ms) => (ms.mapM dMeta).map AttrForm.list
  | _ => none

def flag (o : Option Bool) : Char := match o with | some true => 't' | some false => 'f' | none => '-'

def cmdLa (line : String) : String :=
  match Sexp.parse ("(" ++ line ++ ")") with
  | some (Sexp.list (Sexp.list allowed :: attrs)) =>
    (do
      let allowed ← allowed.mapM fun (a : Sexp) => match a with | .atom n => dName n | _ => none
      let attrs ← attrs.mapM dAttr
      match getMetaInfo allowed attrs with
      | .ok i => pure ("ok " ++ String.ofList ([Slot.enabled, .forward, .owned, .ref, .refMut, .source, .backtrace].map fun s => flag (i s)))
      | .error _ => pure "err").getD "bad-op"
  | _ => "bad-op"

end Dm.LegacyCmd

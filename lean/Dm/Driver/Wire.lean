/-
Wire helpers of the line-protocol driver: hex-encoded UTF-8 strings, small printers.
-/
namespace Dm.Wire

def hexDigit (n : Nat) : Char :=
  if n < 10 then Char.ofNat (48 + n) else Char.ofNat (87 + n)

def hexVal (c : Char) : Option Nat :=
  if '0' ≤ c ∧ c ≤ '9' then some (c.toNat - 48)
  else if 'a' ≤ c ∧ c ≤ 'f' then some (c.toNat - 87)
  else if 'A' ≤ c ∧ c ≤ 'F' then some (c.toNat - 55)
  else none

def hexEncode (s : String) : String :=
  if s.isEmpty then "-" else
  String.ofList (s.toUTF8.toList.flatMap fun b =>
    [hexDigit (b.toNat / 16), hexDigit (b.toNat % 16)])

def hexBytes : List Char → Option (List UInt8)
  | [] => some []
  | [_] => none
  | a :: b :: r => do
    let x ← hexVal a
    let y ← hexVal b
    let t ← hexBytes r
    pure (UInt8.ofNat (x * 16 + y) :: t)

def hexDecode (s : String) : Option String :=
  if s == "-" then some "" else
  match hexBytes s.toList with
  | some bs => String.fromUTF8? (ByteArray.mk bs.toArray)
  | none => none

def hexOfChars (cs : List Char) : String := hexEncode (String.ofList cs)

def natToHex (n : Nat) : String :=
  String.ofList (Nat.toDigits 16 n)

end Dm.Wire

import Dm.Model.Delegate
import Dm.Driver.Sexp
import Dm.Driver.Wire

/-
`dl (<Derive> <hexname> <struct attr> (f <hexname|-> <hexty> <generic 0|1> <field attr>)...)`
Derive ∈ Deref DerefMut Index IndexMut IntoIterator AsRef AsMut
legacy attr := - | (a <i|f|o|r|m>...)      as attr := - | s | e | fw | (t (<hexty> <0|1>)...)
Answer: `ok <head>|<body>;...` | `err` | `panic`
-/
namespace Dm.DelCmd
open Dm.Del Dm.Sexp Dm.Wire

structure FW where
  name : Option String
  ty : String
  generic : Bool
  attr : Sexp

def dLegacy : Sexp → Option (Option (List Param))
  | .atom "-" => some none
  | Sexp.list (.atom "a" :: ps) =>
    (ps.mapM fun (p : Sexp) => match p with
      | Sexp.atom "i" => some Param.ignore | Sexp.atom "f" => some Param.forward
      | Sexp.atom "o" => some Param.owned | Sexp.atom "r" => some Param.ref
      | Sexp.atom "m" => some Param.refMut | Sexp.atom "n" => some Param.notForward | _ => none).map some
  | _ => none

def dTys (l : List Sexp) : Option (List (String × Bool)) :=
  l.mapM fun (x : Sexp) => match x with
    | Sexp.list [.atom t, .atom g] => (hexDecode t).map fun t => (t, g == "1")
    | _ => none

def dAsAttr : Sexp → Option AsFieldAttr
  | .atom "-" => some .none | .atom "s" => some .skip | .atom "e" => some .empty | .atom "fw" => some .forward
  | Sexp.list (.atom "t" :: tys) => (dTys tys).map AsFieldAttr.types
  | _ => none

def member (f : FW) (i : Nat) : String := f.name.getD (toString i)

def cmdDl (line : String) : String :=
  match Sexp.parse line with
  | some (Sexp.list (.atom derive :: .atom n :: sattr :: fs)) =>
    (do
      let n ← hexDecode n
      let fs : List FW ← fs.mapM fun (f : Sexp) => match f with
        | Sexp.list [.atom "f", .atom nm, .atom t, .atom g, a] => do
          let nm ← (if nm == "-" then some none else (hexDecode nm).map some)
          let t ← hexDecode t
          pure ({ name := nm, ty := t, generic := g == "1", attr := a } : FW)
        | _ => none
      let mem (i : Nat) : String := (fs[i]?.map fun f => member f i).getD "?"
      let ty (i : Nat) : String := (fs[i]?.map fun (f : FW) => f.ty).getD "?"
      let showR (r : R (List String)) : String := match r with
        | .ok l => "ok " ++ ";".intercalate l
        | .error .diag => "err"
        | .error .panicDeliberate => "panic"
      if derive == "AsRef" || derive == "AsMut" then
        let m := if derive == "AsMut" then "mut" else ""
        let meth := if derive == "AsMut" then "as_mut" else "as_ref"
        let rImpl (i : Nat) (impl : AsImpl) : String :=
          let fr := s!"&{m}self.{mem i}"
          let trait := s!"derive_more::core::convert::{derive}<{impl.ret}>"
          let body := match impl.body with
            | .direct _ => fr
            | .forwarded _ => s!"<{ty i}as{trait}>::{meth}({fr})"
            | .specialized _ => s!"usederive_more::__private::ExtractRefas_;letconv=<derive_more::__private::Conv<&{m}{ty i},{impl.ret}>asderive_more::core::default::Default>::default();(&&conv).__extract_ref({fr})"
          s!"{impl.ret}|{body}"
        match sattr with
        | .atom "-" =>
          let fields ← fs.mapM fun (f : FW) => (dAsAttr f.attr).map fun a => (f.ty, f.generic, a)
          pure (showR ((asExpansions fields).map fun (es : List (Nat × String × Bool × AsConv)) =>
            es.flatMap fun (e : Nat × String × Bool × AsConv) => (asImpls e.1 e.2.1 e.2.2.1 e.2.2.2).map (rImpl e.1)))
        | sa =>
          -- struct-level attribute: exactly one field, which must carry no attribute
          let conv ← (match sa with
            | .atom "fw" => some AsConv.forward
            | Sexp.list (.atom "t" :: tys) => (dTys tys).map AsConv.types
            | _ => none)
          match fs with
          | [f] =>
            let fa ← dAsAttr f.attr
            if fa ≠ AsFieldAttr.none then pure "err" else
            pure ("ok " ++ ";".intercalate ((asImpls 0 f.ty f.generic conv).map (rImpl 0)))
          | _ => pure "err"
      else
        let sa ← dLegacy sattr
        let fas ← fs.mapM fun (f : FW) => dLegacy f.attr
        let infos := fieldInfos sa fas
        let T := s!"derive_more::with_trait::{derive}"
        match derive with
        | "Deref" =>
          pure (showR ((derefBody infos).map fun (b : Body) => match b with
            | .direct i => [s!"{ty i}|&self.{mem i}"]
            | .forwarded i => [s!"<{ty i}as{T}>::Target|<{ty i}as{T}>::deref(&self.{mem i})"]
            | .specialized _ => ["?"]))
        | "DerefMut" =>
          pure (showR ((derefBody infos).map fun (b : Body) => match b with
            | .direct i => [s!"|&mutself.{mem i}"]
            | .forwarded i => [s!"|<{ty i}as{T}>::deref_mut(&mutself.{mem i})"]
            | .specialized _ => ["?"]))
        | "Index" =>
          pure (showR ((indexBody infos).map fun (b : Body) => match b with
            | .forwarded i => [s!"|<{ty i}as{T}<__IdxT>>::index(&self.{mem i},idx)"]
            | _ => ["?"]))
        | "IndexMut" =>
          pure (showR ((indexBody infos).map fun (b : Body) => match b with
            | .forwarded i => [s!"|<{ty i}as{T}<__IdxT>>::index_mut(&mutself.{mem i},idx)"]
            | _ => ["?"]))
        | "IntoIterator" =>
          pure (showR ((intoIterImpls infos).map fun (l : List (RefKind × Nat)) => l.map fun (p : RefKind × Nat) =>
            let (rl, r) := match p.1 with
              | .owned => ("", "")
              | .ref => ("&'__deriveMoreLifetime", "&")
              | .refMut => ("&'__deriveMoreLifetimemut", "&mut")
            s!"{rl}{n}|<{rl}{ty p.2}as{T}>::into_iter({r}self.{mem p.2})"))
        | _ => none).getD "bad-op"
  | _ => "bad-op"

end Dm.DelCmd

import Dm.Model.DebugTuple
import Dm.Model.DebugTree
import Dm.Driver.Wire
import Dm.Driver.Sexp

/-
`dt <alt 0|1> <rest tag> <hex name> <ex|nx> <hex flags-text under caller opts> <hex flags-text under fresh {:#?}> <fields>`
fields := `-` | comma list of `l<hex>` (literal text) | `f` (prints the options it sees)
          | `m<hex>~<hex>~...` (one `write_str` call per chunk; `-` is the empty chunk)
Answer: `dm=<hex> std=<hex>`; the crate's side is computed by the call-by-call model `dmTupleCode`
(`Padded::write_str` as written, one call per chunk), core's side by the text-level `stdTuple`.

`dv <alt> <rest> <hex fc> <hex ff> <tree>`   tree := leaf | `(T <hex name> <ex|nx> tree...)`
          | `(S <hex name> <ex|nx> <hex field name> tree <hex field name> tree ...)`
Answer: `dm=<hex> std=<hex>` = `Val.fmt true` / `Val.fmt false`.
-/
namespace Dm.DtCmd
open Dm.Dbg Dm.Wire Dm.Sexp

def parseLeaf (caller : Opts) (fc ff : String) (p : String) : Option FieldScript :=
  if p == "f" then
    some (fun (o : Opts) => [if o = caller then fc.toList else ff.toList])
  else if p.startsWith "l" then
    (hexDecode (p.drop 1).toString).map fun (t : String) => (fun (_ : Opts) => [t.toList])
  else if p.startsWith "m" then
    (((p.drop 1).toString.splitOn "~").mapM hexDecode).map fun (cs : List String) =>
      (fun (_ : Opts) => cs.map String.toList)
  else none

def cmdDt (args : List String) : String :=
  match args with
  | [alt, rest, name, fin, fc, ff, fields] =>
    (do
      let name ← hexDecode name
      let fc ← hexDecode fc
      let ff ← hexDecode ff
      let rest ← rest.toNat?
      let caller : Opts := { alt := alt == "1", rest := rest }
      let fs ← (if fields == "-" then some [] else (fields.splitOn ",").mapM (parseLeaf caller fc ff))
      let ex := fin == "ex"
      let d := dmTupleCode name.toList fs ex caller
      let s := stdTuple name.toList (fs.map fun (sc : FieldScript) (o : Opts) => (sc o).flatten) ex caller
      pure s!"dm={hexEncode (String.ofList d)} std={hexEncode (String.ofList s)}").getD "bad-op"
  | _ => "bad-op"

partial def toVal (caller : Opts) (fc ff : String) : Sexp → Option Val
  | .atom a => (parseLeaf caller fc ff a).map fun sc => Val.leaf fun o => (sc o).flatten
  | .list (.atom "T" :: .atom name :: .atom fin :: kids) => do
    let name ← hexDecode name
    let ks ← kids.mapM (toVal caller fc ff)
    pure (.tuple name.toList (Vals.ofList ks) (fin == "ex"))
  | .list (.atom "S" :: .atom name :: .atom fin :: kids) => do
    let name ← hexDecode name
    let rec pairs : List Sexp → Option (List (List Char) × List Val)
      | [] => some ([], [])
      | .atom n :: k :: r => do
        let n ← hexDecode n
        let v ← toVal caller fc ff k
        let (ns, vs) ← pairs r
        pure (n.toList :: ns, v :: vs)
      | _ => none
    let (ns, vs) ← pairs kids
    pure (.strukt name.toList ns (Vals.ofList vs) (fin == "ex"))
  | _ => none

def cmdDv (rest : String) : String :=
  match rest.splitOn " " with
  | alt :: r :: fc :: ff :: tree =>
    (do
      let fc ← hexDecode fc
      let ff ← hexDecode ff
      let r ← r.toNat?
      let caller : Opts := { alt := alt == "1", rest := r }
      let sx ← Dm.Sexp.parse (" ".intercalate tree)
      let v ← toVal caller fc ff sx
      pure s!"dm={hexEncode (String.ofList (v.fmt true caller))} std={hexEncode (String.ofList (v.fmt false caller))}").getD "bad-op"
  | _ => "bad-op"

end Dm.DtCmd

import Dm.Model.DebugTuple
import Dm.Driver.Wire

/-
`dt <alt 0|1> <rest tag> <hex name> <ex|nx> <hex flags-text under caller opts> <hex flags-text under fresh {:#?}> <fields>`
fields := `-` | comma list of `l<hex>` (literal text) | `f` (prints the options it sees)
Answer: `dm=<hex> std=<hex>`
-/
namespace Dm.DtCmd
open Dm.Dbg Dm.Wire

def cmdDt (args : List String) : String :=
  match args with
  | [alt, rest, name, fin, fc, ff, fields] =>
    (do
      let name ← hexDecode name
      let fc ← hexDecode fc
      let ff ← hexDecode ff
      let rest ← rest.toNat?
      let caller : Opts := { alt := alt == "1", rest := rest }
      let fs ← (if fields == "-" then some [] else (fields.splitOn ",").mapM fun p =>
        if p == "f" then
          some (fun (o : Opts) => if o = caller then fc.toList else ff.toList : FieldFmt)
        else if p.startsWith "l" then
          (hexDecode (p.drop 1).toString).map fun (t : String) => (fun (_ : Opts) => t.toList : FieldFmt)
        else none)
      let ex := fin == "ex"
      let d := dmTuple name.toList fs ex caller
      let s := stdTuple name.toList fs ex caller
      pure s!"dm={hexEncode (String.ofList d)} std={hexEncode (String.ofList s)}").getD "bad-op"
  | _ => "bad-op"

end Dm.DtCmd

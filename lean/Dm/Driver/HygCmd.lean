import Dm.Model.Hygiene
import Dm.Gen.Templates

/-
`gen-selfcheck`      → `ok` iff the regenerated name table starts with `fixedNames` (ids ↔ names)
`hyg-escaping`       → `file:line kind name;...` for every escaping head of every template
`hyg-idents`         → per template `file:line name name ...` (`|`-separated): the identifiers the model sees
`hyg-binders`        → the binder names
-/
namespace Dm.HygCmd
open Dm.Hyg

def nameOf (n : Nat) : String := ((Dm.Gen.nameTable.find? fun e => e.1 == n).map (·.2)).getD s!"?{n}"

def classOf (s : String) : Nat :=
  if s.startsWith "__" then 2
  else match (s.toList.dropWhile (· == '_')).head? with
    | some c => if c.isUpper then 1 else 0
    | none => 0

/-- ids ↔ names: the fixed names have their positions as ids, every other name has an id whose
class bits agree with its spelling, ids are unique. -/
def selfcheck : Bool :=
  let fixed := (Dm.Gen.nameTable.take fixedNames.length).map (·.2) == fixedNames
    && (Dm.Gen.nameTable.take fixedNames.length).map (·.1) == List.range fixedNames.length
  let dyn := (Dm.Gen.nameTable.drop fixedNames.length).all fun e =>
    decide (dynBase ≤ e.1) && e.1 % 4 == classOf e.2 && !fixedNames.contains e.2
  let ids := Dm.Gen.nameTable.map (·.1)
  fixed && dyn && ids.eraseDups.length == ids.length
    && Dm.Gen.files.take nCurrentImplFiles == currentImplMethodFiles

def headStr : Head → String
  | .path n => s!"path {nameOf n}"
  | .ext n => s!"ext {nameOf n}"
  | .mac n => s!"macro {nameOf n}"
  | .method n => s!"method {nameOf n}"
  | .methodVar => "method #interpolated"
  | .assoc y n => s!"associated function {nameOf y}::{nameOf n}"
  | .binder n => s!"binder {nameOf n}"

mutual
  def identsT : TT → List Nat
    | .i n => [n]
    | .g _ ts => identsL ts
    | .r ts => identsL ts
    | _ => []
  def identsL : List TT → List Nat
    | [] => []
    | t :: rest => identsT t ++ identsL rest
end

def loc (t : Template) : String := s!"{Dm.Gen.files.getD t.file "?"}:{t.line}"

def cmd (line : String) : Option String :=
  if line == "gen-selfcheck" then
    some (if selfcheck then "ok" else "mismatch")
  else if line == "hyg-escaping" then
    let B := bindersOf Dm.Gen.templates
    some ("ok " ++ ";".intercalate (Dm.Gen.templates.flatMap fun t =>
      (escapingT B t).map fun h => s!"{loc t} {headStr h}"))
  else if line == "hyg-idents" then
    some ("ok " ++ "|".intercalate (Dm.Gen.templates.map fun t =>
      loc t ++ " " ++ " ".intercalate ((identsL t.toks).map nameOf)))
  else if line == "hyg-binders" then
    some ("ok " ++ " ".intercalate ((bindersOf Dm.Gen.templates).eraseDups.map nameOf))
  else if line == "hyg-heads" then
    some ("ok " ++ "|".intercalate (Dm.Gen.templates.map fun t =>
      loc t ++ " " ++ ",".intercalate ((heads t.toks).map headStr)))
  else none

end Dm.HygCmd

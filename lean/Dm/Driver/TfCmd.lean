import Dm.Model.TryFromRepr
import Dm.Driver.Sexp
import Dm.Driver.Wire

/-
`tf (tf (reprs (r <hint>...)...) (vs (v <hexname> <0|1> <hex discr tokens|-> <hex field tokens|->)...))`
hint := u8|...|isize|o.  Answer: `ok repr=<ty> consts=<name>=<tokens>;... arms=<name><fields>;...` | `err`
-/
namespace Dm.TfCmd
open Dm.TF Dm.Sexp Dm.Wire

def tyName : IntTy → String
  | .u8 => "u8" | .u16 => "u16" | .u32 => "u32" | .u64 => "u64" | .u128 => "u128" | .usize => "usize"
  | .i8 => "i8" | .i16 => "i16" | .i32 => "i32" | .i64 => "i64" | .i128 => "i128" | .isize => "isize"

def dHint (s : String) : Option Hint :=
  if s == "o" then some .other else
  ([IntTy.u8, .u16, .u32, .u64, .u128, .usize, .i8, .i16, .i32, .i64, .i128, .isize].find?
    fun t => tyName t == s).map Hint.int

structure VW where
  name : String
  fieldless : Bool
  discr : Option String
  fields : String

/-- Token-level twin of `constsFromW`: `{const __LAST: <ty> = <last>; __LAST.wrapping_add(<inc>usize as <ty>)}`;
only field-less variants are emitted. -/
def constToks (ty : String) : String → Nat → List VW → List (String × String × String)
  | _, _, [] => []
  | last, inc, v :: vs =>
    let (last', inc') := match v.discr with | some d => (d, 0) | none => (last, inc)
    let rest := constToks ty last' (inc' + 1) vs
    if v.fieldless then
      (v.name, "{" ++ s!"const__LAST:{ty}={last'};__LAST.wrapping_add({inc'}usizeas{ty})" ++ "}", v.fields) :: rest
    else rest

def cmdTf (line : String) : String :=
  match Sexp.parse line with
  | some (Sexp.list [.atom "tf", .list (.atom "reprs" :: rs), .list (.atom "vs" :: vs)]) =>
    (do
      let rs ← rs.mapM fun (r : Sexp) => match r with
        | Sexp.list (.atom "r" :: hs) => hs.mapM fun (h : Sexp) => match h with | Sexp.atom a => dHint a | _ => none
        | _ => none
      let vs ← vs.mapM fun (v : Sexp) => match v with
        | Sexp.list [.atom "v", .atom n, .atom fl, .atom d, .atom f] => do
          let n ← hexDecode n
          let d ← (if d == "-" then some none else (hexDecode d).map some)
          let f ← hexDecode f
          pure ({ name := n, fieldless := fl == "1", discr := d, fields := f } : VW)
        | _ => none
      match reprOf rs with
      | .error _ => pure "err"
      | .ok ty =>
        let cs := constToks (tyName ty) "0" 0 vs
        let consts := ";".intercalate (cs.map fun (x : String × String × String) => s!"{x.1}={x.2.1}")
        let arms := ";".intercalate (cs.map fun (x : String × String × String) => s!"{x.1}{x.2.2}")
        pure s!"ok repr={tyName ty} consts={consts} arms={arms}").getD "bad-op"
  | _ => "bad-op"

end Dm.TfCmd

import Dm.Model.TypedAttr
import Dm.Driver.Sexp
import Dm.Driver.Wire

/-
`ta (<grammar> <attr>...)`
grammar := from-struct | from-variant | as-struct | as-field | tryfrom | into-struct | into-field
attr    := b | (l <trailing 0|1> <item>...)
item    := (w <word>) | (p <hex text>) | (o <hex text>) | s | i | (c <word> <trailing 0|1> <item>...)
word    := forward | skip | ignore | repr | owned | ref | ref_mut | types | <any other identifier>
Answer: `err` | `err-legacy` (the diagnostic is the legacy-syntax one) | `none` | `e` | `s` | `fw` | `d` (tryfrom: the derive's verdict) | `(t <hex>...)`
        | `(c (o <0|1> <hex>...) (r <0|1> <hex>...) (m <0|1> <hex>...))` | `(fa <skip 0|1> <-|(c ...)>)`
where each `<hex>` is the text of a type exactly as written.
-/
namespace Dm.TaCmd
open Dm.TypedAttr Dm.Sexp Dm.Wire

/-- Texts of the opaque identifiers / types met so far; an item's number is its index. -/
abbrev Tab := List String

def dWord (t : Tab) (s : String) : W × Tab :=
  match s with
  | "forward" => (.forward, t) | "skip" => (.skip, t) | "ignore" => (.ignore, t) | "repr" => (.repr, t)
  | "owned" => (.owned, t) | "ref" => (.ref, t) | "ref_mut" => (.refMut, t) | "types" => (.types, t)
  | o => (.other t.length, t ++ [o])

mutual
  partial def dItem (t : Tab) : Sexp → Option (Item × Tab)
    | .atom "s" => some (.strLit, t)
    | .atom "i" => some (.intLit, t)
    | Sexp.list [.atom "w", .atom w] => let (w, t) := dWord t w; some (.word w, t)
    | Sexp.list [.atom "p", .atom h] => (hexDecode h).map fun s => (.pathTy t.length, t ++ [s])
    | Sexp.list [.atom "o", .atom h] => (hexDecode h).map fun s => (.otherTy t.length, t ++ [s])
    | Sexp.list (.atom "c" :: .atom w :: .atom tr :: items) =>
      let (w, t) := dWord t w
      (dItems t items).map fun (is, t) => (.call w is (tr == "1"), t)
    | _ => none
  partial def dItems (t : Tab) : List Sexp → Option (List Item × Tab)
    | [] => some ([], t)
    | x :: xs => do
      let (i, t) ← dItem t x
      let (is, t) ← dItems t xs
      pure (i :: is, t)
end

def dAttrs (t : Tab) : List Sexp → Option (List Attr × Tab)
  | [] => some ([], t)
  | .atom "b" :: rest => (dAttrs t rest).map fun (as, t) => (Attr.bare :: as, t)
  | Sexp.list (.atom "l" :: .atom tr :: items) :: rest => do
    let (is, t) ← dItems t items
    let (as, t) ← dAttrs t rest
    pure (Attr.list { items := is, trailing := tr == "1" } :: as, t)
  | _ => none

def wName (t : Tab) : W → String
  | .forward => "forward" | .skip => "skip" | .ignore => "ignore" | .repr => "repr" | .owned => "owned"
  | .ref => "ref" | .refMut => "ref_mut" | .types => "types" | .other k => t.getD k "?"

partial def render (t : Tab) : Item → String
  | .word w => wName t w
  | .pathTy k => t.getD k "?"
  | .otherTy k => t.getD k "?"
  | .strLit => "\"x\""
  | .intLit => "1"
  | .call w args tr => wName t w ++ "(" ++ ",".intercalate (args.map (render t)) ++ (if tr then "," else "") ++ ")"

def showTys (t : Tab) (l : List Item) : String := String.join (l.map fun i => " " ++ hexEncode (render t i))

def showConv (t : Tab) : Option (Option Conv) → String
  | none => "err"
  | some none => "none"
  | some (some .empty) => "e"
  | some (some .skip) => "s"
  | some (some .forward) => "fw"
  | some (some (.types l)) => "(t" ++ showTys t l ++ ")"

def showConvs (t : Tab) (tag : String) (c : Convs) : String :=
  "(" ++ tag ++ " " ++ (if c.consider then "1" else "0") ++ showTys t c.tys ++ ")"

def showCA (t : Tab) (c : ConvsAttr) : String :=
  "(c " ++ showConvs t "o" c.owned ++ " " ++ showConvs t "r" c.ref ++ " " ++ showConvs t "m" c.refMut ++ ")"

/-- `err` or `err-legacy`, by the first attribute that does not parse. -/
def errKind (fails : List Attr → Bool) (parses legacy : Attr → Bool) (as : List Attr) : String :=
  match firstParseFailure fails parses [] as with
  | some a => if legacy a then "err-legacy" else "err"
  | none => "err"

def cmdTa (req : String) : String :=
  match Sexp.parse req with
  | some (Sexp.list (.atom g :: attrs)) =>
    match dAttrs [] attrs with
    | none => "bad-op"
    | some (as, t) =>
      match g with
      | "from-struct" =>
        match parseAttrs (pConversion true) as with
        | none => errKind (fun l => (parseAttrs (pConversion true) l).isNone) (fun a => (pConversion true a).isSome) fromLegacyMsg as
        | r => showConv t r
      | "from-variant" =>
        match parseAttrs (pFieldConversion true) as with
        | none => errKind (fun l => (parseAttrs (pFieldConversion true) l).isNone) (fun a => (pFieldConversion true a).isSome) fromLegacyMsg as
        | r => showConv t r
      | "as-struct" => showConv t (parseAttrs (pConversion false) as)
      | "as-field" => showConv t (parseAttrs (pFieldConversion false) as)
      | "tryfrom" =>
        match tryFromItem as with
        | none => "err" | some false => "none" | some true => "d"
      | "into-struct" =>
        match parseIntoStruct as with
        | none => errKind (fun l => (parseIntoStruct l).isNone) (fun a => (pIntoStruct a).isSome) intoLegacyMsg as
        | some none => "none" | some (some .empty) => "e"
        | some (some (.convs c)) => showCA t c
      | "into-field" =>
        match parseIntoField as with
        | none => errKind (fun l => (parseIntoField l).isNone) (fun a => (pIntoField a).isSome) intoLegacyMsg as
        | some none => "none"
        | some (some f) => "(fa " ++ (if f.skip then "1" else "0") ++ " " ++
            (match f.convs with | none => "-" | some c => showCA t c) ++ ")"
      | _ => "bad-op"
  | _ => "bad-op"

end Dm.TaCmd

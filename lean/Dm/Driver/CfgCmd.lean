import Dm.Model.CfgGraph
import Dm.Gen.Cfg

/-
`cfg-failing` → `ok <index>|<description>;...`: the references of the regenerated table for which the
implication check fails.
`cfg-eval <hex? no: space separated feature ids>` → for each reference `1`/`0`: user ∧ ¬target under that set
-/
namespace Dm.CfgCmd
open Dm.Cfg

def cmd (line : String) : Option String :=
  if line == "cfg-failing" then
    let bad := (Dm.Gen.refs.zipIdx.filter fun (p : Ref × Nat) => !impliesSplit [Dm.Gen.stdId] p.1.user p.1.target)
    some ("ok " ++ ";".intercalate (bad.map fun (p : Ref × Nat) => s!"{p.2}|{Dm.Gen.refDescriptions.getD p.2 "?"}"))
  else if line == "cfg-witness" then
    -- for every failing reference a smallest feature set that enables the user but not the target
    let bad := (Dm.Gen.refs.zipIdx.filter fun (p : Ref × Nat) => !impliesSplit [Dm.Gen.stdId] p.1.user p.1.target)
    let wit (r : Ref) : Option (List Nat) :=
      [true, false].findSome? fun v =>
        let a := simp (subst Dm.Gen.stdId v r.user)
        let b := simp (subst Dm.Gen.stdId v r.target)
        ((dnf a).find? fun A => !eval (fun n => A.contains n) b).map fun A => if v then A ++ [Dm.Gen.stdId] else A
    some ("ok " ++ ";".intercalate (bad.map fun (p : Ref × Nat) =>
      s!"{p.2}|" ++ ",".intercalate (((wit p.1).getD []).eraseDups.map fun n => Dm.Gen.featureNames.getD n "?")))
  else if line.startsWith "cfg-eval" then
    let ids := ((line.drop 8).toString.splitOn " ").filterMap (·.toNat?)
    let fs : Nat → Bool := fun n => ids.contains n
    let broken := Dm.Gen.refs.zipIdx.filter fun (p : Ref × Nat) => eval fs p.1.user && !eval fs p.1.target
    some ("ok " ++ ";".intercalate (broken.map fun (p : Ref × Nat) => s!"{p.2}|{Dm.Gen.refDescriptions.getD p.2 "?"}"))
  else none

end Dm.CfgCmd

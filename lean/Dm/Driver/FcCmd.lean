import Dm.Model.FmtContainer
import Dm.Driver.Sexp

/-
`fc (<display|common|debug-enum|fmt-only> <attr>...)`
attr := (f <lit id> <arg id>...) | (b <bound|bounds> <pred id>...) | (r <case|->) | lf | lb | u
case := lower upper pascal camel snake screaming_snake kebab screaming_kebab
Answer: `err` | `(p <-|(f <lit> <arg>...)> (b <pred>...) <case|->)`
-/
namespace Dm.FcCmd
open Dm.FmtContainer Dm.Sexp

def dCase : String → Option Case
  | "lower" => some .lower | "upper" => some .upper | "pascal" => some .pascal | "camel" => some .camel
  | "snake" => some .snake | "screaming_snake" => some .screamingSnake | "kebab" => some .kebab
  | "screaming_kebab" => some .screamingKebab | _ => none

def sCase : Case → String
  | .lower => "lower" | .upper => "upper" | .pascal => "pascal" | .camel => "camel" | .snake => "snake"
  | .screamingSnake => "screaming_snake" | .kebab => "kebab" | .screamingKebab => "screaming_kebab"

def dNats (l : List Sexp) : Option (List Nat) :=
  l.mapM fun (x : Sexp) => match x with | Sexp.atom a => a.toNat? | _ => none

def dAttr : Sexp → Option A
  | .atom "lf" => some .legacyFmt
  | .atom "lb" => some .legacyBound
  | .atom "u" => some .unknown
  | Sexp.list (.atom "f" :: .atom l :: args) => do
    let l ← l.toNat?
    let as ← dNats args
    pure (.fmt l as)
  | Sexp.list (.atom "b" :: .atom kw :: ps) => do
    let kw ← (match kw with | "bound" => some BoundKw.bound | "bounds" => some .bounds | _ => none)
    let ps ← dNats ps
    pure (.bounds kw ps)
  | Sexp.list [.atom "r", .atom c] => some (.renameAll (dCase c))
  | _ => none

def cmdFc (req : String) : String :=
  match Sexp.parse req with
  | some (Sexp.list (.atom g :: attrs)) =>
    match attrs.mapM dAttr with
    | none => "bad-op"
    | some as =>
      let gg : Option G := match g with
        | "display" => some .display | "common" => some .common | "debug-enum" => some .debugEnum | "fmt-only" => some .fmtOnly
        | _ => none
      match gg with
      | none => "bad-op"
      | some gg =>
      match parseAll gg as with
      | none => "err"
      | some p =>
        let f := match p.fmt with
          | none => "-"
          | some (l, as) => "(f " ++ toString l ++ String.join (as.map fun a => " " ++ toString a) ++ ")"
        "(p " ++ f ++ " (b" ++ String.join (p.bounds.map fun a => " " ++ toString a) ++ ") " ++
          (match p.renameAll with | none => "-" | some c => sCase c) ++ ")"
  | _ => "bad-op"

/-- `fd <cf 0|1> <field>...`, field := comma-joined list of `s` (skip) `i` (ignore) `f` (format) `u` (unreadable), `-` for no attribute.
Answer: `ok` | `err`. -/
def cmdFd (args : List String) : String :=
  match args with
  | cf :: fields =>
    let dF (s : String) : Option (List FA) :=
      if s == "-" then some [] else
      (s.splitOn ",").mapM fun (a : String) => match a with
        | "s" => some (FA.skip false) | "i" => some (FA.skip true) | "f" => some FA.fmt | "u" => some FA.unreadable | _ => none
    match fields.mapM dF with
    | some fs => if debugFieldsOk (cf == "1") fs then "ok" else "err"
    | none => "bad-op"
  | _ => "bad-op"

end Dm.FcCmd
